"""dev helper: validate MANIFEST.json and evidence/*.json against the schemas (python3-vt has jsonschema)"""
import json, glob, sys, jsonschema
m = json.load(open('/verif/MANIFEST.json'))
jsonschema.validate(m, json.load(open('/root/.vp/MANIFEST.schema.json')))
sch = json.load(open('/root/.vp/EVIDENCE.schema.json'))
for f in sorted(glob.glob('/verif/evidence/*.json')):
    jsonschema.validate(json.load(open(f)), sch)
    print('ok', f)
print('manifest ok; checks:', [c['property_id'] for c in m['checks']], 'n/a:', [c['property_id'] for c in m.get('not_applicable', [])])
