"""dev helper: confirm and evaluate every seeded change under /tmp/seed/*-out.
For each patch: scratch worktree of /repo -> apply -> pinned suite must pass -> demo must FAIL there and PASS on /repo ->
run the property's quick check against the worktree (VERIF_REPO) -> record under /verif/seeded/<prop>-<X>/ -> remove worktree."""
import glob, json, os, re, shutil, subprocess, sys, tempfile
only = sys.argv[1:]
SEED_DIR = os.environ.get("SEED_DIR", "/tmp/seed")
RENAME = ({"A": "C", "B": "D", "C": "E"} if SEED_DIR.endswith("seed2") else {"A": "E", "B": "F", "C": "G"} if SEED_DIR.endswith(("seed3", "seed4"))
          else {"A": "G", "B": "H"} if SEED_DIR.endswith("seed6") else {"A": "I", "B": "J"} if SEED_DIR.endswith("seed8") else {"A": "K", "B": "L"} if SEED_DIR.endswith("seed10") else {"A": "M", "B": "N"} if SEED_DIR.endswith("seed12") else {"A": "O", "B": "P"} if SEED_DIR.endswith("seed14") else {"A": "Q", "B": "R"} if SEED_DIR.endswith("seed16") else {"A": "S", "B": "T"} if SEED_DIR.endswith("seed18") else {})
# round 3: letters continue after those the property already has
RENAME3 = {"C14": {"A": "C", "B": "D"}, "C17": {"A": "C", "B": "D"}, "C18": {"A": "C", "B": "D"}, "C20": {"A": "D", "B": "E"}}
RENAME9 = {"C07": {"A": "K", "B": "L"}, "C09": {"A": "K", "B": "L"}, "C13": {"A": "K", "B": "L"}, "C14": {"A": "I", "B": "J"}, "C17": {"A": "I", "B": "J"},
           "C18": {"A": "I", "B": "J"}, "C20": {"A": "J", "B": "K"}}
RENAME11 = {"C07": {"A": "M", "B": "N"}, "C09": {"A": "M", "B": "N"}, "C13": {"A": "M", "B": "N"}, "C14": {"A": "K", "B": "L"}, "C17": {"A": "K", "B": "L"},
            "C18": {"A": "K", "B": "L"}, "C20": {"A": "L", "B": "M"}}
RENAME13 = {"C07": {"A": "O", "B": "P"}, "C09": {"A": "O", "B": "P"}, "C13": {"A": "O", "B": "P"}, "C14": {"A": "M", "B": "N"}, "C17": {"A": "M", "B": "N"},
            "C18": {"A": "M", "B": "N"}, "C20": {"A": "N", "B": "O"}}
RENAME15 = {"C07": {"A": "Q", "B": "R"}, "C09": {"A": "Q", "B": "R"}, "C13": {"A": "Q", "B": "R"}, "C14": {"A": "O", "B": "P"}, "C17": {"A": "O", "B": "P"},
            "C18": {"A": "O", "B": "P"}, "C20": {"A": "P", "B": "Q"}}
RENAME17 = {"C07": {"A": "S", "B": "T"}, "C09": {"A": "S", "B": "T"}, "C13": {"A": "S", "B": "T"}, "C14": {"A": "Q", "B": "R"}, "C17": {"A": "Q", "B": "R"},
            "C18": {"A": "Q", "B": "R"}, "C20": {"A": "R", "B": "S"}}
RENAME7 = {"C07": {"A": "I", "B": "J"}, "C09": {"A": "I", "B": "J"}, "C13": {"A": "I", "B": "J"}, "C14": {"A": "G", "B": "H"}, "C17": {"A": "G", "B": "H"},
           "C18": {"A": "G", "B": "H"}, "C20": {"A": "H", "B": "I"}}
RENAME5 = {"C07": {"A": "G", "B": "H"}, "C09": {"A": "G", "B": "H"}, "C13": {"A": "G", "B": "H"}, "C14": {"A": "E", "B": "F"}, "C17": {"A": "E", "B": "F"},
           "C18": {"A": "E", "B": "F"}, "C20": {"A": "F", "B": "G"}}
# the checks are run from a SNAPSHOT of the committed /verif (tracked files + build output), so that /verif can be edited meanwhile
SNAP = os.environ.get("VERIF_SNAP")
if SNAP:
    if not os.path.exists(SNAP + "/check"):
        os.makedirs(SNAP, exist_ok=True)
        files = subprocess.run(["git", "-C", "/verif", "ls-files"], capture_output=True, text=True).stdout.split("\n")
        open("/tmp/snapfiles.%d" % os.getpid(), "w").write("\n".join(f for f in files if f and not f.startswith(("seeded/", "replays/"))))
        subprocess.run(["rsync", "-a", "--files-from=/tmp/snapfiles.%d" % os.getpid(), "/verif/", SNAP + "/"], check=True)
        subprocess.run(["rsync", "-a", "/verif/lean/.lake", SNAP + "/lean/"], check=True)
CHECK_ROOT = SNAP or "/verif"
ENV = dict(os.environ, PYTHONDONTWRITEBYTECODE="1")
results = []
for patch in sorted(glob.glob(SEED_DIR + "/C*-out/patch_*.diff")):
    prop = re.search(r"/(C\d\d)-out/", patch).group(1)
    X = re.search(r"patch_(\w)\.diff", patch).group(1)
    sid = f"{prop}-{(RENAME17[prop] if SEED_DIR.endswith('seed17') else RENAME15[prop] if SEED_DIR.endswith('seed15') else RENAME13[prop] if SEED_DIR.endswith('seed13') else RENAME11[prop] if SEED_DIR.endswith('seed11') else RENAME9[prop] if SEED_DIR.endswith('seed9') else RENAME7[prop] if SEED_DIR.endswith('seed7') else RENAME5[prop] if SEED_DIR.endswith('seed5') else RENAME3.get(prop, RENAME) if SEED_DIR.endswith('seed3') else RENAME).get(X, X)}"
    if only and prop not in only and sid not in only:
        continue
    demo = patch.replace("patch_", "demo_").replace(".diff", ".py")
    wt = tempfile.mkdtemp(prefix="evalwt-", dir="/tmp"); os.rmdir(wt)
    subprocess.run(["git", "-C", "/repo", "worktree", "add", "-q", "--detach", wt, "HEAD"], check=True)
    meta = {"id": sid, "property": prop, "patch": os.path.basename(patch)}
    try:
        r = subprocess.run(["git", "-C", wt, "apply", patch], capture_output=True, text=True)
        meta["applies"] = r.returncode == 0
        if r.returncode:
            meta["error"] = r.stderr[:300]
        else:
            r = subprocess.run(["/venv/bin/python", "-B", "-m", "pytest", "-q", "-p", "no:cacheprovider", "--timeout=900", "-x"], cwd=wt, capture_output=True, text=True, env=ENV)
            tail = [l for l in r.stdout.split("\n") if "passed" in l or "failed" in l]
            meta["suite"] = tail[-1].strip("= ") if tail else r.stdout[-200:]
            meta["suite_passes"] = bool(re.search(r"\b488 passed\b", meta["suite"])) and "failed" not in meta["suite"]
            d1 = subprocess.run(["/venv/bin/python", "-B", demo, wt], capture_output=True, text=True, env=ENV, timeout=900)
            d0 = subprocess.run(["/venv/bin/python", "-B", demo, "/repo"], capture_output=True, text=True, env=ENV, timeout=900)
            meta["demo_on_changed"] = {"exit": d1.returncode, "last": (d1.stdout.strip().split("\n") or [""])[0][:200]}
            meta["demo_on_unchanged"] = {"exit": d0.returncode, "last": (d0.stdout.strip().split("\n") or [""])[-1][:200]}
            meta["demo_discriminates"] = d1.returncode == 1 and d0.returncode == 0
            for tier in ("quick",):
                c = subprocess.run([CHECK_ROOT + "/check", prop, "--tier", tier], capture_output=True, text=True, env=dict(ENV, VERIF_REPO=wt), cwd=CHECK_ROOT, timeout=3600)
                lines = [l for l in c.stdout.split("\n") if l.startswith(("VIOLATION", "OK ", "INTERNAL"))]
                meta[f"check_{tier}"] = {"exit": c.returncode, "line": (lines[-1] if lines else c.stdout[-200:])[:200],
                                         "details": [l[:300] for l in c.stdout.split("\n") if l.startswith("DETAIL")][:3]}
            meta["detected_by_own_check"] = meta["check_quick"]["exit"] == 1
    finally:
        subprocess.run(["git", "-C", "/repo", "worktree", "remove", "--force", wt])
    out = f"/verif/seeded/{sid}"
    os.makedirs(out, exist_ok=True)
    shutil.copy(patch, out + "/patch.diff")
    if os.path.exists(demo):
        shutil.copy(demo, out + "/demo.py")
    try:
        desc = json.load(open("/verif/seeded/descriptions.json")).get(sid)
        if desc:
            meta["change"], meta["needs_to_manifest"] = desc
    except Exception:
        pass
    meta["what_was_run"] = ("scratch worktree of /repo at HEAD; git apply patch.diff; pinned suite (/venv/bin/python -m pytest -q -p no:cacheprovider --timeout=900 -x); "
                            "demo.py on the changed tree and on /repo; ./check <property> --tier quick with VERIF_REPO=<worktree>; worktree removed")
    json.dump(meta, open(out + "/meta.json", "w"), indent=1)
    print(sid, "suite_ok" if meta.get("suite_passes") else "SUITE?", "demo_ok" if meta.get("demo_discriminates") else "DEMO?",
          "DETECTED" if meta.get("detected_by_own_check") else "MISSED", "|", meta.get("check_quick", {}).get("line", "")[:110], flush=True)
if not SNAP:
    subprocess.run(["git", "-C", "/verif", "checkout", "--", "evidence"], capture_output=True)
