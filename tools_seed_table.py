"""dev helper: markdown table of the seeded-change experiment from seeded/*/meta.json (pasted into DESIGN.md §13)"""
import glob, json, os, re
rows = []
for m in sorted(glob.glob(os.path.join(os.path.dirname(os.path.abspath(__file__)), "seeded", "*", "meta.json"))):
    d = json.load(open(m))
    cq = d.get("check_quick", {})
    det = d.get("detected_by_own_check")
    how = ""
    if det:
        line = cq.get("line", "")
        det_txt = (cq.get("details") or [""])[0]
        mm = re.match(r"DETAIL (\w+): (.*?) ::", det_txt)
        kind = mm.group(1) if mm else "?"
        what = mm.group(2) if mm else det_txt[:80]
        how = ("monitor: " if kind == "violation" else "correspondence: " if kind == "disagreement" else kind + ": ") + what[:110]
        if "no-failing-input-found" in line:
            how += " *(no-failing-input-found)*"
    rows.append((d["id"], d.get("change", "")[:150], d.get("needs_to_manifest", "")[:130],
                 "yes" if d.get("suite_passes") else "NO", "yes" if d.get("demo_discriminates") else "NO", "**caught**" if det else "**missed**", how))
print("| seed | change | needs, to manifest | suite passes | demo discriminates | own quick check | how it was caught |")
print("|---|---|---|---|---|---|---|")
for r in rows:
    print("| " + " | ".join(x.replace("|", "\\|").replace("\n", " ") for x in r) + " |")
print()
print(f"{len(rows)} seeded changes; caught by the property's own quick check: {sum(1 for r in rows if 'caught' in r[5])}; missed: {[r[0] for r in rows if 'missed' in r[5]]}")
