"""dev helper: (re)generate MANIFEST.json from the table below; run after adding a check"""
import json, os
V = '/verif'
PENDING = "check not built yet in this session (work in progress; see DESIGN.md §12)"
CHECKS = {
 "C14": dict(
    text="Lean theorems C14_murmurPy_eq_ref / C14_murmurPy_lt prove, for every string of byte code points of any length and every seed, that the transliterated Python arithmetic equals MurmurHash3_x86_32 (reference validated in-kernel by the SMHasher verification value and published vectors); the model is tied to /repo on each run by comparing murmur3_32 with the model and with the Lean reference on exhaustive short strings, all tail lengths/block counts and boundary seeds.",
    note="Lean kernel + propext/Classical.choice/Quot.sound; the hand-written model murmurPy is tied by differential runs only; strings < 2^32 code points; CPython int semantics.",
    technique="Lean 4 proof (refinement of unbounded-int arithmetic to BitVec 32 by induction over blocks) + model/implementation correspondence",
    ref="§6 C14"),
}
ALL = [f"C{i:02d}" for i in range(1, 21)]
m = {
 "version": 1,
 "setup_cmd": "cd /verif && /venv/bin/python harness/gen_consts.py /repo > lean/Pymc/Generated/Consts.lean.tmp && mv lean/Pymc/Generated/Consts.lean.tmp lean/Pymc/Generated/Consts.lean && cd lean && lake build Pymc pymc-driver",
 "hooks": {"guard": "PYMEMCACHE_VERIF", "enable": "no source hooks are needed: checks use constructor seams (socket_module, client_class, lock_generator, hasher) and patch module attributes from the harness process", "baseline_off_cmd": "cd /repo && /venv/bin/python -m pytest -ra -q -p no:cacheprovider --timeout=900 --continue-on-collection-errors", "source_commits": [], "add_only": True},
 "engines": [{"name": "lean-pymc", "path": "/verif/lean", "serves_properties": sorted(CHECKS), "kind_free_text": "Lean 4 models + theorems (lake project Pymc), compiled model driver, Python correspondence harness in /verif/harness"}],
 "checks": [],
 "notes": "All checks: ./check <id> [--tier quick|thorough]. Each run regenerates Generated/Consts.lean from /repo, rebuilds the property's Lean module (re-checking its theorems), audits axioms, runs the model/implementation correspondence and the model-independent monitor, and writes evidence/<id>.json.",
 "not_applicable": [],
}
for pid in ALL:
    if pid in CHECKS:
        c = CHECKS[pid]
        m["checks"].append({
            "property_id": pid,
            "quick_cmd": f"./check {pid} --tier quick",
            "thorough_cmd": f"./check {pid} --tier thorough",
            "evidence_file": f"/verif/evidence/{pid}.json",
            "replay_cmd_template": f"./check {pid} --replay {{path}}",
            "engine": "lean-pymc",
            "level_claimed": {"category": "proof", "text": c["text"], "design_ref": c["ref"]},
            "level_note": c["note"],
            "technique": c["technique"],
        })
    else:
        m["not_applicable"].append({"property_id": pid, "reason": PENDING})
json.dump(m, open(os.path.join(V, 'MANIFEST.json'), 'w'), indent=1)
print("wrote MANIFEST with", len(m["checks"]), "checks")
