"""dev helper: (re)generate MANIFEST.json from the table below; run after adding a check"""
import json, os
V = '/verif'
PENDING = "check not built yet in this session (work in progress; see DESIGN.md §12)"
CHECKS = {
 "C12": dict(
    text="Lean theorems for any score function, node list, key list and stores: C12_route_is_placement/_unique, C12_batches_partition_keys / C12_batches_exact (each key is in exactly the batch of its routed server, order and multiplicity preserved, nothing dropped), C12_getMany_eq_gets (+ counterexample for colliding inner keys), C12_written_is_found, C12_setMany_found, C12_setMany_then_getMany, C12_no_server_all_skipped. Tied to /repo by per-server command logs of reference memcached servers behind one fake socket module for 1..5 servers (TCP/UNIX), key sets 0..50 (str, bytes, (server_key, key) pairs), prefixes, pooling on/off and every key-addressed operation: placement recomputed independently with murmur3, each key exactly once at its server, get_many = per-key gets, written keys found; the grouping is compared with HashRoute.batchesOf.",
    note="Lean kernel + standard axioms; the rotation is fixed during one call (failover is C13); servers are abstract stores (C05).",
    technique="Lean 4 proof (fold invariants over the batching dictionary) + per-server command-log correspondence",
    ref="§6 C12"),
 "C13": dict(
    text="Lean theorems over the full multi-server timed failover machine (all histories of calls, failures and clock values, any number of servers, rt<dt): C13_le_two_per_rt_window, C13_le_ra_plus_two_per_dt_window (+ sliding form), C13_single_failure_keeps_rotation, C13_no_internal_error, C13_healthy_never_bypassed, C13_rerouted_while_out, C13_only_server_error_or_all_down_escapes, C13_nothing_escapes_with_ignore_exc, C13_recovery, C13_recovery_placement; the set_many+ignore_exc defect is proved as a counterexample and excluded by hypothesis (open finding). Tied to /repo by breadth-first exploration (state de-duplication) of the real HashClient with scripted clients and a virtual clock, every step compared with the model, plus a sliding-window monitor on the real contact log.",
    note="partial: integer ticks constant during a call; 'failing' = OSError; routing abstracted to a preference order (rendezvous choice is C11/C12); broadcast ops (flush_all/stats/quit) are outside the property (key-addressed calls) — see DESIGN.md findings.",
    technique="Lean 4 proof (simulation of the multi-server machine onto a single-server timed automaton with ghost contact lists; inductive invariants) + BFS correspondence",
    ref="§6 C13"),
 "C14": dict(
    text="Lean theorems C14_murmurPy_eq_ref / C14_murmurPy_lt prove, for every string of byte code points of any length and every seed, that the transliterated Python arithmetic equals MurmurHash3_x86_32 (reference validated in-kernel by the SMHasher verification value and published vectors); the model is tied to /repo on each run by comparing murmur3_32 with the model and with the Lean reference on exhaustive short strings, all tail lengths/block counts and boundary seeds.",
    note="Lean kernel + propext/Classical.choice/Quot.sound; the hand-written model murmurPy is tied by differential runs only; strings < 2^32 code points; CPython int semantics.",
    technique="Lean 4 proof (refinement of unbounded-int arithmetic to BitVec 32 by induction over blocks) + model/implementation correspondence",
    ref="§6 C14"),
 "C01": dict(
    text="Lean theorems over the transliterated exchange paths and Client.call for arbitrary scripts (chunking, EINTR, faults at any recv, connect/send faults, adversarial reply content): C01_error_closes_loops/_exchange/_call (any error closes the socket; only int()/VERSION post-processing errors leave it open, after a completed exchange), C01_noreply_never_reads, C01_store/_misc/_fetch_consumes_exactly (a reply-expecting exchange consumes exactly its reply units or closes), C01_fetch_fuel_never_runs_out, C01_call_clean, C01_sequence_clean, C01_own_bytes_only / C01_no_foreign_bytes (every data byte consumed by call k was provoked by call k), fault-tolerant versions (C01_call_clean_faults, C01_own_bytes_only_faults, C01_nothing_after_a_fault_matters) and C01_model_server_is_framed / C01_reference_server_answers_what_is_owed (the framing assumption is met by the memcached model). Tied to /repo by a byte-tag oracle on the fake socket over sequences [warm-up] + [any of 27 operations under every adversary script: 8 reply mutations, connect/send faults, 5 recv fault kinds x positions] + follow-ups on Client, PooledClient and HashClient (1-2 servers, pooled), plus random multi-fault sequences; Client runs are compared call by call with the Lean Client.call under the same script (result, socket state, bytes sent, bytes left unread).",
    note="partial: the network is abstracted to a per-connection pipe (late delivery = bytes stay in the pipe of that connection; a new connection starts empty); framing assumption: one reply unit per reply-expecting command (grammar in Model/Framing.lean); stats/cache_memlimit/shutdown are covered at loop level only; PooledClient/HashClient are covered by the monitor and by C08/C09/C12/C13, not by a wrapper-level theorem.",
    technique="Lean 4 proof (invariant 'open socket at a call boundary => nothing unread', by induction over reader steps and call sequences) + byte-tag monitor + per-call model correspondence",
    ref="§6 C01"),
 "C02": dict(
    text="Lean theorems C02_parse_storeCmd / C02_parse_encode_store / _fetch / _delete_many / _arith / _touch / _flush prove that for every legal argument tuple (any key accepted by check_key with non-empty wire form, ANY data bytes of any length, any integers in range) the bytes built exactly as the client builds them are read by an independent strict parser as exactly the intended request(s) with nothing left over; C02_illegal_key_sends_nothing, C02_non_integer_rejected, C02_bad_cas_rejected cover the rejections; C02_empty_key_counterexample proves the open finding. Tied to /repo by parsing the bytes the real client passes to sendall() with the Lean strict parser and comparing with the intent computed from the arguments, plus model/implementation comparison of sent bytes.",
    note="Lean kernel + standard axioms; strict parser and intent are my reading of protocol.txt; encoding assumed ASCII-compatible; bool/negative flags outside the quantifier; two open findings (empty key — pinned by a repo test; gat(expire=None)).",
    technique="Lean 4 proof (parse∘encode round trip by induction over the command list) + strict-parser monitor on real sendall bytes",
    ref="§6 C02"),
 "C03": dict(
    text="Lean theorems C03_readline_flat / C03_readvalue_flat / C03_readsegment_flat prove that each incremental reader, for every buffer and every fault-free delivery schedule of any length, returns exactly the flat split of the concatenated stream and leaves exactly the remaining stream (hence C03_*_seg_indep and C03_eintr_irrelevant); counterexamples for the pre-fix _readsegment are proved. Tied to /repo by random-schedule differential runs of the three real readers against the model and the flat spec, and by a metamorphic run of every public operation over a scenario corpus x all/1-/2-/3-cut segmentations x EINTR.",
    note="Lean kernel + standard axioms; RECV_SIZE not modelled (a short recv is just another chunking); call-level independence is established by the reader theorems plus the metamorphic run on the real exchange loops; server sends non-negative sizes.",
    technique="Lean 4 proof (induction over the recv schedule, first-occurrence lemmas) + correspondence + metamorphic segmentation enumeration",
    ref="§6 C03"),
 "C04": dict(
    text="Lean theorems C04_store_fetch_roundtrip / C04_set_get_roundtrip (any legal key, ANY value bytes of any length, any flags; set/add/replace/cas then get/gets return the value bit for bit through encode → strict parse → AbsMap → render → incremental readers), C04_text_int_without_serde, C04_getMany_keys, C04_prefix_invisible, C04_prefix_on_the_wire. Tied to /repo by running the real Client (default, custom, pickle protocols 0..5, compressed with 4 codecs x 4 thresholds) against the reference memcached behind the fake socket with randomly chunked replies over sizes 0..64 KiB (1 MiB thorough), adversarial contents, every store x fetch op, prefixes, and key collections given as list/tuple/set/dict view/iterator/generator; the default-serde runs are also compared with the Lean client∘server model.",
    note="Lean kernel + standard axioms; pickle/zlib/bz2/lzma are exercised, not proved (C15 states the left-inverse hypotheses); faithful memcached = AbsMap; reference server validated against the Lean server by C05's check.",
    technique="Lean 4 proof (composition of the C02 wire round trip, AbsMap store/live lemma and the C03 reader theorems) + co-simulation with a reference server",
    ref="§6 C04"),
 "C05": dict(
    text="Lean theorem C05_client_server_refines_absmap / C05_history: for every history of well-formed calls with clock advances, client ∘ wire ∘ server (Client.onServer: the transliterated encoders, strict parser, abstract map, reply renderer and the real reader loops) returns exactly what the documented contract ApiSpec.spec says on the abstract map with expiry and cas, and leaves the same map; per-family theorems for store, set_many, get/gets/gat/gats, get_many/gets_many, delete(_many), incr/decr, touch, flush_all; corollaries C05_cas_token_from_gets_accepted, C05_noreply_effect_takes_place, C05_noreply_constant, C05_set_many_failed_list_ordered. Tied to /repo by stepping the real Client against the reference memcached in lockstep with ApiSpec.spec (oracle) and Client.onServer (model) over all histories of length 2 over a 52-symbol alphabet, length 3 over a reduced one (thorough: full), random length-30 histories, default_noreply on/off, prefix on/off, clock advances around the expiry; every byte the reference server saw is replayed through the Lean server.",
    note="Lean kernel + standard axioms; AbsMap is my reading of protocol.txt (no eviction/size limits, decr does not pad); time in whole seconds, constant during a call.",
    technique="Lean 4 proof (refinement to an abstract map by per-operation simulation, lifted to histories by induction) + lockstep correspondence",
    ref="§6 C05"),
 "C06": dict(
    text="Lean theorems over the plan-driven model of _connect/close (every config, every plan of socket-API failures, any number of addresses, any sequence of connects and closes): C06_no_leak, C06_failed_connect_leaves_none, C06_at_most_one_open, C06_timeouts_ordered, C06_io_only_via_tls_wrapper, C06_fallback_uses_later_address (+ all-fail and no-fallback-after-connect-failure), C06_sequence_no_leak / _at_every_moment / _closes_well_ordered, C06_recovers_after_failure; the pre-fix stale-error leak is proved as a counterexample. Tied to /repo by enumerating all connect-phase plans with <= 2 (3) faults for TCP(1..3 addresses)/UNIX/TLS x no_delay x keepalive with the event log compared to the model, and a socket-ledger monitor (created/closed/current, timeout in force at every I/O, TLS wrapper) over single/double faults at every socket-API occurrence of a multi-call scenario.",
    note="partial: OS descriptors are ids in a ledger; close() is assumed not to raise inside _connect; send/recv failures are covered by the monitor and by C01's exchange model, not by the connect model; UNIX sockets ignore tls_context/no_delay (as the code does).",
    technique="Lean 4 proof (symbolic evaluation of the address loop + log invariants over call sequences) + exhaustive small-plan correspondence + ledger monitor",
    ref="§6 C06"),
 "C07": dict(
    text="Lean theorems over Client.call with ignoreExc for every read operation, config and script: C07_ignore_exc_never_raises (only an argument error before any I/O, or a BaseException, can escape), C07_ignore_exc_is_miss (any other failure of the same call without the flag becomes exactly the miss result, and the socket is closed), C07_ignore_exc_transparent_on_success, C07_ignore_exc_only_swallows, C07_miss_on_healthy_empty_server (the miss result is what the call returns on an empty faithful server), C07_next_call_reconnects. Tied to /repo by comparing, for Client, PooledClient, HashClient and pooled HashClient x 11 read forms (defaults by keyword, positional for get/gat) x every failure plan (connect/send faults, recv faults at every position, 8 reply mutations, failing deserialiser) x key present/absent, the failure result with the result of the same call on an empty healthy server of the real code, plus usability afterwards; Client runs are compared with the model.",
    note="Lean kernel + standard axioms; the theorems are about the Client model (the wrappers' shapes are judged by the monitor against the real miss result); failures are Exception-class (BaseException is C10).",
    technique="Lean 4 proof (case analysis of the fetch exchange under ignore_exc; refinement to the empty map for the miss value) + failure-vs-miss comparison on the real code",
    ref="§6 C07"),
 "C08": dict(
    text="Lean theorems over a micro-step interleaving model of ObjectPool (any number of threads, any programs over use/fail/quit/clear, every interleaving, every reachable state): C08_mutex, C08_held_by_at_most_one, C08_no_duplicates_and_capacity, C08_no_internal_error, C08_no_deadlock, C08_quiescent_accounting, C08_closed_at_most_once; the socket-leak clause is proved only as C08_no_socket_leak_partial (no clear() racing with a holder) with the counterexample schedule proved (open finding). Tied to /repo by (K) exact event-sequence equality of every sequential branch of the real pool with the model and (S) a deterministic scheduler that explores pre-emption-bounded interleavings of real threads over the real pool.py, judges the invariants on the real objects and validates every interleaved event trace as a run of the model.",
    note="partial: interleaving granularity is the source line (opcodes sampled), the GIL and threading.Lock are trusted; the scheduler is search support and trace source, not a proof; open finding C08-clear-vs-holder.",
    technique="Lean 4 proof (18-conjunct inductive invariant over micro-steps, deadlock-freedom) + trace correspondence + bounded deterministic scheduling of the real code",
    ref="§6 C08"),
 "C09": dict(
    text="Lean theorems over the sequential pool model with connections as separate ids (all configs, all histories of calls with any body outcome — ok, failed, failure swallowed by ignore_exc, rejected before I/O, quit — and any times): C09_used_zero_after_call, C09_never_exhausts, C09_failed_conn_never_reused / C09_closed_conn_never_used, C09_rejected_conn_closed, C09_healthy_reused, C09_idle_expired_closed (reuse happens exactly when idle <= timeout), C09_closed_at_most_once, C09_no_leak. Tied to /repo by running the real PooledClient over the fault-plan socket with a patched pool clock (exhaustive 1-2(3)-call sequences over 7 ops x 8 faults x 4 gaps, random up to 10 calls; max_pool_size 1/2/None, idle timeout 0/10, ignore_exc on/off): pool.used, socket ledger and reuse judged directly, and the (pooled client, connection) that served each call, the idle set and the order of closes compared with the model.",
    note="Lean kernel + standard axioms; one timestamp per call; integer ticks; a connection = a successfully connected socket; concurrency is C08.",
    technique="Lean 4 proof (8-field inductive invariant over call histories) + correspondence + ledger monitor",
    ref="§6 C09"),
 "C10": dict(
    text="Lean theorems: C10_interrupt_closes_socket (any call, any ignore_exc: a BaseException result means the socket is closed), C10_interrupt_comes_from_the_connection, C10_interrupt_not_swallowed(_exchange), C10_own_bytes_only_interrupt (C01's run-level ownership theorems for scripts interrupted by a BaseException at any connect/send/recv), C10_slot_not_lost (from C08: for every interleaving, when all threads are done nothing is checked out), C10_slot_not_lost_sequential and C10_pooled_interrupted_connection_never_reused (from C09). Tied to /repo by the C01 byte-tag oracle with KeyboardInterrupt / SystemExit / a BaseException subclass raised at getaddrinfo, socket, connect, settimeout, sendall and every recv position of all 27 operations, with and without a warm-up call, followed by further calls, on Client, PooledClient (max_pool_size 1 and 2) and HashClient (plain, pooled), plus pool.used after the aborted call; Client runs compared with the model.",
    note="partial: interruptions are modelled as outcomes of socket calls only (signal delivery between other bytecodes is not modelled); sendall is atomic in the fake socket (all or nothing).",
    technique="Lean 4 proof (corollaries of the C01 ownership invariant and the C08/C09 pool invariants for BaseException faults) + fault enumeration with the byte-tag oracle",
    ref="§6 C10"),
 "C11": dict(
    text="Lean theorems (C11_getNode_eq_some_iff, C11_getNode_set_ext/perm, C11_getNode_history_indep, C11_remove_moves_only_owner, C11_add_moves_only_to_new, spelling equivalences) hold for an arbitrary score function (so also under forced ties), any node list and any add/remove history; tied to /repo by differential runs of RendezvousHash.get_node against the model (murmur, constant and two-valued hashes), all permutations of small node sets, random histories, HashClient through the client_class seam with equivalent spellings, and fresh interpreters with different PYTHONHASHSEED. 'Spread' is measured, not proved.",
    note="Lean kernel + standard axioms; score is a parameter (murmur3 correctness is C14); str order = code-point order; spelling equivalence modelled for the constructor path and decimal ports; spread is statistical (partial).",
    technique="Lean 4 proof (fold invariant: winner = lexicographic maximum of (score, name)) + correspondence + metamorphic relations",
    ref="§6 C11"),
 "C15": dict(
    text="Lean theorems for every value (bytes, str, int of any size, other), every codec satisfying the left-inverse laws and every threshold: C15_serde_roundtrip, C15_compressed_roundtrip, C15_flags_lt_65536 / C15_flags_values, C15_payload_transmittable, C15_compressed_flag_iff_stored_compressed / _iff_branch, C15_stored_not_larger, C15_threshold_zero_or_small_is_identity, C15_cascade_order. Tied to /repo by a recursive value corpus (incl. ints with thousands of digits and sizes straddling every threshold, bool/None/float/containers/subclasses/objects) x pickle protocols 0..5 x 5 codecs x 4 thresholds: equality and exact type, transmittable payload, flags, compression marking and size judged on the real serializers; flags / payload kind / compression decision compared with the model.",
    note="partial: pickle, UTF-8 and the compression codecs are parameters with left-inverse hypotheses (exercised, not proved); ints within CPython's int/str digit limit (4300); str without lone surrogates.",
    technique="Lean 4 proof (flag algebra and decision logic under codec laws; decimal round trip) + correspondence",
    ref="§6 C15"),
 "C16": dict(
    text="Lean theorems over tables re-extracted from the source on every run (inspect.signature of every key-addressed method of Client/PooledClient/HashClient, the AST of every PooledClient method's inner call and of _create_client, HashClient.default_kwargs): C16_pooled_signatures_eq_client, C16_pooled_forwarding_wellformed, C16_hash_signatures_compatible, C16_pooled_ctor_forwards_shared_options, C16_hash_ctor_forwards_shared_options, C16_pooled_ctor_accepts_client_options (+ the general binding theorem). Tied to /repo additionally by running every method x argument grid x configuration grid (prefix, default_noreply, encoding, unicode keys, serializer, timeouts) x server state on a plain Client and on 5 wrapper stacks against identical reference servers and comparing command streams, socket timeouts and results.",
    note="Lean kernel + standard axioms; the translator (harness/gen_consts.py) is part of the trusted base; RetryingClient forwards through __getattr__ (*args, **kwargs) and is covered behaviourally; single-server HashClient.",
    technique="Lean 4 proof over a model regenerated from the source by a translator + exhaustive grid comparison of the stacks with Client",
    ref="§6 C16"),
 "C17": dict(
    text="Lean theorem C17_retry_spec characterises, for every attempts >= 1, every retry_for/do_not_retry_for lists, every subclass relation and every outcome script, the number of invocations and sleeps and the returned value / re-raised exception of the transliterated _retry loop (plus C17_validate_spec for the constructor); the model is tied to /repo by an exhaustive differential run (attempts 1..3(4) x all outcome sequences x all 256 class-list pairs) and a model-independent monitor on the call/sleep log.",
    note="Lean kernel + standard axioms; isinstance abstracted to a subclass relation; hand-written model tied by differential runs; sleep observed by patching retrying.sleep.",
    technique="Lean 4 proof (induction over the attempt loop) + exhaustive model/implementation correspondence",
    ref="§6 C17"),
 "C18": dict(
    text="Lean theorems C18_read_first_hit / C18_read_all_miss / C18_writes_only_primary hold for any number of caches and any answers; tied to /repo by exhaustive enumeration of 1..4 caches x {None, falsy, hit} x all read ops and all mutating ops x argument forms.",
    note="Lean kernel + standard axioms; caches are scripted objects; model tied by exhaustive differential run within the enumerated bound.",
    technique="Lean 4 proof (induction over the cache list) + exhaustive correspondence",
    ref="§6 C18"),
 "C19": dict(
    text="Lean theorems for any node list, both use_vpc values and any reconfiguration history: C19_parse_render_nodes (+ steps), C19_discover_chunking_independent / C19_raw_command_returns_segment (any split of the reply, through C03), C19_rotation_eq_advertised / _after_history / _eq_rendered, C19_routes_into_advertised(_rendezvous), C19_removed_nodes_closed, C19_no_client_leaks; the pre-fix scale-down defect and the unrecognised ERROR endpoint are proved as counterexamples. Tied to /repo by running the real AWSElastiCacheHashClient over a multi-server fake socket module that serves 'config get cluster' with randomly split replies through scale-up/scale-down/replacement histories with a key corpus after each step (per-node command logs, socket ledger), and by feeding the actual reply bytes and histories to the Lean parser / reconfigure model.",
    note="Lean kernel + standard axioms; clean host names; open finding C19-error-endpoint-not-recognised (ERROR answer is awaited until timeout instead of raising MemcacheUnknownCommandError).",
    technique="Lean 4 proof (parse∘render = id via first-occurrence lemmas; set-level rotation invariant over histories) + co-simulation",
    ref="§6 C19"),
 "C20": dict(
    text="Lean theorem C20_checkKey_iff_legal(_incl_empty): for every key (str/bytes of any length), prefix and unicode setting, the transliterated check_key_helper accepts with wire form w iff w = prefix + encoding, |w| <= 250 and w has none of the seven forbidden bytes; plus UTF-8 lemmas and proved counterexamples for the pre-fix code. Tied to /repo by exhaustive short keys over byte classes, every byte at several positions, all boundary lengths with multi-byte UTF-8, on check_key_helper, Client, PooledClient and HashClient, with an independent Python statement of the rule as monitor.",
    note="Lean kernel + standard axioms; bytes.split() and UTF-8 encoding are transliterated and differentially tested against CPython; str keys without lone surrogates.",
    technique="Lean 4 proof (characterisation of bytes.split and the elif chain) + correspondence",
    ref="§6 C20"),
}
ALL = [f"C{i:02d}" for i in range(1, 21)]
m = {
 "version": 1,
 "setup_cmd": "cd /verif && /venv/bin/python harness/gen_consts.py /repo > lean/Pymc/Generated/Consts.lean.tmp && mv lean/Pymc/Generated/Consts.lean.tmp lean/Pymc/Generated/Consts.lean && cd lean && lake build Pymc pymc-driver",
 "hooks": {"guard": "PYMEMCACHE_VERIF", "enable": "no source hooks are needed: checks use constructor seams (socket_module, client_class, lock_generator, hasher) and patch module attributes from the harness process", "baseline_off_cmd": "cd /repo && /venv/bin/python -m pytest -ra -q -p no:cacheprovider --timeout=900 --continue-on-collection-errors", "source_commits": [], "add_only": True},
 "engines": [{"name": "lean-pymc", "path": "/verif/lean", "serves_properties": sorted(CHECKS), "kind_free_text": "Lean 4 models + theorems (lake project Pymc), compiled model driver, Python correspondence harness in /verif/harness"}],
 "checks": [],
 "notes": "All checks: ./check <id> [--tier quick|thorough]. Each run regenerates Generated/Consts.lean from /repo, rebuilds the property's Lean module (re-checking its theorems), audits axioms, runs the model/implementation correspondence and the model-independent monitor, and writes evidence/<id>.json.",
 "not_applicable": [],
}
for pid in ALL:
    if pid in CHECKS:
        c = CHECKS[pid]
        m["checks"].append({
            "property_id": pid,
            "quick_cmd": f"./check {pid} --tier quick",
            "thorough_cmd": f"./check {pid} --tier thorough",
            "evidence_file": f"/verif/evidence/{pid}.json",
            "replay_cmd_template": f"./check {pid} --replay {{path}}",
            "engine": "lean-pymc",
            "level_claimed": {"category": "proof", "text": c["text"], "design_ref": c["ref"]},
            "level_note": c["note"],
            "technique": c["technique"],
        })
    else:
        m["not_applicable"].append({"property_id": pid, "reason": PENDING})
json.dump(m, open(os.path.join(V, 'MANIFEST.json'), 'w'), indent=1)
print("wrote MANIFEST with", len(m["checks"]), "checks")
