import Pymc.Model.Bytes
import Pymc.Model.Readers
import Pymc.Model.Key
/-!
# L1 — the memcached text protocol: requests as the client builds them, a strict request parser

* `Req` is what a request *means*.
* `encode…` build the bytes exactly as `_store_cmd` (base.py 1226–1270), `_fetch_cmd` (1163–1174),
  `delete`, `delete_many`, `incr`, `decr`, `touch`, `flush_all`, `cas` do, including `_check_integer`
  and `_check_cas`.  Everything is rendered with `str(x).encode(encoding)`; the model assumes an
  ASCII-compatible `encoding` (ascii, utf-8, latin-1 …), under which decimal digits encode to themselves.
* `parseReq` is an independent strict parser in the spirit of memcached's `protocol.txt`: one line up to
  the first CR LF, fields separated by single spaces, exact verbs, keys of 1..250 bytes free of the
  seven forbidden bytes, unsigned decimals for flags/bytes/cas/delta, signed decimal for exptime,
  optional literal `noreply`, data block of exactly `<bytes>` bytes followed by CR LF.
-/
namespace Wire
open Bytes

/-! ## decimal -/
def digitChar (d : Nat) : UInt8 := UInt8.ofNat (48 + d)

/-- `str(n).encode()` for `n ≥ 0` -/
def natDec (n : Nat) : Bytes :=
  if h : n < 10 then [digitChar n] else natDec (n / 10) ++ [digitChar (n % 10)]
termination_by n
decreasing_by omega

/-- `str(i).encode()` -/
def intDec (i : Int) : Bytes :=
  if i < 0 then 45 :: natDec (-i).toNat else natDec i.toNat

def isDigit (b : UInt8) : Bool := 48 ≤ b && b ≤ 57

/-- unsigned decimal: non-empty, digits only -/
def parseNat (b : Bytes) : Option Nat :=
  if b = [] then none
  else if b.all isDigit then some (b.foldl (fun acc d => acc * 10 + (d.toNat - 48)) 0) else none

/-- signed decimal: optional `-` -/
def parseInt (b : Bytes) : Option Int :=
  match b with
  | 45 :: r => (parseNat r).map fun n => -(n : Int)
  | _ => (parseNat b).map fun n => (n : Int)

/-! ## requests -/
inductive SVerb | set | add | replace | append | prepend | cas
deriving DecidableEq, Repr
inductive FVerb | get | gets | gat | gats
deriving DecidableEq, Repr

def SVerb.name : SVerb → Bytes
  | .set => ofString "set" | .add => ofString "add" | .replace => ofString "replace"
  | .append => ofString "append" | .prepend => ofString "prepend" | .cas => ofString "cas"
def FVerb.name : FVerb → Bytes
  | .get => ofString "get" | .gets => ofString "gets" | .gat => ofString "gat" | .gats => ofString "gats"

inductive Req
  | store (verb : SVerb) (key : Bytes) (flags : Nat) (exptime : Int) (data : Bytes) (cas : Option Nat)
      (noreply : Bool)
  | fetch (verb : FVerb) (exptime : Option Int) (keys : List Bytes)
  | delete (key : Bytes) (noreply : Bool)
  | arith (incr : Bool) (key : Bytes) (delta : Nat) (noreply : Bool)
  | touch (key : Bytes) (exptime : Int) (noreply : Bool)
  | flushAll (delay : Option Nat) (noreply : Bool)
  | version
  | quit
deriving DecidableEq, Repr

/-! ## the client's encoders (literal concatenations) -/
def noreplySfx (noreply : Bool) : Bytes := if noreply then ofString " noreply" else []

/-- one command of `_store_cmd` (lines 1256–1270); `extra` is built at 1229–1233 -/
def storeCmd (verb : SVerb) (key : Bytes) (flags : Int) (expire : Int) (data : Bytes)
    (cas : Option Bytes) (noreply : Bool) : Bytes :=
  let extra := (match cas with | some c => SP :: c | none => []) ++ noreplySfx noreply
  verb.name ++ [SP] ++ key ++ [SP] ++ intDec flags ++ [SP] ++ intDec expire ++ [SP] ++
    natDec data.length ++ extra ++ CRLF ++ data ++ CRLF

/-- `_fetch_cmd` lines 1167–1174 -/
def fetchCmd (verb : FVerb) (expire : Option Int) (keys : List Bytes) : Bytes :=
  verb.name ++ (match expire with | some e => SP :: intDec e | none => []) ++
    (if keys = [] then [] else SP :: ([SP] : Bytes).intercalate keys) ++ CRLF

def deleteCmd (key : Bytes) (noreply : Bool) : Bytes :=
  ofString "delete " ++ key ++ noreplySfx noreply ++ CRLF
def arithCmd (incr : Bool) (key : Bytes) (delta : Int) (noreply : Bool) : Bytes :=
  ofString (if incr then "incr " else "decr ") ++ key ++ [SP] ++ intDec delta ++ noreplySfx noreply ++ CRLF
def touchCmd (key : Bytes) (expire : Int) (noreply : Bool) : Bytes :=
  ofString "touch " ++ key ++ [SP] ++ intDec expire ++ noreplySfx noreply ++ CRLF
def flushCmd (delay : Int) (noreply : Bool) : Bytes :=
  ofString "flush_all " ++ intDec delay ++ noreplySfx noreply ++ CRLF
def versionCmd : Bytes := ofString "version" ++ CRLF
def quitCmd : Bytes := ofString "quit" ++ CRLF
/-- `_fetch_cmd` lines 1167–1174 for a command `name` that is not one of the four fetch verbs and has no
`expire` (`stats`, `cache_memlimit`): `name`, then the checked arguments separated by single spaces if there
are any, then CR LF -/
def adminFetchCmd (name : Bytes) (args : List Bytes) : Bytes :=
  name ++ (if args = [] then [] else SP :: ([SP] : Bytes).intercalate args) ++ CRLF
/-- `shutdown()` (base.py 1051–1055) -/
def shutdownCmd (graceful : Bool) : Bytes :=
  ofString "shutdown" ++ (if graceful then ofString " graceful" else []) ++ CRLF

/-! ## API-level arguments and `encodeCall` -/
inductive Err | illegalInput
deriving DecidableEq, Repr

/-- an argument that should be an integer -/
inductive IntArg | int (i : Int) | nonInt
deriving DecidableEq, Repr
/-- `_check_integer` (1084–1091) -/
def checkInteger : IntArg → Except Err Int
  | .int i => .ok i
  | .nonInt => .error .illegalInput

/-- the `cas` argument: `int`, `str` (code points), `bytes`, or anything else -/
inductive CasArg | int (i : Int) | str (cps : List Nat) | bytes (b : Bytes) | other
deriving DecidableEq, Repr
/-- `_check_cas` (1093–1115): render, then require `bytes.isdigit()` (non-empty, ASCII digits only) -/
def checkCas : CasArg → Except Err Bytes
  | .int i => let b := intDec i; if b ≠ [] && b.all isDigit then .ok b else .error .illegalInput
  | .str cps =>
    match Key.encodeAscii cps with      -- a non-ASCII str either fails to encode or is not all digits
    | some b => if b ≠ [] && b.all isDigit then .ok b else .error .illegalInput
    | none => .error .illegalInput
  | .bytes b => if b ≠ [] && b.all isDigit then .ok b else .error .illegalInput
  | .other => .error .illegalInput

/-- a value as it leaves the serializer: bytes, or a `str`/`int` still to be rendered (1248–1254) -/
inductive Val | bytes (b : Bytes) | text (cps : List Nat) | int (i : Int)
deriving DecidableEq, Repr
/-- `str(data).encode(self.encoding)`; `utf8 = false` is the default `ascii` -/
def encodeVal (utf8 : Bool) : Val → Except Err Bytes
  | .bytes b => .ok b
  | .int i => .ok (intDec i)
  | .text cps =>
    if utf8 then .ok (Key.encodeUtf8 cps)
    else match Key.encodeAscii cps with
      | some b => .ok b
      | none => .error .illegalInput

structure Cfg where
  au : Bool := false
  pfx : Bytes := []
  utf8 : Bool := false            -- `encoding`: false = ascii, true = utf-8
  defaultNoreply : Bool := true
deriving Repr

def mapKeyErr {α} : Except Key.Err α → Except Err α
  | .ok a => .ok a
  | .error _ => .error .illegalInput

def checkKey (cfg : Cfg) (k : Key.K) : Except Err Bytes := mapKeyErr (Key.checkKey cfg.au cfg.pfx k)

/-- `self.check_key(k, key_prefix=b"")`: what `_fetch_cmd` does to its `keys` when the caller passes no
`key_prefix` — the case of `stats(*args)` and `cache_memlimit(n)`, whose "keys" are the command's arguments.
The client's own `key_prefix` is NOT applied; `allow_unicode_keys` is. -/
def checkArg (cfg : Cfg) (k : Key.K) : Except Err Bytes := mapKeyErr (Key.checkKey cfg.au [] k)

/-- `_store_cmd` up to (not including) the connect: every command is built before anything is sent -/
def encodeStore (cfg : Cfg) (verb : SVerb) (items : List (Key.K × Val)) (expire : IntArg)
    (noreply : Bool) (flags : Option Int) (serFlags : Nat) (cas : Option Bytes) :
    Except Err (List Bytes) := do
  let e ← checkInteger expire
  items.mapM fun (k, v) => do
    let key ← checkKey cfg k
    let data ← encodeVal cfg.utf8 v
    let fl : Int := match flags with | some f => f | none => (serFlags : Int)
    pure (storeCmd verb key fl e data cas noreply)

/-- `_fetch_cmd` lines 1163–1174 -/
def encodeFetch (cfg : Cfg) (verb : FVerb) (keys : List Key.K) (expire : Option IntArg) :
    Except Err Bytes := do
  let ks ← keys.mapM (checkKey cfg)
  let e ← match expire with
    | some a => (checkInteger a).map some
    | none => pure none
  pure (fetchCmd verb e ks)

def encodeDelete (cfg : Cfg) (keys : List Key.K) (noreply : Bool) : Except Err (List Bytes) :=
  keys.mapM fun k => do pure (deleteCmd (← checkKey cfg k) noreply)
def encodeArith (cfg : Cfg) (incr : Bool) (k : Key.K) (delta : IntArg) (noreply : Bool) : Except Err Bytes := do
  let key ← checkKey cfg k
  let d ← checkInteger delta
  pure (arithCmd incr key d noreply)
def encodeTouch (cfg : Cfg) (k : Key.K) (expire : IntArg) (noreply : Bool) : Except Err Bytes := do
  let key ← checkKey cfg k
  let e ← checkInteger expire
  pure (touchCmd key e noreply)
def encodeFlush (delay : IntArg) (noreply : Bool) : Except Err Bytes := do
  pure (flushCmd (← checkInteger delay) noreply)

/-! ## the strict parser -/
/-- split on single spaces (`line.split(b" ")` semantics: empty fields are kept, then rejected) -/
def splitSp : Bytes → List Bytes
  | [] => [[]]
  | x :: r =>
    if x = SP then [] :: splitSp r
    else match splitSp r with
      | [] => [[x]]          -- unreachable: splitSp never returns []
      | t :: ts => (x :: t) :: ts

def validKey (k : Bytes) : Bool := k ≠ [] && k.length ≤ 250 && k.all (fun b => !Key.forbidden b)

def parseSVerb (t : Bytes) : Option SVerb :=
  [SVerb.set, .add, .replace, .append, .prepend, .cas].find? fun v => v.name = t
def parseFVerb (t : Bytes) : Option FVerb :=
  [FVerb.get, .gets, .gat, .gats].find? fun v => v.name = t

/-- take the data block: exactly `n` bytes then CR LF -/
def takeBlock (n : Nat) (rest : Bytes) : Option (Bytes × Bytes) :=
  if n + 2 ≤ rest.length ∧ (rest.drop n).take 2 = CRLF then some (rest.take n, rest.drop (n + 2)) else none

/-- optional trailing literal `noreply` -/
def splitNoreply (ts : List Bytes) : List Bytes × Bool :=
  if ts.getLast? = some (ofString "noreply") then (ts.dropLast, true) else (ts, false)

def parseLine (toks : List Bytes) (rest : Bytes) : Option (Req × Bytes) :=
  match toks with
  | [] => none
  | v :: args =>
    match parseSVerb v with
    | some verb =>
      let (args, nr) := splitNoreply args
      match verb, args with
      | .cas, [k, f, e, n, c] => do
        let f ← parseNat f; let e ← parseInt e; let n ← parseNat n; let c ← parseNat c
        if validKey k then
          let (d, rest') ← takeBlock n rest
          pure (.store .cas k f e d (some c) nr, rest')
        else none
      | .cas, _ => none
      | verb, [k, f, e, n] => do
        let f ← parseNat f; let e ← parseInt e; let n ← parseNat n
        if validKey k then
          let (d, rest') ← takeBlock n rest
          pure (.store verb k f e d none nr, rest')
        else none
      | _, _ => none
    | none =>
    match parseFVerb v with
    | some verb =>
      if verb = .get ∨ verb = .gets then
        if args ≠ [] ∧ args.all validKey then some (.fetch verb none args, rest) else none
      else match args with
        | e :: ks => do
          let e ← parseInt e
          if ks ≠ [] ∧ ks.all validKey then some (.fetch verb (some e) ks, rest) else none
        | [] => none
    | none =>
      if v = ofString "delete" then
        -- memcached looks for `noreply` only after the key, so `delete noreply` deletes the key "noreply"
        match args with
        | [k] => if validKey k then some (.delete k false, rest) else none
        | [k, n] => if validKey k ∧ n = ofString "noreply" then some (.delete k true, rest) else none
        | _ => none
      else if v = ofString "incr" ∨ v = ofString "decr" then
        let (args, nr) := splitNoreply args
        match args with
        | [k, d] => do
          let d ← parseNat d
          if validKey k then some (.arith (v = ofString "incr") k d nr, rest) else none
        | _ => none
      else if v = ofString "touch" then
        let (args, nr) := splitNoreply args
        match args with
        | [k, e] => do
          let e ← parseInt e
          if validKey k then some (.touch k e nr, rest) else none
        | _ => none
      else if v = ofString "flush_all" then
        let (args, nr) := splitNoreply args
        match args with
        | [] => some (.flushAll none nr, rest)
        | [d] => do let d ← parseNat d; some (.flushAll (some d) nr, rest)
        | _ => none
      else if v = ofString "version" ∧ args = [] then some (.version, rest)
      else if v = ofString "quit" ∧ args = [] then some (.quit, rest)
      else none

/-- one request from the head of the stream -/
def parseReq (b : Bytes) : Option (Req × Bytes) :=
  match Readers.findCRLF b with
  | none => none
  | some p => parseLine (splitSp (b.take p)) (b.drop (p + 2))

/-- the whole stream as a sequence of requests; `none` if anything is malformed or left over -/
def parseAll (fuel : Nat) (b : Bytes) : Option (List Req) :=
  match fuel with
  | 0 => if b = [] then some [] else none
  | fuel + 1 =>
    if b = [] then some [] else
    match parseReq b with
    | none => none
    | some (r, rest) => (parseAll fuel rest).map (r :: ·)
end Wire
