import Pymc.Model.HashPooledCall
import Pymc.Model.HashInnerMany
/-!
# `HashClient ∘ PooledClient ∘ Client`: `get_many` / `gets_many`, `set_many`, `delete_many` with `use_pooling=True`

`HashPooledCall.lean` is `HashInner.lean` — the failover code of `HashClient` around an arbitrary registered object —
instantiated with "the registered object is a `PooledClient`, an invocation is one pooled call" (`HashPooledCall.pooled`),
for the single-key operations.  This file is `HashInnerMany.lean` — the multi-key operations of `HashClient` around an
arbitrary registered object, the code of `HashCallMany.lean` — instantiated in the same way.  With `use_pooling=True`
(hash.py `get_many`, `set_many`, `delete_many`; base.py `PooledClient.get_many` / `gets_many` / `set_many` / `delete`):

```
for server, keys in client_batches.items():                  # order of first appearance of the server
    client = self.clients[self._make_client_key(server)]     # the PooledClient registered NOW (after every _retry_dead)
    result = self._safely_run_func(client, client.get_many, {}, keys)        # resp. client.gets_many
def PooledClient.get_many(self, keys):                       # built without ignore_exc: the `except Exception` re-raises
    with self.client_pool.get_and_release(destroy_on_fail=True) as client:   # get(); … release() / destroy()
        return client.get_many(keys)
def PooledClient.set_many(self, values, expire=0, noreply=None, flags=None):
    with self.client_pool.get_and_release(destroy_on_fail=True) as client:
        return client.set_many(values, expire=expire, noreply=noreply, flags=flags)
```

so every batch that reaches a server is exactly one `PooledCall.callP` on the pool of that server's `PooledClient`:
check-out from its `ObjectPool` (an idle inner client that has not expired, else a new one — or
`RuntimeError("Too many objects")`), `Client.call … (.getMany batch)` / `(.getsMany batch)` / `(.setMany batch expire noreply
flags)` / `(.delete key noreply)` on the checked-out inner client, then `release` (the call returned) or `destroy` (it
raised: `client.close()`, the inner client is dropped).  One public call may thus check clients out of several pools, one
after the other and never two at a time: when the batch of the next server is sent, the client used for the previous
one is already back in its pool or destroyed — also when the public call ends with an exception, since the `with` block of
the `PooledClient` method is left before `_safely_run_func` / `_safely_run_set_many` sees the exception.

What is modelled as it is:

* the order of the servers (first appearance among the routed keys), the object looked up in the second loop
  (`self.clients[server]` after all `_retry_dead`s of the first loop: a server brought back while routing a later key is
  contacted through its *fresh* `PooledClient` with an empty pool);
* an escaping exception (not `ignore_exc`, or a `BaseException`, or `MemcacheError("All servers seem to be down")`, or
  `MemcacheIllegalInputError` from `check_key_helper` in the first loop) ends the public call: the remaining batches are
  not sent, their pools are not touched; with `ignore_exc` a failing batch contributes `{}` resp. is skipped and the loop
  goes on;
* `set_many` with `ignore_exc` (known finding `C13-setmany-ignoreexc`): `_set_many` swallows the exception of
  `PooledClient.set_many` (also the pool's own `RuntimeError`), reports none of the keys, marks nothing and in the retry
  branch clears the failure record — while the pool *has* destroyed the inner client whose call failed;
* `delete_many`: a loop of pooled single-key `delete`s (`HashPooledCall.callHP`), all inside one public call; the same
  pool may be used several times.

Time: the bookkeeping clock and every check-out of the public call read `now`, every release reads `fin` (`GMCall`).
Not modelled: the broadcast operations (`flush_all`, `stats`, `quit`, `close`), concurrent use.
-/
namespace HashPooledCall
open Exchange Client Framing Failover HashInner

/-- what one batch shows: server, number of the `PooledClient` invoked, the observation of the pooled call, served -/
abbrev BPObs (pcfg : Pooled.Cfg) := HashInner.BObs (pooled pcfg)

/-- what a general call shows: the result and the batches in order -/
abbrev MPObs (pcfg : Pooled.Cfg) := HashInner.GMObs (pooled pcfg)

/-- a general call of a history: operation (`HashCall.MOp`), time of the call (= time of every check-out), release time -/
abbrev MPCall (RK : Type) := HashInner.GMCall RK

/-- one public call: a single-key operation, `get_many` / `gets_many`, `set_many` or `delete_many` -/
abbrev callMP {RK : Type} (ccfg : Wire.Cfg) (pcfg : Pooled.Cfg) (c : Cfg) (route : List Srv → RK → Option Srv)
    (st : St pcfg) (idx : Nat) (mc : MPCall RK) : St pcfg × MPObs pcfg :=
  HashInner.callGM ccfg c route st idx mc

/-- run a general history; the first call is call number `k` -/
abbrev runMP {RK : Type} (ccfg : Wire.Cfg) (pcfg : Pooled.Cfg) (c : Cfg) (route : List Srv → RK → Option Srv)
    (st : St pcfg) (k : Nat) (calls : List (MPCall RK)) : St pcfg × List (MPObs pcfg) :=
  HashInner.runGM ccfg c route st k calls

/-- the pooled calls of the public call, in order -/
def pobsOf {pcfg : Pooled.Cfg} (ob : MPObs pcfg) : List PooledCall.PObs := ob.inners

/-- the inner `Client.call`s of the public call, in order (one per batch whose pool handed out a client) -/
def stepsOf {pcfg : Pooled.Cfg} (ob : MPObs pcfg) : List Step := (pobsOf ob).filterMap (·.step)
end HashPooledCall
