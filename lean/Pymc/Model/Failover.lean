/-!
# Model of the failover bookkeeping of `pymemcache.client.hash.HashClient`

Import-free, total, computable.  Transliterates, branch by branch and in the order of the checks of the
Python code, `_retry_dead`, `_get_client`, `_mark_failed_server`, `remove_server`, `add_server`,
`_safely_run_func`, `_safely_run_set_many`, `_set_many`, `_run_cmd`, `get_many`, `set_many`.

Abstractions (deliberate, listed here once):
* `Time = Nat` ticks; `time.time()` is read once per *public* call (`now` is constant within one call).
  All comparisons of the code have the form `a - b > d`; truncated subtraction on `Nat` agrees with the
  real one for them (`a - b > d ↔ a > b + d`).
* What the inner client does when invoked is given by the environment `env : Srv → Outcome`
  (`ok` = returns, `oserror` = raises `OSError`, `othererror` = raises any other `Exception`), constant
  within one public call.
* `hasher.get_node` is the parameter `route : List Srv → Key → Option Srv` applied to `hasher.nodes`.
* `self.clients` is not modelled: it is only ever extended (`add_server`), never deleted from, and every
  node of the hasher has an entry, so `self.clients[server]` cannot fail.  `check_key_helper` (key
  validation, raises before any bookkeeping) is not modelled.
* A failing dict `pop`/`del`/`[]` (KeyError) or `remove_node` (ValueError) is the explicit outcome
  `internalError`; it aborts the public call at once and is *not* swallowed by `ignore_exc` (in Python an
  internal KeyError raised inside the `try` would be swallowed under `ignore_exc=True`; the model is
  stricter, and `C13_no_internal_error` shows the branch is unreachable anyway).  The state reported with
  an `internalError` is the state before the failing helper.
* Values are not modelled: a successful inner call is `Result.value`; for the multi-key operations the
  result lists, per key, whether it was served (`get_many`: looked up on a server that answered;
  `set_many`: not reported in the returned list of failed keys).
-/
namespace Failover

/-- `Time` and `Srv` are plain `Nat`s (notations, so that arithmetic tactics see through them) -/
scoped notation "Time" => Nat
/-- server ids -/
scoped notation "Srv" => Nat

/-- `retry_attempts`, `retry_timeout`, `dead_timeout`, `ignore_exc` -/
structure Cfg where
  ra : Nat
  rt : Nat
  dt : Nat
  ignoreExc : Bool
deriving DecidableEq, Repr

/-- what contacting a server does right now -/
inductive Outcome
  | ok | oserror | othererror
deriving DecidableEq, Repr

/-- `hasher.nodes` (in order), `_failed_clients` (server ↦ attempts, failed_time), `_dead_clients`
(server ↦ dead_time, insertion order), `_last_dead_check_time` -/
structure State where
  nodes : List Srv
  failed : List (Srv × Nat × Time)
  dead : List (Srv × Time)
  lastDeadCheck : Time
deriving DecidableEq, Repr

/-- one invocation of the inner client's function: server, time, what it did -/
abbrev Contact := Srv × Time × Outcome

inductive Result
  | value                                     -- the inner client's result, returned normally
  | default                                   -- `default_val` returned
  | multi (served : List Bool)                -- `get_many` / `set_many` returned normally; per key: served?
  | raisedServerError (s : Srv) (o : Outcome) -- the exception raised by server `s` escaped
  | raisedAllDown                             -- MemcacheError("All servers seem to be down right now")
  | internalError                             -- KeyError / ValueError of the bookkeeping itself
deriving DecidableEq, Repr

/-! ### Python dicts as association lists (keys are unique in every reachable state) -/

/-- `d.get(k)` / `d[k]` -/
def alookup {β : Type} (k : Srv) : List (Srv × β) → Option β
  | [] => none
  | (k', v) :: r => if k' = k then some v else alookup k r

/-- `k in d` -/
def amem {β : Type} (k : Srv) (l : List (Srv × β)) : Bool := (alookup k l).isSome

/-- `d[k] = v`: replaces in place if present (a dict keeps the original insertion position), else appends -/
def ainsert {β : Type} (k : Srv) (v : β) (l : List (Srv × β)) : List (Srv × β) :=
  if amem k l then l.map (fun p => if p.1 = k then (k, v) else p) else l ++ [(k, v)]

/-- `d.pop(k)` / `del d[k]`: `none` = KeyError -/
def aerase {β : Type} (k : Srv) (l : List (Srv × β)) : Option (List (Srv × β)) :=
  if amem k l then some (l.filter (fun p => p.1 != k)) else none

/-- `RendezvousHash.add_node`: append if absent -/
def addNode (s : Srv) (ns : List Srv) : List Srv := if s ∈ ns then ns else ns ++ [s]

/-- `RendezvousHash.remove_node`: `none` = ValueError -/
def removeNode (s : Srv) (ns : List Srv) : Option (List Srv) :=
  if s ∈ ns then some (ns.erase s) else none

/-- the only facts assumed about the router (`hasher.get_node` over the nodes in rotation): it answers with a
node in rotation, and has no answer exactly when nothing is in rotation -/
structure RouteLaw {Key : Type} (route : List Srv → Key → Option Srv) : Prop where
  mem : ∀ ns k s, route ns k = some s → s ∈ ns
  none_iff : ∀ ns k, route ns k = none ↔ ns = []

/-! ### the private helpers -/

/-- `remove_server(server)`: `_failed_clients.pop(server)`; `_dead_clients[server] = now`;
`hasher.remove_node(server)` -/
def removeServer (now : Time) (st : State) (s : Srv) : Option State :=
  match aerase s st.failed with
  | none => none
  | some f =>
    let d := ainsert s now st.dead
    match removeNode s st.nodes with
    | none => none
    | some ns => some { st with nodes := ns, failed := f, dead := d }

/-- `_mark_failed_server(server)` -/
def markFailed (c : Cfg) (now : Time) (st : State) (s : Srv) : Option State :=
  if !amem s st.failed && decide (c.ra > 0) then
    some { st with failed := ainsert s (0, now) st.failed }
  else if !amem s st.failed && decide (c.ra ≤ 0) then
    removeServer now { st with failed := ainsert s (0, now) st.failed } s
  else
    match alookup s st.failed with
    | none => none
    | some (a, _) => some { st with failed := ainsert s (a + 1, now) st.failed }

/-- the loop `for server in candidates: add_server(server); del _dead_clients[server]` -/
def reviveAll : List Srv → State → Option State
  | [], st => some st
  | s :: r, st =>
    match aerase s st.dead with
    | none => none
    | some d => reviveAll r { st with nodes := addNode s st.nodes, dead := d }

/-- `_retry_dead()` -/
def retryDead (c : Cfg) (now : Time) (st : State) : Option State :=
  if now - st.lastDeadCheck > c.dt then
    let candidates := (st.dead.filter (fun p => decide (now - p.2 > c.dt))).map Prod.fst
    match reviveAll candidates st with
    | none => none
    | some st' => some { st' with lastDeadCheck := now }
  else some st

/-- the part of `_get_client` that touches the state: `if self._dead_clients: self._retry_dead()` -/
def retryIfDead (c : Cfg) (now : Time) (st : State) : Option State :=
  if st.dead.isEmpty then some st else retryDead c now st

inductive Got
  | client (s : Srv) | noClient | allDown | internalError
deriving DecidableEq, Repr

/-- `_get_client(key)` -/
def getClient {Key : Type} (c : Cfg) (route : List Srv → Key → Option Srv) (now : Time) (st : State)
    (key : Key) : State × Got :=
  match retryIfDead c now st with
  | none => (st, .internalError)
  | some st1 =>
    match route st1.nodes key with
    | none => if c.ignoreExc then (st1, .noClient) else (st1, .allDown)
    | some s => (st1, .client s)

/-- the two `except` clauses of `_safely_run_func` / `_safely_run_set_many` for an exception of kind `o`
raised by server `s` (`o ≠ ok`) -/
def onError (c : Cfg) (now : Time) (st : State) (s : Srv) (o : Outcome) (cs : List Contact) :
    State × Result × List Contact :=
  match o with
  | .oserror =>
    match markFailed c now st s with
    | none => (st, .internalError, cs)
    | some st' => if c.ignoreExc then (st', .default, cs) else (st', .raisedServerError s .oserror, cs)
  | o => if c.ignoreExc then (st, .default, cs) else (st, .raisedServerError s o, cs)

/-- the trailing `result = func(*args, **kwargs); return result` of `_safely_run_func` with its handlers -/
def invoke (c : Cfg) (now : Time) (env : Srv → Outcome) (st : State) (s : Srv) :
    State × Result × List Contact :=
  match env s with
  | .ok => (st, .value, [(s, now, .ok)])
  | o => onError c now st s o [(s, now, o)]

/-- `_safely_run_func(client, func, default_val, …)` for the client of server `s` -/
def safelyRunFunc (c : Cfg) (now : Time) (env : Srv → Outcome) (st : State) (s : Srv) :
    State × Result × List Contact :=
  match alookup s st.failed with
  | some (attempts, failedTime) =>
    if attempts < c.ra then
      if now - failedTime > c.rt then
        match env s with
        | .ok =>
          match aerase s st.failed with
          | none => (st, .internalError, [(s, now, .ok)])
          | some f => ({ st with failed := f }, .value, [(s, now, .ok)])
        | o => onError c now st s o [(s, now, o)]
      else (st, .default, [])
    else
      match removeServer now st s with
      | none => (st, .internalError, [])
      | some st' => invoke c now env st' s
  | none => invoke c now env st s

/-- `_set_many(client, values)`: returns `err` (the third component) and the contact made -/
def setManyInner (c : Cfg) (now : Time) (env : Srv → Outcome) (s : Srv) : Option Outcome × List Contact :=
  match env s with
  | .ok => (none, [(s, now, .ok)])
  | o => if !c.ignoreExc then (some o, [(s, now, o)]) else (none, [(s, now, o)])

/-- the trailing `succeeded, failed, err = self._set_many(…); if err is not None: raise err; return failed` -/
def invokeSetMany (c : Cfg) (now : Time) (env : Srv → Outcome) (st : State) (s : Srv) :
    State × Result × List Contact :=
  match setManyInner c now env s with
  | (none, cs) => (st, .value, cs)
  | (some o, cs) => onError c now st s o cs

/-- `_safely_run_set_many(client, values, …)`; `.value` = the inner `failed` list is returned,
`.default` = all keys of the batch are reported failed -/
def safelyRunSetMany (c : Cfg) (now : Time) (env : Srv → Outcome) (st : State) (s : Srv) :
    State × Result × List Contact :=
  match alookup s st.failed with
  | some (attempts, failedTime) =>
    if attempts < c.ra then
      if now - failedTime > c.rt then
        match setManyInner c now env s with
        | (none, cs) =>
          match aerase s st.failed with
          | none => (st, .internalError, cs)
          | some f => ({ st with failed := f }, .value, cs)
        | (some o, cs) => onError c now st s o cs
      else (st, .default, [])
    else
      match removeServer now st s with
      | none => (st, .internalError, [])
      | some st' => invokeSetMany c now env st' s
  | none => invokeSetMany c now env st s

/-! ### the public operations -/

/-- `_run_cmd(cmd, key, default_val, …)`: every single-key operation -/
def runCmd {Key : Type} (c : Cfg) (route : List Srv → Key → Option Srv) (now : Time)
    (env : Srv → Outcome) (st : State) (key : Key) : State × Result × List Contact :=
  match getClient c route now st key with
  | (st1, .internalError) => (st1, .internalError, [])
  | (st1, .allDown) => (st1, .raisedAllDown, [])
  | (st1, .noClient) => (st1, .default, [])
  | (st1, .client s) => safelyRunFunc c now env st1 s

/-- the first loop of `get_many` / `set_many`: `_get_client` for every key; `inr` = per key the server
it was assigned to (`none` = no client under `ignore_exc`) -/
def routeKeys {Key : Type} (c : Cfg) (route : List Srv → Key → Option Srv) (now : Time) :
    State → List Key → State × Sum Result (List (Option Srv))
  | st, [] => (st, .inr [])
  | st, k :: ks =>
    match getClient c route now st k with
    | (st1, .internalError) => (st1, .inl .internalError)
    | (st1, .allDown) => (st1, .inl .raisedAllDown)
    | (st1, .noClient) =>
      match routeKeys c route now st1 ks with
      | (st2, .inr as) => (st2, .inr (none :: as))
      | x => x
    | (st1, .client s) =>
      match routeKeys c route now st1 ks with
      | (st2, .inr as) => (st2, .inr (some s :: as))
      | x => x

/-- keys of `client_batches` in dict insertion order = servers in order of first appearance -/
def dedup : List Srv → List Srv
  | [] => []
  | s :: r => s :: (dedup r).filter (fun x => x != s)

/-- the second loop: run the batches in order; an escaping exception ends the call -/
def runBatches (runOne : State → Srv → State × Result × List Contact) :
    State → List Srv → State × Sum Result (List (Srv × Bool)) × List Contact
  | st, [] => (st, .inr [], [])
  | st, b :: bs =>
    match runOne st b with
    | (st1, .value, cs) =>
      match runBatches runOne st1 bs with
      | (st2, .inr l, cs') => (st2, .inr ((b, true) :: l), cs ++ cs')
      | (st2, .inl r, cs') => (st2, .inl r, cs ++ cs')
    | (st1, .default, cs) =>
      match runBatches runOne st1 bs with
      | (st2, .inr l, cs') => (st2, .inr ((b, false) :: l), cs ++ cs')
      | (st2, .inl r, cs') => (st2, .inl r, cs ++ cs')
    | (st1, r, cs) => (st1, .inl r, cs)

def servedOf (batchRes : List (Srv × Bool)) : Option Srv → Bool
  | none => false
  | some s => (alookup s batchRes).getD false

/-- both multi-key operations: route every key, then run one batch per server -/
def runMany {Key : Type} (c : Cfg) (route : List Srv → Key → Option Srv) (now : Time)
    (runOne : State → Srv → State × Result × List Contact) (st : State) (keys : List Key) :
    State × Result × List Contact :=
  match routeKeys c route now st keys with
  | (st1, .inl r) => (st1, r, [])
  | (st1, .inr assigned) =>
    match runBatches runOne st1 (dedup (assigned.filterMap id)) with
    | (st2, .inl r, cs) => (st2, r, cs)
    | (st2, .inr res, cs) => (st2, .multi (assigned.map (servedOf res)), cs)

/-- `get_many(keys)` (also `gets_many`) -/
def getMany {Key : Type} (c : Cfg) (route : List Srv → Key → Option Srv) (now : Time)
    (env : Srv → Outcome) (st : State) (keys : List Key) : State × Result × List Contact :=
  runMany c route now (safelyRunFunc c now env) st keys

/-- `set_many(values)` -/
def setMany {Key : Type} (c : Cfg) (route : List Srv → Key → Option Srv) (now : Time)
    (env : Srv → Outcome) (st : State) (keys : List Key) : State × Result × List Contact :=
  runMany c route now (safelyRunSetMany c now env) st keys

/-! ### histories -/

inductive Op (Key : Type)
  | runCmd (k : Key)
  | getMany (ks : List Key)
  | setMany (ks : List Key)
deriving Repr

def Op.isSetMany {Key : Type} : Op Key → Bool
  | .setMany _ => true
  | _ => false

def Op.keys {Key : Type} : Op Key → List Key
  | .runCmd k => [k]
  | .getMany ks => ks
  | .setMany ks => ks

/-- one public call: the time it happens, what each server would do if contacted, the operation -/
structure Event (Key : Type) where
  now : Time
  env : Srv → Outcome
  op : Op Key

def stepOp {Key : Type} (c : Cfg) (route : List Srv → Key → Option Srv) (st : State) (e : Event Key) :
    State × Result × List Contact :=
  match e.op with
  | .runCmd k => runCmd c route e.now e.env st k
  | .getMany ks => getMany c route e.now e.env st ks
  | .setMany ks => setMany c route e.now e.env st ks

/-- run a history; returns the final state and, per event, the result and the contacts made -/
def run {Key : Type} (c : Cfg) (route : List Srv → Key → Option Srv) :
    State → List (Event Key) → State × List (Result × List Contact)
  | st, [] => (st, [])
  | st, e :: es =>
    match stepOp c route st e with
    | (st1, r, cs) =>
      match run c route st1 es with
      | (st2, out) => (st2, (r, cs) :: out)

/-- all contacts of a run, in chronological order -/
def contactsOf (outs : List (Result × List Contact)) : List Contact := outs.flatMap (fun o => o.2)

/-- the clock never goes back: event times are non-decreasing, starting at or after `t0` -/
def Chrono {Key : Type} (t0 : Time) : List (Event Key) → Prop
  | [] => True
  | e :: es => t0 ≤ e.now ∧ Chrono e.now es

/-- the time of the last event of a history that starts at `t0` -/
def lastTime {Key : Type} (t0 : Time) : List (Event Key) → Time
  | [] => t0
  | e :: es => lastTime e.now es

/-- the hypothesis of the window bounds: the history contains no `set_many` if `ignore_exc` is on
(`_set_many` then swallows the failure and the failure record is cleared: known defect) -/
def NoSetManyUnderIgnoreExc {Key : Type} (c : Cfg) (evs : List (Event Key)) : Prop :=
  c.ignoreExc = true → ∀ e ∈ evs, e.op.isSetMany = false

/-! ### observations on the contact log (used to state the window bounds) -/

/-- times, in chronological order, of the contacts to `s` that raised OSError -/
def oserrTimes (s : Srv) (L : List Contact) : List Time :=
  (L.filter (fun x => x.1 == s && x.2.2 == .oserror)).map (fun x => x.2.1)

/-- the part of the log after the last *successful* contact to `s` -/
def sinceLastOk (s : Srv) (L : List Contact) : List Contact :=
  (L.reverse.takeWhile (fun x => !(x.1 == s && x.2.2 == .ok))).reverse

/-- how many of the times `ts` lie in the closed window `[t, t + w]` -/
def countIn (t w : Time) (ts : List Time) : Nat := (ts.filter (fun x => decide (t ≤ x) && decide (x ≤ t + w))).length

/-- the constructor: `add_server` for every server (append if absent), `_last_dead_check_time = t0` -/
def init (servers : List Srv) (t0 : Time) : State :=
  { nodes := dedup servers, failed := [], dead := [], lastDeadCheck := t0 }

/-! ### concrete routing by explicit preference order, and the trace renderer of the harness -/

/-- a key is the preference order of the servers for it; the router picks the first that is in rotation -/
def prefRoute (ns : List Srv) (prefs : List Srv) : Option Srv :=
  match ns with
  | [] => none
  | n0 :: _ =>
    match prefs.find? (fun s => ns.contains s) with
    | some s => some s
    | none => some n0        -- preference list exhausted: fall back to the first node (total router)

structure TEvent where
  now : Time
  oserr : List Srv            -- servers that raise OSError when contacted during this call
  other : List Srv            -- servers that raise another Exception when contacted during this call
  op : Op (List Srv)

def TEvent.env (e : TEvent) : Srv → Outcome := fun s =>
  if e.oserr.contains s then .oserror else if e.other.contains s then .othererror else .ok

def TEvent.toEvent (e : TEvent) : Event (List Srv) := { now := e.now, env := e.env, op := e.op }

def showOutcome : Outcome → String
  | .ok => "ok" | .oserror => "oserror" | .othererror => "othererror"

def showList (l : List String) : String := "[" ++ ",".intercalate l ++ "]"

def showResult : Result → String
  | .value => "value"
  | .default => "default"
  | .multi l => "multi:" ++ String.join (l.map fun b => if b then "1" else "0")
  | .raisedServerError s o => s!"raise:{s}:{showOutcome o}"
  | .raisedAllDown => "alldown"
  | .internalError => "internal"

def showContact (x : Contact) : String := s!"{x.1}@{x.2.1}:{showOutcome x.2.2}"

def showState (st : State) : String :=
  "nodes=" ++ showList (st.nodes.map toString) ++
  " failed=" ++ showList (st.failed.map fun p => s!"{p.1}:{p.2.1}@{p.2.2}") ++
  " dead=" ++ showList (st.dead.map fun p => s!"{p.1}@{p.2}") ++
  s!" ldc={st.lastDeadCheck}"

/-- one line per event:
`res=<result> contacts=[s@t:outcome,…] nodes=[…] failed=[s:attempts@failedTime,…] dead=[s@deadTime,…] ldc=<t>` -/
def renderStep (st : State) (r : Result) (cs : List Contact) : String :=
  "res=" ++ showResult r ++ " contacts=" ++ showList (cs.map showContact) ++ " " ++ showState st

def traceFrom (c : Cfg) : State → List TEvent → List String
  | _, [] => []
  | st, e :: es =>
    match stepOp c prefRoute st e.toEvent with
    | (st1, r, cs) => renderStep st1 r cs :: traceFrom c st1 es

/-- servers `0 … nServers-1`, constructed at time `t0`, then the events in order -/
def runTrace (c : Cfg) (nServers : Nat) (t0 : Time) (evs : List TEvent) : List String :=
  traceFrom c (init (List.range nServers) t0) evs


/-! ### textual form of trace events (for a line-protocol driver)

`<now>/<oserr>/<other>/<op>/<keys>` where `<oserr>`, `<other>` are comma-separated server ids (possibly
empty), `<op>` is `c` (single-key command), `g` (`get_many`) or `s` (`set_many`), and `<keys>` is a
`;`-separated list of keys, each key being its comma-separated preference order — e.g.
`22/0//c/0,1` or `5/0,1/2/g/0,1,2;2,1,0`.  Anything else is rejected (`none`). -/

def parseNatList (s : String) : Option (List Nat) :=
  if s.isEmpty then some [] else (s.splitOn ",").mapM String.toNat?

def parseTEvent (s : String) : Option TEvent :=
  match s.splitOn "/" with
  | [now, oserr, other, op, keys] =>
    match now.toNat?, parseNatList oserr, parseNatList other,
        (if keys.isEmpty then some [] else (keys.splitOn ";").mapM parseNatList) with
    | some now, some oserr, some other, some ks =>
      match op, ks with
      | "c", [k] => some { now := now, oserr := oserr, other := other, op := .runCmd k }
      | "g", ks => some { now := now, oserr := oserr, other := other, op := .getMany ks }
      | "s", ks => some { now := now, oserr := oserr, other := other, op := .setMany ks }
      | _, _ => none
    | _, _, _, _ => none
  | _ => none

/-- `runTrace` on textual events; `none` if an event does not parse -/
def runTraceText (c : Cfg) (nServers : Nat) (t0 : Time) (evs : List String) : Option (List String) :=
  (evs.mapM parseTEvent).map (runTrace c nServers t0)

end Failover
