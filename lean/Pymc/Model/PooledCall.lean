import Pymc.Model.Framing
import Pymc.Model.Pooled
import Pymc.Model.Miss
/-!
# `PooledClient ∘ Client`: sequential use of one `PooledClient`, the body of every call being a real `Client.call`

`Pooled.lean` models the pool bracket of a `PooledClient` method with the behaviour of the inner call as an
*input* (`Pooled.Body`); `Framing.lean` models a sequence of calls on ONE `Client`.  This file composes them
(base.py 1378–1680, pool.py 63–120):

```
def <method>(self, …):                                        # every method except quit
    with self.client_pool.get_and_release(destroy_on_fail=True) as client:     # get(); … release() / destroy()
        return client.<method>(…)                             # non-read methods
        try: return client.<method>(…)                        # get, gets, gat, gats, get_many, gets_many
        except MemcacheIllegalInputError: raise
        except Exception:
            if self.ignore_exc: return <default>              # with-block ends normally → release
            else: raise                                       # → destroy → after_remove = client.close()
def quit(self):
    with self.client_pool.get_and_release(destroy_on_fail=True) as client:
        try: client.quit()
        finally: self.client_pool.destroy(client)
```

An inner client (`IClient`) is a pooled `Client` object: its id, whether it holds a socket, what is left unread in
that socket's pipe (tagged with the index of the pooled call that provoked it, as in `Framing.runTaggedFrom`),
`_last_used`, and — so that forgetting `sockOpen`/`pipe` gives exactly a `Pooled.PClient` — the id of the
connection it holds.  A connection id is allocated whenever the inner call establishes a connection
(`CallOut.connected`); it is recorded as closed when the inner call leaves the socket closed, or when `destroy`
/ idle expiry close the client.  Inner clients are created with `ignore_exc=False` (`_create_client`), so the inner
call is `Client.call ccfg false …`; `ignoreExc` below is the `ignore_exc` of the `PooledClient`.
-/
namespace PooledCall
open Exchange Client Framing

/-- a `Client` object owned by the pool -/
structure IClient where
  id : Nat
  sockOpen : Bool := false         -- `client.sock is not None`
  pipe : List TEv := []            -- what is unread on that socket (meaningful only when `sockOpen`)
  conn : Option Nat := none        -- id of the connection it holds (as `Pooled.PClient.conn`)
  lastUsed : Nat
deriving Repr

structure St where
  free : List IClient := []
  used : List IClient := []        -- checked-out clients
  nextClient : Nat := 0
  nextConn : Nat := 0
  closed : List Nat := []          -- connection ids closed so far, in order
deriving Repr

/-- forget the socket: the pooled client of the abstract model -/
def IClient.proj (c : IClient) : Pooled.PClient := ⟨c.id, c.conn, c.lastUsed⟩

/-- forget the sockets: the state of the abstract model `Pooled` -/
def St.proj (s : St) : Pooled.St :=
  ⟨s.free.map IClient.proj, s.used.map IClient.proj, s.nextClient, s.nextConn, s.closed⟩

/-! ## the pool operations (pool.py), as in `Pooled` but on clients that carry their socket -/

/-- the `while self._free_objs:` loop of `get()` (`Pooled.popFresh`) -/
def popFresh (cfg : Pooled.Cfg) (t : Nat) : List IClient → Option IClient × List IClient × List Nat
  | [] => (none, [], [])
  | c :: rest =>
    if t - c.lastUsed ≤ cfg.idleTimeout then (some c, rest, [])
    else
      let (r, rest', cl) := popFresh cfg t rest
      (r, rest', Pooled.connList c.conn ++ cl)

/-- `get()`; `none` = `RuntimeError("Too many objects")`.  A new client has no socket (`Client.__init__`). -/
def get (cfg : Pooled.Cfg) (s : St) (now : Nat) : St × Option IClient :=
  let t := Pooled.clock cfg now
  match popFresh cfg t s.free with
  | (some c, rest, cl) =>
    ({ s with free := rest, used := s.used ++ [c], closed := s.closed ++ cl }, some c)
  | (none, rest, cl) =>
    if s.used.length ≥ cfg.maxSize then ({ s with free := rest, closed := s.closed ++ cl }, none)
    else
      let c : IClient := { id := s.nextClient, lastUsed := t }
      ({ s with free := rest, used := s.used ++ [c], nextClient := s.nextClient + 1, closed := s.closed ++ cl }, some c)

def isUsed (s : St) (id : Nat) : Bool := s.used.any (·.id = id)
def dropUsed (s : St) (id : Nat) : List IClient := s.used.filter (·.id ≠ id)

/-- `release(obj)`: back to the free list as it is now -/
def release (cfg : Pooled.Cfg) (s : St) (c : IClient) (now : Nat) : St :=
  if isUsed s c.id then
    { s with used := dropUsed s c.id, free := s.free ++ [{ c with lastUsed := Pooled.clock cfg now }] }
  else s

/-- `destroy(obj)`: dropped; `after_remove` = `client.close()` closes the connection it still holds -/
def destroy (s : St) (c : IClient) : St :=
  if isUsed s c.id then { s with used := dropUsed s c.id, closed := s.closed ++ Pooled.connList c.conn } else s

/-! ## one inner call -/

/-- one call on one inner client whose socket state is `so` and whose pipe holds `left`: exactly one step of
`Framing.runTaggedFrom` with `ignore_exc=False` (`PooledCall.runTaggedFrom_single` in `Proofs/PooledCallStep.lean`).  The
`recv()` results of this call are tagged `k`. -/
def stepTagged (cfg : Wire.Cfg) (k : Nat) (so : Bool) (left : List TEv) (c : Call) (sc : Script) : Step :=
  let avail := available so left (sc.evs.map fun e => (k, e))
  let o := Client.call cfg false so c { sc with evs := avail.map (·.2) }
  let nConsumed := avail.length - o.unread.length
  ⟨k, o, avail, avail.take nConsumed, avail.drop nConsumed⟩

def isQuit : Call → Bool
  | .quit => true
  | _ => false

/-- the `try/except` of the read methods: `MemcacheIllegalInputError` is re-raised, any other `Exception` (not a
`BaseException`) is swallowed when the `PooledClient` was built with `ignore_exc=True` -/
def swallows (ignoreExc : Bool) (c : Call) (e : Exc) : Bool :=
  ignoreExc && isRead c && !isBaseExc e && decide (e ≠ .illegalInput)

/-- what a `PooledClient` call shows -/
structure PObs where
  client : Option Nat := none                  -- the pooled client that served the call (`none`: "Too many objects")
  io : Option Nat := none                      -- the connection the commands were sent on, or that was opened for them
  res : Option (Except Exc Res) := none        -- what the method returned / raised (`none`: the pool's `RuntimeError`)
  step : Option Step := none                   -- the inner `Client` call with its tagged `recv()` results
  connAfter : Option Nat := none               -- the connection the client holds when the method is over
  sockOpenAfter : Bool := false                -- whether that client still has a socket then (`false` if destroyed)
deriving Repr

/-- one public call of the `PooledClient`: call number `idx` of the history, checking its client out at time `now` and
handing it back at time `fin` -/
def callP (ccfg : Wire.Cfg) (pcfg : Pooled.Cfg) (ignoreExc : Bool) (s : St) (idx now fin : Nat) (c : Call) (sc : Script) :
    St × PObs :=
  match get pcfg s now with
  | (s1, none) => (s1, {})
  | (s1, some cl) =>
    -- the body: `client.<method>(…)` on the checked-out client
    let st := stepTagged ccfg idx cl.sockOpen cl.pipe c sc
    let o := st.out
    -- the connection the client works with: a fresh one if it connected, else the one it held
    let held := if o.connected then some s1.nextConn else cl.conn
    let cl' : IClient :=
      { cl with sockOpen := o.sockOpen, pipe := st.leftover, conn := if o.sockOpen then held else none }
    let s2 : St :=
      { s1 with nextConn := if o.connected then s1.nextConn + 1 else s1.nextConn,
                closed := s1.closed ++ (if o.sockOpen then [] else Pooled.connList held) }
    let io := if o.sent.isSome || o.connected then held else none
    let gone : IClient := { cl' with sockOpen := false, pipe := [], conn := none }   -- after `client.close()`
    if isQuit c then
      -- `finally: self.client_pool.destroy(client)`, then the bracket: `release` (silent no-op) or `destroy` (again)
      let s3 := destroy s2 cl'
      match o.res with
      | .ok r => (release pcfg s3 gone fin, ⟨some cl.id, io, some (.ok r), some st, none, false⟩)
      | .error e => (destroy s3 gone, ⟨some cl.id, io, some (.error e), some st, none, false⟩)
    else
      match o.res with
      | .ok r => (release pcfg s2 cl' fin, ⟨some cl.id, io, some (.ok r), some st, cl'.conn, cl'.sockOpen⟩)
      | .error e =>
        if swallows ignoreExc c e then
          (release pcfg s2 cl' fin, ⟨some cl.id, io, some (.ok (missRes c)), some st, cl'.conn, cl'.sockOpen⟩)
        else (destroy s2 cl', ⟨some cl.id, io, some (.error e), some st, none, false⟩)

/-- one call of a history: the call, what the connection does during it, checkout time, release time -/
abbrev PCall := Call × Script × Nat × Nat

/-- run the calls one after the other; the first one is call number `k` -/
def runP (ccfg : Wire.Cfg) (pcfg : Pooled.Cfg) (ignoreExc : Bool) : (s : St) → (k : Nat) → List PCall → St × List PObs
  | s, _, [] => (s, [])
  | s, k, (c, sc, now, fin) :: rest =>
    let (s1, ob) := callP ccfg pcfg ignoreExc s k now fin c sc
    let (s2, obs) := runP ccfg pcfg ignoreExc s1 (k + 1) rest
    (s2, ob :: obs)

/-! ## the bodies of the abstract model -/

/-- what the outcome `o` of the inner call means for the pool, in the vocabulary of `Pooled.Body`.

* `quit`: `quitOk` / `quitFail`.
* The method returns (normally, or because a read method swallowed the exception): the client is *released*.  If
  its socket is open afterwards that is `ok`; if not — the swallowed failure closed it — it is `failSwallowed`.
  A call that returns without any I/O (`get_many([])`, `delete_many([])`) on a client that has no socket also
  falls under `failSwallowed false`, whose effect in `Pooled.callT` on such a client is precisely "released untouched".
* The method raises: the client is *destroyed*.  `fail` if the call got as far as opening a connection or
  sending, `rejected` if not (illegal input — or a failed connect, for which `fail false` and `rejected`
  coincide in `Pooled.callT`). -/
def bodyOf (ignoreExc : Bool) (c : Call) (o : CallOut Res) : Pooled.Body :=
  if isQuit c then
    match o.res with
    | .ok _ => .quitOk
    | .error _ => .quitFail o.connected
  else
    let released := match o.res with
      | .ok _ => true
      | .error e => swallows ignoreExc c e
    if released then (if o.sockOpen then .ok else .failSwallowed o.connected)
    else if o.sent.isSome || o.connected then .fail o.connected
    else .rejected

/-- the body of an observed call (irrelevant when no client could be checked out: the body is not run) -/
def bodyOfObs (ignoreExc : Bool) (c : Call) (ob : PObs) : Pooled.Body :=
  match ob.step with
  | some st => bodyOf ignoreExc c st.out
  | none => .ok

/-- the timed history of the abstract model that a composed run gives rise to -/
def historyOf (ignoreExc : Bool) : List PCall → List PObs → List (Nat × Nat × Pooled.Body)
  | (c, _, now, fin) :: rest, ob :: obs => (now, fin, bodyOfObs ignoreExc c ob) :: historyOf ignoreExc rest obs
  | _, _ => []
end PooledCall
