import Pymc.Model.HashInner
import Pymc.Model.HashCallMany
/-!
# `HashClient ∘ <inner object>`: `get_many` / `gets_many`, `set_many`, `delete_many` around an arbitrary registered object

`HashCallMany.lean` transliterates the multi-key operations of `HashClient` for `use_pooling=False` (the object registered
in `self.clients` for a server is one `Client`).  This file is the same code — hash.py `get_many`, `set_many`,
`_safely_run_set_many`, `_set_many`, `delete_many`, each quoted in `HashCallMany.lean` next to its transliteration — with
*what a contact does* as a parameter (`HashInner.Inner`), exactly as `HashInner.lean` does for `_run_cmd`:

* the first loop (`routeKeysG` / `routeItemsG`): `_get_client` for every key — `check_key_helper`, `_retry_dead` (which may
  *replace* registered objects by fresh ones), `hasher.get_node` — filling `client_batches` in order of first appearance of
  the server (`HashCall.addToBatch` / `addToBatchKV`, an insertion-ordered `defaultdict`);
* the second loop (`runBatchesG`): for every batch, in that order, `client = self.clients[server]` — the object registered
  *now*, after all the `_retry_dead`s of the first loop — and `_safely_run_func(client, client.get_many, {}, keys)` resp.
  `_safely_run_set_many(client, values, …)`: one invocation of the registered object per server that is contacted, all
  of them with the index of the public call (`idx`) as tag; a batch that returned (`.value`) or was skipped / swallowed
  (`.default`) lets the loop go on, anything that escapes ends the call at once and the remaining batches are not sent;
* `_safely_run_set_many` / `_set_many` (`safelyRunSetManyG` / `invokeSetManyG`) as the code has them: with `ignore_exc` the
  `except Exception` of `_set_many` swallows what the registered object's `set_many` raised, `failed` stays `[]`, `err` is
  `None` — nothing is marked, in the retry branch the failure record is even cleared, no key of the batch is reported
  (known finding `C13-setmany-ignoreexc`); a `BaseException` escapes through everything;
* `delete_many` (`deleteLoopG`): a loop of `_run_cmd("delete", key, False, …)` inside one public call — every one a
  `HashInner.callG`, all with the tag of the public call; the same server may be contacted several times.

Time: as in `HashInner.lean`, the `HashClient` reads `time.time()` = `now` (constant during the public call, as in
`Failover`); the registered object is handed `now` and `fin` for every invocation of the public call (for a `PooledClient`:
every check-out of the call happens at `now`, every release at `fin`).

The public calls and histories are those of `HashCallMany.lean` (`HashCall.MOp`: a single-key call, `get_many` / `gets_many`
with one script per server, `set_many` with one script per server and batch, `delete_many` with one script per key), each
with its time and the release time (`GMCall`).  The last section says what a general run is for the abstract model
`Failover` (`absOfCallG`, `absOfRunG`, hypothesis `projOKG`), as `HashCallMany.lean` does for the plain client.
-/
namespace HashInner
open Exchange Client Framing Failover
open HashCall (addToBatch addToBatchKV batchCall updateRes keysOfRes MOp)

variable {I : Inner}

/-! ## `get_many` / `gets_many` -/

/-- the first loop of `get_many`: `_get_client` for every key; `inl` = the exception that ended the call, `inr` = the
batches -/
def routeKeysG {RK : Type} (ccfg : Wire.Cfg) (c : Cfg) (route : List Srv → RK → Option Srv) (now : Time) :
    St I → List (RK × Key.K) → List (Srv × List Key.K) → St I × Sum (HRes I.E) (List (Srv × List Key.K))
  | st, [], b => (st, .inr b)
  | st, (rk, k) :: ks, b =>
    match Wire.checkKey ccfg k with
    | .error _ => (st, .inl .illegalKey)
    | .ok _ =>
      match getClient c route now st rk with
      | (st1, .internalError) => (st1, .inl .internalError)
      | (st1, .allDown) => (st1, .inl .allDown)
      | (st1, .noClient) => routeKeysG ccfg c route now st1 ks b
      | (st1, .client s _) => routeKeysG ccfg c route now st1 ks (addToBatch s k b)

/-- what happened to one batch: the server, the registered object that was invoked and what the invocation showed (if
the server was contacted), whether the batch was served (the result of the invocation was merged; `false` = the default
was) -/
structure BObs (I : Inner) where
  server : Srv
  obj : Option Nat
  inner : Option I.Obs
  served : Bool

/-- the second loop of a multi-key operation: for every batch `(s, x)` look up the object registered for `s`, run
`runOne` on it, merge what it returned (`onValue`: the result of the invocation; `onDefault`: the default) into the
accumulator and go on; an escaping exception ends the call: the remaining batches are not sent -/
def runBatchesG {β γ : Type} (runOne : St I → Srv → Obj I → β → St I × HRes I.E × Option I.Obs)
    (onValue : γ → β → Res → γ) (onDefault : γ → β → γ) (fin : γ → Res) :
    St I → List (Srv × β) → γ → St I × HRes I.E × List (BObs I)
  | st, [], acc => (st, .value (fin acc), [])
  | st, (s, x) :: bs, acc =>
    match alookup s st.clients with
    | none => (st, .internalError, [])
    | some cl =>
      match runOne st s cl x with
      | (st1, .value r, o) =>
        match runBatchesG runOne onValue onDefault fin st1 bs (onValue acc x r) with
        | (st2, res, obs) => (st2, res, ⟨s, o.map fun _ => cl.id, o, true⟩ :: obs)
      | (st1, .default, o) =>
        match runBatchesG runOne onValue onDefault fin st1 bs (onDefault acc x) with
        | (st2, res, obs) => (st2, res, ⟨s, o.map fun _ => cl.id, o, false⟩ :: obs)
      | (st1, r, o) => (st1, r, [⟨s, o.map fun _ => cl.id, o, false⟩])

/-- what a general call shows -/
structure GMObs (I : Inner) where
  res : HRes I.E
  batches : List (BObs I) := []

/-- the invocations of registered objects made by the public call, in order -/
def GMObs.inners (ob : GMObs I) : List I.Obs := ob.batches.filterMap (·.inner)

/-- the second loop of `get_many`: `result = self._safely_run_func(client, get_func, {}, keys); end.update(result)`;
what the connection(s) of server `s` do meanwhile is `scripts s` -/
def runGetBatchesG (ccfg : Wire.Cfg) (c : Cfg) (idx : Nat) (now fin : Time) (gets : Bool) (scripts : Srv → Script) :
    St I → List (Srv × List Key.K) → Res → St I × HRes I.E × List (BObs I) :=
  runBatchesG
    (fun st s x ks => safelyRunFunc ccfg c idx now fin st s x (batchCall gets ks) (scripts s))
    (fun acc _ r => updateRes acc r) (fun acc _ => acc) id

/-- `get_many(keys)` (`gets = false`) / `gets_many(keys)`; every key comes with its routing key -/
def getManyG {RK : Type} (ccfg : Wire.Cfg) (c : Cfg) (route : List Srv → RK → Option Srv) (st : St I) (idx : Nat)
    (now fin : Time) (gets : Bool) (keys : List (RK × Key.K)) (scripts : Srv → Script) : St I × GMObs I :=
  match routeKeysG ccfg c route now st keys [] with
  | (st1, .inl r) => (st1, { res := r })
  | (st1, .inr b) =>
    match runGetBatchesG ccfg c idx now fin gets scripts st1 b (if gets then .casDict [] else .dict []) with
    | (st2, r, obs) => (st2, { res := r, batches := obs })

/-! ## `set_many` -/

/-- the first loop of `set_many`: `_get_client` for every key; `inl` = the exception that ended the call, `inr` = the
batches and the keys that found no client (`failed.append(key)`) -/
def routeItemsG {RK : Type} (ccfg : Wire.Cfg) (c : Cfg) (route : List Srv → RK → Option Srv) (now : Time) :
    St I → List (RK × Key.K × Wire.Val) → List (Srv × List (Key.K × Wire.Val)) → List Key.K →
    St I × Sum (HRes I.E) (List (Srv × List (Key.K × Wire.Val)) × List Key.K)
  | st, [], b, f => (st, .inr (b, f))
  | st, (rk, k, v) :: ks, b, f =>
    match Wire.checkKey ccfg k with
    | .error _ => (st, .inl .illegalKey)
    | .ok _ =>
      match getClient c route now st rk with
      | (st1, .internalError) => (st1, .inl .internalError)
      | (st1, .allDown) => (st1, .inl .allDown)
      | (st1, .noClient) => routeItemsG ccfg c route now st1 ks b (f ++ [k])
      | (st1, .client s _) => routeItemsG ccfg c route now st1 ks (addToBatchKV s k v b) f

/-- `return failed` after `_set_many` came back with `err = None` and the list `failed` = `r`, preceded in the retry
branch (`clear`) by `self._failed_clients.pop(client.server)` -/
def finishSetMany (st1 : St I) (s : Srv) (ob : I.Obs) (clear : Bool) (r : Res) : St I × HRes I.E × Option I.Obs :=
  if clear then
    match aerase s st1.fo.failed with
    | none => (st1, .internalError, some ob)
    | some f => ({ st1 with fo := { st1.fo with failed := f } }, .value r, some ob)
  else (st1, .value r, some ob)

/-- `succeeded, failed, err = self._set_many(client, values, …); if err is not None: raise err`, then `return failed`; or
one of the handlers.  `.value (.keys l)` = the list `l` is returned. -/
def invokeSetManyG (ccfg : Wire.Cfg) (c : Cfg) (idx : Nat) (now fin : Time) (st : St I) (s : Srv) (x : Obj I) (call : Call)
    (sc : Script) (clear : Bool) : St I × HRes I.E × Option I.Obs :=
  match contact ccfg idx now fin st s x call sc with
  | (st1, ob) =>
    match I.res ob with
    | .ok r => finishSetMany st1 s ob clear r
    | .error e =>
      if I.cls e = .base then (st1, .raised s e, some ob)      -- not an `Exception`: through `_set_many` and both handlers
      else if c.ignoreExc then finishSetMany st1 s ob clear (.keys [])   -- swallowed inside `_set_many`: `failed = []`, `err = None`
      else
        match onError c now st1 s e with                       -- `raise err` into the handlers, which re-raise
        | (st2, r) => (st2, r, some ob)

/-- `_safely_run_set_many(client, values, …)` for the object `x` registered for server `s`; `.default` = `values.keys()`
is returned (retry window not yet open) -/
def safelyRunSetManyG (ccfg : Wire.Cfg) (c : Cfg) (idx : Nat) (now fin : Time) (st : St I) (s : Srv) (x : Obj I)
    (call : Call) (sc : Script) : St I × HRes I.E × Option I.Obs :=
  match alookup s st.fo.failed with
  | some (attempts, failedTime) =>
    if attempts < c.ra then
      if now - failedTime > c.rt then invokeSetManyG ccfg c idx now fin st s x call sc true
      else (st, .default, none)
    else
      match removeServer now st.fo s with
      | none => (st, .internalError, none)
      | some fo' => invokeSetManyG ccfg c idx now fin { st with fo := fo' } s x call sc false
  | none => invokeSetManyG ccfg c idx now fin st s x call sc false

/-- the second loop of `set_many`: `failed += self._safely_run_set_many(client, values, expire, noreply, flags)`; what the
connection(s) of server `s` do when the batch `b` is sent to it is `scripts s b` -/
def runSetBatchesG (ccfg : Wire.Cfg) (c : Cfg) (idx : Nat) (now fin : Time) (expire : Wire.IntArg) (noreply : Option Bool)
    (flags : Option Int) (scripts : Srv → List (Key.K × Wire.Val) → Script) :
    St I → List (Srv × List (Key.K × Wire.Val)) → List Key.K → St I × HRes I.E × List (BObs I) :=
  runBatchesG
    (fun st s x b => safelyRunSetManyG ccfg c idx now fin st s x (.setMany b expire noreply flags) (scripts s b))
    (fun acc _ r => acc ++ keysOfRes r) (fun acc b => acc ++ b.map (·.1)) Res.keys

/-- `set_many(values, expire, noreply, flags)`: the result is the list of failed keys, in the order the code builds it
(keys without a client first, then batch by batch) -/
def setManyG {RK : Type} (ccfg : Wire.Cfg) (c : Cfg) (route : List Srv → RK → Option Srv) (st : St I) (idx : Nat)
    (now fin : Time) (items : List (RK × Key.K × Wire.Val)) (expire : Wire.IntArg) (noreply : Option Bool) (flags : Option Int)
    (scripts : Srv → List (Key.K × Wire.Val) → Script) : St I × GMObs I :=
  match routeItemsG ccfg c route now st items [] [] with
  | (st1, .inl r) => (st1, { res := r })
  | (st1, .inr (b, f)) =>
    match runSetBatchesG ccfg c idx now fin expire noreply flags scripts st1 b f with
    | (st2, r, obs) => (st2, { res := r, batches := obs })

/-! ## `delete_many` -/

/-- the method raised -/
def raisesG {E : Type} : HRes E → Bool
  | .value _ => false
  | .default => false
  | _ => true

/-- the loop of `delete_many`: the observations of the `_run_cmd`s executed, the last one being the one that raised, if
any did -/
def deleteLoopG {RK : Type} (ccfg : Wire.Cfg) (c : Cfg) (route : List Srv → RK → Option Srv) (idx : Nat) (now fin : Time)
    (noreply : Option Bool) : St I → List (RK × Key.K × Script) → St I × List (HObs I)
  | st, [] => (st, [])
  | st, (rk, k, sc) :: rest =>
    match callG ccfg c route st idx now fin rk (.delete k noreply) sc with
    | (st1, ob) =>
      if raisesG ob.res then (st1, [ob])
      else
        match deleteLoopG ccfg c route idx now fin noreply st1 rest with
        | (st2, obs) => (st2, ob :: obs)

/-- a `_run_cmd` as a batch of one: present when the key was routed to a server -/
def batchOfObsG (ob : HObs I) : Option (BObs I) :=
  match ob.server with
  | some s => some ⟨s, ob.obj, ob.inner, match ob.res with | .value _ => true | _ => false⟩
  | none => none

/-- `delete_many(keys, noreply)`: `True`, or the exception of the `_run_cmd` that raised -/
def deleteManyG {RK : Type} (ccfg : Wire.Cfg) (c : Cfg) (route : List Srv → RK → Option Srv) (st : St I) (idx : Nat)
    (now fin : Time) (keys : List (RK × Key.K × Script)) (noreply : Option Bool) : St I × GMObs I :=
  match deleteLoopG ccfg c route idx now fin noreply st keys with
  | (st1, obs) =>
    (st1, { res := match obs.find? (fun ob => raisesG ob.res) with
                   | some ob => ob.res
                   | none => .value (.bool true),
            batches := obs.filterMap batchOfObsG })

/-! ## general calls and runs -/

/-- a public call: the operation (`HashCall.MOp`), the time of the call, the time handed to the registered objects as
the end of their invocations -/
structure GMCall (RK : Type) where
  op : MOp RK
  now : Time
  fin : Time := now

/-- a single-key call of a `HashInner.runG` history as a general call -/
def GCall.toGM {RK : Type} (gc : GCall RK) : GMCall RK := { op := .cmd gc.rk gc.call gc.sc, now := gc.now, fin := gc.fin }

/-- a general call of `HashCallMany.lean` with the invocations over at the time of the call -/
def ofMCall {RK : Type} (mc : HashCall.MCall RK) : GMCall RK := { op := mc.op, now := mc.now }

def callGM {RK : Type} (ccfg : Wire.Cfg) (c : Cfg) (route : List Srv → RK → Option Srv) (st : St I) (idx : Nat)
    (mc : GMCall RK) : St I × GMObs I :=
  match mc.op with
  | .cmd rk call sc =>
    match callG ccfg c route st idx mc.now mc.fin rk call sc with
    | (st1, ob) => (st1, { res := ob.res, batches := (batchOfObsG ob).toList })
  | .getMany gets keys scripts => getManyG ccfg c route st idx mc.now mc.fin gets keys scripts
  | .setMany items expire noreply flags scripts =>
    setManyG ccfg c route st idx mc.now mc.fin items expire noreply flags scripts
  | .deleteMany keys noreply => deleteManyG ccfg c route st idx mc.now mc.fin keys noreply

/-- run the calls one after the other; the first one is call number `k` -/
def runGM {RK : Type} (ccfg : Wire.Cfg) (c : Cfg) (route : List Srv → RK → Option Srv) :
    (st : St I) → (k : Nat) → List (GMCall RK) → St I × List (GMObs I)
  | st, _, [] => (st, [])
  | st, k, mc :: rest =>
    match callGM ccfg c route st k mc with
    | (st1, ob) =>
      match runGM ccfg c route st1 (k + 1) rest with
      | (st2, obs) => (st2, ob :: obs)

/-! ## the history of the abstract model (general calls)

As in `HashCallMany.lean`: a single-key call is a `_run_cmd` event (none when `check_key_helper` rejected the key),
`get_many` / `set_many` are one `.getMany` / `.setMany` event over the routing keys, `delete_many` is the sequence of
`_run_cmd` events of the `delete`s it got round to.  The environment of a multi-key event is read off the observation:
every server does what the invocation of its registered object did. -/

/-- what the server of a batch did, in the vocabulary of `Failover` (`ok` when it was not contacted) -/
def BObs.outcome (bo : BObs I) : Outcome :=
  match bo.inner with
  | some o => outcomeOf I (I.res o)
  | none => .ok

/-- the environment of a `get_many` / `set_many` (every server is handed at most one batch) -/
def envOfBatchesG (bs : List (BObs I)) : Srv → Outcome := fun s =>
  match bs.find? (fun bo => bo.server == s) with
  | some bo => bo.outcome
  | none => .ok

/-- the contact log of the call -/
def contactsOfBatchesG (now : Time) (bs : List (BObs I)) : List Contact :=
  bs.flatMap fun bo =>
    match bo.inner with
    | some o => [(bo.server, now, outcomeOf I (I.res o))]
    | none => []

/-- the result of a `get_many` / `set_many` in the vocabulary of `Failover`: when the method returned, per key whether
its batch was served -/
def absResManyG (c : Cfg) (assigned : List (Option Srv)) (ob : GMObs I) : Result :=
  match ob.res with
  | .value _ => .multi (assigned.map (servedOf (ob.batches.map fun bo => (bo.server, bo.served))))
  | r => absRes I c r

/-- the exception that ended the call is a `BaseException` -/
def escapedBaseG (I : Inner) : HRes I.E → Bool
  | .raised _ e => decide (I.cls e = .base)
  | _ => false

/-- **the hypothesis of the projection of one call** (`HashCall.projOK` for an arbitrary registered object): nothing is
required of a single-key call or a `delete_many`; a `get_many` / `set_many` must not have been ended by
`check_key_helper`, and — under `ignore_exc=True` only — not by a `BaseException` of an invocation -/
def projOKG {RK : Type} (c : Cfg) (mc : GMCall RK) (ob : GMObs I) : Bool :=
  match mc.op with
  | .cmd .. => true
  | .deleteMany .. => true
  | .getMany .. => !isIllegalKey ob.res && !(c.ignoreExc && escapedBaseG I ob.res)
  | .setMany .. => !isIllegalKey ob.res && !(c.ignoreExc && escapedBaseG I ob.res)

/-- the `_run_cmd`s of a `delete_many` as single-key calls -/
def gcallsOfDelete {RK : Type} (now fin : Time) (noreply : Option Bool) (keys : List (RK × Key.K × Script)) :
    List (GCall RK) :=
  keys.map fun x => { rk := x.1, call := .delete x.2.1 noreply, sc := x.2.2, now := now, fin := fin }

/-- the abstract events call number `idx`, made in state `st`, gives rise to, and the outputs `Failover.run` is to
produce for them -/
def absOfCallG {RK : Type} (ccfg : Wire.Cfg) (c : Cfg) (route : List Srv → RK → Option Srv) (st : St I) (idx : Nat)
    (mc : GMCall RK) : List (Event RK) × List (Result × List Contact) :=
  match mc.op with
  | .cmd rk call sc =>
    let gc : GCall RK := { rk := rk, call := call, sc := sc, now := mc.now, fin := mc.fin }
    let ob := (callG ccfg c route st idx mc.now mc.fin rk call sc).2
    (eventsOf [gc] [ob], absOuts c [gc] [ob])
  | .getMany gets keys scripts =>
    let ob := (getManyG ccfg c route st idx mc.now mc.fin gets keys scripts).2
    ([{ now := mc.now, env := envOfBatchesG ob.batches, op := .getMany (keys.map (·.1)) }],
     [(absResManyG c (HashCall.assignedOf c route mc.now st.fo (keys.map (·.1))) ob, contactsOfBatchesG mc.now ob.batches)])
  | .setMany items expire noreply flags scripts =>
    let ob := (setManyG ccfg c route st idx mc.now mc.fin items expire noreply flags scripts).2
    ([{ now := mc.now, env := envOfBatchesG ob.batches, op := .setMany (items.map (·.1)) }],
     [(absResManyG c (HashCall.assignedOf c route mc.now st.fo (items.map (·.1))) ob, contactsOfBatchesG mc.now ob.batches)])
  | .deleteMany keys noreply =>
    let obs := (deleteLoopG ccfg c route idx mc.now mc.fin noreply st keys).2
    (eventsOf (gcallsOfDelete mc.now mc.fin noreply keys) obs, absOuts c (gcallsOfDelete mc.now mc.fin noreply keys) obs)

/-- the abstract history of a run, and its outputs -/
def absOfRunG {RK : Type} (ccfg : Wire.Cfg) (c : Cfg) (route : List Srv → RK → Option Srv) :
    St I → Nat → List (GMCall RK) → List (Event RK) × List (Result × List Contact)
  | _, _, [] => ([], [])
  | st, k, mc :: rest =>
    ((absOfCallG ccfg c route st k mc).1 ++ (absOfRunG ccfg c route (callGM ccfg c route st k mc).1 (k + 1) rest).1,
     (absOfCallG ccfg c route st k mc).2 ++ (absOfRunG ccfg c route (callGM ccfg c route st k mc).1 (k + 1) rest).2)

/-- every call of the history satisfies the hypothesis of the projection -/
def allProjOKG {RK : Type} (c : Cfg) : List (GMCall RK) → List (GMObs I) → Bool
  | mc :: rest, ob :: obs => projOKG c mc ob && allProjOKG c rest obs
  | _, _ => true

/-- all contacts of a general composed run, in chronological order: (server, time, what the invocation did) -/
def contactLogGM {RK : Type} : List (GMCall RK) → List (GMObs I) → List Contact
  | mc :: rest, ob :: obs => contactsOfBatchesG mc.now ob.batches ++ contactLogGM rest obs
  | _, _ => []

/-- the clock never goes back: call times are non-decreasing, starting at or after `t0` -/
def ChronoGM {RK : Type} (t0 : Time) : List (GMCall RK) → Prop
  | [] => True
  | mc :: rest => t0 ≤ mc.now ∧ ChronoGM mc.now rest
end HashInner
