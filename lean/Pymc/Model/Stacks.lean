/-!
# Wrapper stacks — how PooledClient / HashClient hand a call to the working `Client`

A signature is the ordered parameter list (name, default marker) of a method as `inspect.signature` shows it
(without `self`; `*args` / `**kwargs` keep their stars; `"REQUIRED"` = no default).  `bind` is Python's argument
binding for plain signatures.  A forwarding entry says how a wrapper method calls the inner client: which of its own
parameters it passes positionally and which by keyword.
-/
namespace Stacks

abbrev Sig := List (String × String)

def lookup {α : Type} (t : List (String × α)) (k : String) : Option α := (t.find? (·.1 = k)).map (·.2)

def isStar (p : String × String) : Bool := p.1.startsWith "*"

/-- the explicit (non-star) parameters -/
def explicit (s : Sig) : Sig := s.filter (!isStar ·)

/-- Python binding of positional and keyword arguments to a plain signature; the result lists every parameter with
the argument it receives (`none` = `TypeError`) -/
def bind (s : Sig) (pos : List String) (kw : List (String × String)) : Option (List (String × String)) :=
  if pos.length > s.length then none else
  let named := s.drop pos.length
  if !kw.all (fun a => named.any (·.1 = a.1)) then none            -- unknown or already-positional keyword
  else if !(kw.map (·.1)).Nodup then none
  else
    let rest := named.mapM fun p =>
      match lookup kw p.1 with
      | some v => some (p.1, v)
      | none => if p.2 = "REQUIRED" then none else some (p.1, "default:" ++ p.2)
    rest.map fun r => ((s.take pos.length).map (·.1)).zip pos ++ r

/-- how a wrapper method calls the inner method: own parameters passed positionally, and `(inner keyword, own parameter)` -/
structure Forward where
  target : String
  pos : List String
  kws : List (String × String)
deriving DecidableEq, Repr

/-- the arguments the inner call receives when the wrapper's parameters are bound as `b` -/
def innerArgs (f : Forward) (b : List (String × String)) : Option (List String × List (String × String)) := do
  let pos ← f.pos.mapM (lookup b)
  let kws ← f.kws.mapM fun (k, own) => (lookup b own).map fun v => (k, v)
  pure (pos, kws)

/-- a forwarding entry hands every parameter of the signature to the parameter of the same name -/
def wellForwarded (m : String) (s : Sig) (f : Forward) : Bool :=
  f.target = m && (f.pos ++ f.kws.map (·.1)) = s.map (·.1) && f.kws.all (fun kv => kv.1 = kv.2) && (s.map (·.1)).Nodup
  && s.all (!isStar ·)

/-- a `HashClient` method is compatible with `Client`'s when every call that is valid for `Client` binds the same way:
the explicit parameters that `Client` also has sit at the same positions with the same defaults, any extra explicit
parameter comes after them and has a default, and the rest is forwarded through `*args` / `**kwargs` -/
def hashCompatible (h c : Sig) : Bool :=
  let e := explicit h
  let common := e.take (min e.length c.length)
  common == c.take common.length
  && (e.drop c.length).all (fun p => p.2 ≠ "REQUIRED")
  && (e.length ≥ c.length || h.any (fun p => p.1.startsWith "**"))
end Stacks
