import Pymc.Model.Client
/-!
# The documented contract of the public operations, stated directly on the abstract map

`spec cfg s c` says what call `c` returns and what it does to the map `s` — no bytes, no parsing, no
sockets: argument validation, then `AbsMap.apply` of the *intended* request(s), then the documented
mapping of outcomes to return values (docstrings of base.py).  C05 states that client ∘ wire ∘ server
(`Client.onServer`) equals this.
-/
namespace ApiSpec
open Wire AbsMap Client Exchange

def nr (cfg : Cfg) (o : Option Bool) : Bool := o.getD cfg.defaultNoreply

/-- apply a list of requests in order, collecting the replies -/
def applyAll (s : St) : List Req → St × List Reply
  | [] => (s, [])
  | r :: rest =>
    let (s1, rep) := AbsMap.apply s r
    let (s2, reps) := applyAll s1 rest
    (s2, rep :: reps)

def storeOutcome : Reply → Option (Option Bool)
  | .stored => some (some true)
  | .notStored => some (some false)
  | .exists_ => some (some false)
  | .notFound => some none
  | _ => none

def flagsOf (flags : Option Int) : Int := flags.getD 0

/-- the items found, keyed back to the caller's key objects (last requested object with that wire key) -/
def hitsDict (wire : List Bytes) (ks : List Key.K) (vs : List (Bytes × AbsMap.Item)) : List (Key.K × AbsMap.Item) :=
  vs.foldl (fun d (w, it) => match remapLookup (wire.zip ks) w with
    | some k => dictSet d k it
    | none => d) []

def fetchSpec (cfg : Cfg) (s : St) (verb : FVerb) (ks : List Key.K) (e : Option IntArg) :
    Except Exc (St × List (Key.K × AbsMap.Item)) :=
  match ks.mapM (Wire.checkKey cfg), (match e with | some a => (checkInteger a).map some | none => .ok none) with
  | .ok wire, .ok ex =>
    match AbsMap.apply s (.fetch verb ex wire) with
    | (s', .values vs) => .ok (s', hitsDict wire ks vs)
    | (s', _) => .ok (s', [])
  | _, _ => .error .illegalInput

def spec (cfg : Cfg) (s : St) (c : Call) : St × Except Exc Res :=
  match c with
  | .store verb k v expire noreply flags cas =>
    let nrv := if verb = .cas then noreply.getD false else nr cfg noreply
    let casv : Except Wire.Err (Option Nat) := match verb, cas with
      | .cas, some a => (checkCas a).map parseNat
      | .cas, none => .error .illegalInput
      | _, _ => .ok none
    match Wire.checkKey cfg k, encodeVal cfg.utf8 v, checkInteger expire, casv with
    | .ok w, .ok d, .ok e, .ok cv =>
      let (s', rep) := AbsMap.apply s (.store verb w (flagsOf flags).toNat e d cv nrv)
      if nrv then (s', .ok (.bool true)) else
      match storeOutcome rep with
      | some (some b) => (s', .ok (.bool b))
      | some none => (s', .ok .none)
      | none => (s', .error .keyError)
    | _, _, _, _ => (s, .error .illegalInput)
  | .setMany items expire noreply flags =>
    let nrv := nr cfg noreply
    match items.mapM (fun kv => do
        let w ← Wire.checkKey cfg kv.1
        let d ← encodeVal cfg.utf8 kv.2
        pure (w, d)), checkInteger expire with
    | .ok wds, .ok e =>
      let (s', reps) := applyAll s (wds.map fun (w, d) => .store .set w (flagsOf flags).toNat e d none nrv)
      if nrv then (s', .ok (.keys [])) else
      (s', .ok (.keys ((items.zip reps).filterMap fun (kv, r) => if r = .stored then none else some kv.1)))
    | _, _ => (s, .error .illegalInput)
  | .get k =>
    match fetchSpec cfg s .get [k] none with
    | .ok (s', d) => (s', .ok (match d.find? (·.1 = k) with | some (_, it) => .bytes it.data | none => .dflt))
    | .error e => (s, .error e)
  | .gat k e =>
    match fetchSpec cfg s .gat [k] (some e) with
    | .ok (s', d) => (s', .ok (match d.find? (·.1 = k) with | some (_, it) => .bytes it.data | none => .dflt))
    | .error e => (s, .error e)
  | .gets k =>
    match fetchSpec cfg s .gets [k] none with
    | .ok (s', d) => (s', .ok (match d.find? (·.1 = k) with | some (_, it) => .pair it.data (natDec it.cas) | none => .dfltPair))
    | .error e => (s, .error e)
  | .gats k e =>
    match fetchSpec cfg s .gats [k] (some e) with
    | .ok (s', d) => (s', .ok (match d.find? (·.1 = k) with | some (_, it) => .pair it.data (natDec it.cas) | none => .dfltPair))
    | .error e => (s, .error e)
  | .getMany ks =>
    if ks = [] then (s, .ok (.dict [])) else
    match fetchSpec cfg s .get ks none with
    | .ok (s', d) => (s', .ok (.dict (d.map fun (k, it) => (k, it.data))))
    | .error e => (s, .error e)
  | .getsMany ks =>
    if ks = [] then (s, .ok (.casDict [])) else
    match fetchSpec cfg s .gets ks none with
    | .ok (s', d) => (s', .ok (.casDict (d.map fun (k, it) => (k, it.data, natDec it.cas))))
    | .error e => (s, .error e)
  | .delete k noreply =>
    let nrv := nr cfg noreply
    match Wire.checkKey cfg k with
    | .ok w =>
      let (s', rep) := AbsMap.apply s (.delete w nrv)
      (s', .ok (.bool (nrv || rep = .deleted)))
    | .error _ => (s, .error .illegalInput)
  | .deleteMany ks noreply =>
    if ks = [] then (s, .ok (.bool true)) else
    let nrv := nr cfg noreply
    match ks.mapM (Wire.checkKey cfg) with
    | .ok ws => ((applyAll s (ws.map fun w => .delete w nrv)).1, .ok (.bool true))
    | .error _ => (s, .error .illegalInput)
  | .arith incr k delta noreply =>
    match Wire.checkKey cfg k, checkInteger delta with
    | .ok w, .ok d =>
      let (s', rep) := AbsMap.apply s (.arith incr w d.toNat noreply)
      if noreply then (s', .ok .none) else
      match rep with
      | .number n => (s', .ok (.int n))
      | .notFound => (s', .ok .none)
      | .nonNumeric => (s', .error (.clientError (Bytes.ofString "cannot increment or decrement non-numeric value")))
      | _ => (s', .error .keyError)
    | _, _ => (s, .error .illegalInput)
  | .touch k e noreply =>
    let nrv := nr cfg noreply
    match Wire.checkKey cfg k, checkInteger e with
    | .ok w, .ok ex =>
      let (s', rep) := AbsMap.apply s (.touch w ex nrv)
      (s', .ok (.bool (nrv || rep = .touched)))
    | _, _ => (s, .error .illegalInput)
  | .flushAll delay noreply =>
    let nrv := nr cfg noreply
    match checkInteger delay with
    | .ok d =>
      let (s', _) := AbsMap.apply s (.flushAll (some d.toNat) nrv)
      (s', .ok (.bool true))
    | .error _ => (s, .error .illegalInput)
  | .version => ((AbsMap.apply s .version).1, .ok (.bytes (Server.versionLine.drop 8)))
  | .quit => ((AbsMap.apply s .quit).1, .ok .none)
  | .raw _ _ => (s, .error .unknownCommand)      -- not part of the map contract
  -- the administrative operations are not part of the map contract either (`WF` is `False` for them); the
  -- value given here is a placeholder no theorem relies on
  | .stats _ => (s, .error .unknownCommand)
  | .cacheMemlimit _ => (s, .error .unknownCommand)
  | .shutdown _ => (s, .error .unknownCommand)
end ApiSpec
