import Pymc.Model.Client
/-!
# Read operations and what they return for a miss

`isRead` singles out the operations `ignore_exc` is about: the ones that go through `_fetch_cmd`, the only place
where the flag is looked at — `get`, `gets`, `gat`, `gats`, `get_many`, `gets_many`, and also `stats` and
`cache_memlimit`, which base.py implements with `_fetch_cmd` too.  (`cache_memlimit` is not a read of the cache in
any ordinary sense; it is in `isRead` because the code makes `ignore_exc` apply to it, and
`C07_ignore_exc_only_swallows` — "the flag changes nothing outside `isRead`" — would be false otherwise.
`shutdown`, `version`, `flush_all`, … go through `_misc_cmd`, which never looks at the flag.)
`missRes c` is what `c` returns when `_fetch_cmd` returns the empty dict — for the six cache reads that is the
answer for "no requested key is stored": the caller's `default`, the pair `(default, cas_default)`, or an empty
dict; for `stats` it is `{}`; for `cache_memlimit` it is `True`, the same value it returns on success (the
method drops `_fetch_cmd`'s result), so with `ignore_exc` a failed `cache_memlimit` cannot be told from a
successful one.
-/
namespace Client

def isRead : Call → Bool
  | .get _ | .gets _ | .gat _ _ | .gats _ _ | .getMany _ | .getsMany _ => true
  | .stats _ | .cacheMemlimit _ => true
  | _ => false

def missRes : Call → Res
  | .get _ | .gat _ _ => .dflt
  | .gets _ | .gats _ _ => .dfltPair
  | .getMany _ => .dict []
  | .getsMany _ => .casDict []
  | .stats _ => .stats []
  | .cacheMemlimit _ => .bool true
  | _ => .none
end Client
