import Pymc.Model.Client
/-!
# Read operations and what they return for a miss

`isRead` singles out the operations `ignore_exc` is about (`get`, `gets`, `gat`, `gats`, `get_many`, `gets_many`);
`missRes c` is what `c` returns when no requested key is stored: the caller's `default`, the pair
`(default, cas_default)`, or an empty dict.
-/
namespace Client

def isRead : Call → Bool
  | .get _ | .gets _ | .gat _ _ | .gats _ _ | .getMany _ | .getsMany _ => true
  | _ => false

def missRes : Call → Res
  | .get _ | .gat _ _ => .dflt
  | .gets _ | .gats _ _ => .dfltPair
  | .getMany _ => .dict []
  | .getsMany _ => .casDict []
  | _ => .none
end Client
