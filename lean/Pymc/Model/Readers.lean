import Pymc.Model.Bytes
/-!
# L2 — the incremental readers of pymemcache/client/base.py

`_recv`, `_readline`, `_readvalue`, `_readsegment` (base.py 1676–1816) over an explicit list of
`recv()` results.  Transliteration rules:
* `chunks` is represented by `acc = b"".join(chunks)`; `last_char` is then `acc.getLast?`
  (chunks are appended only when non-empty, so the two coincide).
* one `Ev` per `sock.recv()` call: `data b` (`b = []` is end-of-stream), `eintr` (an `OSError` with
  `errno == EINTR`, retried inside `_recv`), `err c` (any other exception, `c` is an opaque code).
  Running out of events is treated like end-of-stream.
* `RECV_SIZE` is not modelled: a `recv` that returns fewer bytes than available is just another chunking.
-/
namespace Readers
open Bytes

inductive Err
  | unexpectedClose            -- MemcacheUnexpectedCloseError
  | sock (code : Nat)          -- exception raised by recv(); code chosen by the environment
  | indexError                 -- `chunks[-1]` on an empty list (only reachable with a negative size)
deriving DecidableEq, Repr

inductive Ev
  | data (b : Bytes)
  | eintr
  | err (code : Nat)
deriving DecidableEq, Repr

/-- index of the first CR LF (`buf.find(b"\r\n")`) -/
def findCRLF : Bytes → Option Nat
  | [] => none
  | [_] => none
  | a :: b :: rest =>
    if a = CR ∧ b = LF then some 0 else (findCRLF (b :: rest)).map (· + 1)

/-- `_readline(sock, buf)`; returns `(rest, line, unread events)` -/
def readline (acc buf : Bytes) (evs : List Ev) : Except Err (Bytes × Bytes × List Ev) :=
    if acc.getLast? = some CR ∧ buf.head? = some LF then .ok (buf.tail, acc.dropLast, evs)
    else match findCRLF buf with
      | some p => .ok (buf.drop (p + 2), acc ++ buf.take p, evs)
      | none =>
        match evs with
        | [] => .error .unexpectedClose
        | .data [] :: _ => .error .unexpectedClose
        | .data b :: r => readline (acc ++ buf) b r
        | .eintr :: r => readline (acc ++ buf) [] r
        | .err c :: _ => .error (.sock c)
termination_by evs.length

/-- Python `b[:i]` for a possibly negative `i` -/
def pyTake (b : Bytes) (i : Int) : Bytes :=
  if 0 ≤ i then b.take i.toNat else b.take (b.length - (-i).toNat)
/-- Python `b[i:]` for a possibly negative `i` -/
def pyDrop (b : Bytes) (i : Int) : Bytes :=
  if 0 ≤ i then b.drop i.toNat else b.drop (b.length - (-i).toNat)

/-- `_readvalue(sock, buf, size)` with `rlen = size + 2` at entry and `acc = []` -/
def readvalueLoop (acc buf : Bytes) (rlen : Int) (evs : List Ev) :
    Except Err (Bytes × Bytes × List Ev) :=
  if rlen - buf.length > 0 then
    let acc' := acc ++ buf                                  -- `if buf: chunks.append(buf)`
    let rlen' := rlen - buf.length                          -- `if buf: rlen -= len(buf)`
    match evs with
    | [] => .error .unexpectedClose
    | .data [] :: _ => .error .unexpectedClose
    | .data b :: r => readvalueLoop acc' b rlen' r
    | .eintr :: r => readvalueLoop acc' [] rlen' r
    | .err c :: _ => .error (.sock c)
  else if rlen = 1 then
    if acc = [] then .error .indexError else .ok (pyDrop buf 1, acc.dropLast, evs)
  else .ok (pyDrop buf rlen, acc ++ pyTake buf (rlen - 2), evs)
termination_by evs.length

def readvalue (buf : Bytes) (size : Int) (evs : List Ev) : Except Err (Bytes × Bytes × List Ev) :=
  readvalueLoop [] buf (size + 2) evs

/-- `bytes.find(tok)`: index of the first occurrence (`tok = []` is found at 0, as in Python) -/
def findSub (tok : Bytes) : Bytes → Option Nat
  | [] => if tok = [] then some 0 else none
  | a :: rest =>
    if tok.isPrefixOf (a :: rest) then some 0 else (findSub tok rest).map (· + 1)

/-- `_readsegment(sock, buf, end_tokens)` as repaired by the `fix:` commit (received pieces are
accumulated and searched again, so an end token straddling two pieces is found) -/
def readsegment (tok buf : Bytes) (evs : List Ev) : Except Err (Bytes × Bytes × List Ev) :=
  match findSub tok buf with
  | some p => .ok (buf.drop (p + tok.length), buf.take p, evs)
  | none =>
    match evs with
    | [] => .error .unexpectedClose
    | .data [] :: _ => .error .unexpectedClose
    | .data b :: r => readsegment tok (buf ++ b) r
    | .eintr :: r => readsegment tok buf r
    | .err c :: _ => .error (.sock c)
termination_by evs.length

/-- `_readsegment` as it was at the pinned commit: each received piece *replaces* `buf`, so everything
received before the piece that contains the token is dropped -/
def readsegmentOrig (tok buf : Bytes) (evs : List Ev) : Except Err (Bytes × Bytes × List Ev) :=
  match findSub tok buf with
  | some p => .ok (buf.drop (p + tok.length), buf.take p, evs)
  | none =>
    match evs with
    | [] => .error .unexpectedClose
    | .data [] :: _ => .error .unexpectedClose
    | .data b :: r => readsegmentOrig tok b r
    | .eintr :: r => readsegmentOrig tok buf r
    | .err c :: _ => .error (.sock c)
termination_by evs.length

/-- all bytes the events deliver, in order -/
def joinData : List Ev → Bytes
  | [] => []
  | .data b :: r => b ++ joinData r
  | _ :: r => joinData r

/-- a delivery schedule without faults and without a premature end-of-stream -/
def clean : List Ev → Prop
  | [] => True
  | .data b :: r => b ≠ [] ∧ clean r
  | .eintr :: r => clean r
  | .err _ :: _ => False

/-! ## flat specifications (what the whole stream means, independent of delivery) -/
def splitLine (s : Bytes) : Option (Bytes × Bytes) :=
  (findCRLF s).map fun p => (s.take p, s.drop (p + 2))
def splitValue (size : Nat) (s : Bytes) : Option (Bytes × Bytes) :=
  if size + 2 ≤ s.length then some (s.take size, s.drop (size + 2)) else none
def splitSegment (tok s : Bytes) : Option (Bytes × Bytes) :=
  (findSub tok s).map fun p => (s.take p, s.drop (p + tok.length))
end Readers
