/-!
# FallbackClient — pymemcache/fallback.py

Caches are scripted: for a read, cache `i` answers `answers[i]`.  `firstHit` transliterates the loops of
`get`/`gets` (first answer that `is not None`) and `get_many`/`gets_many` (first truthy answer); the
result carries how many caches were consulted.  Writes are a table: which cache receives which call.
-/
namespace Fallback

/-- `for cache in caches: r = cache.op(key); if hit r: return r` then the fall-through value -/
def firstHit {α : Type} (hit : α → Bool) : List α → (Option α × Nat)
  | [] => (none, 0)
  | a :: rest =>
    if hit a then (some a, 1)
    else let (r, n) := firstHit hit rest; (r, n + 1)

/-- a mutating operation as forwarded: index of the receiving cache and the positional arguments -/
structure Forward where
  cache : Nat
  method : String
  args : List String
deriving DecidableEq, Repr

/-- lines 56–72, 102–119: every write goes to `caches[0]` with the caller's arguments in order -/
def write (method : String) (args : List String) : List Forward := [⟨0, method, args⟩]
end Fallback
