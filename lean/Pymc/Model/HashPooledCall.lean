import Pymc.Model.HashInner
/-!
# `HashClient ∘ PooledClient ∘ Client`: sequential use of one `HashClient(use_pooling=True)`

With `use_pooling=True` the object `add_server` registers in `self.clients` for a server is a `PooledClient`
(hash.py 107–114, 134–140):

```
if use_pooling is True:
    self.default_kwargs.update({"max_pool_size": …, "pool_idle_timeout": …, "lock_generator": …})
def add_server(self, server, port=None):
    _class = PooledClient if self.use_pooling else self.client_class
    client = _class(server, **self.default_kwargs)            # a NEW PooledClient: empty pool
    if self.use_pooling: client.client_class = self.client_class
    self.clients[key] = client; self.hasher.add_node(key)
```

and `func = getattr(client, cmd)` in `_run_cmd` is a `PooledClient` method: `client_pool.get()`, the same method of the
checked-out inner `Client`, then `release` (it returned) or `destroy` (it raised) — one `PooledCall.callP`.  So this is
the instance of `HashInner` in which

* the state of the registered object is the pool of that `PooledClient` (`PooledCall.St`: idle and checked-out inner
  clients with their sockets and pipes, the connections closed so far); a fresh one is the empty pool;
* an invocation is `PooledCall.callP ccfg pcfg false …`: `default_kwargs` has no `ignore_exc`, so the `PooledClient` is
  built with `ignore_exc=False` and its read methods re-raise — the wrapper that swallows is `_safely_run_func` of the
  `HashClient`; the inner `Client`s are created by `_create_client` with `ignore_exc=False` anyway.  All the
  `PooledClient`s get the same `max_pool_size` / `pool_idle_timeout` (`pcfg`);
* what the invocation raises is the exception of the inner `Client.call`, classified as in `HashCall` (`OSError` —
  `Exc.sock code`, `code < 100` — marks the server; a `BaseException` — `code ≥ 100` — escapes both handlers; anything
  else is `except Exception`), or the pool's `RuntimeError("Too many objects")`, an `Exception` that is not an
  `OSError` (`except Exception`: nothing is marked).  In sequential use no inner client is checked out between calls, so
  the latter can only happen in the model when `pcfg.maxSize = 0` (`C09_hashpooled_never_too_many`); Python's
  `max_size or 2**31` turns `None` / `0` into "unbounded" — the harness passes `2**31` for `None` and never `0`.

`add_server` — in the constructor and whenever `_retry_dead` brings a dead server back — *replaces* the `PooledClient`
of the server by a new one with an empty pool.  The old `PooledClient` is dropped as it is: `add_server` does not call
its `close()`, so the idle inner clients of the old pool keep their open sockets until the garbage collector finalises
them (`Client` has no `__del__`; the OS socket is closed when the `socket` object is collected).  They are unreachable
from the `HashClient`, hence never read from again — not a C01 matter (a connection leak until collection, at most one
per eviction in sequential use).  In the model the old pool simply disappears from `clients`.

Time: the `HashClient` reads `time.time()` for its bookkeeping — constant during a public call as in `Failover`, `now`;
the pool reads its clock in `get()` — also `now` — and in `release()` — `fin`.  (`destroy` does not read the clock, and
after a `release` — the method returned — the failover code does not read it either, so a monotone clock is covered.)

Covered: the single-key operations `HashClient` runs through `_run_cmd` (`set get gets gat gats add replace append
prepend cas delete incr decr touch`).  Not modelled: `get_many` / `gets_many` / `set_many` / `delete_many` with pooling
(the plain ones are in `HashCallMany.lean`), the broadcast operations `flush_all`, `stats`, `quit`, `close`, the tuple
form of a key as far as validation goes (as in `HashCall.lean`), concurrent use (`PoolConc.lean` is about the pool alone).
-/
namespace HashPooledCall
open Exchange Client Framing Failover HashInner

/-- what a `PooledClient` method can raise -/
inductive PExc
  | inner (e : Exc)           -- the exception of the inner `Client.call`
  | tooManyObjects            -- `RuntimeError("Too many objects")` of `ObjectPool.get`
deriving DecidableEq, Repr

/-- `RuntimeError` is an `Exception` and not an `OSError` -/
def PExc.cls : PExc → ExcClass
  | .inner e => classOf e
  | .tooManyObjects => .other

/-- what the `PooledClient` method returned or raised, from the observation of the pooled call -/
def resOf (ob : PooledCall.PObs) : Except PExc Res :=
  match ob.res with
  | some (.ok r) => .ok r
  | some (.error e) => .error (.inner e)
  | none => .error .tooManyObjects

/-- `use_pooling=True`: the registered object is a `PooledClient(ignore_exc=False)` with pool configuration `pcfg`, an
invocation is one pooled call -/
def pooled (pcfg : Pooled.Cfg) : Inner where
  σ := PooledCall.St
  Obs := PooledCall.PObs
  E := PExc
  fresh := {}
  step := fun ccfg idx now fin p call sc => PooledCall.callP ccfg pcfg false p idx now fin call sc
  res := resOf
  cls := PExc.cls

/-- the state: the bookkeeping state of `Failover`, and per server the `PooledClient` currently registered for it (its
number in order of creation and its pool) -/
abbrev St (pcfg : Pooled.Cfg) := HashInner.St (pooled pcfg)

/-- what a call shows: result, server routed to, number of the `PooledClient` invoked, the observation of the pooled call -/
abbrev HPObs (pcfg : Pooled.Cfg) := HashInner.HObs (pooled pcfg)

/-- one call of a history: routing key, operation, script, time of the call (= checkout time), release time -/
abbrev HPCall (Key : Type) := HashInner.GCall Key

/-- the constructor `HashClient(servers, use_pooling=True, max_pool_size=…, pool_idle_timeout=…)` at time `t0` -/
abbrev init (pcfg : Pooled.Cfg) (servers : List Srv) (t0 : Time) : St pcfg := HashInner.init (pooled pcfg) servers t0

/-- one public single-key call -/
abbrev callHP {Key : Type} (ccfg : Wire.Cfg) (pcfg : Pooled.Cfg) (c : Cfg) (route : List Srv → Key → Option Srv)
    (st : St pcfg) (idx : Nat) (now fin : Time) (rk : Key) (call : Call) (sc : Script) : St pcfg × HPObs pcfg :=
  HashInner.callG ccfg c route st idx now fin rk call sc

/-- run a history; the first call is call number `k` -/
abbrev runHP {Key : Type} (ccfg : Wire.Cfg) (pcfg : Pooled.Cfg) (c : Cfg) (route : List Srv → Key → Option Srv)
    (st : St pcfg) (k : Nat) (calls : List (HPCall Key)) : St pcfg × List (HPObs pcfg) :=
  HashInner.runG ccfg c route st k calls

/-- the inner `Client.call` of an observation, if the pool handed out a client -/
def stepOf {pcfg : Pooled.Cfg} (ob : HPObs pcfg) : Option Step :=
  match ob.inner with
  | some po => po.step
  | none => none

/-- the `Failover.Outcome` of a pooled contact: `HashCall.outcomeOf` of what the `PooledClient` method returned or
raised; the pool's own `RuntimeError` is an `othererror` -/
def outcomeOfP : Option (Except Exc Res) → Outcome
  | some r => HashCall.outcomeOf r
  | none => .othererror
end HashPooledCall
