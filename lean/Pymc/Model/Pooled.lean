/-!
# Sequential use of the pool by `PooledClient` (pool.py 63–120, base.py 1467–1661)

One public call = `get()` (closing idle-expired clients on the way), the body, then `release` (the
with-block ended normally) or `destroy` (it raised; `destroy_on_fail=True`).  A pooled client is an id plus
the connection (socket) it currently holds, if any; connections are ids of their own, allocated when a
client connects.  What the property talks about is the *connection*: the read methods of `PooledClient`
swallow the inner client's exception under `ignore_exc`, so the client object is released and reused,
but its socket was closed by the inner client and the next call reconnects.
Time is in integer ticks; `idleTimeout = 0` means "never expires" (`_idle_clock = float`).
-/
namespace Pooled

structure PClient where
  id : Nat
  conn : Option Nat          -- the open socket this client holds
  lastUsed : Nat
deriving DecidableEq, Repr

structure Cfg where
  maxSize : Nat
  idleTimeout : Nat
deriving Repr

structure St where
  free : List PClient := []
  used : List PClient := []        -- checked-out clients
  nextClient : Nat := 0
  nextConn : Nat := 0
  closed : List Nat := []          -- connection ids closed so far, in order
deriving Repr

/-- what the body of the with-block does -/
inductive Body
  | ok                              -- the inner call returned; its connection stays open
  | fail (connected : Bool)         -- the inner call raised after using (or trying to open) the connection; it propagates
  | failSwallowed (connected : Bool)  -- the same, but a read method swallowed it under ignore_exc
  | rejected                        -- the inner call raised before touching the socket (illegal input); it propagates
  | quitOk
  | quitFail (connected : Bool)     -- `client.quit()` raised (connect or send failed)
deriving DecidableEq, Repr

def clock (cfg : Cfg) (now : Nat) : Nat := if cfg.idleTimeout = 0 then 0 else now

def connList : Option Nat → List Nat
  | some k => [k]
  | none => []

/-- the `while self._free_objs:` loop of `get()`: the client to use (if one is fresh enough), the
remaining free list and the connections closed on the way (`after_remove` = `client.close()`) -/
def popFresh (cfg : Cfg) (t : Nat) : List PClient → Option PClient × List PClient × List Nat
  | [] => (none, [], [])
  | c :: rest =>
    if t - c.lastUsed ≤ cfg.idleTimeout then (some c, rest, [])
    else
      let (r, rest', cl) := popFresh cfg t rest
      (r, rest', connList c.conn ++ cl)

/-- `get()`; `none` = "Too many objects" -/
def get (cfg : Cfg) (s : St) (now : Nat) : St × Option PClient :=
  let t := clock cfg now
  match popFresh cfg t s.free with
  | (some c, rest, cl) =>
    ({ s with free := rest, used := s.used ++ [c], closed := s.closed ++ cl }, some c)
  | (none, rest, cl) =>
    if s.used.length ≥ cfg.maxSize then ({ s with free := rest, closed := s.closed ++ cl }, none)
    else
      let c : PClient := ⟨s.nextClient, none, t⟩
      ({ s with free := rest, used := s.used ++ [c], nextClient := s.nextClient + 1, closed := s.closed ++ cl }, some c)

def isUsed (s : St) (id : Nat) : Bool := s.used.any (·.id = id)
def dropUsed (s : St) (id : Nat) : List PClient := s.used.filter (·.id ≠ id)

/-- `release(obj)`: back to the free list with the connection it holds now -/
def release (cfg : Cfg) (s : St) (c : PClient) (now : Nat) : St :=
  if isUsed s c.id then { s with used := dropUsed s c.id, free := s.free ++ [{ c with lastUsed := clock cfg now }] } else s

/-- `destroy(obj)`: `after_remove` closes whatever connection the client still holds -/
def destroy (s : St) (c : PClient) : St :=
  if isUsed s c.id then { s with used := dropUsed s c.id, closed := s.closed ++ connList c.conn } else s

structure CallObs where
  client : Option Nat := none      -- pooled client that served the call
  io : Option Nat := none          -- connection the commands were sent on (if any)
deriving DecidableEq, Repr

/-- one `PooledClient` call that checks a client out at time `now`, whose body behaves as `b` and which hands the
client back at time `fin` (`release` stamps `_last_used` with the clock at *release* time, so a slow call does
not count as idle time) -/
def callT (cfg : Cfg) (s : St) (now fin : Nat) (b : Body) : St × CallObs :=
  match get cfg s now with
  | (s1, none) => (s1, {})
  | (s1, some c) =>
    -- the connection the inner client uses: the one it holds, or a fresh one
    let fresh := s1.nextConn
    let withConn := fun (s : St) => match c.conn with
      | some k => (s, k)
      | none => ({ s with nextConn := s.nextConn + 1 }, fresh)
    match b with
    | .ok =>
      let (s2, k) := withConn s1
      (release cfg s2 { c with conn := some k } fin, ⟨some c.id, some k⟩)
    | .fail connected =>
      match c.conn, connected with
      | some k, _ => (destroy { s1 with closed := s1.closed ++ [k] } { c with conn := none }, ⟨some c.id, some k⟩)
      | none, true =>
        (destroy { s1 with nextConn := fresh + 1, closed := s1.closed ++ [fresh] } c, ⟨some c.id, some fresh⟩)
      | none, false => (destroy s1 c, ⟨some c.id, none⟩)
    | .failSwallowed connected =>
      match c.conn, connected with
      | some k, _ => (release cfg { s1 with closed := s1.closed ++ [k] } { c with conn := none } fin, ⟨some c.id, some k⟩)
      | none, true =>
        (release cfg { s1 with nextConn := fresh + 1, closed := s1.closed ++ [fresh] } c fin, ⟨some c.id, some fresh⟩)
      | none, false => (release cfg s1 c fin, ⟨some c.id, none⟩)
    | .rejected => (destroy s1 c, ⟨some c.id, none⟩)
    | .quitOk =>
      -- `client.quit()` sends on the connection and closes it; then destroy (finally) and a silent release
      let (s2, k) := withConn s1
      let s3 := destroy { s2 with closed := s2.closed ++ [k] } { c with conn := none }
      (release cfg s3 { c with conn := none } fin, ⟨some c.id, some k⟩)
    | .quitFail connected =>
      match c.conn, connected with
      | some k, _ =>
        let s3 := destroy { s1 with closed := s1.closed ++ [k] } { c with conn := none }
        (destroy s3 { c with conn := none }, ⟨some c.id, some k⟩)
      | none, true =>
        let s3 := destroy { s1 with nextConn := fresh + 1, closed := s1.closed ++ [fresh] } c
        (destroy s3 c, ⟨some c.id, some fresh⟩)
      | none, false => (destroy (destroy s1 c) c, ⟨some c.id, none⟩)

/-- an instantaneous call (checkout and release at the same tick) -/
def call (cfg : Cfg) (s : St) (now : Nat) (b : Body) : St × CallObs := callT cfg s now now b

def run (cfg : Cfg) (s : St) : List (Nat × Body) → St × List CallObs
  | [] => (s, [])
  | (now, b) :: rest =>
    let (s1, u) := call cfg s now b
    let (s2, us) := run cfg s1 rest
    (s2, u :: us)

/-- histories of calls that take time: `(checkout time, release time, body)` -/
def runT (cfg : Cfg) (s : St) : List (Nat × Nat × Body) → St × List CallObs
  | [] => (s, [])
  | (now, fin, b) :: rest =>
    let (s1, u) := callT cfg s now fin b
    let (s2, us) := runT cfg s1 rest
    (s2, u :: us)
end Pooled
