import Pymc.Model.Bytes
/-!
# Key validation — `check_key_helper` (pymemcache/client/base.py 101–125)

`checkKey` is the code after the `fix:` commit that rejects non-empty all-whitespace keys;
`checkKeyOrig` is the code at the pinned commit.  `Legal` is the independent declarative rule of C20.
-/
namespace Key
open Bytes

/-- a key argument: `str` (list of code points) or `bytes` -/
inductive K
  | str (cps : List Nat)
  | bytes (b : Bytes)
deriving DecidableEq, Repr

inductive Err | illegalInput
deriving DecidableEq, Repr

/-- ASCII whitespace as used by `bytes.split()` with no argument -/
def isWs (b : UInt8) : Bool := b = 32 || b = 9 || b = 10 || b = 11 || b = 12 || b = 13

/-- `bytes.split()` (no argument): maximal runs of non-whitespace bytes -/
def splitGo : Bytes → Bytes → List Bytes
  | [], cur => if cur = [] then [] else [cur]
  | x :: r, cur =>
    if isWs x then (if cur = [] then splitGo r [] else cur :: splitGo r [])
    else splitGo r (cur ++ [x])
def pySplitWs (b : Bytes) : List Bytes := splitGo b []

/-- `str.encode("ascii")`: fails on any code point ≥ 128 -/
def encodeAscii (cps : List Nat) : Option Bytes :=
  if cps.all (· < 128) then some (cps.map UInt8.ofNat) else none

/-- UTF-8 encoding of one code point (callers exclude surrogates and values > 0x10FFFF) -/
def utf8Cp (c : Nat) : Bytes :=
  if c < 0x80 then [UInt8.ofNat c]
  else if c < 0x800 then [UInt8.ofNat (0xC0 + c / 64), UInt8.ofNat (0x80 + c % 64)]
  else if c < 0x10000 then
    [UInt8.ofNat (0xE0 + c / 4096), UInt8.ofNat (0x80 + c / 64 % 64), UInt8.ofNat (0x80 + c % 64)]
  else
    [UInt8.ofNat (0xF0 + c / 262144), UInt8.ofNat (0x80 + c / 4096 % 64),
     UInt8.ofNat (0x80 + c / 64 % 64), UInt8.ofNat (0x80 + c % 64)]
def encodeUtf8 (cps : List Nat) : Bytes := cps.flatMap utf8Cp

/-- well-formed Unicode scalar values (what C20 quantifies over for `str` keys) -/
def scalar (c : Nat) : Bool := c < 0xD800 || (0xE000 ≤ c && c < 0x110000)

/-- the encoding step: lines 105–112 -/
def encodeKey (au : Bool) : K → Except Err Bytes
  | .bytes b => .ok b
  | .str cps =>
    if au then .ok (encodeUtf8 cps)
    else match encodeAscii cps with
      | some b => .ok b
      | none => .error .illegalInput

/-- lines 114–125 after the fix (`or (key and not parts)` added to the whitespace test) -/
def checkEncoded (pfx enc : Bytes) : Except Err Bytes :=
  let key := pfx ++ enc
  let parts := pySplitWs key
  if key.length > 250 then .error .illegalInput
  else if parts.length > 1 || (parts ≠ [] && parts.head? ≠ some key) || (key ≠ [] && parts = []) then
    .error .illegalInput
  else if key.contains 0 then .error .illegalInput
  else .ok key

def checkKey (au : Bool) (pfx : Bytes) (k : K) : Except Err Bytes :=
  match encodeKey au k with
  | .ok enc => checkEncoded pfx enc
  | .error e => .error e

/-- the pinned commit's test: without the third disjunct -/
def checkEncodedOrig (pfx enc : Bytes) : Except Err Bytes :=
  let key := pfx ++ enc
  let parts := pySplitWs key
  if key.length > 250 then .error .illegalInput
  else if parts.length > 1 || (parts ≠ [] && parts.head? ≠ some key) then .error .illegalInput
  else if key.contains 0 then .error .illegalInput
  else .ok key

def checkKeyOrig (au : Bool) (pfx : Bytes) (k : K) : Except Err Bytes :=
  match encodeKey au k with
  | .ok enc => checkEncodedOrig pfx enc
  | .error e => .error e

/-! ## the declarative rule (specification, written independently of the code) -/

/-- bytes that may not occur in a wire key: space, tab, LF, VT, FF, CR, NUL -/
def forbidden (b : UInt8) : Bool := b = 32 || b = 9 || b = 10 || b = 11 || b = 12 || b = 13 || b = 0

/-- the encodable keys and their encoding -/
def Encodes (au : Bool) (k : K) (enc : Bytes) : Prop :=
  match k with
  | .bytes b => enc = b
  | .str cps => if au then enc = encodeUtf8 cps else (∀ c ∈ cps, c < 128) ∧ enc = cps.map UInt8.ofNat

/-- `w` is the legal wire form of key `k` under prefix `pfx` -/
def Legal (au : Bool) (pfx : Bytes) (k : K) (w : Bytes) : Prop :=
  ∃ enc, Encodes au k enc ∧ w = pfx ++ enc ∧ w.length ≤ 250 ∧ ∀ b ∈ w, forbidden b = false
end Key
