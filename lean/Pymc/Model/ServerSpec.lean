/-!
# Server-spec spellings — `normalize_server_spec` and `HashClient._make_client_key`

pymemcache/client/base.py lines 128–144 and pymemcache/client/hash.py lines 121–124.

Python `str` values are modelled as `List Char` (code points); `ServerSpec.ofString` embeds `String`.
Modelled input domain: a 2-tuple `(host : str, port : int ≥ 0)` or a `str`.  Anything else (lists,
tuples of other shapes, non-`str` hosts, negative ports, other objects → `ValueError`) is outside the
model.

`int(s)` is modelled only on the fragment "non-empty string of ASCII decimal digits"; on every other
string the model returns `none`, which stands for "`ValueError` *or* outside the modelled fragment"
(CPython's `int` also accepts surrounding whitespace, a sign, `_` separators and non-ASCII digits).
-/
namespace ServerSpec

/-- Python `str` as a list of code points -/
abbrev Str := List Char

/-- input of `normalize_server_spec` -/
inductive Spec
  | tuple (host : Str) (port : Nat)
  | str (s : Str)
deriving DecidableEq, Repr

/-- output of `normalize_server_spec`: a `(host, port)` tuple or a UNIX socket path -/
inductive Norm
  | tuple (host : Str) (port : Nat)
  | path (s : Str)
deriving DecidableEq, Repr

/-- `s.startswith(pre)` -/
def startswith (s pre : Str) : Bool := pre.isPrefixOf s

/-- `s.endswith(suf)` -/
def endswith (s suf : Str) : Bool := suf.isSuffixOf s

/-- `s.rsplit(":", 1)` for an `s` that contains `':'`: `some (before, after)` the LAST colon;
`none` iff `s` contains no colon (Python would then return the one-element list `[s]`) -/
def rsplitColon : Str → Option (Str × Str)
  | [] => none
  | c :: cs =>
    match rsplitColon cs with
    | some (a, b) => some (c :: a, b)
    | none => if c = ':' then some ([], cs) else none

/-- `int(s)` on non-empty ASCII decimal digit strings; `none` otherwise (see the file header) -/
def pyInt (s : Str) : Option Nat :=
  if s ≠ [] ∧ s.all Char.isDigit then
    some (s.foldl (fun acc c => 10 * acc + (c.toNat - '0'.toNat)) 0)
  else none

/-- `s.strip(chars)`: remove leading and trailing code points that occur in `chars` -/
def strip (s chars : Str) : Str :=
  ((s.dropWhile (chars.contains ·)).reverse.dropWhile (chars.contains ·)).reverse

/-- `"%s" % n` / `str(n)` for an `int` `n ≥ 0`: decimal digits, no leading zeros -/
def pyDecimal (n : Nat) : Str := Nat.toDigits 10 n

/-- `normalize_server_spec(server)`; `none` = the `int(...)` call failed (or left the fragment) -/
def normalize : Spec → Option Norm
  | .tuple host port => some (.tuple host port)                      -- isinstance(server, tuple)
  | .str server =>
    if startswith server ['u', 'n', 'i', 'x', ':'] then some (.path (server.drop 5))   -- server[5:]
    else if startswith server ['/'] then some (.path server)
    else
      let hostPort : Option (Str × Nat) :=
        if ':' ∉ server ∨ endswith server [']'] then some (server, 11211)
        else
          match rsplitColon server with
          | some (h, p) => (pyInt p).map fun port => (h, port)
          | none => none                                               -- unreachable: ':' ∈ server
      hostPort.map fun (host, port) =>
        let host := if startswith host ['['] then strip host ['[', ']'] else host
        .tuple host port

/-- `HashClient._make_client_key(server)` on a normalised spec: `"%s:%s" % server` for a tuple,
the string itself for a path.  This is the node name handed to `RendezvousHash`. -/
def clientKey : Norm → Str
  | .tuple host port => host ++ [':'] ++ pyDecimal port
  | .path s => s

/-- the node name for a server spelling given to the `HashClient` constructor
(`add_server(normalize_server_spec(server))`) -/
def nodeName (s : Spec) : Option Str := (normalize s).map clientKey

/-- embedding of Lean strings -/
def Spec.ofString (s : String) : Spec := .str s.toList
def Spec.ofHostPort (host : String) (port : Nat) : Spec := .tuple host.toList port

end ServerSpec
