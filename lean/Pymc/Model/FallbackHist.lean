import Pymc.Model.Fallback
/-!
# FallbackClient as a state machine over histories — pymemcache/fallback.py

One `FallbackClient` object, any sequence of calls on it.  The only attribute of the object is `self.caches`
(line 49); no method assigns it, the application may (`fc.caches = l`, or an in-place edit such as
`fc.caches.insert(0, c)` — expressed here by the resulting list).

* state: the current list of caches; a cache is an identifier plus its scripted answers to the four reads;
* operations: the four reads, the eleven mutating operations with the caller's arguments, `close`, `quit`,
  `stats`, and the reconfiguration step `setCaches l`;
* output of a step: the log of calls received by the caches `(cache id, method, positional arguments)`, in
  order, plus what the call returns.

`step` transliterates the method bodies; `run` threads the state through a history.
-/
namespace FallbackHist

inductive ReadKind | get | gets | getMany | getsMany
deriving DecidableEq, Repr

def ReadKind.name : ReadKind → String
  | .get => "get" | .gets => "gets" | .getMany => "get_many" | .getsMany => "gets_many"

/-- what a cache answers to a read: `None`, an object that is falsy but not `None` (`0`, `b""`, `{}`),
or a truthy object; `v` tells the objects apart -/
inductive Ans
  | none
  | falsy (v : Nat)
  | truthy (v : Nat)
deriving DecidableEq, Repr

def Ans.isNotNone : Ans → Bool
  | .none => false
  | _ => true

def Ans.isTruthy : Ans → Bool
  | .truthy _ => true
  | _ => false

/-- the test that ends the loop: `if result is not None` (lines 77, 91), `if result` (lines 84, 98) -/
def hit : ReadKind → Ans → Bool
  | .get, a => a.isNotNone
  | .gets, a => a.isNotNone
  | .getMany, a => a.isTruthy
  | .getsMany, a => a.isTruthy

/-- a scripted cache: its identity and its answer to every read (by kind and arguments) -/
structure Cache where
  id : Nat
  answer : ReadKind → List String → Ans

inductive WriteKind
  | set | add | replace | append | prepend | cas | delete | incr | decr | touch | flushAll
deriving DecidableEq, Repr

def WriteKind.name : WriteKind → String
  | .set => "set" | .add => "add" | .replace => "replace" | .append => "append" | .prepend => "prepend"
  | .cas => "cas" | .delete => "delete" | .incr => "incr" | .decr => "decr" | .touch => "touch"
  | .flushAll => "flush_all"

/-- the parameters of each mutating method after `self`, with their defaults (lines 56–72, 102–119); the
body forwards all of them positionally, in this order -/
def WriteKind.params : WriteKind → List (String × Option String)
  | .set | .add | .replace | .append | .prepend =>
    [("key", none), ("value", none), ("expire", some "0"), ("noreply", some "True")]
  | .cas => [("key", none), ("value", none), ("cas", none), ("expire", some "0"), ("noreply", some "True")]
  | .delete => [("key", none), ("noreply", some "True")]
  | .incr | .decr => [("key", none), ("value", none), ("noreply", some "True")]
  | .touch => [("key", none), ("expire", some "0"), ("noreply", some "True")]
  | .flushAll => [("delay", some "0"), ("noreply", some "True")]

/-- the value a parameter is bound to: the caller's, else the default, else none at all -/
def pick : Option String → Option String → Option String
  | some v, _ => some v
  | none, d => d

/-- Python's binding of a call to the parameter list: `given` is aligned with the parameters — `some v` the
caller supplied `v` (positionally or by keyword), `none` the caller left it out.  A required parameter
left out, or a wrong number of arguments, is a `TypeError` raised before the body runs (`none`). -/
def bindArgs : List (String × Option String) → List (Option String) → Option (List String)
  | [], [] => some []
  | (_, d) :: ps, g :: gs =>
    match pick g d, bindArgs ps gs with
    | some v, some rest => some (v :: rest)
    | _, _ => none
  | _, _ => none

inductive Op
  | read (k : ReadKind) (args : List String)
  | write (m : WriteKind) (given : List (Option String))
  | close
  | quit
  | stats
  | setCaches (l : List Cache)

/-- one call received by a cache -/
structure Call where
  cache : Nat
  method : String
  args : List String
deriving DecidableEq, Repr

inductive Result
  | none                 -- `None`: fall-through of get/gets, every mutating operation, close/quit/stats
  | emptyList            -- `[]`: fall-through of get_many/gets_many
  | answer (a : Ans)     -- the object a cache answered, unchanged
  | typeError            -- the call could not be bound to the parameters
  | indexError           -- `self.caches[0]` on an empty list
deriving DecidableEq, Repr

structure Out where
  log : List Call
  result : Result
deriving DecidableEq, Repr

/-- `return None` (lines 79, 93) / `return []` (lines 86, 100) -/
def fallThrough : ReadKind → Result
  | .get => .none
  | .gets => .none
  | .getMany => .emptyList
  | .getsMany => .emptyList

/-- `for cache in self.caches: result = cache.<op>(arg); if <hit> result: return result` then the fall-through -/
def readLoop (k : ReadKind) (args : List String) : List Cache → Out
  | [] => ⟨[], fallThrough k⟩
  | c :: rest =>
    if hit k (c.answer k args) then ⟨[⟨c.id, k.name, args⟩], .answer (c.answer k args)⟩
    else ⟨⟨c.id, k.name, args⟩ :: (readLoop k args rest).log, (readLoop k args rest).result⟩

/-- one call on the object: the new list of caches and what was observed -/
def step (s : List Cache) : Op → List Cache × Out
  | .read k args => (s, readLoop k args s)
  | .write m given =>
    match bindArgs m.params given with
    | none => (s, ⟨[], .typeError⟩)
    | some args =>
      match s with
      | [] => (s, ⟨[], .indexError⟩)
      | c :: _ => (s, ⟨[⟨c.id, m.name, args⟩], .none⟩)          -- `self.caches[0].<op>(…)`, result dropped
  | .close => (s, ⟨s.map fun c => ⟨c.id, "close", []⟩, .none⟩)   -- lines 51–54
  | .quit => (s, ⟨[], .none⟩)                                     -- lines 121–123: `pass`
  | .stats => (s, ⟨[], .none⟩)                                    -- lines 114–116: `pass`
  | .setCaches l => (l, ⟨[], .none⟩)                              -- the application: `fc.caches = l`

/-- a history on one object: final list of caches and the output of every step -/
def run (s : List Cache) : List Op → List Cache × List Out
  | [] => (s, [])
  | op :: rest => ((run (step s op).1 rest).1, (step s op).2 :: (run (step s op).1 rest).2)

/-! ## specification, written independently -/

/-- the list that was assigned last (scanning the history left to right), the initial one if none was -/
def lastAssigned (s0 : List Cache) (h : List Op) : List Cache :=
  h.foldl (fun cur op => match op with | .setCaches l => l | _ => cur) s0

/-- the history contains no reconfiguration step -/
def NoSetCaches (h : List Op) : Prop := ∀ op ∈ h, ∀ l, op ≠ .setCaches l

/-! ## objects of the non-vacuity examples in Props/C18.lean -/
def exA : Cache := ⟨0, fun _ _ => .none⟩
def exB : Cache := ⟨1, fun k _ => match k with | .get => .falsy 1 | .gets => .falsy 1 | _ => .none⟩
def exC : Cache := ⟨2, fun _ _ => .truthy 2⟩
def exN : Cache := ⟨9, fun _ _ => .none⟩
def exHist : List Op :=
  [.read .get ["k"], .read .getMany ["[k|j]"], .write .set [some "k", some "v", none, none], .close, .quit,
   .setCaches [exN, exA, exB, exC], .read .gets ["k"], .write .cas [some "k", some "v", some "7", some "60", none],
   .stats, .close, .setCaches [], .read .get ["k"], .read .getsMany ["[k]"], .write .delete [some "k", none],
   .close, .write .incr [some "k"]]

end FallbackHist
