import Pymc.Model.Client
/-!
# The framing assumption on the server, and a sequence of calls on one `Client` object (for C01)

**Reply units.**  The server emits exactly one *reply unit* for every command that expects a reply and
nothing for a `noreply` command.  Inside a unit the content is adversarial (valid replies, error
replies, garbage); only the *extent* of the unit is fixed by the grammar below:

* line commands (`set`, `delete`, `incr`, `touch`, `flush_all`, `version`, …): a `LineUnit`, bytes whose
  first CR LF is their last two bytes;
* raw commands with a non-empty end token `tok`: a `SegUnit tok`, bytes whose first occurrence of `tok`
  is at their very end;
* fetch commands (`get`, `gets`, `gat`, `gats`, and `stats` for the `stats` kind of loop): a `FetchUnit`,
  zero or more value blocks (header line starting with `VALUE` with the expected number of fields and a
  size field that `int()` reads as the length of the data, the data, two more bytes) — and for `stats`
  lines starting with `STAT`/`ITEM` — followed by one final line that starts with none of these words.

`owed cfg c` says which units call `c` is owed; `WellFramed cfg c evs` says that the `recv()` results
`evs` deliver, without fault, exactly those units (cut into pieces arbitrarily).

**Sequences.**  `runCalls` runs calls one after the other on the same object: each call starts with
the socket state the previous one left; if the socket stayed open, what the previous call left unread
is still in the pipe *in front of* whatever arrives during this call; if the call has to connect, the
pipe of the new connection holds only what arrives during this call.  `runTagged` is the same run with
every `recv()` result tagged with the index of the call during which (in answer to whose commands) it
was produced.
-/
namespace Framing
open Bytes Readers Exchange Wire Client

/-! ## reply units -/

/-- a reply line: the first CR LF of `u` is at its very end (`l` is the line without CR LF) -/
def LineUnit (u : Bytes) : Prop := ∃ l, splitLine u = some (l, [])

/-- a reply to a raw command with end token `tok`: the first occurrence of `tok` in `u` is at its very end -/
def SegUnit (tok u : Bytes) : Prop := ∃ s, splitSegment tok u = some (s, [])

/-- `s` is the concatenation of exactly `n` units of the sort `P` -/
def Units (P : Bytes → Prop) (n : Nat) (s : Bytes) : Prop :=
  ∃ us : List Bytes, us.length = n ∧ (∀ u ∈ us, P u) ∧ s = us.flatten

/-- the header line of a value block: starts with `VALUE`, has 4 fields (5 when a cas token is expected),
and `int()` of its fourth field is the number of data bytes that follow -/
def ValueHdr (kind : FetchKind) (hdr : Bytes) (size : Nat) : Prop :=
  startsWith hdr (ofString "VALUE") = true ∧
  (Key.pySplitWs hdr).length = (if kind = .values true then 5 else 4) ∧
  pyInt ((Key.pySplitWs hdr).getD 3 []) = some (size : Int)

/-- the line that ends a fetch reply, as far as its *extent* is concerned: anything that is not the
beginning of a further item (`END`, `OK`, an error line, garbage) -/
def FinalLine (kind : FetchKind) (l : Bytes) : Prop :=
  startsWith l (ofString "VALUE") = false ∧
  (kind = .stats → startsWith l (ofString "STAT") = false ∧ startsWith l (ofString "ITEM") = false)

/-- the reply to one fetch command -/
inductive FetchUnit (kind : FetchKind) : Bytes → Prop
  /-- the final line -/
  | final (u l : Bytes) : splitLine u = some (l, []) → FinalLine kind l → FetchUnit kind u
  /-- a value block `hdr CR LF data xx` followed by the rest of the reply -/
  | value (h hdr data two rest : Bytes) :
      splitLine h = some (hdr, []) → ValueHdr kind hdr data.length → two.length = 2 →
      FetchUnit kind rest → FetchUnit kind (h ++ data ++ two ++ rest)
  /-- (`stats` only) a `STAT …` / `ITEM …` line followed by the rest of the reply -/
  | stat (h l rest : Bytes) :
      kind = .stats → splitLine h = some (l, []) →
      startsWith l (ofString "STAT") = true ∨ startsWith l (ofString "ITEM") = true →
      FetchUnit kind rest → FetchUnit kind (h ++ rest)

/-! ## what a call is owed -/

inductive Owed
  | nothing                      -- the call sends nothing, or asks for `noreply`
  | lines (n : Nat)              -- `n` reply lines (one per command)
  | segment (tok : Bytes)        -- one reply ending with `tok`
  | fetch (kind : FetchKind)     -- one fetch reply
deriving DecidableEq, Repr

/-- does the call get as far as sending (argument checks passed, something to send)?  Found out by
running it on an open, silent connection, as `Client.onServer` does. -/
def sends (cfg : Cfg) (c : Call) : Bool := (Client.call cfg false true c {}).sent.isSome

/-- the effective `noreply` of a call (the argument, else the client's `default_noreply`; `cas`
defaults to `False`; `version` and raw commands always wait; `quit` never does) -/
def effNoreply (cfg : Cfg) : Call → Bool
  | .store verb _ _ _ noreply _ _ =>
      if verb = .cas then boolOr noreply false else boolOr noreply cfg.defaultNoreply
  | .setMany _ _ noreply _ => boolOr noreply cfg.defaultNoreply
  | .delete _ noreply => boolOr noreply cfg.defaultNoreply
  | .deleteMany _ noreply => boolOr noreply cfg.defaultNoreply
  | .arith _ _ _ noreply => noreply
  | .touch _ _ noreply => boolOr noreply cfg.defaultNoreply
  | .flushAll _ noreply => boolOr noreply cfg.defaultNoreply
  | .quit => true
  | _ => false

/-- the reply units the server owes for what call `c` sends: one per command, none with `noreply` -/
def owed (cfg : Cfg) (c : Call) : Owed :=
  if !sends cfg c || effNoreply cfg c then .nothing else
  match c with
  | .store .. => .lines 1
  | .setMany items .. => .lines items.length
  | .get _ => .fetch (.values false)
  | .gat _ _ => .fetch (.values false)
  | .getMany _ => .fetch (.values false)
  | .gets _ => .fetch (.values true)
  | .gats _ _ => .fetch (.values true)
  | .getsMany _ => .fetch (.values true)
  | .delete .. => .lines 1
  | .deleteMany ks _ => .lines ks.length
  | .arith .. => .lines 1
  | .touch .. => .lines 1
  | .flushAll .. => .lines 1
  | .version => .lines 1
  | .quit => .nothing
  | .raw _ tok => if tok = [] then .lines 1 else .segment tok
  | .stats _ => .fetch .stats
  | .cacheMemlimit _ => .fetch (.values false)   -- read by `_fetch_cmd`'s loop: `OK`, or an error line
  | .shutdown _ => .lines 1                      -- an error line when shutdown is not enabled; a server that
                                                 -- does shut down sends nothing and closes (`FaultFramed`)

/-- the byte stream `s` consists of exactly the owed units -/
def Owed.Matches : Owed → Bytes → Prop
  | .nothing, s => s = []
  | .lines n, s => Units LineUnit n s
  | .segment tok, s => SegUnit tok s
  | .fetch kind, s => FetchUnit kind s

/-- the `recv()` results of a call deliver, without fault and cut into arbitrary non-empty pieces,
exactly the reply units owed to the call -/
def WellFramed (cfg : Cfg) (c : Call) (evs : List Ev) : Prop :=
  clean evs ∧ (owed cfg c).Matches (joinData evs)

/-- the reply units owed for one *request* as the server sees it (`noreply` is read off the wire) -/
def reqOwed (r : Req) : Owed :=
  if AbsMap.reqNoreply r then .nothing else
  match r with
  | .fetch verb _ _ => .fetch (.values (verb = .gets || verb = .gats))
  | _ => .lines 1

/-- `s` is the concatenation of the units owed for the requests, in order -/
def ReqsMatch : List Req → Bytes → Prop
  | [], s => s = []
  | r :: rest, s => ∃ u t, s = u ++ t ∧ (reqOwed r).Matches u ∧ ReqsMatch rest t

/-- the keys of a fetch request are keys a strict server accepts (`Wire.parseReq` guarantees it) -/
def reqKeysValid : Req → Prop
  | .fetch _ _ keys => ∀ k ∈ keys, validKey k = true
  | _ => True

/-! ## the same with a connection that may break

The server still emits exactly the owed units, but the connection may deliver only a prefix of them and
then fail (end-of-stream, timeout, reset — at any byte), or fail later, after the reply. -/

/-- a `recv()` that ends the conversation: end-of-stream or an exception -/
def isFault : Ev → Bool
  | .data [] => true
  | .err _ => true
  | _ => false

/-- the `recv()` results up to and including the first fault; whatever the connection would do after
that is dropped -/
def cutAtFault : List Ev → List Ev
  | [] => []
  | .data [] :: _ => [.data []]
  | .err c :: _ => [.err c]
  | e :: r => e :: cutAtFault r

/-- no byte can be read from this pipe without first running into a fault: interrupted attempts, then
either nothing at all or a fault (and after a fault anything) -/
def quiet : List Ev → Prop
  | [] => True
  | .eintr :: r => quiet r
  | .data b :: _ => b = []
  | .err _ :: _ => True

/-- the connection breaks here: nothing more ever arrives (running out of events is end-of-stream),
or the next `recv()` is a fault -/
def broken : List Ev → Prop
  | [] => True
  | e :: _ => isFault e = true

/-- the `recv()` results of a call deliver without fault `pre`, then `post`, where either `pre` carries
exactly the owed units and `post` carries no byte before a fault, or `pre` carries only a strict
prefix of the owed units and the connection then breaks -/
def FaultFramed (cfg : Cfg) (c : Call) (evs : List Ev) : Prop :=
  ∃ pre post, evs = pre ++ post ∧ clean pre ∧
    (((owed cfg c).Matches (joinData pre) ∧ quiet post) ∨
     ((∃ more, more ≠ [] ∧ (owed cfg c).Matches (joinData pre ++ more)) ∧ broken post))

/-- the exceptions a call raises *after* its exchange has returned normally (socket open, reply
consumed): `incr`/`decr` apply `int()` to the reply line, `version` rejects a line that does not
start with `VERSION ` -/
def postProcessingError : Call → Exc → Prop
  | .arith .., .valueError => True
  | .version, .unknownError _ => True
  | _, _ => False

/-! ## a sequence of calls on one object -/

/-- the `recv()` results call `k` can see: what is still in the pipe (only if the socket is still
open), then what arrives during the call -/
def available {α} (sockOpen : Bool) (leftover own : List α) : List α :=
  if sockOpen then leftover ++ own else own

/-- run the calls one after the other, starting with socket state `sockOpen` and `leftover` in the pipe -/
def runFrom (cfg : Cfg) (ignoreExc : Bool) :
    (sockOpen : Bool) → (leftover : List Ev) → List (Call × Script) → List (CallOut Res)
  | _, _, [] => []
  | so, left, (c, sc) :: rest =>
    let o := Client.call cfg ignoreExc so c { sc with evs := available so left sc.evs }
    o :: runFrom cfg ignoreExc o.sockOpen o.unread rest

/-- a run that starts at a call boundary with nothing in the pipe -/
def runCalls (cfg : Cfg) (ignoreExc : Bool) (sockOpen : Bool) (calls : List (Call × Script)) :
    List (CallOut Res) :=
  runFrom cfg ignoreExc sockOpen [] calls

/-- a `recv()` result tagged with the index of the call whose commands provoked it -/
abbrev TEv := Nat × Ev

/-- what happened during one call of a tagged run -/
structure Step where
  idx : Nat                 -- position of the call in the sequence
  out : CallOut Res
  avail : List TEv          -- what was in the pipe / arrived, in order
  consumed : List TEv       -- the part of `avail` the call took (`avail` minus what it left unread)
  leftover : List TEv       -- the part it left
deriving Repr

def runTaggedFrom (cfg : Cfg) (ignoreExc : Bool) :
    (k : Nat) → (sockOpen : Bool) → (leftover : List TEv) → List (Call × Script) → List Step
  | _, _, _, [] => []
  | k, so, left, (c, sc) :: rest =>
    let avail := available so left (sc.evs.map fun e => (k, e))
    let o := Client.call cfg ignoreExc so c { sc with evs := avail.map (·.2) }
    let nConsumed := avail.length - o.unread.length
    ⟨k, o, avail, avail.take nConsumed, avail.drop nConsumed⟩ ::
      runTaggedFrom cfg ignoreExc (k + 1) o.sockOpen (avail.drop nConsumed) rest

/-- what a call can possibly receive from the pipe: everything before the first fault (receiving a
fault raises and closes the socket) -/
def readable : List TEv → List TEv
  | [] => []
  | te :: r => if isFault te.2 then [] else te :: readable r

def runTagged (cfg : Cfg) (ignoreExc : Bool) (sockOpen : Bool) (calls : List (Call × Script)) : List Step :=
  runTaggedFrom cfg ignoreExc 0 sockOpen [] calls
end Framing
