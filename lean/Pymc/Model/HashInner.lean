import Pymc.Model.HashCall
/-!
# `HashClient ∘ <inner object>`: the failover code of `HashClient` around an arbitrary registered object

`HashCall.lean` composes the failover bookkeeping (`Failover.lean`) with `Client.call` for `use_pooling=False`, where the
object registered in `self.clients` for a server is one `Client`.  This file is the same development with *what a contact
does* as a parameter (`Inner`): the state of the object `add_server` registers for a server, what one invocation
`func(*args, **kwargs)` of `_safely_run_func` does to it, what the invocation returns or raises, and how `_safely_run_func`
classifies what it raises (`except OSError` / `except Exception` / neither).  Everything else — `add_server` in the
constructor and in `_retry_dead`, `_get_client`, `_safely_run_func`, `_run_cmd` — is the code of `HashCall.lean`, word
for word (hash.py 116–140, 157–237, 319–328); the single-key `_run_cmd` family is covered, the multi-key operations are not.

Instances: `HashPooledCall.pooled` (`use_pooling=True`: the registered object is a `PooledClient`, its state the pool
`PooledCall.St`, an invocation one `PooledCall.callP`), and `HashInner.plain` (one `Client`, an invocation one
`PooledCall.stepTagged`: the model of `HashCall.lean`, see `Proofs/HashInnerPlain.lean`).
-/
namespace HashInner
open Exchange Client Framing Failover

/-- how `_safely_run_func` treats an exception: `base` — a `BaseException` that is not an `Exception`, caught by neither
clause; `oserror` — `except OSError`; `other` — `except Exception` -/
inductive ExcClass
  | base | oserror | other
deriving DecidableEq, Repr

/-- the class of an exception raised by `Client.call` (as in `HashCall.onError`) -/
def classOf (e : Exc) : ExcClass :=
  if isBaseExc e then .base else if HashCall.isOSError e then .oserror else .other

/-- what the object registered in `self.clients` for one server is and does -/
structure Inner where
  /-- the state of the object -/
  σ : Type
  /-- what one invocation shows -/
  Obs : Type
  /-- what an invocation can raise -/
  E : Type
  /-- the object `add_server` creates -/
  fresh : σ
  /-- `func(*args, **kwargs)`: public call number `idx`, started at time `now` and over at time `fin` -/
  step : Wire.Cfg → (idx : Nat) → (now fin : Nat) → σ → Call → Script → σ × Obs
  /-- what the invocation returned or raised -/
  res : Obs → Except E Res
  cls : E → ExcClass

/-- an object registered in `self.clients`: its number in order of creation, and its state -/
structure Obj (I : Inner) where
  id : Nat
  st : I.σ

structure St (I : Inner) where
  fo : State                                  -- `hasher.nodes`, `_failed_clients`, `_dead_clients`, `_last_dead_check_time`
  clients : List (Srv × Obj I) := []          -- `self.clients` (insertion order; a re-added server keeps its position)
  nextObj : Nat := 0

variable {I : Inner}

/-- forget the registered objects: the state of the abstract model `Failover` -/
def St.proj (s : St I) : State := s.fo

/-- the `client = _class(server, **self.default_kwargs); self.clients[key] = client` of `add_server`: the old object,
if there was one, is dropped as it is (nothing is closed) and never used again -/
def newClient (st : St I) (s : Srv) : St I :=
  { st with clients := ainsert s { id := st.nextObj, st := I.fresh } st.clients, nextObj := st.nextObj + 1 }

def initClients : List Srv → St I → St I
  | [], st => st
  | s :: r, st => initClients r (newClient st s)

/-- the constructor: `add_server` for every server of the list, in order; the bookkeeping starts as in `Failover.init` -/
def init (I : Inner) (servers : List Srv) (t0 : Time) : St I :=
  initClients servers { fo := Failover.init servers t0 }

/-! ## `_retry_dead` / `_get_client` -/

/-- the loop `for server in candidates: self.add_server(server); del self._dead_clients[server]` -/
def reviveAll : List Srv → St I → Option (St I)
  | [], st => some st
  | s :: r, st =>
    match aerase s st.fo.dead with
    | none => none
    | some d => reviveAll r { newClient st s with fo := { st.fo with nodes := addNode s st.fo.nodes, dead := d } }

/-- `_retry_dead()` -/
def retryDead (c : Cfg) (now : Time) (st : St I) : Option (St I) :=
  if now - st.fo.lastDeadCheck > c.dt then
    let candidates := (st.fo.dead.filter (fun p => decide (now - p.2 > c.dt))).map Prod.fst
    match reviveAll candidates st with
    | none => none
    | some st' => some { st' with fo := { st'.fo with lastDeadCheck := now } }
  else some st

/-- `if self._dead_clients: self._retry_dead()` -/
def retryIfDead (c : Cfg) (now : Time) (st : St I) : Option (St I) :=
  if st.fo.dead.isEmpty then some st else retryDead c now st

inductive Got (I : Inner)
  | client (s : Srv) (x : Obj I) | noClient | allDown | internalError

/-- `_get_client(key)` after the key check; `self.clients[server]` raising `KeyError` is `internalError` -/
def getClient {Key : Type} (c : Cfg) (route : List Srv → Key → Option Srv) (now : Time) (st : St I) (key : Key) :
    St I × Got I :=
  match retryIfDead c now st with
  | none => (st, .internalError)
  | some st1 =>
    match route st1.fo.nodes key with
    | none => if c.ignoreExc then (st1, .noClient) else (st1, .allDown)
    | some s =>
      match alookup s st1.clients with
      | none => (st1, .internalError)
      | some x => (st1, .client s x)

/-! ## the invocation and what it means for the bookkeeping -/

/-- what an exception of the invocation is for the bookkeeping (a `BaseException` is caught by neither handler: nothing
is marked, which for the bookkeeping is what `Outcome.othererror` does) -/
def clsOutcome : ExcClass → Outcome
  | .oserror => .oserror
  | _ => .othererror

/-- the `Failover.Outcome` of a contact, from what the invocation returned or raised -/
def outcomeOf (I : Inner) : Except I.E Res → Outcome
  | .ok _ => .ok
  | .error e => clsOutcome (I.cls e)

/-- what a `HashClient` method returned or raised -/
inductive HRes (E : Type)
  | value (r : Res)               -- the result of the registered object's method
  | default                       -- `default_val`
  | raised (s : Srv) (e : E)      -- the exception raised by the object of server `s` escaped
  | allDown                       -- MemcacheError("All servers seem to be down right now")
  | illegalKey                    -- MemcacheIllegalInputError from `check_key_helper` in `_get_client`
  | internalError                 -- KeyError / ValueError of the bookkeeping itself
deriving DecidableEq, Repr

/-- `func(*args, **kwargs)` on the object `x` registered for server `s`; the object stays registered under `s` in the
state the invocation left it in -/
def contact (ccfg : Wire.Cfg) (idx : Nat) (now fin : Time) (st : St I) (s : Srv) (x : Obj I) (call : Call) (sc : Script) :
    St I × I.Obs :=
  ({ st with clients := ainsert s { x with st := (I.step ccfg idx now fin x.st call sc).1 } st.clients },
    (I.step ccfg idx now fin x.st call sc).2)

/-- the two `except` clauses of `_safely_run_func` for exception `e` raised by the object of server `s` -/
def onError (c : Cfg) (now : Time) (st : St I) (s : Srv) (e : I.E) : St I × HRes I.E :=
  match I.cls e with
  | .base => (st, .raised s e)                            -- neither `except OSError` nor `except Exception`
  | .oserror =>
    match markFailed c now st.fo s with
    | none => (st, .internalError)
    | some fo' => if c.ignoreExc then ({ st with fo := fo' }, .default) else ({ st with fo := fo' }, .raised s e)
  | .other => if c.ignoreExc then (st, .default) else (st, .raised s e)

/-- `result = func(*args, **kwargs)` with what follows it: `return result`, preceded in the retry branch
(`clear`) by `self._failed_clients.pop(client.server)`; or one of the handlers -/
def invoke (ccfg : Wire.Cfg) (c : Cfg) (idx : Nat) (now fin : Time) (st : St I) (s : Srv) (x : Obj I) (call : Call)
    (sc : Script) (clear : Bool) : St I × HRes I.E × Option I.Obs :=
  match contact ccfg idx now fin st s x call sc with
  | (st1, ob) =>
    match I.res ob with
    | .ok r =>
      if clear then
        match aerase s st1.fo.failed with
        | none => (st1, .internalError, some ob)
        | some f => ({ st1 with fo := { st1.fo with failed := f } }, .value r, some ob)
      else (st1, .value r, some ob)
    | .error e =>
      match onError c now st1 s e with
      | (st2, r) => (st2, r, some ob)

/-- `_safely_run_func(client, func, default_val, …)` for the object `x` of server `s` -/
def safelyRunFunc (ccfg : Wire.Cfg) (c : Cfg) (idx : Nat) (now fin : Time) (st : St I) (s : Srv) (x : Obj I) (call : Call)
    (sc : Script) : St I × HRes I.E × Option I.Obs :=
  match alookup s st.fo.failed with
  | some (attempts, failedTime) =>
    if attempts < c.ra then
      if now - failedTime > c.rt then invoke ccfg c idx now fin st s x call sc true
      else (st, .default, none)
    else
      match removeServer now st.fo s with
      | none => (st, .internalError, none)
      | some fo' => invoke ccfg c idx now fin { st with fo := fo' } s x call sc false
  | none => invoke ccfg c idx now fin st s x call sc false

/-! ## the single-key operations -/

/-- what a `HashClient` call shows -/
structure HObs (I : Inner) where
  res : HRes I.E
  server : Option Srv := none      -- the server the key was routed to
  obj : Option Nat := none         -- the registered object that was invoked (`none`: no contact)
  inner : Option I.Obs := none     -- what the invocation showed

/-- one public single-key call of the `HashClient` (`_run_cmd`): call number `idx` of the history, at time `now` (the
invocation of the registered object being over at time `fin`), routing key `rk` (`server_key`), the operation `call`
with the script `sc` of what the connection used meanwhile does -/
def callG {Key : Type} (ccfg : Wire.Cfg) (c : Cfg) (route : List Srv → Key → Option Srv) (st : St I) (idx : Nat)
    (now fin : Time) (rk : Key) (call : Call) (sc : Script) : St I × HObs I :=
  if !HashCall.keyOk ccfg call then (st, { res := .illegalKey })
  else
    match getClient c route now st rk with
    | (st1, .internalError) => (st1, { res := .internalError })
    | (st1, .allDown) => (st1, { res := .allDown })
    | (st1, .noClient) => (st1, { res := .default })
    | (st1, .client s x) =>
      match safelyRunFunc ccfg c idx now fin st1 s x call sc with
      | (st2, r, ob) => (st2, { res := r, server := some s, obj := ob.map fun _ => x.id, inner := ob })

/-- one call of a history -/
structure GCall (Key : Type) where
  rk : Key
  call : Call
  sc : Script := {}
  now : Time
  fin : Time := now

/-- run the calls one after the other; the first one is call number `k` -/
def runG {Key : Type} (ccfg : Wire.Cfg) (c : Cfg) (route : List Srv → Key → Option Srv) :
    (st : St I) → (k : Nat) → List (GCall Key) → St I × List (HObs I)
  | st, _, [] => (st, [])
  | st, k, gc :: rest =>
    match callG ccfg c route st k gc.now gc.fin gc.rk gc.call gc.sc with
    | (st1, ob) =>
      match runG ccfg c route st1 (k + 1) rest with
      | (st2, obs) => (st2, ob :: obs)

/-! ## the history of the abstract model -/

/-- what the contacted server did, in the vocabulary of `Failover` (irrelevant when no server was contacted) -/
def outcomeOfObs (ob : HObs I) : Outcome :=
  match ob.inner with
  | some o => outcomeOf I (I.res o)
  | none => .ok

/-- the contact log of the call -/
def contactsOfObs (now : Time) (ob : HObs I) : List Contact :=
  match ob.server, ob.inner with
  | some s, some o => [(s, now, outcomeOf I (I.res o))]
  | _, _ => []

/-- the result in the vocabulary of `Failover`.  The abstract model has no `BaseException`: it sees a non-`OSError`
failure, which `ignore_exc` would swallow. -/
def absRes (I : Inner) (c : Cfg) : HRes I.E → Result
  | .value _ => .value
  | .default => .default
  | .raised s e => if c.ignoreExc && decide (I.cls e = .base) then .default else .raisedServerError s (clsOutcome (I.cls e))
  | .allDown => .raisedAllDown
  | .illegalKey => .internalError          -- never used: such a call is not an event of the abstract history
  | .internalError => .internalError

def isIllegalKey {E : Type} : HRes E → Bool
  | .illegalKey => true
  | _ => false

def isInternalError {E : Type} : HRes E → Bool
  | .internalError => true
  | _ => false

/-- the event of the abstract history a composed call gives rise to: none when `check_key_helper` rejected the key
(nothing of the failover code runs), else a `_run_cmd` at the same time on the same routing key in an environment
where every server does what the one contacted did -/
def eventOf {Key : Type} (gc : GCall Key) (ob : HObs I) : Option (Event Key) :=
  if isIllegalKey ob.res then none else some { now := gc.now, env := fun _ => outcomeOfObs ob, op := .runCmd gc.rk }

def eventsOf {Key : Type} : List (GCall Key) → List (HObs I) → List (Event Key)
  | gc :: rest, ob :: obs =>
    (match eventOf gc ob with | some e => [e] | none => []) ++ eventsOf rest obs
  | _, _ => []

/-- the per-event outputs of `Failover.run` the composed observations correspond to -/
def absOuts {Key : Type} (c : Cfg) : List (GCall Key) → List (HObs I) → List (Result × List Contact)
  | gc :: rest, ob :: obs =>
    (if isIllegalKey ob.res then [] else [(absRes I c ob.res, contactsOfObs gc.now ob)]) ++ absOuts c rest obs
  | _, _ => []

/-- all contacts of a composed run, in chronological order: (server, time, what the invocation did) -/
def contactLog {Key : Type} : List (GCall Key) → List (HObs I) → List Contact
  | gc :: rest, ob :: obs => contactsOfObs gc.now ob ++ contactLog rest obs
  | _, _ => []

/-- the clock never goes back: call times are non-decreasing, starting at or after `t0` -/
def ChronoCalls {Key : Type} (t0 : Time) : List (GCall Key) → Prop
  | [] => True
  | gc :: rest => t0 ≤ gc.now ∧ ChronoCalls gc.now rest

/-! ## the instance of `HashCall.lean`: the registered object is one `Client` -/

/-- a `Client` object: whether it holds a socket, what is left unread in that socket's pipe -/
structure Sock where
  sockOpen : Bool := false
  pipe : List TEv := []
deriving Repr

/-- `use_pooling=False`: an invocation is one `Client.call` (`PooledCall.stepTagged`, `ignore_exc=False`) -/
def plain : Inner where
  σ := Sock
  Obs := Step
  E := Exc
  fresh := {}
  step := fun ccfg idx _ _ x call sc =>
    (⟨(PooledCall.stepTagged ccfg idx x.sockOpen x.pipe call sc).out.sockOpen,
      (PooledCall.stepTagged ccfg idx x.sockOpen x.pipe call sc).leftover⟩,
     PooledCall.stepTagged ccfg idx x.sockOpen x.pipe call sc)
  res := fun stp => stp.out.res
  cls := classOf
end HashInner
