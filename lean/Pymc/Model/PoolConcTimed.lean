import Pymc.Model.PoolConc
/-!
# Timed micro-step interleaving model of `pymemcache.pool.ObjectPool` (property C09, overlapping callers)

`PoolConc` (C08) with a clock and the `_last_used` stamps of pool.py.  Nothing of `PoolConc` is changed: a
timed state *contains* a `PoolConc.State` (`base`), every micro-step of a thread is a micro-step of
`PoolConc.stepE` on `base` whose label is no longer chosen by the schedule, and the three statements of
pool.py that `PoolConc` abstracts from are additional micro-steps of their own (they leave `base` alone):

* `get`, line 79, `now = self._idle_clock()`: the first statement inside `with self._lock`
  (`Pend.readNow`, event `clock v`): the thread's local `now` becomes the current clock value;
* `get`, line 97, `obj._last_used = now`, after `self._used_objs.append(obj)` and still inside the `with`
  (`Pend.stampGet o`, event `stamp o v`);
* `release`, line 117, `obj._last_used = self._idle_clock()`, after `self._free_objs.append(obj)` and still
  inside the `with` (`Pend.stampRel o`, events `clock v`, `stamp o v`: one statement).

A thread that owes one of these statements (`pend t ≠ none`) performs it as its next micro-step.
The idle test of `get` (line 82, `now - obj._last_used <= self.idle_timeout`) is deterministic: the label
handed to `PoolConc.stepE` at `Pc.getTest o f` is `fresh` iff `now t - lastUsed o ≤ idleTimeout` (truncated
subtraction: a stamp later than `now` counts as "not idle", as the negative difference does in Python),
`expired` otherwise; `expired` removes the object and calls `after_remove` (`PoolConc.close`).
The environment may advance the clock between any two micro-steps (`TLabel.tick d`); it never goes back.
The only remaining nondeterminism besides the interleaving and the clock is the failing creator
(`TLabel.runCreateFail t`).

`outside = true` is the VARIANT `releaseStampOutsideLock` (not pool.py): `release` leaves its `with` block
before it writes the stamp.  It exists only for `C09_conc_stamp_outside_lock_counterexample`.

Abstractions in addition to those of `PoolConc`: time is a natural number; `idle_timeout` is non-zero
(with `idle_timeout = 0` pool.py uses the constant clock `float`, i.e. the runs without `tick`);
the `_last_used` of a new object is first written by `get` (line 97) and is never read before that (a new
object is not tested).
-/
namespace PoolConcT
open PoolConc

/-- the statement of pool.py a thread owes before its next `PoolConc` micro-step -/
inductive Pend
  | none
  | readNow                 -- get():     `now = self._idle_clock()`
  | stampGet (o : Obj)      -- get():     `obj._last_used = now`
  | stampRel (o : Obj)      -- release(): `obj._last_used = self._idle_clock()`
deriving DecidableEq, Repr

structure TState where
  base : State
  clock : Nat               -- what `self._idle_clock()` returns when called now
  idleTimeout : Nat
  lastUsed : Obj → Nat      -- `obj._last_used`
  now : Tid → Nat           -- the local `now` of the thread's `get`
  pend : Tid → Pend

inductive TLabel
  | tick (d : Nat)            -- the clock advances by `d`
  | run (t : Tid)             -- thread `t` performs its next micro-step
  | runCreateFail (t : Tid)   -- thread `t` is at `obj_creator()` and the creator raises
deriving DecidableEq, Repr

inductive TEvent
  | base (e : Event)
  | tick (d : Nat)
  | clock (v : Nat)           -- a call of `self._idle_clock()` returned `v`
  | stamp (o : Obj) (v : Nat) -- `obj._last_used = v`
deriving DecidableEq, Repr

def TEvent.render : TEvent → String
  | .base e => e.render
  | .tick d => s!"tick {d}"
  | .clock v => s!"clock {v}"
  | .stamp o v => s!"stamp {o} {v}"

def upd {α : Type} (f : Nat → α) (k : Nat) (v : α) : Nat → α := fun x => if x = k then v else f x

def initT (programs : List Program) (maxSize idleTimeout : Nat) : TState :=
  { base := init programs maxSize, clock := 0, idleTimeout := idleTimeout, lastUsed := fun _ => 0,
    now := fun _ => 0, pend := fun _ => .none }

/-- the idle test of `get`, line 82 -/
def idleAnswer (s : TState) (t : Tid) (o : Obj) : Label :=
  if s.now t - s.lastUsed o ≤ s.idleTimeout then .fresh else .expired

/-- the `PoolConc` label of the next micro-step of thread `t` (the creator succeeds) -/
def labelOf (s : TState) (t : Tid) : Label :=
  match (s.base.th t).pc with
  | .getTest o _ => idleAnswer s t o
  | _ => .tau

/-- what the thread owes after a `PoolConc` micro-step taken at program counter `pc` with label `l` -/
def pendAfter (pc : Pc) (prog : Program) (l : Label) : Pend :=
  match pc, l with
  | .idle, _ =>
    match prog with
    | op :: _ => if op.fin.isSome then .readNow else .none
    | [] => .none
  | .getTest o _, .fresh => .stampGet o
  | .getAppend o _, _ => .stampGet o
  | .relAppend o, _ => .stampRel o
  | _, _ => .none

/-- a `PoolConc` micro-step of thread `t` on `base` -/
def baseStep (s : TState) (t : Tid) (l : Label) : Option (TState × List TEvent) :=
  match stepE s.base t l with
  | some (b, evs) =>
    some ({ s with base := b, pend := upd s.pend t (pendAfter (s.base.th t).pc (s.base.th t).prog l) },
          evs.map .base)
  | none => none

/-- One micro-step and its events; `none` = not enabled.  `outside = false` is pool.py. -/
def stepTE (outside : Bool) (s : TState) : TLabel → Option (TState × List TEvent)
  | .tick d => some ({ s with clock := s.clock + d }, [.tick d])
  | .runCreateFail t =>
    match s.pend t with
    | .none => baseStep s t .createFail
    | _ => none
  | .run t =>
    match s.pend t with
    | .none => baseStep s t (labelOf s t)
    | .readNow => some ({ s with now := upd s.now t s.clock, pend := upd s.pend t .none }, [.clock s.clock])
    | .stampGet o =>
      some ({ s with lastUsed := upd s.lastUsed o (s.now t), pend := upd s.pend t .none }, [.stamp o (s.now t)])
    | .stampRel o =>
      if outside && decide ((s.base.th t).pc = .relRel) then
        -- VARIANT only: leave the `with` block first, the stamp stays owed
        match stepE s.base t .tau with
        | some (b, evs) => some ({ s with base := b }, evs.map .base)
        | none => none
      else
        some ({ s with lastUsed := upd s.lastUsed o s.clock, pend := upd s.pend t .none },
              [.clock s.clock, .stamp o s.clock])

def stepT (outside : Bool) (s : TState) (l : TLabel) : Option TState := (stepTE outside s l).map Prod.fst

/-- run a schedule; `none` as soon as a scheduled step is not enabled -/
def runT (outside : Bool) (s : TState) : List TLabel → Option TState
  | [] => some s
  | l :: rest =>
    match stepT outside s l with
    | some s' => runT outside s' rest
    | none => none

/-- states of pool.py's timed model reachable from the initial state -/
def ReachableT (programs : List Program) (maxSize idleTimeout : Nat) (s : TState) : Prop :=
  ∃ ls, runT false (initT programs maxSize idleTimeout) ls = some s

/-- the `PoolConc` schedule of a timed run: clock ticks and the three stamp statements disappear, the idle
test gets the answer the clock and the stamps give it -/
def projSched (outside : Bool) (s : TState) : List TLabel → List (Tid × Label)
  | [] => []
  | l :: rest =>
    match stepT outside s l with
    | none => []
    | some s' =>
      let here : List (Tid × Label) :=
        match l with
        | .tick _ => []
        | .runCreateFail t => [(t, .createFail)]
        | .run t =>
          match s.pend t with
          | .none => [(t, labelOf s t)]
          | .stampRel _ => if outside && decide ((s.base.th t).pc = .relRel) then [(t, .tau)] else []
          | _ => []
      here ++ projSched outside s' rest

/-- events of a schedule from the initial state, rendered; `disabled` marks a step that is not enabled -/
def runEventsT (outside : Bool) (s : TState) : List TLabel → List String
  | [] => []
  | l :: rest =>
    match stepTE outside s l with
    | some (s', evs) => evs.map TEvent.render ++ runEventsT outside s' rest
    | none => ["disabled"]

/-- `n` consecutive micro-steps of thread `t` -/
def runs (t : Tid) (n : Nat) : List TLabel := List.replicate n (.run t)

/-- `o` has been in the free list without interruption since the clock showed `t0`: the run `ls` from `s0`
contains the micro-step `self._free_objs.append(o)` of some thread `u` (the step taken at `Pc.relAppend o`),
taken when the clock showed `t0`, and `good` (instantiated with "o is in `_free_objs`", resp. "… or has just
been popped by the `get` that is testing it") holds in every state of the run from that step on. -/
def FreeSince (outside : Bool) (s0 : TState) (ls : List TLabel) (o : Obj) (t0 : Nat) (good : TState → Prop) : Prop :=
  ∃ pre post u sa, ls = pre ++ .run u :: post ∧ runT outside s0 pre = some sa ∧
    (sa.base.th u).pc = .relAppend o ∧ sa.pend u = .none ∧ sa.clock = t0 ∧
    ∀ post1 post2 s1, post = post1 ++ post2 → runT outside sa (.run u :: post1) = some s1 → good s1

/-- clock values at which `self._free_objs.append(o)` was executed along a run (decidable companion of
`FreeSince`, used to refute it on a concrete run) -/
def appendTimes (outside : Bool) (s : TState) (o : Obj) : List TLabel → List Nat
  | [] => []
  | l :: rest =>
    let here : List Nat :=
      match l with
      | .run u => if (s.base.th u).pc = .relAppend o ∧ s.pend u = .none then [s.clock] else []
      | _ => []
    match stepT outside s l with
    | none => here
    | some s' => here ++ appendTimes outside s' o rest

/-- decidable check of a predicate on the state reached by a run (for `decide` examples) -/
def runCheckT (outside : Bool) (s0 : TState) (ls : List TLabel) (p : TState → Bool) : Bool :=
  match runT outside s0 ls with
  | some s => p s
  | none => false

/-! ## text interface (line-protocol driver): validation of a recorded trace of the real pool -/

/-- Validate an interleaved trace `(tid, event)` of the real pool (events of `PoolConc` plus `tick d`,
`clock v`, `stamp o v`) as a run of the timed model: every recorded event must be the next event of an
enabled micro-step of the recording thread (`tick` is the environment's), with the model's own clock
values and stamps.  `owed`: events of a multi-event micro-step not yet seen, per thread. -/
def validate (outside : Bool) (s : TState) (owed : List (Nat × List String)) : List (Nat × String) → Nat → String
  | [], n =>
    if owed.all (·.2.isEmpty) then s!"ok valid steps={n}" else "ok INVALID end-of-trace with events owed by the model"
  | (t, ev) :: rest, n =>
    let q := ((owed.find? (·.1 = t)).map (·.2)).getD []
    match q with
    | e :: q' =>
      if e = ev then validate outside s ((t, q') :: owed.filter (·.1 ≠ t)) rest n
      else s!"ok INVALID at {n}: thread {t} did `{ev}`, the model's current step owes `{e}`"
    | [] =>
      let tryL := fun (l : TLabel) =>
        match stepTE outside s l with
        | some (s', evs) =>
          let rs := evs.map TEvent.render
          if rs.head? = some ev then some (s', rs.drop 1) else none
        | none => none
      let tick : Option (TState × List String) :=
        if ev.startsWith "tick " then ((ev.drop 5).toString.toNat?).bind fun d => tryL (.tick d) else none
      match tick.orElse (fun _ => (tryL (.run t)).orElse (fun _ => tryL (.runCreateFail t))) with
      | some (s', more) => validate outside s' ((t, more) :: owed.filter (·.1 ≠ t)) rest (n + 1)
      | none =>
        s!"ok INVALID at {n}: thread {t} did `{ev}`, which no enabled step of that thread in the timed model produces (clock={s.clock})"

end PoolConcT
