namespace Murmur

def M : Nat := 0xFFFFFFFF
def c1 : Nat := 0xCC9E2D51
def c2 : Nat := 0x1B873593

/-- Python: `(x << r) | ((x & 0xFFFFFFFF) >> (32 - r))` on unbounded ints -/
def rotlPy (x r : Nat) : Nat := (x <<< r) ||| ((x &&& M) >>> (32 - r))

def mixK (k : Nat) : Nat := rotlPy (k * c1) 15 * c2

def block (h1 b0 b1 b2 b3 : Nat) : Nat :=
  let k1 := (b0 &&& 0xFF) ||| ((b1 &&& 0xFF) <<< 8) ||| ((b2 &&& 0xFF) <<< 16) ||| (b3 <<< 24)
  let h1 := h1 ^^^ mixK k1
  rotlPy h1 13 * 5 + 0xE6546B64

def tailPy (h1 : Nat) : List Nat → Nat
  | [a] => h1 ^^^ mixK (a &&& 0xFF)
  | [a, b] => h1 ^^^ mixK (((b &&& 0xFF) <<< 8) ||| (a &&& 0xFF))
  | [a, b, c] => h1 ^^^ mixK ((((c &&& 0xFF) <<< 16) ||| ((b &&& 0xFF) <<< 8)) ||| (a &&& 0xFF))
  | _ => h1

def fmixPy (h len : Nat) : Nat :=
  let h := h ^^^ len
  let h := h ^^^ ((h &&& M) >>> 16)
  let h := h * 0x85EBCA6B
  let h := h ^^^ ((h &&& M) >>> 13)
  let h := h * 0xC2B2AE35
  let h := h ^^^ ((h &&& M) >>> 16)
  h &&& M

def goPy (len : Nat) : Nat → List Nat → Nat
  | h, b0 :: b1 :: b2 :: b3 :: rest => goPy len (block h b0 b1 b2 b3) rest
  | h, tl => fmixPy (tailPy h tl) len

def murmurPy (data : List Nat) (seed : Nat) : Nat := goPy data.length seed data

/-! reference: MurmurHash3_x86_32 on BitVec 32 -/
abbrev W := BitVec 32
def rotl (x : W) (r : Nat) : W := x.rotateLeft r
def C1 : W := 0xCC9E2D51#32
def C2 : W := 0x1B873593#32
@[irreducible] def mixKR (k : W) : W := rotl (k * C1) 15 * C2
@[irreducible] def blockR (h : W) (b0 b1 b2 b3 : BitVec 8) : W :=
  let k : W := b0.zeroExtend 32 ||| (b1.zeroExtend 32 <<< 8) ||| (b2.zeroExtend 32 <<< 16) ||| (b3.zeroExtend 32 <<< 24)
  let h := h ^^^ mixKR k
  rotl h 13 * 5#32 + 0xE6546B64#32
@[irreducible] def tailR (h : W) : List (BitVec 8) → W
  | [a] => h ^^^ mixKR (a.zeroExtend 32)
  | [a, b] => h ^^^ mixKR ((b.zeroExtend 32 <<< 8) ^^^ a.zeroExtend 32)
  | [a, b, c] => h ^^^ mixKR ((c.zeroExtend 32 <<< 16) ^^^ (b.zeroExtend 32 <<< 8) ^^^ a.zeroExtend 32)
  | _ => h
@[irreducible] def fmixR (h : W) : W :=
  let h := h ^^^ (h >>> 16)
  let h := h * 0x85EBCA6B#32
  let h := h ^^^ (h >>> 13)
  let h := h * 0xC2B2AE35#32
  h ^^^ (h >>> 16)
def goR (len : Nat) : W → List (BitVec 8) → W
  | h, b0 :: b1 :: b2 :: b3 :: rest => goR len (blockR h b0 b1 b2 b3) rest
  | h, tl => fmixR (tailR h tl ^^^ BitVec.ofNat 32 len)
def murmurRef (data : List (BitVec 8)) (seed : W) : W := goR data.length seed data

end Murmur
