import Pymc.Model.Exchange
/-!
# The type conversion of `Client.stats` (base.py:60-99, 952-960)

```
result = self._fetch_cmd(b"stats", args, False)
for key, value in result.items():
    converter = STAT_TYPES.get(key, int)
    try:
        result[key] = converter(value)
    except Exception:
        pass
return result
```

`STAT_TYPES` maps fifteen `bytes` names to one of six converters; every other key (and every key that is not a `bytes`
object: a `VALUE` block in a `stats` reply is entered under the caller's own argument, which may be a `str`) is converted
with `int`.  A conversion that raises leaves the raw value.

What is modelled: `int(bytes)` in base 10 with everything CPython accepts (surrounding ASCII white space, one sign,
single underscores between digits, and the interpreter's limit on the number of digits, a parameter `lim`, `0` = no
limit), `int(bytes, 8)` (the same, plus the optional `0o` / `0O` prefix which may be followed by one underscore, digits
`0`–`7`, no digit limit), `int(value) != 0`, `value == b"yes"`, `bytes(value)`.
What is *not* modelled: `float`.  The model returns the exact argument handed to `float` (`value` itself, or
`value.replace(b":", b".")`) together with the raw value; the harness applies CPython's `float` to that argument
(trusted: a CPython builtin) and keeps the raw value when it raises.
-/
namespace Stats
open Bytes Wire Exchange

inductive Conv | int | bytes | float | floatColon | boolInt | isYes | octal
deriving DecidableEq, Repr

def Conv.name : Conv → String
  | .int => "int" | .bytes => "bytes" | .float => "float" | .floatColon => "_parse_float"
  | .boolInt => "_parse_bool_int" | .isYes => "_parse_bool_string_is_yes" | .octal => "_parse_hex"

/-- `STAT_TYPES`, sorted by key (the translator emits the same table from the imported module) -/
def statTypes : List (Bytes × Conv) := [
  (ofString "auth_enabled_sasl", .isYes),
  (ofString "cas_enabled", .boolInt),
  (ofString "detail_enabled", .boolInt),
  (ofString "growth_factor", .float),
  (ofString "hash_is_expanding", .boolInt),
  (ofString "inter", .bytes),
  (ofString "maxconns_fast", .boolInt),
  (ofString "rusage_system", .floatColon),
  (ofString "rusage_user", .floatColon),
  (ofString "slab_automove", .boolInt),
  (ofString "slab_reassign", .boolInt),
  (ofString "slab_reassign_running", .boolInt),
  (ofString "stat_key_prefix", .bytes),
  (ofString "umask", .octal),
  (ofString "version", .bytes)]

/-- `STAT_TYPES.get(key, int)`: a `str` key never equals a `bytes` key -/
def converterOf : Key.K → Conv
  | .bytes b => ((statTypes.find? (·.1 = b)).map (·.2)).getD .int
  | .str _ => .int

/-- `Py_ISSPACE`: space, `\t`, `\n`, `\v`, `\f`, `\r` -/
def isSpace (b : UInt8) : Bool := b = 32 || (9 ≤ b && b ≤ 13)

def stripLeft : Bytes → Bytes
  | [] => []
  | c :: r => if isSpace c then stripLeft r else c :: r

/-- surrounding white space removed (`PyLong_FromString` skips it on both sides) -/
def strip (b : Bytes) : Bytes := (stripLeft (stripLeft b).reverse).reverse

def digitCount (b : Bytes) : Nat := (b.filter isDigit).length

/-- `int(value)` for a `bytes` value; `lim` is `sys.get_int_max_str_digits()` (`0` = unlimited) -/
def pyIntWs (lim : Nat) (b : Bytes) : Option Int :=
  let s := strip b
  match pyInt s with
  | some i => if lim = 0 || digitCount s ≤ lim then some i else none
  | none => none

def isOctDigit (b : UInt8) : Bool := 48 ≤ b && b ≤ 55

/-- digits `0`–`7` with single underscores between them -/
def octDigits : Bytes → Bool → Option Nat → Option Nat
  | [], prevUnderscore, acc => if prevUnderscore then none else acc
  | c :: r, prevUnderscore, acc =>
    if isOctDigit c then octDigits r false (some ((acc.getD 0) * 8 + (c.toNat - 48)))
    else if c = 95 then (if prevUnderscore || acc.isNone then none else octDigits r true acc)
    else none

/-- after the sign: optional `0o` / `0O`, after which one underscore is allowed -/
def octBody (b : Bytes) : Option Nat :=
  match b with
  | 48 :: 111 :: 95 :: r => octDigits r false none
  | 48 :: 79 :: 95 :: r => octDigits r false none
  | 48 :: 111 :: r => octDigits r false none
  | 48 :: 79 :: r => octDigits r false none
  | _ => octDigits b false none

/-- `int(value, 8)` -/
def pyOct (b : Bytes) : Option Int :=
  match strip b with
  | 45 :: r => (octBody r).map fun n => -(n : Int)
  | 43 :: r => (octBody r).map fun n => (n : Int)
  | s => (octBody s).map fun n => (n : Int)

/-- `value.replace(b":", b".")` -/
def colonToDot (b : Bytes) : Bytes := b.map fun c => if c = 58 then 46 else c

inductive SVal
  | int (i : Int)
  | bool (b : Bool)
  | raw (b : Bytes)
  /-- `float(arg)` if CPython's `float` accepts `arg`, else `raw` (decided by the harness) -/
  | float (arg raw : Bytes)
deriving DecidableEq, Repr

def yes : Bytes := ofString "yes"

def convert (lim : Nat) (c : Conv) (v : Bytes) : SVal :=
  match c with
  | .int => (match pyIntWs lim v with | some i => .int i | none => .raw v)
  | .bytes => .raw v
  | .float => .float v v
  | .floatColon => .float (colonToDot v) v
  | .boolInt => (match pyIntWs lim v with | some i => .bool (i != 0) | none => .raw v)
  | .isYes => .bool (v == yes)
  | .octal => (match pyOct v with | some i => .int i | none => .raw v)

/-- the loop of `Client.stats` over the insertion-ordered dict of `_fetch_cmd` -/
def statsConvert (lim : Nat) (d : List (Key.K × Bytes)) : List (Key.K × SVal) :=
  d.map fun kv => (kv.1, convert lim (converterOf kv.1) kv.2)

/-- octal rendering (`oct(n)[2:]`), for the round-trip statement of `umask` -/
def octDec (n : Nat) : Bytes :=
  if h : n < 8 then [digitChar n] else octDec (n / 8) ++ [digitChar (n % 8)]
termination_by n
decreasing_by omega

end Stats
