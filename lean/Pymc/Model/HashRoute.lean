import Pymc.Model.Rendezvous
import Pymc.Model.Key
/-!
# HashClient routing and batching — pymemcache/client/hash.py 172–190, 319–328, 367–413, 437–440

A key is either a plain key or a `(server_key, key)` pair; routing uses the *raw* (unprefixed) routing key.
`route` is `hasher.get_node(server_key)`; the servers are abstract stores (`Srv → K → Option V`), justified by
C05.  `batchesOf` is the `defaultdict` grouping of `set_many`/`get_many`: servers in order of first appearance,
keys in request order within a server.
-/
namespace HashRoute

/-- a caller-side key: the routing key (already formatted as the string that is hashed) and the key sent
to the chosen server -/
structure HKey where
  routing : String
  key : Key.K
deriving DecidableEq, Repr

abbrev Srv := String

/-- `_get_client`: `hasher.get_node(server_key)`; `none` = no server in rotation -/
def route (score : String → String → Nat) (nodes : List Srv) (k : HKey) : Option Srv :=
  Rendezvous.getNode (fun n => score n k.routing) nodes

/-- insert into an insertion-ordered `defaultdict(list)` -/
def addToBatch (bs : List (Srv × List Key.K)) (s : Srv) (k : Key.K) : List (Srv × List Key.K) :=
  if bs.any (·.1 = s) then bs.map fun b => if b.1 = s then (b.1, b.2 ++ [k]) else b
  else bs ++ [(s, [k])]

/-- the first loop of `get_many` (392–398): keys whose routing finds no server are skipped -/
def batchesOf (score : String → String → Nat) (nodes : List Srv) (ks : List HKey) : List (Srv × List Key.K) :=
  ks.foldl (fun bs k => match route score nodes k with
    | some s => addToBatch bs s k.key
    | none => bs) []

/-- a server's contents: what a fetch of `k` on it returns -/
abbrev Stores (V : Type) := Srv → Key.K → Option V

/-- `dict.update` on an insertion-ordered dict -/
def dictUpdate {V : Type} (d : List (Key.K × V)) (kv : List (Key.K × V)) : List (Key.K × V) :=
  kv.foldl (fun d (k, v) =>
    if d.any (·.1 = k) then d.map fun e => if e.1 = k then (k, v) else e else d ++ [(k, v)]) d

/-- `client.get_many(keys)` on one server: present keys, once each, in request order -/
def fetchBatch {V : Type} (st : Stores V) (s : Srv) (ks : List Key.K) : List (Key.K × V) :=
  dictUpdate [] (ks.filterMap fun k => (st s k).map fun v => (k, v))

/-- `HashClient.get_many` (388–413) -/
def getMany {V : Type} (score : String → String → Nat) (nodes : List Srv) (st : Stores V) (ks : List HKey) :
    List (Key.K × V) :=
  (batchesOf score nodes ks).foldl (fun acc (s, b) => dictUpdate acc (fetchBatch st s b)) []

/-- `HashClient.get` (352, 319–328) on one key: the routed server's answer -/
def get {V : Type} (score : String → String → Nat) (nodes : List Srv) (st : Stores V) (k : HKey) : Option V :=
  match route score nodes k with
  | some s => st s k.key
  | none => none

/-- `HashClient.set` / `set_many` as updates of the abstract stores -/
def setOne {V : Type} (score : String → String → Nat) (nodes : List Srv) (st : Stores V) (k : HKey) (v : V) : Stores V :=
  match route score nodes k with
  | some s => fun s' k' => if s' = s ∧ k' = k.key then some v else st s' k'
  | none => st

def setMany {V : Type} (score : String → String → Nat) (nodes : List Srv) (st : Stores V) (kvs : List (HKey × V)) : Stores V :=
  kvs.foldl (fun st (k, v) => setOne score nodes st k v) st
end HashRoute
