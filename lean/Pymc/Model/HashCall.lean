import Pymc.Model.PooledCall
import Pymc.Model.Failover
/-!
# `HashClient ∘ Client`: sequential use of one `HashClient` (`use_pooling=False`), every contact a real `Client.call`

`Failover.lean` models the failover bookkeeping of `pymemcache.client.hash.HashClient` with the behaviour of the inner
client as an *input* (`env : Srv → Outcome`); `Framing.lean` models a sequence of calls on ONE `Client`.  This file
composes them (hash.py 40–140 constructor / `add_server`, 158–200 `_retry_dead` / `_get_client`, 202–245
`_safely_run_func`, 330–345 `_run_cmd`, 395–430 `get_many`):

```
def _run_cmd(self, cmd, key, default_val, *args, **kwargs):       # set get gat gats gets incr decr add replace
    client, key = self._get_client(key)                           # append prepend cas delete touch
    if client is None: return default_val
    func = getattr(client, cmd)
    return self._safely_run_func(client, func, default_val, key, *args, **kwargs)
def _get_client(self, key):
    check_key_helper(server_key, self.allow_unicode_keys, self.key_prefix)        # MemcacheIllegalInputError
    if self._dead_clients: self._retry_dead()                     # add_server(server) → a NEW client object
    server = self.hasher.get_node(server_key)
    if server is None: (return None, key) if self.ignore_exc else raise MemcacheError("All servers seem to be down …")
    return self.clients[server], key
def _safely_run_func(self, client, func, default_val, *args, **kwargs):
    try:
        if client.server in self._failed_clients: … retry window / default_val / remove_server …
        result = func(*args, **kwargs); return result
    except OSError: self._mark_failed_server(client.server); raise unless self.ignore_exc; return default_val
    except Exception: raise unless self.ignore_exc; return default_val
```

The state is the bookkeeping state of `Failover` plus `self.clients`: per server the `Client` object currently
registered for it (`IClient`: its number in order of creation, whether it holds a socket, what is left unread in
that socket's pipe, tagged with the index of the public call that provoked it as in `Framing.runTaggedFrom`).
`add_server` — in the constructor and whenever `_retry_dead` brings a server back — creates a *fresh* client object
(no socket, empty pipe) and stores it under the server's key, replacing the old object, which is never used again.
`remove_server` does not touch `self.clients`.

Inner clients are created from `default_kwargs`, which has no `ignore_exc`: the inner call is
`Client.call ccfg false …` and always raises; `ignoreExc` of the `Failover.Cfg` is the `ignore_exc` of the
`HashClient`.  How the exception of the inner call is treated:

* `Exc.sock code`, `code < 100` — an `OSError` raised by the socket: `except OSError` (`Outcome.oserror`);
* `Exc.sock code`, `code ≥ 100` — a `BaseException`: caught by neither clause, it propagates whatever `ignore_exc`
  says; the bookkeeping done *before* the invocation (a `remove_server` of a server that used up its retries)
  stays, nothing is marked — for the bookkeeping this is what `Outcome.othererror` does;
* everything else (`MemcacheIllegalInputError`, `MemcacheUnknownCommandError`, `MemcacheClientError`,
  `MemcacheServerError`, `MemcacheUnknownError`, `MemcacheUnexpectedCloseError`, `ValueError`, `KeyError`,
  `IndexError`) — `except Exception` (`Outcome.othererror`).

Not modelled: the tuple form `(server_key, key)` of a key as far as validation goes (the routing key `rk` *is* a
separate argument here, so every way of deriving it from the key is covered; but `check_key_helper` is applied to the
key of the call); the broadcast operation `stats` (it iterates over `self.clients.items()`); `use_pooling=True` (see
`HashPooledCall.lean`).  The broadcast operations `flush_all`, `quit`, `close` / `disconnect_all` (they iterate over
`self.clients.values()`) are in `HashBroadcast.lean`.  The multi-key operations `get_many` / `gets_many`, `set_many` and
`delete_many` (a loop of `_run_cmd("delete", …)` inside one public call) are in `HashCallMany.lean`.
-/
namespace HashCall
open Exchange Client Framing Failover

/-- a `Client` object registered in `self.clients` -/
structure IClient where
  id : Nat                         -- number of the object, in order of creation
  sockOpen : Bool := false         -- `client.sock is not None`
  pipe : List TEv := []            -- what is unread on that socket (meaningful only when `sockOpen`)
deriving Repr

structure St where
  fo : State                                  -- `hasher.nodes`, `_failed_clients`, `_dead_clients`, `_last_dead_check_time`
  clients : List (Srv × IClient) := []        -- `self.clients` (insertion order; a re-added server keeps its position)
  nextClient : Nat := 0
deriving Repr

/-- forget the inner clients: the state of the abstract model `Failover` -/
def St.proj (s : St) : State := s.fo

/-- the `client = _class(server, **self.default_kwargs); self.clients[key] = client` of `add_server` -/
def newClient (st : St) (s : Srv) : St :=
  { st with clients := ainsert s { id := st.nextClient } st.clients, nextClient := st.nextClient + 1 }

def initClients : List Srv → St → St
  | [], st => st
  | s :: r, st => initClients r (newClient st s)

/-- the constructor: `add_server` for every server of the list, in order (a server listed twice gets two client objects,
the second replacing the first); the bookkeeping starts as in `Failover.init` -/
def init (servers : List Srv) (t0 : Time) : St :=
  initClients servers { fo := Failover.init servers t0 }

/-! ## `_retry_dead` / `_get_client`, as in `Failover` but creating the client objects -/

/-- the loop `for server in candidates: self.add_server(server); del self._dead_clients[server]` -/
def reviveAll : List Srv → St → Option St
  | [], st => some st
  | s :: r, st =>
    match aerase s st.fo.dead with
    | none => none
    | some d => reviveAll r { newClient st s with fo := { st.fo with nodes := addNode s st.fo.nodes, dead := d } }

/-- `_retry_dead()` -/
def retryDead (c : Cfg) (now : Time) (st : St) : Option St :=
  if now - st.fo.lastDeadCheck > c.dt then
    let candidates := (st.fo.dead.filter (fun p => decide (now - p.2 > c.dt))).map Prod.fst
    match reviveAll candidates st with
    | none => none
    | some st' => some { st' with fo := { st'.fo with lastDeadCheck := now } }
  else some st

/-- `if self._dead_clients: self._retry_dead()` -/
def retryIfDead (c : Cfg) (now : Time) (st : St) : Option St :=
  if st.fo.dead.isEmpty then some st else retryDead c now st

inductive Got
  | client (s : Srv) (cl : IClient) | noClient | allDown | internalError
deriving Repr

/-- `_get_client(key)` after the key check; `self.clients[server]` raising `KeyError` is `internalError` -/
def getClient {Key : Type} (c : Cfg) (route : List Srv → Key → Option Srv) (now : Time) (st : St) (key : Key) :
    St × Got :=
  match retryIfDead c now st with
  | none => (st, .internalError)
  | some st1 =>
    match route st1.fo.nodes key with
    | none => if c.ignoreExc then (st1, .noClient) else (st1, .allDown)
    | some s =>
      match alookup s st1.clients with
      | none => (st1, .internalError)
      | some cl => (st1, .client s cl)

/-! ## the inner call and what it means for the bookkeeping -/

/-- the exception is an `OSError` -/
def isOSError : Exc → Bool
  | .sock code => code < 100
  | _ => false

/-- what an exception of the inner call is for the bookkeeping -/
def excOutcome (e : Exc) : Outcome := if isOSError e then .oserror else .othererror

/-- the `Failover.Outcome` of a contact, from the result of the inner `Client.call` -/
def outcomeOf : Except Exc Res → Outcome
  | .ok _ => .ok
  | .error e => excOutcome e

/-- what a `HashClient` method returned or raised -/
inductive HRes
  | value (r : Res)               -- the inner client's result
  | default                       -- `default_val`
  | raised (s : Srv) (e : Exc)    -- the exception raised by the client of server `s` escaped
  | allDown                       -- MemcacheError("All servers seem to be down right now")
  | illegalKey                    -- MemcacheIllegalInputError from `check_key_helper` in `_get_client`
  | internalError                 -- KeyError / ValueError of the bookkeeping itself
deriving DecidableEq, Repr

/-- `func(*args, **kwargs)` on the client object `cl` of server `s`: one step of `Framing.runTaggedFrom` on that
object (`PooledCall.stepTagged`), the `recv()` results of this call tagged `idx`; the object stays registered under
`s` with the socket and the pipe the call left -/
def contact (ccfg : Wire.Cfg) (idx : Nat) (st : St) (s : Srv) (cl : IClient) (call : Call) (sc : Script) : St × Step :=
  let stp := PooledCall.stepTagged ccfg idx cl.sockOpen cl.pipe call sc
  ({ st with clients := ainsert s { cl with sockOpen := stp.out.sockOpen, pipe := stp.leftover } st.clients }, stp)

/-- the two `except` clauses of `_safely_run_func` for exception `e` raised by the client of server `s` -/
def onError (c : Cfg) (now : Time) (st : St) (s : Srv) (e : Exc) : St × HRes :=
  if isBaseExc e then (st, .raised s e)                   -- neither `except OSError` nor `except Exception`
  else if isOSError e then
    match markFailed c now st.fo s with
    | none => (st, .internalError)
    | some fo' => if c.ignoreExc then ({ st with fo := fo' }, .default) else ({ st with fo := fo' }, .raised s e)
  else if c.ignoreExc then (st, .default) else (st, .raised s e)

/-- `result = func(*args, **kwargs)` with what follows it: `return result`, preceded in the retry branch
(`clear`) by `self._failed_clients.pop(client.server)`; or one of the handlers -/
def invoke (ccfg : Wire.Cfg) (c : Cfg) (idx : Nat) (now : Time) (st : St) (s : Srv) (cl : IClient) (call : Call)
    (sc : Script) (clear : Bool) : St × HRes × Option Step :=
  match contact ccfg idx st s cl call sc with
  | (st1, stp) =>
    match stp.out.res with
    | .ok r =>
      if clear then
        match aerase s st1.fo.failed with
        | none => (st1, .internalError, some stp)
        | some f => ({ st1 with fo := { st1.fo with failed := f } }, .value r, some stp)
      else (st1, .value r, some stp)
    | .error e =>
      match onError c now st1 s e with
      | (st2, r) => (st2, r, some stp)

/-- `_safely_run_func(client, func, default_val, …)` for the client object `cl` of server `s` -/
def safelyRunFunc (ccfg : Wire.Cfg) (c : Cfg) (idx : Nat) (now : Time) (st : St) (s : Srv) (cl : IClient) (call : Call)
    (sc : Script) : St × HRes × Option Step :=
  match alookup s st.fo.failed with
  | some (attempts, failedTime) =>
    if attempts < c.ra then
      if now - failedTime > c.rt then invoke ccfg c idx now st s cl call sc true
      else (st, .default, none)
    else
      match removeServer now st.fo s with
      | none => (st, .internalError, none)
      | some fo' => invoke ccfg c idx now { st with fo := fo' } s cl call sc false
  | none => invoke ccfg c idx now st s cl call sc false

/-! ## the single-key operations -/

/-- the key argument of the operations `HashClient` runs through `_run_cmd` -/
def keyOf : Call → Option Key.K
  | .store _ k _ _ _ _ _ => some k
  | .get k => some k
  | .gets k => some k
  | .gat k _ => some k
  | .gats k _ => some k
  | .delete k _ => some k
  | .arith _ k _ _ => some k
  | .touch k _ _ => some k
  | _ => none

/-- `check_key_helper(key, self.allow_unicode_keys, self.key_prefix)` does not raise (the `HashClient` hands the same
`allow_unicode_keys` / `key_prefix` to its inner clients, hence `ccfg`) -/
def keyOk (ccfg : Wire.Cfg) (call : Call) : Bool :=
  match keyOf call with
  | some k => (match Wire.checkKey ccfg k with | .ok _ => true | .error _ => false)
  | none => true

/-- the `default_val` the `HashClient` method passes to `_run_cmd`: `False` for `set`/`add`/`replace`/`append`/
`prepend`/`cas`/`delete`/`touch`, the caller's `default` for `get`/`gat`, `(default, cas_default)` for `gets`/`gats`,
`None` for `incr`/`decr` -/
def defaultRes : Call → Res
  | .get _ => .dflt
  | .gat _ _ => .dflt
  | .gets _ => .dfltPair
  | .gats _ _ => .dfltPair
  | .arith _ _ _ _ => .none
  | _ => .bool false

/-- what a `HashClient` call shows -/
structure HObs where
  res : HRes
  server : Option Srv := none      -- the server the key was routed to
  client : Option Nat := none      -- the client object that was invoked (`none`: no contact)
  step : Option Step := none       -- the inner `Client` call with its tagged `recv()` results
deriving Repr

/-- one public single-key call of the `HashClient` (`_run_cmd`): call number `idx` of the history, at time `now`,
routing key `rk` (`server_key`), the operation `call` with the script `sc` of what the contacted server's connection
does meanwhile -/
def callH {Key : Type} (ccfg : Wire.Cfg) (c : Cfg) (route : List Srv → Key → Option Srv) (st : St) (idx : Nat)
    (now : Time) (rk : Key) (call : Call) (sc : Script) : St × HObs :=
  if !keyOk ccfg call then (st, { res := .illegalKey })
  else
    match getClient c route now st rk with
    | (st1, .internalError) => (st1, { res := .internalError })
    | (st1, .allDown) => (st1, { res := .allDown })
    | (st1, .noClient) => (st1, { res := .default })
    | (st1, .client s cl) =>
      match safelyRunFunc ccfg c idx now st1 s cl call sc with
      | (st2, r, stp) => (st2, { res := r, server := some s, client := stp.map fun _ => cl.id, step := stp })

/-- one call of a history -/
structure HCall (Key : Type) where
  rk : Key
  call : Call
  sc : Script := {}
  now : Time

/-- run the calls one after the other; the first one is call number `k` -/
def runH {Key : Type} (ccfg : Wire.Cfg) (c : Cfg) (route : List Srv → Key → Option Srv) :
    (st : St) → (k : Nat) → List (HCall Key) → St × List HObs
  | st, _, [] => (st, [])
  | st, k, hc :: rest =>
    match callH ccfg c route st k hc.now hc.rk hc.call hc.sc with
    | (st1, ob) =>
      match runH ccfg c route st1 (k + 1) rest with
      | (st2, obs) => (st2, ob :: obs)

/-! ## the history of the abstract model -/

/-- what the contacted server did, in the vocabulary of `Failover` (irrelevant when no server was contacted) -/
def outcomeOfObs (ob : HObs) : Outcome :=
  match ob.step with
  | some stp => outcomeOf stp.out.res
  | none => .ok

/-- the contact log of the call -/
def contactsOfObs (now : Time) (ob : HObs) : List Contact :=
  match ob.server, ob.step with
  | some s, some stp => [(s, now, outcomeOf stp.out.res)]
  | _, _ => []

/-- the result in the vocabulary of `Failover`.  The abstract model has no `BaseException`: it sees a non-`OSError`
failure, which `ignore_exc` would swallow. -/
def absRes (c : Cfg) : HRes → Result
  | .value _ => .value
  | .default => .default
  | .raised s e => if c.ignoreExc && isBaseExc e then .default else .raisedServerError s (excOutcome e)
  | .allDown => .raisedAllDown
  | .illegalKey => .internalError          -- never used: such a call is not an event of the abstract history
  | .internalError => .internalError

def isIllegalKey : HRes → Bool
  | .illegalKey => true
  | _ => false

/-- the event of the abstract history a composed call gives rise to: none when `check_key_helper` rejected the key
(nothing of the failover code runs), else a `_run_cmd` at the same time on the same routing key in an environment
where every server does what the one contacted did -/
def eventOf {Key : Type} (hc : HCall Key) (ob : HObs) : Option (Event Key) :=
  if isIllegalKey ob.res then none else some { now := hc.now, env := fun _ => outcomeOfObs ob, op := .runCmd hc.rk }

def eventsOf {Key : Type} : List (HCall Key) → List HObs → List (Event Key)
  | hc :: rest, ob :: obs =>
    (match eventOf hc ob with | some e => [e] | none => []) ++ eventsOf rest obs
  | _, _ => []

/-- the per-event outputs of `Failover.run` the composed observations correspond to -/
def absOuts {Key : Type} (c : Cfg) : List (HCall Key) → List HObs → List (Result × List Contact)
  | hc :: rest, ob :: obs =>
    (if isIllegalKey ob.res then [] else [(absRes c ob.res, contactsOfObs hc.now ob)]) ++ absOuts c rest obs
  | _, _ => []

/-- all contacts of a composed run, in chronological order: (server, time, what the inner `Client.call` did) -/
def contactLog {Key : Type} : List (HCall Key) → List HObs → List Contact
  | hc :: rest, ob :: obs => contactsOfObs hc.now ob ++ contactLog rest obs
  | _, _ => []

/-- the clock never goes back: call times are non-decreasing, starting at or after `t0` -/
def ChronoCalls {Key : Type} (t0 : Time) : List (HCall Key) → Prop
  | [] => True
  | hc :: rest => t0 ≤ hc.now ∧ ChronoCalls hc.now rest
end HashCall
