/-!
# RetryingClient — pymemcache/client/retrying.py

`retry` transliterates `_retry` (lines 117–150): `for attempt in range(attempts)`, return on success,
on an exception evaluate the four-way disjunction and either re-raise or `sleep(retry_delay)` and loop.
Exception classes are abstract ids; `sub c k` is `issubclass(c, k)` (so `isinstance(exc, tuple)` is `any`).
The wrapped call's behaviour is a script: the outcome of the 1st, 2nd, … invocation.
-/
namespace Retrying

inductive Outcome
  | ok (v : Nat)            -- returns value v
  | exc (cls : Nat) (id : Nat)  -- raises an exception object `id` whose class is `cls`
deriving DecidableEq, Repr

structure Cfg where
  attempts : Nat
  retryFor : List Nat
  doNotRetryFor : List Nat
  nameInDir : Bool                 -- `name in self._client_dir`
  sub : Nat → Nat → Bool           -- issubclass

inductive Result
  | value (v : Nat)
  | raised (cls id : Nat)
  | fellThrough                    -- loop ended without return/raise (implicit `None`)
  | scriptExhausted                -- harness artefact: the script had no outcome left
deriving DecidableEq, Repr

structure Run where
  result : Result
  invocations : Nat
  sleeps : Nat
deriving DecidableEq, Repr

def isInst (cfg : Cfg) (cls : Nat) (ks : List Nat) : Bool := ks.any (cfg.sub cls)

/-- the `if` at lines 138–146 -/
def mustRaise (cfg : Cfg) (attempt cls : Nat) : Bool :=
  decide (attempt ≥ cfg.attempts - 1)
  || (!cfg.retryFor.isEmpty && !isInst cfg cls cfg.retryFor)
  || (!cfg.doNotRetryFor.isEmpty && isInst cfg cls cfg.doNotRetryFor)
  || !cfg.nameInDir

/-- iterations `attempt, attempt+1, …, attempts-1` of the loop -/
def loop (cfg : Cfg) : (fuel : Nat) → (attempt : Nat) → List Outcome → Run
  | 0, attempt, _ => ⟨.fellThrough, attempt, attempt⟩
  | _ + 1, attempt, [] => ⟨.scriptExhausted, attempt, attempt⟩
  | _ + 1, attempt, .ok v :: _ => ⟨.value v, attempt + 1, attempt⟩
  | fuel + 1, attempt, .exc cls id :: rest =>
    if mustRaise cfg attempt cls then ⟨.raised cls id, attempt + 1, attempt⟩
    else loop cfg fuel (attempt + 1) rest

def retry (cfg : Cfg) (script : List Outcome) : Run := loop cfg cfg.attempts 0 script

/-! constructor validation (lines 6–43, 91–112) -/
inductive ArgKind | none | tuple | set | list | other
deriving DecidableEq, Repr
structure CtorArgs where
  attempts : Int
  retryForKind : ArgKind
  retryFor : List Nat
  dnrKind : ArgKind
  dnr : List Nat
  isExcClass : Nat → Bool     -- issubclass(arg, Exception)

def ensureTuple (k : ArgKind) (xs : List Nat) (isExc : Nat → Bool) : Option (List Nat) :=
  match k with
  | .none => some []
  | .other => Option.none
  | _ => if xs.all isExc then some xs else Option.none

/-- `true` = constructed, `false` = ValueError -/
def ctorOk (a : CtorArgs) : Bool :=
  if a.attempts < 1 then false else
  match ensureTuple a.retryForKind a.retryFor a.isExcClass, ensureTuple a.dnrKind a.dnr a.isExcClass with
  | some rf, some dn => !(rf.any fun c => dn.contains c)
  | _, _ => false

/-! ## specification, written independently -/
/-- is the i-th outcome final?  (a success, a non-retryable exception, or the last allowed attempt) -/
def retryable (cfg : Cfg) (cls : Nat) : Bool :=
  (cfg.retryFor.isEmpty || isInst cfg cls cfg.retryFor)
  && !(!cfg.doNotRetryFor.isEmpty && isInst cfg cls cfg.doNotRetryFor)
  && cfg.nameInDir
/-! ## several calls on ONE RetryingClient

The attributes `__init__` stores (lines 97–115) and `_retry` reads; `_retry` (lines 117–150) assigns none of
them and its loop counter `attempt` is a local of the call.  A call names a method (looked up in
`_client_dir`, line 145) and has its own script of outcomes of the wrapped method. -/
structure Obj where
  attempts : Nat
  retryFor : List Nat          -- `_retry_for`, a tuple: `()` both for `None` and for an empty collection
  doNotRetryFor : List Nat     -- `_do_not_retry_for`
  clientDir : List Nat         -- `_client_dir` (method names as ids)
  sub : Nat → Nat → Bool

structure MCall where
  method : Nat
  script : List Outcome

/-- what one call sees of the object -/
def Obj.cfg (o : Obj) (method : Nat) : Cfg :=
  ⟨o.attempts, o.retryFor, o.doNotRetryFor, o.clientDir.contains method, o.sub⟩

/-- `rc.<method>(…)`: `__getattr__` → `_retry`; the object afterwards, and the run -/
def callOnce (o : Obj) (c : MCall) : Obj × Run := (o, retry (o.cfg c.method) c.script)

/-- a history of calls on one object, threading the object through -/
def runCalls (o : Obj) : List MCall → Obj × List Run
  | [] => (o, [])
  | c :: rest => ((runCalls (callOnce o c).1 rest).1, (callOnce o c).2 :: (runCalls (callOnce o c).1 rest).2)

/-- `__init__`: the object that is constructed, `none` = ValueError (same tests, same order as `ctorOk`) -/
def construct (a : CtorArgs) (clientDir : List Nat) (sub : Nat → Nat → Bool) : Option Obj :=
  if a.attempts < 1 then none else
  match ensureTuple a.retryForKind a.retryFor a.isExcClass, ensureTuple a.dnrKind a.dnr a.isExcClass with
  | some rf, some dn =>
    if rf.any fun c => dn.contains c then none else some ⟨a.attempts.toNat, rf, dn, clientDir, sub⟩
  | _, _ => none

/-- the decision of lines 138–146 with the `retry_for` disjunct struck out ("no `retry_for`") -/
def mustRaiseNoRetryFor (cfg : Cfg) (attempt cls : Nat) : Bool :=
  decide (attempt ≥ cfg.attempts - 1)
  || (!cfg.doNotRetryFor.isEmpty && isInst cfg cls cfg.doNotRetryFor)
  || !cfg.nameInDir

/-- … with the `do_not_retry_for` disjunct struck out ("no `do_not_retry_for`") -/
def mustRaiseNoDoNotRetryFor (cfg : Cfg) (attempt cls : Nat) : Bool :=
  decide (attempt ≥ cfg.attempts - 1)
  || (!cfg.retryFor.isEmpty && !isInst cfg cls cfg.retryFor)
  || !cfg.nameInDir
end Retrying
