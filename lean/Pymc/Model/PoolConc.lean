/-!
# Micro-step interleaving model of `pymemcache.pool.ObjectPool` under `PooledClient` (property C08)

Import-free (core Lean only).  One micro-step per point of `pymemcache/pool.py` at which another thread
may be scheduled.  Every micro-step performs at least one *event*; `runSchedule` renders the events so
that they can be diffed against traces recorded on the real pool (recording lock + recording deques).

Python source modelled (pool.py, line numbers of the 135-line file):

* `get` 76–97: `with self._lock` / `while self._free_objs` / `popleft` / idle test / `after_remove`
  with the lock held / `while … else`: `len(self._used_objs)`, `raise RuntimeError` inside the `with`,
  `obj_creator()` / `self._used_objs.append(obj)` / leave the `with`.
* `destroy` 99–109, `release` 111–119 (always `silent=True`: neither `PooledClient` nor
  `get_and_release` passes `silent`), `clear` 121–135 (`after_remove` is always given by `PooledClient`).
* `get_and_release(destroy_on_fail=True)` 63–74 and the bracket of every `PooledClient` method
  (client/base.py 1459–1661), `quit` 1648–1653 (extra `destroy` in a `finally`), `close` 1454–1455.

Abstractions (everything below is *not* modelled and belongs to the trusted base / other properties):

* connections are natural numbers (`obj_creator()` returns the next fresh id); what a thread does with
  a connection is one `work` step; sockets are the counter `closedCnt` plus the ghost `reopened`;
* the idle test (`now - obj._last_used <= idle_timeout`) is a nondeterministic boolean chosen by the
  schedule (labels `expired` / `fresh`); clocks are the subject of C09;
* `deque.remove(obj)` is `List.erase` (first occurrence; the no-duplicate invariant makes it the only one);
* `threading.Lock` is `lock : Option Tid`, acquisition is enabled only when it is `none`; leaving a
  `with` block when the lock is not owned goes to `internalError` (proved unreachable);
* the four statements of `clear`'s critical section (`extend`, `extend`, `free.clear()`, `used.clear()`)
  are one micro-step with two events (the lock is held, no other thread reads the deques in between);
* granularity is the statement / deque-method level, not the bytecode level; the GIL is not modelled;
* a `get` that raises "Too many objects" ends the Op of that thread, which goes on with its next Op
  (a thread that stops instead behaves like a thread with a shorter program, and all theorems quantify
  over all programs);
* `release`/`destroy` are always called with the default `silent=True`, `after_remove` is never `None`
  (both true of every call site in `PooledClient`).
-/
namespace PoolConc

abbrev Tid := Nat
abbrev Obj := Nat

/-- One `PooledClient` call as seen by the pool.
* `useOk`    : `get; work; release`           (any method, the body returned normally)
* `useFail`  : `get; work; destroy`           (the body raised; `destroy_on_fail=True`)
* `quitOk`   : `get; work; destroy; release`  (`quit`, `client.quit()` returned; the `release` is a silent miss)
* `quitFail` : `get; work; destroy; destroy`  (`quit`, `client.quit()` raised; the second `destroy` is a silent miss)
* `clear`    : `PooledClient.close()` = `ObjectPool.clear()` -/
inductive Op
  | useOk | useFail | quitOk | quitFail | clear
deriving DecidableEq, Repr, Inhabited

abbrev Program := List Op

/-- what follows a `destroy` call: nothing, `release(obj)`, or a second `destroy(obj)` -/
inductive Kont
  | done | rel | des
deriving DecidableEq, Repr

/-- how the `get_and_release` bracket ends after the body (`work`) -/
inductive Fin
  | rel                 -- `self.release(obj)`
  | des (k : Kont)      -- `self.destroy(obj)` followed by `k`
deriving DecidableEq, Repr

def Op.fin : Op → Option Fin
  | .useOk => some .rel
  | .useFail => some (.des .done)
  | .quitOk => some (.des .rel)
  | .quitFail => some (.des .des)
  | .clear => none

/-- Program counters.  The comment gives the pool.py statement the thread executes *next*. -/
inductive Pc
  | idle                                   -- between calls; next: `with self._lock` of get()/clear() of the next Op
  | getLoop (f : Fin)                      -- lock held; `while self._free_objs:` (the test)
  | getPop (f : Fin)                       -- lock held; `obj = self._free_objs.popleft()`
  | getTest (o : Obj) (f : Fin)            -- lock held; idle test, then `after_remove(obj)` or `break; used.append(obj)`
  | getCount (f : Fin)                     -- lock held; `curr_count = len(self._used_objs)`; `if … raise`
  | getCreate (f : Fin)                    -- lock held; `obj = self._obj_creator()`
  | getAppend (o : Obj) (f : Fin)          -- lock held; `self._used_objs.append(obj)`
  | getRel (o : Obj) (f : Fin)             -- lock held; leave the `with`, `return obj`
  | getRaised                              -- lock held; RuntimeError (or the creator's exception) in flight, leave the `with`
  | hold (o : Obj) (f : Fin)               -- the caller uses `obj` (body of the `with get_and_release`)
  | relAcq (o : Obj)                       -- release(): `with self._lock`
  | relBody (o : Obj)                      -- lock held; `self._used_objs.remove(obj)`
  | relAppend (o : Obj)                    -- lock held; `self._free_objs.append(obj)`
  | relRel                                 -- lock held; leave the `with`
  | desAcq (o : Obj) (k : Kont)            -- destroy(): `with self._lock`
  | desBody (o : Obj) (k : Kont)           -- lock held; `self._used_objs.remove(obj)`
  | desRel (o : Obj) (dropped : Bool) (k : Kont)  -- lock held; leave the `with`
  | desAfter (o : Obj) (k : Kont)          -- lock NOT held; `self._after_remove(obj)`
  | clrBody                                -- lock held; copy used+free, `free.clear()`, `used.clear()`
  | clrRel (objs : List Obj)               -- lock held; leave the `with`
  | clrAfter (o : Obj) (rest : List Obj)   -- lock NOT held; `for obj in needs_destroy: after_remove(obj)`, at obj = o
  | internalError                          -- IndexError of popleft on an empty deque / release of a lock not owned
deriving DecidableEq, Repr

structure TState where
  pc : Pc
  prog : Program          -- head = the Op in progress (or the next one when `pc = idle`)
deriving DecidableEq, Repr

structure State where
  used : List Obj
  free : List Obj
  lock : Option Tid
  closedCnt : Obj → Nat   -- number of `after_remove(obj)` calls (= `client.close()`)
  reopened : Obj → Bool   -- ghost: `work` was performed on obj after it had been closed (lazy reconnect)
  created : Nat           -- next fresh object id = number of `obj_creator()` calls
  maxSize : Nat
  th : Tid → TState

/-- step labels: the only nondeterminism besides the choice of the thread is the idle test of `get` -/
inductive Label
  | tau        -- every micro-step except the idle test
  | expired    -- idle test: `now - obj._last_used > idle_timeout`
  | fresh      -- idle test: not expired (`break`)
  | createFail -- `self._obj_creator()` raises (e.g. an eagerly connecting client class and a server that is down)
deriving DecidableEq, Repr

inductive Event
  | acq (t : Tid) | rel (t : Tid)
  | lenFree (n : Nat) | lenUsed (n : Nat)
  | popleft (o : Obj) | appendUsed (o : Obj) | removeUsed (o : Obj) | appendFree (o : Obj)
  | afterRemove (o : Obj) | create (o : Obj) | createFail | raiseTooMany | silentMiss (o : Obj)
  | clearFree | clearUsed | work (o : Obj) | internalError
deriving DecidableEq, Repr

def Event.render : Event → String
  | .acq t => s!"acq {t}"
  | .rel t => s!"rel {t}"
  | .lenFree n => s!"len-free {n}"
  | .lenUsed n => s!"len-used {n}"
  | .popleft o => s!"popleft {o}"
  | .appendUsed o => s!"append-used {o}"
  | .removeUsed o => s!"remove-used {o}"
  | .appendFree o => s!"append-free {o}"
  | .afterRemove o => s!"after_remove {o}"
  | .create o => s!"create {o}"
  | .raiseTooMany => "raise-too-many"
  | .createFail => "create-failed"
  | .silentMiss o => s!"silent-miss {o}"
  | .clearFree => "clear-free"
  | .clearUsed => "clear-used"
  | .work o => s!"work {o}"
  | .internalError => "internal-error"

def init (programs : List Program) (maxSize : Nat) : State :=
  { used := [], free := [], lock := none, closedCnt := fun _ => 0, reopened := fun _ => false,
    created := 0, maxSize := maxSize,
    th := fun t => { pc := .idle, prog := programs.getD t [] } }

def setTh (s : State) (t : Tid) (ts : TState) : State :=
  { s with th := fun u => if u = t then ts else s.th u }

/-- thread `t` moves to program counter `p` -/
def goto (s : State) (t : Tid) (p : Pc) : State :=
  setTh s t { pc := p, prog := (s.th t).prog }

/-- the Op in progress of thread `t` is over (normally or with the documented capacity error) -/
def finish (s : State) (t : Tid) : State :=
  setTh s t { pc := .idle, prog := (s.th t).prog.tail }

/-- `self._after_remove(obj)`: count the close -/
def close (s : State) (o : Obj) : State :=
  { s with closedCnt := fun x => if x = o then s.closedCnt x + 1 else s.closedCnt x }

/-- leave a `with self._lock` block: the lock must be owned by `t` -/
def unlock (s : State) (t : Tid) (ev : List Event) (k : State → State) : Option (State × List Event) :=
  if s.lock = some t then some (k { s with lock := none }, ev ++ [.rel t])
  else some (goto s t .internalError, [.internalError])

/-- One micro-step of thread `t` with label `l`, and the events it performs; `none` = not enabled. -/
def stepE (s : State) (t : Tid) (l : Label) : Option (State × List Event) :=
  match (s.th t).pc, l with
  | .idle, .tau =>
    match (s.th t).prog with
    | [] => none
    | op :: _ =>
      if s.lock = none then
        match op.fin with
        | some f => some (goto { s with lock := some t } t (.getLoop f), [.acq t])
        | none => some (goto { s with lock := some t } t .clrBody, [.acq t])
      else none
  -- get -------------------------------------------------------------------------------------------
  | .getLoop f, .tau =>
    match s.free with
    | [] => some (goto s t (.getCount f), [.lenFree s.free.length])
    | _ :: _ => some (goto s t (.getPop f), [.lenFree s.free.length])
  | .getPop f, .tau =>
    match s.free with
    | [] => some (goto s t .internalError, [.internalError])
    | o :: r => some (goto { s with free := r } t (.getTest o f), [.popleft o])
  | .getTest o f, .expired => some (goto (close s o) t (.getLoop f), [.afterRemove o])
  | .getTest o f, .fresh => some (goto { s with used := s.used ++ [o] } t (.getRel o f), [.appendUsed o])
  | .getCount f, .tau =>
    if s.maxSize ≤ s.used.length then some (goto s t .getRaised, [.lenUsed s.used.length, .raiseTooMany])
    else some (goto s t (.getCreate f), [.lenUsed s.used.length])
  | .getCreate f, .tau =>
    some (goto { s with created := s.created + 1 } t (.getAppend s.created f), [.create s.created])
  | .getCreate _, .createFail => some (goto s t .getRaised, [.createFail])
  | .getAppend o f, .tau => some (goto { s with used := s.used ++ [o] } t (.getRel o f), [.appendUsed o])
  | .getRel o f, .tau => unlock s t [] fun s' => goto s' t (.hold o f)
  | .getRaised, .tau => unlock s t [] fun s' => finish s' t
  -- body of the bracket -----------------------------------------------------------------------------
  | .hold o f, .tau =>
    let s1 : State :=
      { s with reopened := fun x => if x = o then (s.reopened x || decide (1 ≤ s.closedCnt o)) else s.reopened x }
    match f with
    | .rel => some (goto s1 t (.relAcq o), [.work o])
    | .des k => some (goto s1 t (.desAcq o k), [.work o])
  -- release -----------------------------------------------------------------------------------------
  | .relAcq o, .tau =>
    if s.lock = none then some (goto { s with lock := some t } t (.relBody o), [.acq t]) else none
  | .relBody o, .tau =>
    if o ∈ s.used then some (goto { s with used := s.used.erase o } t (.relAppend o), [.removeUsed o])
    else some (goto s t .relRel, [.silentMiss o])
  | .relAppend o, .tau => some (goto { s with free := s.free ++ [o] } t .relRel, [.appendFree o])
  | .relRel, .tau => unlock s t [] fun s' => finish s' t
  -- destroy -----------------------------------------------------------------------------------------
  | .desAcq o k, .tau =>
    if s.lock = none then some (goto { s with lock := some t } t (.desBody o k), [.acq t]) else none
  | .desBody o k, .tau =>
    if o ∈ s.used then some (goto { s with used := s.used.erase o } t (.desRel o true k), [.removeUsed o])
    else some (goto s t (.desRel o false k), [.silentMiss o])
  | .desRel o true k, .tau => unlock s t [] fun s' => goto s' t (.desAfter o k)
  | .desRel _ false .done, .tau => unlock s t [] fun s' => finish s' t
  | .desRel o false .rel, .tau => unlock s t [] fun s' => goto s' t (.relAcq o)
  | .desRel o false .des, .tau => unlock s t [] fun s' => goto s' t (.desAcq o .done)
  | .desAfter o .done, .tau => some (finish (close s o) t, [.afterRemove o])
  | .desAfter o .rel, .tau => some (goto (close s o) t (.relAcq o), [.afterRemove o])
  | .desAfter o .des, .tau => some (goto (close s o) t (.desAcq o .done), [.afterRemove o])
  -- clear -------------------------------------------------------------------------------------------
  | .clrBody, .tau =>
    some (goto { s with used := [], free := [] } t (.clrRel (s.used ++ s.free)), [.clearFree, .clearUsed])
  | .clrRel [], .tau => unlock s t [] fun s' => finish s' t
  | .clrRel (o :: r), .tau => unlock s t [] fun s' => goto s' t (.clrAfter o r)
  | .clrAfter o [], .tau => some (finish (close s o) t, [.afterRemove o])
  | .clrAfter o (o' :: r), .tau => some (goto (close s o) t (.clrAfter o' r), [.afterRemove o])
  | _, _ => none

def step (s : State) (t : Tid) (l : Label) : Option State := (stepE s t l).map Prod.fst

def enabled (s : State) (t : Tid) (l : Label) : Bool := (stepE s t l).isSome

def TState.done (ts : TState) : Bool := ts.pc == .idle && ts.prog.isEmpty

/-- run a schedule; `none` as soon as a scheduled step is not enabled -/
def run (s : State) : List (Tid × Label) → Option State
  | [] => some s
  | (t, l) :: rest =>
    match step s t l with
    | some s' => run s' rest
    | none => none

/-- run a schedule and collect the events, one list per step; stops with `[disabled t]`-marker -/
def runEvents (s : State) : List (Tid × Label) → List (List String)
  | [] => []
  | (t, l) :: rest =>
    match stepE s t l with
    | some (s', evs) => evs.map Event.render :: runEvents s' rest
    | none => [[s!"disabled {t}"]]

/-- Events of a schedule from the initial state, flattened, in order, in the canonical form
`acq t | rel t | len-free n | len-used n | popleft o | append-used o | remove-used o | append-free o |
after_remove o | create o | raise-too-many | silent-miss o | clear-free | clear-used | work o |
internal-error`; a scheduled step that is not enabled yields `disabled t` and ends the output. -/
def runSchedule (maxSize : Nat) (programs : List Program) (sched : List (Tid × Label)) : List String :=
  (runEvents (init programs maxSize) sched).flatten

/-- observable summary of a state (for `#eval` and `decide` examples) -/
def State.view (s : State) (nthreads : Nat) :
    List Obj × List Obj × Option Tid × Nat × List Nat × List Bool × List TState :=
  (s.used, s.free, s.lock, s.created, (List.range s.created).map s.closedCnt,
   (List.range s.created).map s.reopened, (List.range nthreads).map s.th)

/-! ## text interface (for the line-protocol driver) -/

def Op.parse : String → Option Op
  | "useOk" => some .useOk
  | "useFail" => some .useFail
  | "quitOk" => some .quitOk
  | "quitFail" => some .quitFail
  | "clear" => some .clear
  | _ => none

def Label.parse : String → Option Label
  | "tau" => some .tau
  | "expired" => some .expired
  | "fresh" => some .fresh
  | "createFail" => some .createFail
  | _ => none

/-- `"useOk,quitOk;clear;"` ↦ `[[useOk, quitOk], [clear], []]`: threads separated by `;`, Ops by `,` -/
def parsePrograms (s : String) : Option (List Program) :=
  (s.splitOn ";").mapM fun p =>
    if p.isEmpty then some [] else (p.splitOn ",").mapM Op.parse

/-- `["0:tau", "1:expired"]` ↦ `[(0, tau), (1, expired)]` -/
def parseSchedule (ws : List String) : Option (List (Tid × Label)) :=
  ws.mapM fun w =>
    match w.splitOn ":" with
    | [t, l] => do some ((← t.toNat?), (← Label.parse l))
    | _ => none

/-! ## vocabulary of the property statements -/

/-- program counters strictly inside a `with self._lock` block -/
def Pc.inCS : Pc → Bool
  | .getLoop _ | .getPop _ | .getTest _ _ | .getCount _ | .getCreate _ | .getAppend _ _ | .getRel _ _
  | .getRaised | .relBody _ | .relAppend _ | .relRel | .desBody _ _ | .desRel _ _ _ | .clrBody
  | .clrRel _ => true
  | _ => false

/-- The connection a thread has checked out and may still use or hand back: from the moment `get` has
taken it out of `free` (or created it) until the last pool call of the bracket on it is over
(for `release`: until it has been appended to `free`). -/
def Pc.holds : Pc → Option Obj
  | .getTest o _ | .getAppend o _ | .getRel o _ | .hold o _ | .relAcq o | .relBody o | .relAppend o
  | .desAcq o _ | .desBody o _ | .desRel o _ _ | .desAfter o _ => some o
  | _ => none

/-- states reachable from `init programs maxSize` by finitely many enabled micro-steps of any threads -/
inductive Reachable (programs : List Program) (maxSize : Nat) : State → Prop
  | init : Reachable programs maxSize (init programs maxSize)
  | step {s s' : State} {t : Tid} {l : Label} :
      Reachable programs maxSize s → step s t l = some s' → Reachable programs maxSize s'

/-- Reachability by schedules in which the critical section of `clear` (the step that empties `used`
and `free`) is executed only while no thread has a connection checked out.  Used by the `_partial`
form of the "no socket is leaked" claim; every other C08 theorem is about plain `Reachable`. -/
inductive ReachableNoClearRace (programs : List Program) (maxSize : Nat) : State → Prop
  | init : ReachableNoClearRace programs maxSize (init programs maxSize)
  | step {s s' : State} {t : Tid} {l : Label} :
      ReachableNoClearRace programs maxSize s → step s t l = some s' →
      ((s.th t).pc = .clrBody → ∀ u, (s.th u).pc.holds = none) →
      ReachableNoClearRace programs maxSize s'

theorem ReachableNoClearRace.reachable {programs : List Program} {maxSize : Nat} {s : State}
    (h : ReachableNoClearRace programs maxSize s) : Reachable programs maxSize s := by
  induction h with
  | init => exact .init
  | step _ hs _ ih => exact .step ih hs

/-- every thread has run its whole program -/
def State.allDone (s : State) : Prop := ∀ t, (s.th t).done = true

theorem reachable_run {programs : List Program} {maxSize : Nat} {s s' : State}
    (h : Reachable programs maxSize s) (sched : List (Tid × Label)) (hr : run s sched = some s') :
    Reachable programs maxSize s' := by
  induction sched generalizing s with
  | nil => simp [run] at hr; subst hr; exact h
  | cons a rest ih =>
    obtain ⟨t, l⟩ := a
    simp only [run] at hr
    split at hr
    · next s1 h1 => exact ih (Reachable.step h h1) hr
    · simp at hr

/-- decidable check of a predicate on the state reached by a schedule -/
def runCheck (maxSize : Nat) (programs : List Program) (sched : List (Tid × Label)) (p : State → Bool) : Bool :=
  match run (init programs maxSize) sched with
  | some s => p s
  | none => false

theorem runCheck_reachable {maxSize : Nat} {programs : List Program} {sched : List (Tid × Label)}
    {p : State → Bool} (h : runCheck maxSize programs sched p = true) :
    ∃ s, Reachable programs maxSize s ∧ p s = true := by
  unfold runCheck at h
  split at h
  · next s hs => exact ⟨s, reachable_run Reachable.init sched hs, h⟩
  · simp at h

end PoolConc
