import Pymc.Model.Wire
import Pymc.Model.Readers
/-!
# L3 — what `Client` does with a connection: the three exchange paths of base.py

`_fetch_cmd` (1155–1215), `_store_cmd` (1217–1301), `_misc_cmd` (1303–1345), `_extract_value`
(1117–1153), `_raise_errors` (1072–1082) and the per-operation post-processing, over an explicit script
of what the socket does during the call.  The code modelled is the tree *after* the `fix:` commits
(in particular: every exception class, including `BaseException`, closes the socket; `ignore_exc`
swallows `Exception`s only).

Python builtins used: `bytes.split()` (= `Key.pySplitWs`), `startswith`, `find(b" ")`, slicing, `int(bytes)`.
-/
namespace Exchange
open Bytes Readers Wire

/-- exception classes, as far as the properties distinguish them -/
inductive Exc
  | illegalInput | unknownCommand | clientError (msg : Bytes) | serverError (msg : Bytes)
  | unknownError (line32 : Bytes) | unexpectedClose
  | sock (code : Nat)          -- raised by the socket; `code ≥ 100` stands for a `BaseException`
  | valueError | keyError | indexError
deriving DecidableEq, Repr

def isBaseExc : Exc → Bool
  | .sock c => c ≥ 100
  | _ => false

def ofReaderErr : Readers.Err → Exc
  | .unexpectedClose => .unexpectedClose
  | .sock c => .sock c
  | .indexError => .indexError

/-- `int(b)` for `bytes` without surrounding whitespace: optional sign, digits, single underscores
between digits -/
def pyIntDigits : Bytes → Bool → Option Nat → Option Nat
  | [], prevUnderscore, acc => if prevUnderscore then none else acc
  | c :: r, prevUnderscore, acc =>
    if isDigit c then pyIntDigits r false (some ((acc.getD 0) * 10 + (c.toNat - 48)))
    else if c = 95 then (if prevUnderscore || acc.isNone then none else pyIntDigits r true acc)
    else none
def pyInt (b : Bytes) : Option Int :=
  match b with
  | 45 :: r => (pyIntDigits r false none).map fun n => -(n : Int)
  | 43 :: r => (pyIntDigits r false none).map fun n => (n : Int)
  | _ => (pyIntDigits b false none).map fun n => (n : Int)

def startsWith (line pre : Bytes) : Bool := pre.isPrefixOf line

/-- `line[line.find(b" ") + 1:]` -/
def afterFirstSpace (line : Bytes) : Bytes :=
  match line.idxOf? SP with
  | some i => line.drop (i + 1)
  | none => line

/-- `_raise_errors` -/
def raiseErrors (line : Bytes) : Option Exc :=
  if startsWith line (ofString "ERROR") then some .unknownCommand
  else if startsWith line (ofString "CLIENT_ERROR") then some (.clientError (afterFirstSpace line))
  else if startsWith line (ofString "SERVER_ERROR") then some (.serverError (afterFirstSpace line))
  else none

/-- what a call leaves behind -/
structure Out (α : Type) where
  res : Except Exc α
  unread : List Ev         -- recv results not consumed by this call
  closed : Bool            -- `self.close()` was called (the socket is gone)
deriving Repr

/-! ## store path: one reply line per key (1286–1298) -/
def storeResultValue (verb : SVerb) (line : Bytes) : Option (Option Bool) :=
  if line = ofString "STORED" then some (some true)
  else if verb = .cas then
    (if line = ofString "EXISTS" then some (some false)
     else if line = ofString "NOT_FOUND" then some none else none)
  else if line = ofString "NOT_STORED" then some (some false)
  else none

def storeLoop (verb : SVerb) : (nkeys : Nat) → Bytes → List Ev → List (Option Bool) → Out (List (Option Bool))
  | 0, _, evs, acc => ⟨.ok acc, evs, false⟩
  | n + 1, buf, evs, acc =>
    match readline [] buf evs with
    | .error e => ⟨.error (ofReaderErr e), [], true⟩
    | .ok (rest, line, evs') =>
      match raiseErrors line with
      | some e => ⟨.error e, evs', true⟩
      | none =>
        match storeResultValue verb line with
        | some v => storeLoop verb n rest evs' (acc ++ [v])
        | none => ⟨.error (.unknownError (line.take 32)), evs', true⟩

/-! ## misc path: one reply item per command (1333–1341) -/
def miscLoop (tok : Option Bytes) : (ncmds : Nat) → Bytes → List Ev → List Bytes → Out (List Bytes)
  | 0, _, evs, acc => ⟨.ok acc, evs, false⟩
  | n + 1, buf, evs, acc =>
    let r := match tok with
      | some t => readsegment t buf evs
      | none => readline [] buf evs
    match r with
    | .error e => ⟨.error (ofReaderErr e), [], true⟩
    | .ok (rest, line, evs') =>
      match raiseErrors line with
      | some e => ⟨.error e, evs', true⟩
      | none => miscLoop tok n rest evs' (acc ++ [line])

/-! ## fetch path (1188–1210) with `_extract_value` -/
/-- a fetched item: wire key, data, flags, cas token (as bytes) -/
structure Item where
  key : Bytes
  data : Bytes
  flags : Int
  cas : Option Bytes
deriving DecidableEq, Repr

inductive FetchKind | values (expectCas : Bool) | stats
deriving DecidableEq, Repr

inductive FetchEntry
  | item (it : Item)
  | stat (name value : Bytes)
deriving DecidableEq, Repr

def joinSp : List Bytes → Bytes
  | [] => []
  | [a] => a
  | a :: r => a ++ [SP] ++ joinSp r

/-- `wanted` = the prefixed keys of the request (`remapped_keys[key]` raises `KeyError` otherwise) -/
def fetchLoop (kind : FetchKind) (wanted : List Bytes) :
    (fuel : Nat) → Bytes → List Ev → List FetchEntry → Out (List FetchEntry)
  | 0, _, evs, _ => ⟨.error .indexError, evs, true⟩      -- unreachable with enough fuel
  | fuel + 1, buf, evs, acc =>
    match readline [] buf evs with
    | .error e => ⟨.error (ofReaderErr e), [], true⟩
    | .ok (rest, line, evs') =>
      match raiseErrors line with
      | some e => ⟨.error e, evs', true⟩
      | none =>
        if line = ofString "END" || line = ofString "OK" then ⟨.ok acc, evs', false⟩
        else if startsWith line (ofString "VALUE") then
          let parts := Key.pySplitWs line
          let expectCas := kind = .values true
          if (expectCas && parts.length ≠ 5) || (!expectCas && parts.length ≠ 4) then
            ⟨.error .valueError, evs', true⟩
          else
            let key := parts.getD 1 []
            match pyInt (parts.getD 3 []) with
            | none => ⟨.error .valueError, evs', true⟩
            | some size =>
              match readvalue rest size evs' with
              | .error e => ⟨.error (ofReaderErr e), [], true⟩
              | .ok (rest', data, evs'') =>
                if !wanted.contains key then ⟨.error .keyError, evs'', true⟩
                else match pyInt (parts.getD 2 []) with
                  | none => ⟨.error .valueError, evs'', true⟩
                  | some flags =>
                    fetchLoop kind wanted fuel rest' evs''
                      (acc ++ [.item ⟨key, data, flags, if expectCas then some (parts.getD 4 []) else none⟩])
        else if kind = .stats && startsWith line (ofString "STAT") then
          let kv := Key.pySplitWs line
          if kv.length < 2 then ⟨.error .indexError, evs', true⟩
          else fetchLoop kind wanted fuel rest evs' (acc ++ [.stat (kv.getD 1 []) (kv.getD 2 [])])
        else if kind = .stats && startsWith line (ofString "ITEM") then
          let kv := Key.pySplitWs line
          if kv.length < 2 then ⟨.error .indexError, evs', true⟩
          else fetchLoop kind wanted fuel rest evs' (acc ++ [.stat (kv.getD 1 []) (joinSp (kv.drop 2))])
        else ⟨.error (.unknownError (line.take 32)), evs', true⟩

/-! ## a whole exchange: connect if needed, send, read -/
structure Script where
  connectFails : Option Exc := none     -- outcome of `_connect()` if this call has to connect
  sendFails : Option Exc := none        -- outcome of `sendall`
  evs : List Ev := []                   -- recv results during this call
deriving Repr

structure CallOut (α : Type) where
  res : Except Exc α
  sockOpen : Bool           -- `self.sock is not None` afterwards
  connected : Bool          -- a new connection was established by this call
  sent : Option Bytes       -- bytes given to sendall (even if sendall then failed)
  unread : List Ev          -- recv results left in the pipe (only meaningful when `sockOpen`)
deriving Repr

def totalLen (buf : Bytes) (evs : List Ev) : Nat := buf.length + (joinData evs).length + evs.length + 2

/-- `_store_cmd` from line 1272 on (commands already built) -/
def exchangeStore (verb : SVerb) (cmds : List Bytes) (noreply : Bool) (sockOpen : Bool) (sc : Script) :
    CallOut (List (Option Bool)) :=
  match (if sockOpen then none else sc.connectFails) with
  | some e => ⟨.error e, false, false, none, sc.evs⟩           -- `_connect()` outside the try
  | none =>
    let connected := !sockOpen
    let payload := cmds.flatten
    match sc.sendFails with
    | some e => ⟨.error e, false, connected, some payload, sc.evs⟩
    | none =>
      if noreply then ⟨.ok (cmds.map fun _ => some true), true, connected, some payload, sc.evs⟩
      else
        let o := storeLoop verb cmds.length [] sc.evs []
        ⟨o.res, !o.closed, connected, some payload, o.unread⟩

/-- `_misc_cmd` from line 1318 on -/
def exchangeMisc (cmds : List Bytes) (noreply : Bool) (tok : Option Bytes) (sockOpen : Bool) (sc : Script) :
    CallOut (List Bytes) :=
  match (if sockOpen then none else sc.connectFails) with
  | some e => ⟨.error e, false, false, none, sc.evs⟩
  | none =>
    let connected := !sockOpen
    let payload := cmds.flatten
    match sc.sendFails with
    | some e => ⟨.error e, false, connected, some payload, sc.evs⟩
    | none =>
      if noreply then ⟨.ok [], true, connected, some payload, sc.evs⟩
      else
        let o := miscLoop tok cmds.length [] sc.evs []
        ⟨o.res, !o.closed, connected, some payload, o.unread⟩

/-- `_fetch_cmd` from line 1176 on; `ignoreExc` turns every `Exception` into `{}` (after closing) -/
def exchangeFetch (kind : FetchKind) (cmd : Bytes) (wanted : List Bytes) (ignoreExc : Bool)
    (sockOpen : Bool) (sc : Script) : CallOut (List FetchEntry) :=
  let swallow := fun (e : Exc) (connected : Bool) (sent : Option Bytes) (unread : List Ev) =>
    (⟨if ignoreExc && !isBaseExc e then .ok [] else .error e, false, connected, sent, unread⟩ :
      CallOut (List FetchEntry))
  match (if sockOpen then none else sc.connectFails) with
  | some e => swallow e false none sc.evs                        -- `_connect()` inside the try
  | none =>
    let connected := !sockOpen
    match sc.sendFails with
    | some e => swallow e connected (some cmd) sc.evs
    | none =>
      let o := fetchLoop kind wanted (totalLen [] sc.evs) [] sc.evs []
      match o.res with
      | .ok r => ⟨.ok r, true, connected, some cmd, o.unread⟩
      | .error e => swallow e connected (some cmd) o.unread
end Exchange
