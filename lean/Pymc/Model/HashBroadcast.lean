import Pymc.Model.HashCallMany
/-!
# `HashClient ∘ Client`: the broadcast operations `flush_all`, `quit`, `close` / `disconnect_all`

```
def flush_all(self, *args, **kwargs) -> None:
    for client in self.clients.values():
        self._safely_run_func(client, client.flush_all, False, *args, **kwargs)
def quit(self) -> None:
    for client in self.clients.values():
        self._safely_run_func(client, client.quit, False)
def close(self):
    for client in self.clients.values():
        self._safely_run_func(client, client.close, False)
disconnect_all = close
```

A broadcast walks over *all* client objects registered in `self.clients`, in registration order — also those of servers
that are out of rotation: `remove_server` takes a server out of `hasher.nodes` and moves it from `_failed_clients` to
`_dead_clients`, but never out of `self.clients`.  No `_get_client`, hence no key check, no `_retry_dead`, no routing.
Every client goes through `_safely_run_func` with `default_val=False`; what that returns is dropped; the first exception
that escapes it ends the loop: the remaining clients are not contacted.

The key-addressed model (`HashCall.safelyRunFunc`, `Failover.removeServer`, `Failover.markFailed`) reports a failing dict
`pop` / `remove_node` of the bookkeeping as `internalError` *with the state from before the failing helper*, because on the
key-addressed paths these branches are unreachable (`C13_no_internal_error`).  A broadcast does reach them: it contacts a
server that is out of rotation, and `remove_server` of such a server runs `self._failed_clients.pop(server)` and
`self._dead_clients[server] = time.time()` and only then fails in `self.hasher.remove_node(key)` with
`ValueError("No such node …")`.  So this file transliterates `remove_server`, `_mark_failed_server` and
`_safely_run_func` once more, statement by statement, keeping the state each statement leaves (`removeServerX`,
`markFailedX`, `safelyRunFuncX`), and says where the exception goes:

* raised inside the `try` block (the `remove_server` of a server that has used up its retries): it is an `Exception` but
  no `OSError`, so the second handler takes it — re-raised unless `ignore_exc`, in which case `default_val` is returned and
  the loop goes on;
* raised inside the `except OSError` handler (`_mark_failed_server` → `remove_server` with `retry_attempts = 0`): an exception
  raised in a handler is not caught by a sibling handler, it escapes whatever `ignore_exc` says.

`Proofs/HashBroadcastStep.lean` shows that wherever the key-addressed model does not answer `internalError` the two
transliterations agree (`safelyRunFuncX_agrees`).

The inner operation: `client.flush_all(delay, noreply)` and `client.quit()` are `Client.call (.flushAll delay noreply)` /
`Client.call .quit` on the client object (one step of `Framing.runTaggedFrom`, as for every other contact of `HashCall`);
`client.close()` is not a `Client.call`: it sends and reads nothing and never raises (an `Exception` of `sock.close()` is
swallowed inside `Client.close`); afterwards the object has no socket.

Time is read once per public call, as everywhere in `Failover` / `HashCall`.

`BCall` / `callB` / `runB` at the end are the histories that mix broadcasts with the key-addressed calls of
`HashCallMany` (`MCall`).
-/
namespace HashCall
open Exchange Client Framing Failover

/-- what a broadcast forwards to every registered client -/
inductive BOp
  | flushAll (delay : Wire.IntArg) (noreply : Option Bool)     -- `flush_all(delay=0, noreply=None)`
  | quit
  | close                                                       -- also `disconnect_all`
deriving Repr

/-- the inner `Client.call`, if the operation is one -/
def BOp.call? : BOp → Option Call
  | .flushAll d nr => some (.flushAll d nr)
  | .quit => some .quit
  | .close => none

/-- the exceptions of the bookkeeping itself: `dict.pop` / `dict[...]` without the key, `remove_node` without the node -/
inductive BkErr
  | keyError | valueError
deriving DecidableEq, Repr

/-! ## `remove_server` and `_mark_failed_server`, keeping the state a raising statement leaves -/

/-- `remove_server(server)`: `self._failed_clients.pop(server)`; `self._dead_clients[server] = dead_time`;
`self.hasher.remove_node(key)` — the state when it returns (`none`) or raises (`some …`) -/
def removeServerX (now : Time) (fo : State) (s : Srv) : State × Option BkErr :=
  match aerase s fo.failed with
  | none => (fo, some .keyError)
  | some f =>
    match removeNode s fo.nodes with
    | none => ({ fo with failed := f, dead := ainsert s now fo.dead }, some .valueError)
    | some ns => ({ fo with nodes := ns, failed := f, dead := ainsert s now fo.dead }, none)

/-- `_mark_failed_server(server)` -/
def markFailedX (c : Cfg) (now : Time) (fo : State) (s : Srv) : State × Option BkErr :=
  if !amem s fo.failed && decide (c.ra > 0) then
    ({ fo with failed := ainsert s (0, now) fo.failed }, none)
  else if !amem s fo.failed && decide (c.ra ≤ 0) then
    removeServerX now { fo with failed := ainsert s (0, now) fo.failed } s
  else
    match alookup s fo.failed with
    | none => (fo, some .keyError)
    | some (a, _) => ({ fo with failed := ainsert s (a + 1, now) fo.failed }, none)

/-! ## `_safely_run_func(client, func, False, …)` -/

/-- how one `_safely_run_func` of a broadcast ended -/
inductive BOut
  | value (r : Res)             -- `func()` returned `r` (the loop drops it)
  | default                     -- `default_val` (`False`): not contacted (retry window), or swallowed by `ignore_exc`
  | raised (e : Exc)            -- the exception of the inner client escaped
  | bookkeeping (k : BkErr)     -- an exception of the bookkeeping escaped
deriving DecidableEq, Repr

/-- an exception came out of `_safely_run_func`: the loop of the broadcast ends -/
def BOut.escapes : BOut → Bool
  | .value _ => false
  | .default => false
  | _ => true

/-- `func(*args, **kwargs)` on the client object `cl` registered for server `s`: the new state (the object stays
registered with the socket and the pipe the call left), what it returned or raised, and the inner `Client.call` -/
def bfunc (ccfg : Wire.Cfg) (idx : Nat) (st : St) (s : Srv) (cl : IClient) (op : BOp) (sc : Script) :
    St × Except Exc Res × Option Step :=
  match op.call? with
  | some call =>
    match contact ccfg idx st s cl call sc with
    | (st1, stp) => (st1, stp.out.res, some stp)
  | none =>
    -- `client.close()`: `if self.sock is not None: try: self.sock.close() except Exception: pass finally: self.sock = None`
    ({ st with clients := ainsert s { cl with sockOpen := false, pipe := [] } st.clients }, .ok .none, none)

/-- the clause `except Exception: if not self.ignore_exc: raise; return default_val` for an exception that is an
`Exception` but not an `OSError` -/
def onOther (c : Cfg) (st : St) (out : BOut) : St × BOut :=
  if c.ignoreExc then (st, .default) else (st, out)

/-- the two `except` clauses for an exception `e` raised by `func()` -/
def onErrorX (c : Cfg) (now : Time) (st : St) (s : Srv) (e : Exc) : St × BOut :=
  if isBaseExc e then (st, .raised e)                     -- neither `except OSError` nor `except Exception`
  else if isOSError e then
    match markFailedX c now st.fo s with
    | (fo', some k) => ({ st with fo := fo' }, .bookkeeping k)      -- raised inside the handler: nothing catches it
    | (fo', none) =>
      if c.ignoreExc then ({ st with fo := fo' }, .default) else ({ st with fo := fo' }, .raised e)
  else onOther c st (.raised e)

/-- `result = func(*args, **kwargs)` with what follows it: `return result`, preceded in the retry branch (`clear`) by
`self._failed_clients.pop(client.server)` (inside the `try`: a `KeyError` there would go to `except Exception`); or the
handlers.  The last component: `func` was called. -/
def invokeX (ccfg : Wire.Cfg) (c : Cfg) (idx : Nat) (now : Time) (st : St) (s : Srv) (cl : IClient) (op : BOp)
    (sc : Script) (clear : Bool) : St × BOut × Option Step × Bool :=
  match bfunc ccfg idx st s cl op sc with
  | (st1, .ok r, stp) =>
    if clear then
      match aerase s st1.fo.failed with
      | none =>
        match onOther c st1 (.bookkeeping .keyError) with
        | (st2, o) => (st2, o, stp, true)
      | some f => ({ st1 with fo := { st1.fo with failed := f } }, .value r, stp, true)
    else (st1, .value r, stp, true)
  | (st1, .error e, stp) =>
    match onErrorX c now st1 s e with
    | (st2, o) => (st2, o, stp, true)

/-- `_safely_run_func(client, func, False, …)` for the client object `cl` of server `s`, statement by statement -/
def safelyRunFuncX (ccfg : Wire.Cfg) (c : Cfg) (idx : Nat) (now : Time) (st : St) (s : Srv) (cl : IClient) (op : BOp)
    (sc : Script) : St × BOut × Option Step × Bool :=
  match alookup s st.fo.failed with
  | some (attempts, failedTime) =>
    if attempts < c.ra then
      if now - failedTime > c.rt then invokeX ccfg c idx now st s cl op sc true
      else (st, .default, none, false)
    else
      -- `self.remove_server(client.server)` inside the `try`
      match removeServerX now st.fo s with
      | (fo', some k) =>
        match onOther c { st with fo := fo' } (.bookkeeping k) with
        | (st2, o) => (st2, o, none, false)
      | (fo', none) => invokeX ccfg c idx now { st with fo := fo' } s cl op sc false
  | none => invokeX ccfg c idx now st s cl op sc false

/-! ## the loop -/

/-- what happened to one registered client during a broadcast -/
structure BObs where
  server : Srv
  client : Nat                    -- the number of the client object registered for the server
  invoked : Bool                  -- `func` was called on it
  step : Option Step              -- the inner `Client.call` (`flush_all`, `quit`) with its tagged `recv()` results
  out : BOut
deriving Repr

/-- how a broadcast ended -/
inductive BRes
  | done                                    -- the loop ran to its end: `None`
  | raised (s : Srv) (e : Exc)              -- the exception raised by the client of server `s` escaped
  | bookkeeping (s : Srv) (k : BkErr)       -- the bookkeeping for server `s` raised
deriving DecidableEq, Repr

def BRes.ofOut (s : Srv) : BOut → BRes
  | .raised e => .raised s e
  | .bookkeeping k => .bookkeeping s k
  | _ => .done

/-- `for client in self.clients.values(): self._safely_run_func(client, client.<op>, False, …)` over the keys `keys` of
`self.clients`; what the connection of server `s` does during the call is `scripts s`.  (A key without an entry cannot
occur: the keys are those of the dict, and nothing is deleted from it.) -/
def bloop (ccfg : Wire.Cfg) (c : Cfg) (idx : Nat) (now : Time) (op : BOp) (scripts : Srv → Script) :
    St → List Srv → St × BRes × List BObs
  | st, [] => (st, .done, [])
  | st, s :: rest =>
    match alookup s st.clients with
    | none => bloop ccfg c idx now op scripts st rest
    | some cl =>
      match safelyRunFuncX ccfg c idx now st s cl op (scripts s) with
      | (st1, o, stp, inv) =>
        if o.escapes then (st1, BRes.ofOut s o, [⟨s, cl.id, inv, stp, o⟩])
        else
          match bloop ccfg c idx now op scripts st1 rest with
          | (st2, r, obs) => (st2, r, ⟨s, cl.id, inv, stp, o⟩ :: obs)

/-- the keys of `self.clients`, in registration order -/
def St.servers (st : St) : List Srv := st.clients.map (·.1)

/-- what a broadcast shows -/
structure BcObs where
  res : BRes
  visits : List BObs := []
deriving Repr

/-- one broadcast: call number `idx` of the history, at time `now` -/
def broadcastH (ccfg : Wire.Cfg) (c : Cfg) (st : St) (idx : Nat) (now : Time) (op : BOp) (scripts : Srv → Script) :
    St × BcObs :=
  match bloop ccfg c idx now op scripts st st.servers with
  | (st1, r, obs) => (st1, { res := r, visits := obs })

/-- the inner `Client.call`s of the broadcast, in order -/
def BcObs.steps (ob : BcObs) : List Step := ob.visits.filterMap (·.step)

/-! ## histories that mix key-addressed calls and broadcasts -/

/-- a public call: a key-addressed one (`MCall`: single-key, `get_many` / `gets_many`, `set_many`, `delete_many`) or a
broadcast -/
inductive BCall (RK : Type)
  | keyed (mc : MCall RK)
  | broadcast (op : BOp) (scripts : Srv → Script) (now : Time)

def BCall.now {RK : Type} : BCall RK → Time
  | .keyed mc => mc.now
  | .broadcast _ _ now => now

/-- what a public call shows -/
inductive XObs
  | keyed (ob : MObs)
  | broadcast (ob : BcObs)
deriving Repr

/-- the inner `Client.call`s of the public call, in order -/
def XObs.steps : XObs → List Step
  | .keyed ob => ob.steps
  | .broadcast ob => ob.steps

def callB {RK : Type} (ccfg : Wire.Cfg) (c : Cfg) (route : List Srv → RK → Option Srv) (st : St) (idx : Nat)
    (bc : BCall RK) : St × XObs :=
  match bc with
  | .keyed mc =>
    match callM ccfg c route st idx mc with
    | (st1, ob) => (st1, .keyed ob)
  | .broadcast op scripts now =>
    match broadcastH ccfg c st idx now op scripts with
    | (st1, ob) => (st1, .broadcast ob)

/-- run the calls one after the other; the first one is call number `k` -/
def runB {RK : Type} (ccfg : Wire.Cfg) (c : Cfg) (route : List Srv → RK → Option Srv) :
    (st : St) → (k : Nat) → List (BCall RK) → St × List XObs
  | st, _, [] => (st, [])
  | st, k, bc :: rest =>
    match callB ccfg c route st k bc with
    | (st1, ob) =>
      match runB ccfg c route st1 (k + 1) rest with
      | (st2, obs) => (st2, ob :: obs)

/-- a key-addressed history as a general one -/
def MCall.toB {RK : Type} (mc : MCall RK) : BCall RK := .keyed mc

/-! ## the framing hypotheses for a public call -/

/-- what arrives on the connection of every server during the call is well-framed for the inner call made on it: for a
`flush_all` one reply line per server unless `noreply`, for `quit` nothing; `close` receives nothing at all -/
def BCall.WellFramed {RK : Type} (ccfg : Wire.Cfg) : BCall RK → Prop
  | .keyed mc => mc.op.WellFramed ccfg
  | .broadcast op scripts _ =>
    match op.call? with
    | some call => ∀ s, Framing.WellFramed ccfg call (scripts s).evs
    | none => True

/-- the same over connections that may break (`Framing.FaultFramed`) -/
def BCall.FaultFramed {RK : Type} (ccfg : Wire.Cfg) : BCall RK → Prop
  | .keyed mc => mc.op.FaultFramed ccfg
  | .broadcast op scripts _ =>
    match op.call? with
    | some call => ∀ s, Framing.FaultFramed ccfg call (scripts s).evs
    | none => True

/-- the inner call raised an `OSError` (the server "fails") -/
def stepOSError : Option Step → Bool
  | some stp => (match stp.out.res with | .error e => isOSError e | .ok _ => false)
  | none => false

/-- the inner call of the visit raised an `OSError` -/
def BObs.oserror (ob : BObs) : Bool := stepOSError ob.step
end HashCall
