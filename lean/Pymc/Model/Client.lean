import Pymc.Model.Exchange
import Pymc.Model.Server
/-!
# The public operations of `Client` (base.py 446–1070) on top of the exchange paths

`call` = argument checks and command building (Wire) → exchange (Exchange) → post-processing, for the
default serializer (values are bytes; `str`/`int` values are rendered as text).  Besides the data operations it
covers the administrative ones: `stats` (the raw dict, before the type conversion), `cache_memlimit`, `shutdown`.  `onServer` composes a
call with the Lean memcached (`Server.feed`) over a perfect connection — the object of C04/C05.
-/
namespace Client
open Bytes Wire Exchange Readers

inductive Call
  | store (verb : SVerb) (k : Key.K) (v : Val) (expire : IntArg) (noreply : Option Bool)
      (flags : Option Int) (cas : Option CasArg)
  | setMany (items : List (Key.K × Val)) (expire : IntArg) (noreply : Option Bool) (flags : Option Int)
  | get (k : Key.K) | gets (k : Key.K)
  | gat (k : Key.K) (expire : IntArg) | gats (k : Key.K) (expire : IntArg)
  | getMany (ks : List Key.K) | getsMany (ks : List Key.K)
  | delete (k : Key.K) (noreply : Option Bool)
  | deleteMany (ks : List Key.K) (noreply : Option Bool)
  | arith (incr : Bool) (k : Key.K) (delta : IntArg) (noreply : Bool)
  | touch (k : Key.K) (expire : IntArg) (noreply : Option Bool)
  | flushAll (delay : IntArg) (noreply : Option Bool)
  | version
  | quit
  | raw (cmd tok : Bytes)
  /-- `stats(*args)`: the arguments are `str`/`bytes` objects, treated by `_fetch_cmd` like keys -/
  | stats (args : List Key.K)
  /-- `cache_memlimit(memlimit)` -/
  | cacheMemlimit (m : IntArg)
  /-- `shutdown(graceful=False)` -/
  | shutdown (graceful : Bool)
deriving Repr

inductive Res
  | none
  | bool (b : Bool)
  | int (i : Int)
  | bytes (b : Bytes)
  | dflt                                            -- the caller's `default`
  | dfltPair                                        -- `(default, cas_default)`
  | pair (v cas : Bytes)
  | dict (kvs : List (Key.K × Bytes))
  | casDict (kvs : List (Key.K × Bytes × Bytes))
  | keys (ks : List Key.K)
  /-- the dict `stats()` gets from `_fetch_cmd`, *before* the per-key type conversion (`STAT_TYPES.get(key, int)`
  applied to each value, failures ignored): the conversion (floats, booleans, octal) is outside the model, the
  harness applies it to this raw form before comparing.  Insertion-ordered, a later entry with the same key
  overwrites the earlier value in place.  The key of a `STAT name value` / `ITEM name …` line is the `bytes`
  object `name` (`.bytes name`); a `VALUE` block — which `_fetch_cmd` accepts in a `stats` reply too — is
  entered under the caller's own argument object (`remapped_keys[key]`), which may be a `str`. -/
  | stats (kvs : List (Key.K × Bytes))
deriving DecidableEq, Repr

def liftErr {α} : Except Wire.Err α → Except Exc α
  | .ok a => .ok a
  | .error _ => .error .illegalInput

/-- a call that fails before touching the connection -/
def early {α} (e : Exc) (sockOpen : Bool) (sc : Script) : CallOut α := ⟨.error e, sockOpen, false, none, sc.evs⟩

def mapOut {α β} (o : CallOut α) (f : α → Except Exc β) : CallOut β :=
  match o.res with
  | .ok a => ⟨f a, o.sockOpen, o.connected, o.sent, o.unread⟩
  | .error e => ⟨.error e, o.sockOpen, o.connected, o.sent, o.unread⟩

/-- `dict[key] = value` on an insertion-ordered dict -/
def dictSet {β} (d : List (Key.K × β)) (k : Key.K) (v : β) : List (Key.K × β) :=
  if d.any (·.1 = k) then d.map fun kv => if kv.1 = k then (k, v) else kv else d ++ [(k, v)]

/-- `remapped_keys = dict(zip(prefixed_keys, keys))`: the last original key with that wire key -/
def remapLookup (remap : List (Bytes × Key.K)) (w : Bytes) : Option Key.K :=
  (remap.reverse.find? (·.1 = w)).map (·.2)

def fetchValues (cfg : Cfg) (ignoreExc : Bool) (verb : FVerb) (ks : List Key.K) (expire : Option IntArg)
    (sockOpen : Bool) (sc : Script) : CallOut (List (Key.K × Item)) :=
  match ks.mapM (checkKey cfg), encodeFetch cfg verb ks expire with
  | .ok wire, .ok cmd =>
    let remap := wire.zip ks
    let expectCas := verb = .gets || verb = .gats
    mapOut (exchangeFetch (.values expectCas) cmd wire ignoreExc sockOpen sc) fun entries =>
      .ok (entries.foldl (fun d e => match e with
        | .item it => (match remapLookup remap it.key with
            | some k => dictSet d k it
            | none => d)
        | .stat _ _ => d) [])
  | _, _ => early .illegalInput sockOpen sc

def boolOr (o : Option Bool) (d : Bool) : Bool := o.getD d

/-- the `result` dict of `_fetch_cmd(b"stats", …)` from the reply entries in order (`result[key] = value`) -/
def statsDict (remap : List (Bytes × Key.K)) (entries : List FetchEntry) : List (Key.K × Bytes) :=
  entries.foldl (fun d e => match e with
    | .item it => (match remapLookup remap it.key with
        | some k => dictSet d k it.data
        | none => d)
    | .stat name value => dictSet d (.bytes name) value) []

/-- `try: … except MemcacheUnexpectedCloseError: pass` around `_misc_cmd` in `shutdown()`: that one exception
class becomes a normal return of `None`; every other outcome, and everything else about the call (the socket
was closed by `_misc_cmd` before it re-raised), is untouched -/
def swallowClose (o : CallOut Res) : CallOut Res :=
  ⟨match o.res with
    | .error .unexpectedClose => .ok .none
    | r => r, o.sockOpen, o.connected, o.sent, o.unread⟩

def call (cfg : Cfg) (ignoreExc : Bool) (sockOpen : Bool) (c : Call) (sc : Script) : CallOut Res :=
  match c with
  | .store verb k v expire noreply flags cas =>
    let nr := if verb = .cas then boolOr noreply false else boolOr noreply cfg.defaultNoreply
    let casB : Except Exc (Option Bytes) := match verb, cas with
      | .cas, some a => (liftErr (checkCas a)).map some
      | .cas, none => .error .illegalInput
      | _, _ => .ok Option.none
    match casB with
    | .error e => early e sockOpen sc
    | .ok cb =>
      match encodeStore cfg verb [(k, v)] expire nr flags 0 cb with
      | .error _ => early .illegalInput sockOpen sc
      | .ok cmds =>
        mapOut (exchangeStore verb cmds nr sockOpen sc) fun rs =>
          match rs with
          | [some b] => .ok (.bool b)
          | [Option.none] => .ok .none
          | _ => .error .keyError
  | .setMany items expire noreply flags =>
    let nr := boolOr noreply cfg.defaultNoreply
    match encodeStore cfg .set items expire nr flags 0 Option.none with
    | .error _ => early .illegalInput sockOpen sc
    | .ok cmds =>
      mapOut (exchangeStore .set cmds nr sockOpen sc) fun rs =>
        .ok (.keys ((items.zip rs).filterMap fun (kv, r) => if r = some true then Option.none else some kv.1))
  | .get k =>
    mapOut (fetchValues cfg ignoreExc .get [k] Option.none sockOpen sc) fun d =>
      .ok (match d.find? (·.1 = k) with | some (_, it) => .bytes it.data | Option.none => .dflt)
  | .gat k e =>
    mapOut (fetchValues cfg ignoreExc .gat [k] (some e) sockOpen sc) fun d =>
      .ok (match d.find? (·.1 = k) with | some (_, it) => .bytes it.data | Option.none => .dflt)
  | .gets k =>
    mapOut (fetchValues cfg ignoreExc .gets [k] Option.none sockOpen sc) fun d =>
      .ok (match d.find? (·.1 = k) with | some (_, it) => .pair it.data (it.cas.getD []) | Option.none => .dfltPair)
  | .gats k e =>
    mapOut (fetchValues cfg ignoreExc .gats [k] (some e) sockOpen sc) fun d =>
      .ok (match d.find? (·.1 = k) with | some (_, it) => .pair it.data (it.cas.getD []) | Option.none => .dfltPair)
  | .getMany ks =>
    if ks = [] then ⟨.ok (.dict []), sockOpen, false, Option.none, sc.evs⟩ else
    mapOut (fetchValues cfg ignoreExc .get ks Option.none sockOpen sc) fun d =>
      .ok (.dict (d.map fun (k, it) => (k, it.data)))
  | .getsMany ks =>
    if ks = [] then ⟨.ok (.casDict []), sockOpen, false, Option.none, sc.evs⟩ else
    mapOut (fetchValues cfg ignoreExc .gets ks Option.none sockOpen sc) fun d =>
      .ok (.casDict (d.map fun (k, it) => (k, it.data, it.cas.getD [])))
  | .delete k noreply =>
    let nr := boolOr noreply cfg.defaultNoreply
    match encodeDelete cfg [k] nr with
    | .error _ => early .illegalInput sockOpen sc
    | .ok cmds =>
      mapOut (exchangeMisc cmds nr Option.none sockOpen sc) fun ls =>
        if nr then .ok (.bool true) else .ok (.bool (ls.head? = some (ofString "DELETED")))
  | .deleteMany ks noreply =>
    if ks = [] then ⟨.ok (.bool true), sockOpen, false, Option.none, sc.evs⟩ else
    let nr := boolOr noreply cfg.defaultNoreply
    match encodeDelete cfg ks nr with
    | .error _ => early .illegalInput sockOpen sc
    | .ok cmds => mapOut (exchangeMisc cmds nr Option.none sockOpen sc) fun _ => .ok (.bool true)
  | .arith incr k delta noreply =>
    match encodeArith cfg incr k delta noreply with
    | .error _ => early .illegalInput sockOpen sc
    | .ok cmd =>
      mapOut (exchangeMisc [cmd] noreply Option.none sockOpen sc) fun ls =>
        if noreply then .ok .none else
        match ls.head? with
        | some l => if l = ofString "NOT_FOUND" then .ok .none else
            (match pyInt l with | some i => .ok (.int i) | Option.none => .error .valueError)
        | Option.none => .error .indexError
  | .touch k e noreply =>
    let nr := boolOr noreply cfg.defaultNoreply
    match encodeTouch cfg k e nr with
    | .error _ => early .illegalInput sockOpen sc
    | .ok cmd =>
      mapOut (exchangeMisc [cmd] nr Option.none sockOpen sc) fun ls =>
        if nr then .ok (.bool true) else .ok (.bool (ls.head? = some (ofString "TOUCHED")))
  | .flushAll delay noreply =>
    let nr := boolOr noreply cfg.defaultNoreply
    match encodeFlush delay nr with
    | .error _ => early .illegalInput sockOpen sc
    | .ok cmd =>
      mapOut (exchangeMisc [cmd] nr Option.none sockOpen sc) fun ls =>
        if nr then .ok (.bool true) else .ok (.bool (ls.head? = some (ofString "OK")))
  | .version =>
    mapOut (exchangeMisc [versionCmd] false Option.none sockOpen sc) fun ls =>
      match ls.head? with
      | some l =>
        (match l.idxOf? SP with
         | some i => if l.take i = ofString "VERSION" then .ok (.bytes (l.drop (i + 1))) else .error (.unknownError l)
         | Option.none => if l = ofString "VERSION" then .ok (.bytes []) else .error (.unknownError l))
      | Option.none => .error .indexError
  | .quit =>
    let o := exchangeMisc [quitCmd] true Option.none sockOpen sc
    ⟨o.res.map fun _ => .none, false, o.connected, o.sent, o.unread⟩     -- then `self.close()` (not reached if the exchange raised, but then the socket is closed anyway)
  | .raw cmd tok =>
    mapOut (exchangeMisc [cmd ++ CRLF] false (if tok = [] then Option.none else some tok) sockOpen sc) fun ls =>
      match ls.head? with | some l => .ok (.bytes l) | Option.none => .error .indexError
  | .stats args =>
    -- `_fetch_cmd(b"stats", args, False)`: `check_key(k, key_prefix=b"")` for every argument, outside the `try`
    match args.mapM (checkArg cfg) with
    | .error _ => early .illegalInput sockOpen sc
    | .ok wire =>
      mapOut (exchangeFetch .stats (adminFetchCmd (ofString "stats") wire) wire ignoreExc sockOpen sc) fun entries =>
        .ok (.stats (statsDict (wire.zip args) entries))
  | .cacheMemlimit m =>
    -- `_check_integer`, then `_fetch_cmd(b"cache_memlimit", [memlimit], False)`; the result dict is dropped and
    -- `True` returned — also when `ignore_exc` made `_fetch_cmd` return `{}` for a failed exchange
    match checkInteger m with
    | .error _ => early .illegalInput sockOpen sc
    | .ok i =>
      match checkArg cfg (.bytes (intDec i)) with
      | .error _ => early .illegalInput sockOpen sc     -- a decimal of more than 250 characters
      | .ok w =>
        mapOut (exchangeFetch (.values false) (adminFetchCmd (ofString "cache_memlimit") [w]) [w] ignoreExc sockOpen sc)
          fun _ => .ok (.bool true)
  | .shutdown graceful =>
    swallowClose (mapOut (exchangeMisc [shutdownCmd graceful] false Option.none sockOpen sc) fun _ => .ok .none)

/-! ## client ∘ wire ∘ server over a perfect connection -/
/-- the client is connected, the server answers everything it is sent, in one piece -/
def onServer (cfg : Cfg) (s : AbsMap.St) (c : Call) : AbsMap.St × Except Exc Res × Bool :=
  -- first find out what would be sent
  let probe := call cfg false true c {}
  match probe.sent with
  | Option.none => (s, probe.res, true)                       -- nothing sent: the server is untouched
  | some payload =>
    match Server.feed s payload with
    | Option.none => (s, .error .unknownCommand, false)        -- malformed request: a strict server rejects it
    | some (s', reply) =>
      let o := call cfg false true c { evs := if reply = [] then [] else [.data reply] }
      (s', o.res, o.sockOpen && o.unread = [])
end Client
