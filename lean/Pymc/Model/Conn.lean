/-!
# Connection establishment — `Client._connect` / `Client.close` (base.py 378–442)

The socket API is a *plan*: for every call the environment decides whether it raises.  The model returns the
new `self.sock` and a log of socket-API events with socket ids, so that leaks, ordering of timeouts and the
address fallback can be stated about the log.  The code modelled is the tree after the `fix:` commit that
clears the remembered error once a later address yields a socket (`connectOrig` keeps the old behaviour).
-/
namespace Conn

abbrev Id := Nat

inductive TO | connect | io
deriving DecidableEq, Repr

inductive Ev
  | created (id : Id) (addr : Nat)
  | wrapped (wrapper raw : Id)            -- TLS wrapper `wrapper` now owns `raw`
  | nodelay (id : Id)
  | settimeout (id : Id) (t : TO)
  | keepalive (id : Id)
  | connect (id : Id) (addr : Nat)
  | close (id : Id)                       -- close() was called (counts even if it raised)
  | assign (id : Id)                      -- self.sock = id
  | unassign                              -- self.sock = None
deriving DecidableEq, Repr

inductive Err | gai | socket (addr : Nat) | nodelay (addr : Nat) | wrap (addr : Nat) | settimeout | keepalive | connect
deriving DecidableEq, Repr

structure Cfg where
  unix : Bool := false
  noDelay : Bool := false
  tls : Bool := false
  keepalive : Bool := false
deriving Repr

/-- which API calls raise during this `_connect()` -/
structure Plan where
  naddr : Nat := 1                        -- number of addresses returned by getaddrinfo
  gai : Bool := false
  socket : Nat → Bool := fun _ => false   -- per address index
  nodelay : Nat → Bool := fun _ => false
  wrap : Nat → Bool := fun _ => false
  settimeoutConnect : Bool := false
  keepalive : Bool := false
  connect : Bool := false
  settimeoutIo : Bool := false

structure St where
  sock : Option Id := none
  next : Id := 0                          -- fresh socket ids
deriving Repr

/-- `close()` (433–442): errors of `sock.close()` are swallowed, `self.sock = None` in `finally` -/
def close (st : St) : St × List Ev :=
  match st.sock with
  | some id => ({ st with sock := none }, [.close id, .unassign])
  | none => (st, [])

/-- result of trying one address (lines 392–405): the socket to use, or the error; plus events and fresh-id counter -/
def tryAddr (cfg : Cfg) (p : Plan) (next : Id) (i : Nat) : (Except Err Id) × List Ev × Id :=
  if p.socket i then (.error (.socket i), [], next)
  else
    let raw := next
    let ev0 := [Ev.created raw i]
    if cfg.noDelay && p.nodelay i then (.error (.nodelay i), ev0 ++ [.close raw], next + 1)
    else
      let ev1 := if cfg.noDelay then ev0 ++ [.nodelay raw] else ev0
      if cfg.tls then
        if p.wrap i then (.error (.wrap i), ev1 ++ [.close raw], next + 1)
        else (.ok (next + 1), ev1 ++ [.wrapped (next + 1) raw], next + 2)
      else (.ok raw, ev1, next + 1)

/-- the address loop (391–405) with the fix: `error` is cleared when an address succeeds.
returns `(sock, error, events, next, address index used)` -/
def addrLoop (cfg : Cfg) (p : Plan) : (todo : List Nat) → (next : Id) → (err : Option Err) →
    Option (Id × Nat) × Option Err × List Ev × Id
  | [], next, err => (none, err, [], next)
  | i :: rest, next, err =>
    match tryAddr cfg p next i with
    | (.ok s, evs, next') => (some (s, i), none, evs, next')           -- `else: error = None; break`
    | (.error e, evs, next') =>
      let (r, err', evs', next'') := addrLoop cfg p rest next' (some e)
      (r, err', evs ++ evs', next'')

/-- the pinned commit's loop: a success leaves the remembered `error` untouched -/
def addrLoopOrig (cfg : Cfg) (p : Plan) : (todo : List Nat) → (next : Id) → (err : Option Err) →
    Option (Id × Nat) × Option Err × List Ev × Id
  | [], next, err => (none, err, [], next)
  | i :: rest, next, err =>
    match tryAddr cfg p next i with
    | (.ok s, evs, next') => (some (s, i), err, evs, next')
    | (.error e, evs, next') =>
      let (r, err', evs', next'') := addrLoopOrig cfg p rest next' (some e)
      (r, err', evs ++ evs', next'')

/-- lines 410–431 -/
def phase2 (cfg : Cfg) (p : Plan) (s : Id) (addr : Nat) : Except Err Unit × List Ev :=
  if p.settimeoutConnect then (.error .settimeout, [.close s])
  else
    let e1 := [Ev.settimeout s .connect]
    if cfg.keepalive && p.keepalive then (.error .keepalive, e1 ++ [.close s])
    else
      let e2 := if cfg.keepalive then e1 ++ [.keepalive s] else e1
      if p.connect then (.error .connect, e2 ++ [.close s])
      else
        let e3 := e2 ++ [.connect s addr]
        if p.settimeoutIo then (.error .settimeout, e3 ++ [.close s])
        else (.ok (), e3 ++ [.settimeout s .io])

def connectWith (loop : Cfg → Plan → List Nat → Id → Option Err → Option (Id × Nat) × Option Err × List Ev × Id)
    (cfg : Cfg) (p : Plan) (st0 : St) : St × Except Err Unit × List Ev :=
  let (st, evc) := close st0
  if cfg.unix then
    if p.socket 0 then (st, .error (.socket 0), evc)
    else
      let s := st.next
      let st := { st with next := s + 1 }
      match phase2 cfg p s 0 with
      | (.ok (), ev) => ({ st with sock := some s }, .ok (), evc ++ [.created s 0] ++ ev ++ [.assign s])
      | (.error e, ev) => (st, .error e, evc ++ [.created s 0] ++ ev)
  else if p.gai then (st, .error .gai, evc)
  else
    let (r, err, evl, next) := loop cfg p (List.range p.naddr) st.next none
    let st := { st with next := next }
    match err, r with
    | some e, _ => (st, .error e, evc ++ evl)                          -- `if error is not None: raise error`
    | none, none => (st, .error .gai, evc ++ evl)                      -- empty address list (not reachable with naddr ≥ 1)
    | none, some (s, i) =>
      match phase2 cfg p s i with
      | (.ok (), ev) => ({ st with sock := some s }, .ok (), evc ++ evl ++ ev ++ [.assign s])
      | (.error e, ev) => (st, .error e, evc ++ evl ++ ev)

def connect := connectWith addrLoop
def connectOrig := connectWith addrLoopOrig

/-! ## judgments on a log -/
def createdIds (log : List Ev) : List Id :=
  log.filterMap fun | .created id _ => some id | .wrapped w _ => some w | _ => none
def closedIds (log : List Ev) : List Id := log.filterMap fun | .close id => some id | _ => none
/-- closing a TLS wrapper closes the raw socket it owns -/
def ownedBy (log : List Ev) (raw : Id) : Option Id :=
  log.findSome? fun | .wrapped w r => if r = raw then some w else none | _ => none
def isClosed (log : List Ev) (id : Id) : Bool :=
  (closedIds log).contains id || (match ownedBy log id with | some w => (closedIds log).contains w | none => false)
/-- ids that are open and not accounted for by `self.sock` -/
def leaked (log : List Ev) (sock : Option Id) : List Id :=
  (createdIds log).filter fun id =>
    !isClosed log id && sock ≠ some id && (match ownedBy log id with | some w => sock ≠ some w | none => true)
end Conn
