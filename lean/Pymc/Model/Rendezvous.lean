/-!
# Rendezvous hashing — pymemcache/client/rendezvous.py

Nodes are node names (`str`); `score` is `hash_function(f"{node}-{key}", seed)` as a parameter
(`Nat`-valued: every score is `> -1`, so the first node always takes the `>` branch and `str(None)`
is never compared).
-/
namespace Rendezvous

/-- Python `max(a, b)` on `str`: `b` if `b > a` else `a` (code-point lexicographic order) -/
def pyMaxStr (a b : String) : String := if a < b then b else a

/-- one iteration of the loop in `get_node` (lines 38–44); state = `(high_score, winner)` -/
def stepNode (score : String → Nat) (st : Option (Nat × String)) (node : String) : Option (Nat × String) :=
  match st with
  | none => some (score node, node)                       -- score > -1
  | some (hi, w) =>
    let sc := score node
    if sc > hi then some (sc, node)
    else if sc = hi then some (sc, pyMaxStr node w)
    else some (hi, w)

/-- `RendezvousHash.get_node(key)` with `score node = hash_function(f"{node}-{key}")` -/
def getNode (score : String → Nat) (nodes : List String) : Option String :=
  (nodes.foldl (stepNode score) none).map (·.2)

/-- `add_node` (lines 24–26) -/
def addNode (nodes : List String) (n : String) : List String :=
  if n ∈ nodes then nodes else nodes ++ [n]

/-- `remove_node` (lines 28–32): `none` = `ValueError` -/
def removeNode (nodes : List String) (n : String) : Option (List String) :=
  if n ∈ nodes then some (nodes.erase n) else none

/-- a history of node-set changes applied in order (failed removals are ignored, as a caller that
catches the `ValueError` would) -/
inductive Change | add (n : String) | remove (n : String)
def applyChange (nodes : List String) : Change → List String
  | .add n => addNode nodes n
  | .remove n => (removeNode nodes n).getD nodes
def applyHistory (nodes : List String) (h : List Change) : List String := h.foldl applyChange nodes

/-- the published rule: `w` wins iff it is in the set and `(score, name)` is lexicographically greatest -/
def IsLexMax (score : String → Nat) (nodes : List String) (w : String) : Prop :=
  w ∈ nodes ∧ ∀ n ∈ nodes, score n < score w ∨ (score n = score w ∧ n ≤ w)
end Rendezvous
