import Pymc.Model.Wire
/-!
# L0 — the specification of memcached: an in-memory map with expiry and cas versions

This is my reading of `protocol.txt`, written to be read in minutes.  No eviction, no size limits except
the 64-bit counter arithmetic.  Time is a natural number of seconds (`now`), advanced by the environment.

* `exptime`: 0 = never; negative = already expired; 1..30 days = relative; larger = absolute unix time.
* every successful mutation gives the item a fresh cas value from one global counter.
* `flush_all`: with no/zero delay everything is dropped now; with a delay everything existing *at the
  deadline* is dropped when the deadline is reached.
* `incr` wraps at 2^64, `decr` stops at 0; a non-numeric (or ≥ 2^64) value is a CLIENT_ERROR.
-/
namespace AbsMap
open Wire

structure Item where
  flags : Nat
  exp : Int            -- absolute expiry; 0 = never; negative = expired
  data : Bytes
  cas : Nat
deriving DecidableEq, Repr

structure St where
  items : List (Bytes × Item) := []
  casCtr : Nat := 0
  now : Nat := 1000000000
  flushAt : Option Nat := none
deriving Repr

def relLimit : Int := 60 * 60 * 24 * 30

def absExp (now : Nat) (e : Int) : Int :=
  if e = 0 then 0 else if e < 0 then -1 else if e > relLimit then e else now + e

def lookup (items : List (Bytes × Item)) (k : Bytes) : Option Item :=
  (items.find? (·.1 = k)).map (·.2)
def erase (items : List (Bytes × Item)) (k : Bytes) : List (Bytes × Item) := items.filter (·.1 ≠ k)
def put (items : List (Bytes × Item)) (k : Bytes) (it : Item) : List (Bytes × Item) :=
  (k, it) :: erase items k

def expired (now : Nat) (it : Item) : Bool := it.exp ≠ 0 && (it.exp < 0 || (now : Int) ≥ it.exp)

/-- apply a pending delayed flush whose deadline has passed -/
def settle (s : St) : St :=
  match s.flushAt with
  | some t => if s.now ≥ t then { s with items := [], flushAt := none } else s
  | none => s

/-- the live item under `k`, if any (expired items are invisible) -/
def live (s : St) (k : Bytes) : Option Item :=
  match lookup s.items k with
  | some it => if expired s.now it then none else some it
  | none => none

inductive Reply
  | stored | notStored | exists_ | notFound | deleted | touched | ok
  | number (n : Nat)
  | values (vs : List (Bytes × Item))        -- hits, in request order
  | version
  | nonNumeric                                -- CLIENT_ERROR cannot increment or decrement non-numeric value
  | silent                                    -- noreply / quit
deriving DecidableEq, Repr

def store (s : St) (k : Bytes) (flags : Nat) (e : Int) (d : Bytes) : St :=
  { s with items := put s.items k ⟨flags, absExp s.now e, d, s.casCtr + 1⟩, casCtr := s.casCtr + 1 }

/-- the outcome of one request, ignoring `noreply` -/
def applyLoud (s0 : St) (r : Req) : St × Reply :=
  let s := settle s0
  match r with
  | .store verb k flags e d casv _ =>
    match verb, live s k with
    | .set, _ => (store s k flags e d, .stored)
    | .add, none => (store s k flags e d, .stored)
    | .add, some _ => (s, .notStored)
    | .replace, some _ => (store s k flags e d, .stored)
    | .replace, none => (s, .notStored)
    | .append, some it =>
      ({ s with items := put s.items k { it with data := it.data ++ d, cas := s.casCtr + 1 }, casCtr := s.casCtr + 1 }, .stored)
    | .append, none => (s, .notStored)
    | .prepend, some it =>
      ({ s with items := put s.items k { it with data := d ++ it.data, cas := s.casCtr + 1 }, casCtr := s.casCtr + 1 }, .stored)
    | .prepend, none => (s, .notStored)
    | .cas, none => (s, .notFound)
    | .cas, some it => if some it.cas = casv then (store s k flags e d, .stored) else (s, .exists_)
  | .fetch _ e keys =>
    -- hits in request order; gat/gats also set the expiry of every hit
    let step := fun (acc : St × List (Bytes × Item)) (k : Bytes) =>
      match live acc.1 k with
      | none => acc
      | some it =>
        match e with
        | none => (acc.1, acc.2 ++ [(k, it)])
        | some ex =>
          let it' := { it with exp := absExp acc.1.now ex }
          ({ acc.1 with items := put acc.1.items k it' }, acc.2 ++ [(k, it')])
    let (s', vs) := keys.foldl step (s, [])
    (s', .values vs)
  | .delete k _ =>
    match live s k with
    | some _ => ({ s with items := erase s.items k }, .deleted)
    | none => (s, .notFound)
  | .arith incr k delta _ =>
    match live s k with
    | none => (s, .notFound)
    | some it =>
      match parseNat it.data with
      | none => (s, .nonNumeric)
      | some cur =>
        if cur ≥ 2 ^ 64 then (s, .nonNumeric) else
        let new := if incr then (cur + delta) % 2 ^ 64 else cur - delta
        ({ s with items := put s.items k { it with data := natDec new, cas := s.casCtr + 1 }, casCtr := s.casCtr + 1 },
          .number new)
  | .touch k e _ =>
    match live s k with
    | some it => ({ s with items := put s.items k { it with exp := absExp s.now e } }, .touched)
    | none => (s, .notFound)
  | .flushAll delay _ =>
    match delay with
    | none => ({ s with items := [], flushAt := none }, .ok)
    | some 0 => ({ s with items := [], flushAt := none }, .ok)
    | some d => ({ s with flushAt := some (s.now + d) }, .ok)
  | .version => (s, .version)
  | .quit => (s, .silent)

def reqNoreply : Req → Bool
  | .store _ _ _ _ _ _ nr => nr
  | .delete _ nr => nr
  | .arith _ _ _ nr => nr
  | .touch _ _ nr => nr
  | .flushAll _ nr => nr
  | .quit => true
  | _ => false

/-- one request: the effect always takes place; with `noreply` nothing is answered -/
def apply (s : St) (r : Req) : St × Reply :=
  let (s', rep) := applyLoud s r
  (s', if reqNoreply r then .silent else rep)

def advance (s : St) (dt : Nat) : St := { s with now := s.now + dt }
end AbsMap
