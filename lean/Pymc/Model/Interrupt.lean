import Pymc.Model.Framing
/-!
# A call aborted by an asynchronous exception inside `recv()`

`Interrupted cfg c evs`: during call `c` the connection delivers, without fault and in arbitrary pieces, some prefix
(possibly empty, possibly everything) of the reply units the server owes for `c`; then a `recv()` raises a
`BaseException` (`Ev.err code` with `code ≥ 100`: `KeyboardInterrupt`, `SystemExit`, a gevent `Timeout`); what the
connection would deliver afterwards (`post`: the rest of the reply, anything) is arbitrary.  An interruption inside
`connect()` or `sendall()` is `Script.connectFails` / `Script.sendFails = some (.sock code)`; those need no framing.
-/
namespace Framing
open Bytes Readers Exchange Client

def Interrupted (cfg : Wire.Cfg) (c : Call) (evs : List Ev) : Prop :=
  ∃ pre code post full, evs = pre ++ .err code :: post ∧ code ≥ 100 ∧ clean pre ∧
    (owed cfg c).Matches full ∧ joinData pre <+: full
end Framing
