import Pymc.Model.AbsMap
/-!
# The memcached server at wire level: strict parser ∘ AbsMap ∘ reply rendering

`feed` answers a buffer that consists of complete well-formed requests; anything else is `none`
(the client under test sent something a strict parser does not accept — C02's subject).
-/
namespace Server
open Wire AbsMap Bytes

def versionLine : Bytes := ofString "VERSION 1.6.21-ref"

def renderValue (withCas : Bool) (k : Bytes) (it : Item) : Bytes :=
  ofString "VALUE " ++ k ++ [SP] ++ natDec it.flags ++ [SP] ++ natDec it.data.length ++
    (if withCas then SP :: natDec it.cas else []) ++ CRLF ++ it.data ++ CRLF

def render (r : Req) : Reply → Bytes
  | .stored => ofString "STORED" ++ CRLF
  | .notStored => ofString "NOT_STORED" ++ CRLF
  | .exists_ => ofString "EXISTS" ++ CRLF
  | .notFound => ofString "NOT_FOUND" ++ CRLF
  | .deleted => ofString "DELETED" ++ CRLF
  | .touched => ofString "TOUCHED" ++ CRLF
  | .ok => ofString "OK" ++ CRLF
  | .number n => natDec n ++ CRLF
  | .values vs =>
    let withCas := match r with
      | .fetch .gets _ _ => true
      | .fetch .gats _ _ => true
      | _ => false
    (vs.flatMap fun (k, it) => renderValue withCas k it) ++ ofString "END" ++ CRLF
  | .version => versionLine ++ CRLF
  | .nonNumeric => ofString "CLIENT_ERROR cannot increment or decrement non-numeric value" ++ CRLF
  | .silent => []

def run (s : St) : List Req → St × Bytes
  | [] => (s, [])
  | r :: rest =>
    let (s1, rep) := AbsMap.apply s r
    let (s2, out) := run s1 rest
    (s2, render r rep ++ out)

def feed (s : St) (data : Bytes) : Option (St × Bytes) :=
  (parseAll data.length data).map (run s)
end Server
