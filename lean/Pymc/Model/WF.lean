import Pymc.Model.ApiSpec
/-!
# Side conditions and histories for C05 / C04

`WF cfg c` collects the explicit side conditions under which `Client.onServer` (client ∘ wire ∘ server)
is compared with `ApiSpec.spec` (the contract on the abstract map):

* every key of the call that `check_key` accepts has a non-empty wire form (the empty key is the open
  finding `C02_empty_key_counterexample`: it is accepted by the client and rejected by a strict server);
* `flags`, when given, is `≥ 0`; an integer `delta` (incr/decr) or `delay` (flush_all) is `≥ 0`
  (the client renders them with `str()` unchecked; a strict server rejects a minus sign there);
* the call is not `raw` (an arbitrary command line is not part of the map contract);
* the call is not one of the three administrative operations `stats`, `cache_memlimit`, `shutdown`: they say
  nothing about the key → value map, the abstract map (`AbsMap`) and the wire-level server (`Server.feed`,
  whose strict parser knows the C05 alphabet only) give them no semantics, so `WF` is `False` for them and
  C04/C05 (and `C07_miss_on_healthy_empty_server`, which is stated through `WF`) do not speak about them.
  They ARE covered by the connection-level properties C01/C06/C07/C10, which quantify over every `Call`.

Nothing is required of `expire` (any integer is framed correctly; a non-integer is rejected by the
client and by the contract alike) nor of the `cas` argument (`_check_cas` rejects on both sides).
-/
namespace Client
open Wire Exchange

/-- a key that `check_key` accepts has a non-empty wire form -/
def KeyOK (cfg : Cfg) (k : Key.K) : Prop := checkKey cfg k ≠ .ok []
/-- an integer argument that is rendered unchecked is non-negative when it is an integer -/
def NonNegArg (a : IntArg) : Prop := ∀ d, a = .int d → 0 ≤ d
def FlagsOK (f : Option Int) : Prop := ∀ x, f = some x → 0 ≤ x

def WF (cfg : Cfg) : Call → Prop
  | .store _ k _ _ _ flags _ => KeyOK cfg k ∧ FlagsOK flags
  | .setMany items _ _ flags => (∀ kv ∈ items, KeyOK cfg kv.1) ∧ FlagsOK flags
  | .get k => KeyOK cfg k
  | .gets k => KeyOK cfg k
  | .gat k _ => KeyOK cfg k
  | .gats k _ => KeyOK cfg k
  | .getMany ks => ∀ k ∈ ks, KeyOK cfg k
  | .getsMany ks => ∀ k ∈ ks, KeyOK cfg k
  | .delete k _ => KeyOK cfg k
  | .deleteMany ks _ => ∀ k ∈ ks, KeyOK cfg k
  | .arith _ k d _ => KeyOK cfg k ∧ NonNegArg d
  | .touch k _ _ => KeyOK cfg k
  | .flushAll d _ => NonNegArg d
  | .version => True
  | .quit => True
  | .raw _ _ => False
  | .stats _ => False             -- administrative operations: outside the map contract (see the header)
  | .cacheMemlimit _ => False
  | .shutdown _ => False

/-- Is the socket open, with nothing unread, after call `c` returned `r` over a perfect connection?
Always, except after `quit` (the client closes) and after a `CLIENT_ERROR` line (non-numeric
`incr`/`decr`: `_misc_cmd` closes the socket before re-raising). -/
def sockAfter (c : Call) (r : Except Exc Res) : Bool :=
  match c, r with
  | .quit, _ => false
  | _, .error (.clientError _) => false
  | _, _ => true

/-- a history: before each call the clock advances by some seconds -/
abbrev History := List (Nat × Call)

/-- the client against the wire-level server; a closed socket is reopened transparently by the next
call (`onServer` starts from a connected client) -/
def runOnServer (cfg : Cfg) (s : AbsMap.St) : History → AbsMap.St × List (Except Exc Res × Bool)
  | [] => (s, [])
  | (dt, c) :: rest =>
    let (s1, r, b) := onServer cfg (AbsMap.advance s dt) c
    let (s2, rs) := runOnServer cfg s1 rest
    (s2, (r, b) :: rs)

/-- the contract on the abstract map -/
def runSpec (cfg : Cfg) (s : AbsMap.St) : History → AbsMap.St × List (Except Exc Res × Bool)
  | [] => (s, [])
  | (dt, c) :: rest =>
    let (s1, r) := ApiSpec.spec cfg (AbsMap.advance s dt) c
    let (s2, rs) := runSpec cfg s1 rest
    (s2, (r, sockAfter c r) :: rs)
end Client
