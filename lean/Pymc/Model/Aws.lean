import Pymc.Model.Wire
import Pymc.Model.Readers
import Pymc.Model.Rendezvous
/-!
# ElastiCache auto-discovery — pymemcache/client/ext/aws_ec_client.py

`renderReply` is what a configuration endpoint answers to `config get cluster`; `nodesOfSegment`
transliterates `_get_nodes_list` (169–205) on the segment that `raw_command(..., end_tokens=b"\n\r\nEND\r\n")`
returns: `splitlines()`, last line, `split(" ")`, `split("|")`, `(server[use_vpc], server[2])`.
`reconfigure` is `reconfigure_nodes` (154–167) on the rotation (`hasher.nodes`) and the client table, as
repaired by the `fix:` commit (nodes that are no longer advertised leave the rotation); `reconfigureOrig`
keeps them, as the pinned commit did.
-/
namespace Aws
open Bytes Wire

structure Node where
  host : Bytes
  ip : Bytes
  port : Nat
deriving DecidableEq, Repr

def PIPE : UInt8 := 124
def endToken : Bytes := [LF, CR, LF] ++ ofString "END" ++ CRLF

def renderNode (n : Node) : Bytes := n.host ++ [PIPE] ++ n.ip ++ [PIPE] ++ natDec n.port

def joinWith (sep : UInt8) : List Bytes → Bytes
  | [] => []
  | [a] => a
  | a :: r => a ++ [sep] ++ joinWith sep r

def configLine (nodes : List Node) : Bytes := joinWith SP (nodes.map renderNode)

/-- `CONFIG cluster 0 <n>\r\n<version>\n<config line>\n\r\nEND\r\n` -/
def renderReply (version : Nat) (nodes : List Node) : Bytes :=
  let body := natDec version ++ [LF] ++ configLine nodes ++ [LF]
  ofString "CONFIG cluster 0 " ++ natDec body.length ++ CRLF ++ body ++ CRLF ++ ofString "END" ++ CRLF

/-- `bytes.split(sep)` for a one-byte separator: empty fields are kept -/
def splitOn1 (sep : UInt8) : Bytes → List Bytes
  | [] => [[]]
  | x :: r =>
    if x = sep then [] :: splitOn1 sep r
    else match splitOn1 sep r with
      | [] => [[x]]
      | t :: ts => (x :: t) :: ts

/-- `bytes.splitlines()`: breaks at `\n`, `\r\n`, `\r`; no trailing empty line -/
def splitLinesGo : Bytes → Bytes → List Bytes
  | [], cur => if cur = [] then [] else [cur]
  | x :: r, cur =>
    if x = LF then cur :: splitLinesGo r []
    else if x = CR then
      (if r.head? = some LF then cur :: splitLinesGo r.tail [] else cur :: splitLinesGo r [])
    else splitLinesGo r (cur ++ [x])
termination_by b => b.length
decreasing_by all_goals (simp_wf; try omega)
def splitLines (b : Bytes) : List Bytes := splitLinesGo b []

/-- `(server[use_vpc], server[2])` for each `|`-separated triple of the last line; `none` = IndexError / ValueError -/
def nodesOfSegment (useVpc : Bool) (seg : Bytes) : Option (List (Bytes × Bytes)) :=
  match (splitLines seg).getLast? with
  | none => none                                    -- `*_, config_line = []` → ValueError
  | some line =>
    (splitOn1 SP line).mapM fun field =>
      let parts := splitOn1 PIPE field
      match parts[if useVpc then 1 else 0]?, parts[2]? with
      | some a, some p => some (a, p)
      | _, _ => none

/-- the whole discovery call on a reply stream: segment before the first end token, then the parse -/
def discover (useVpc : Bool) (reply : Bytes) : Option (List (Bytes × Bytes)) :=
  match Readers.splitSegment endToken reply with
  | some (seg, _) => nodesOfSegment useVpc seg
  | none => none

def nodeName (hp : Bytes × Bytes) : Bytes := hp.1 ++ [58] ++ hp.2      -- "%s:%s" % server

/-- rotation and client table -/
structure St where
  nodes : List Bytes := []          -- hasher.nodes (node names)
  clients : List Bytes := []        -- keys of self.clients
  closed : List Bytes := []         -- clients closed by reconfigurations
deriving Repr

def addNode (nodes : List Bytes) (n : Bytes) : List Bytes := if n ∈ nodes then nodes else nodes ++ [n]

/-- `reconfigure_nodes` after the fix -/
def reconfigure (s : St) (advertised : List Bytes) : St :=
  let kept := s.nodes.filter (· ∈ advertised)
  { nodes := advertised.foldl addNode kept,
    clients := advertised.foldl addNode [],
    closed := s.closed ++ s.clients }

/-- the pinned commit: removed nodes stay in the rotation -/
def reconfigureOrig (s : St) (advertised : List Bytes) : St :=
  { nodes := advertised.foldl addNode s.nodes,
    clients := advertised.foldl addNode [],
    closed := s.closed ++ s.clients }
end Aws
