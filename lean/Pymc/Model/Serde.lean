import Pymc.Model.Wire
/-!
# Serializers — pymemcache/serde.py

Values: `bytes`, `str`, `int` (exact types) and everything else (`other`: bool, None, float, containers,
subclasses of the native types …) which goes through pickle.  `pickle`/`unpickle`, the UTF-8 codec and the
compression codec are parameters; their left-inverse laws are hypotheses of the theorems (assumed, exercised
by the harness, not proved).  Decimal rendering/parsing of integers is concrete (`Wire.intDec`, `pyIntText`).

`serialize` = `_python_memcache_serializer` (37–61), `deserialize` = `python_memcache_deserializer` (72–94),
`CompressedSerde.serialize/deserialize` (148–168, after the `fix:` commit that encodes text before compressing).
-/
namespace Serde
open Wire

def FLAG_PICKLE : Nat := 1
def FLAG_INTEGER : Nat := 2
def FLAG_LONG : Nat := 4
def FLAG_COMPRESSED : Nat := 8
def FLAG_TEXT : Nat := 16

/-- a Python value as far as the serializer distinguishes: exact `bytes`, exact `str`, exact `int`, or any
other object (identified by an opaque id) -/
inductive PyVal
  | bytes (b : Bytes)
  | str (cps : List Nat)
  | int (i : Int)
  | other (id : Nat)
deriving DecidableEq, Repr

/-- what a serializer hands to the client: bytes, or text still to be encoded by the client -/
inductive Payload
  | bytes (b : Bytes)
  | text (cps : List Nat)
deriving DecidableEq, Repr

structure Codec where
  utf8Enc : List Nat → Bytes
  utf8Dec : Bytes → Option (List Nat)
  pickle : Nat → Bytes                  -- object id → pickled bytes
  unpickle : Bytes → Option Nat
  compress : Bytes → Bytes
  decompress : Bytes → Option Bytes

/-- ASCII digits (and `-`) as code points: `"%d" % value` -/
def intText (i : Int) : List Nat := (intDec i).map (·.toNat)

def serialize (c : Codec) : PyVal → Payload × Nat
  | .bytes b => (.bytes b, 0)
  | .str s => (.bytes (c.utf8Enc s), FLAG_TEXT)
  | .int i => (.text (intText i), FLAG_INTEGER)
  | .other id => (.bytes (c.pickle id), FLAG_PICKLE)

/-- the client transmits a text payload as `str(data).encode(encoding)`; for ASCII text this is the bytes
of the code points -/
def transmit : Payload → Bytes
  | .bytes b => b
  | .text cps => cps.map UInt8.ofNat

inductive DErr | decode | valueError
deriving DecidableEq, Repr

/-- `int(value)` on the stored bytes of an integer (sign and digits) -/
def parseIntBytes (b : Bytes) : Option Int := parseInt b

/-- flag cascade in the code's order; an unpickling failure yields `None` (modelled as `other 0`… no:
as a distinct result) -/
inductive DVal
  | val (v : PyVal)
  | none_                       -- "Pickle error" → returns None
deriving DecidableEq, Repr

def deserialize (c : Codec) (value : Bytes) (flags : Nat) : Except DErr DVal :=
  if flags = 0 then .ok (.val (.bytes value))
  else if flags &&& FLAG_TEXT ≠ 0 then
    match c.utf8Dec value with
    | some s => .ok (.val (.str s))
    | none => .error .decode
  else if flags &&& FLAG_INTEGER ≠ 0 then
    match parseIntBytes value with
    | some i => .ok (.val (.int i))
    | none => .error .valueError
  else if flags &&& FLAG_LONG ≠ 0 then
    match parseIntBytes value with
    | some i => .ok (.val (.int i))
    | none => .error .valueError
  else if flags &&& FLAG_PICKLE ≠ 0 then
    match c.unpickle value with
    | some id => .ok (.val (.other id))
    | none => .ok .none_
  else .ok (.val (.bytes value))

/-! ## CompressedSerde -/
def payloadLen : Payload → Nat
  | .bytes b => b.length
  | .text cps => cps.length

/-- `CompressedSerde.serialize` with `min_compress_len = thr` -/
def cserialize (c : Codec) (thr : Nat) (v : PyVal) : Payload × Nat :=
  let (p, flags) := serialize c v
  if payloadLen p > thr ∧ thr > 0 then
    let raw := transmit p                       -- text is encoded before compressing (fix)
    let z := c.compress raw
    if payloadLen p < z.length then (p, flags) else (.bytes z, flags ||| FLAG_COMPRESSED)
  else (p, flags)

def cdeserialize (c : Codec) (value : Bytes) (flags : Nat) : Except DErr DVal :=
  if flags &&& FLAG_COMPRESSED ≠ 0 then
    match c.decompress value with
    | some raw => deserialize c raw flags
    | none => .error .decode
  else deserialize c value flags

/-- the laws assumed of the external codecs -/
structure Laws (c : Codec) : Prop where
  utf8 : ∀ s, c.utf8Dec (c.utf8Enc s) = some s
  pickle : ∀ id, c.unpickle (c.pickle id) = some id
  zip : ∀ b, c.decompress (c.compress b) = some b
end Serde
