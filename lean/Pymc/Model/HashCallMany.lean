import Pymc.Model.HashCall
/-!
# `HashClient ∘ Client`: `get_many` / `gets_many`, and histories that mix them with the single-key operations

```
def get_many(self, keys, gets=False, *args, **kwargs):
    client_batches = collections.defaultdict(list); end = {}
    for key in keys:
        client, key = self._get_client(key)             # check_key_helper, _retry_dead, hasher.get_node
        if client is None: continue                     # ignore_exc and nothing in rotation
        client_batches[client.server].append(key)
    for server, keys in client_batches.items():         # insertion order = order of first appearance
        client = self.clients[self._make_client_key(server)]
        get_func = client.gets_many if gets else client.get_many
        result = self._safely_run_func(client, get_func, {}, keys)
        end.update(result)
    return end
```

One public call contacts several servers, each at most once, each contact a real `Client.call (.getMany batch)` (resp.
`.getsMany`) on the client object registered for that server at the time of the second loop; what the connection of
server `s` does meanwhile is `scripts s`; all `recv()` results of the public call carry its index as tag.  An exception
that escapes `_safely_run_func` (or `_get_client`) ends the call at once: the remaining batches are not sent.
-/
namespace HashCall
open Exchange Client Framing Failover

/-- `client_batches[server].append(key)` on an insertion-ordered `defaultdict(list)` -/
def addToBatch (s : Srv) (k : Key.K) (b : List (Srv × List Key.K)) : List (Srv × List Key.K) :=
  match alookup s b with
  | some ks => ainsert s (ks ++ [k]) b
  | none => ainsert s [k] b

/-- the first loop: `_get_client` for every key; `inl` = the exception that ended the call, `inr` = the batches -/
def routeKeysH {RK : Type} (ccfg : Wire.Cfg) (c : Cfg) (route : List Srv → RK → Option Srv) (now : Time) :
    St → List (RK × Key.K) → List (Srv × List Key.K) → St × Sum HRes (List (Srv × List Key.K))
  | st, [], b => (st, .inr b)
  | st, (rk, k) :: ks, b =>
    match Wire.checkKey ccfg k with
    | .error _ => (st, .inl .illegalKey)
    | .ok _ =>
      match getClient c route now st rk with
      | (st1, .internalError) => (st1, .inl .internalError)
      | (st1, .allDown) => (st1, .inl .allDown)
      | (st1, .noClient) => routeKeysH ccfg c route now st1 ks b
      | (st1, .client s _) => routeKeysH ccfg c route now st1 ks (addToBatch s k b)

/-- the inner call of one batch -/
def batchCall (gets : Bool) (ks : List Key.K) : Call := if gets then .getsMany ks else .getMany ks

/-- `end.update(result)` -/
def updateRes (acc r : Res) : Res :=
  match acc, r with
  | .dict a, .dict b => .dict (b.foldl (fun d kv => dictSet d kv.1 kv.2) a)
  | .casDict a, .casDict b => .casDict (b.foldl (fun d kv => dictSet d kv.1 kv.2) a)
  | a, _ => a

/-- what happened to one batch: the server, the client object invoked and the inner call (if the server was contacted),
whether the batch was served (the inner result was merged; `false` = `{}` was) -/
structure BatchObs where
  server : Srv
  client : Option Nat
  step : Option Step
  served : Bool
deriving Repr

/-- the second loop; an escaping exception ends the call -/
def runBatchesH (ccfg : Wire.Cfg) (c : Cfg) (idx : Nat) (now : Time) (gets : Bool) (scripts : Srv → Script) :
    St → List (Srv × List Key.K) → Res → St × HRes × List BatchObs
  | st, [], acc => (st, .value acc, [])
  | st, (s, ks) :: bs, acc =>
    match alookup s st.clients with
    | none => (st, .internalError, [])
    | some cl =>
      match safelyRunFunc ccfg c idx now st s cl (batchCall gets ks) (scripts s) with
      | (st1, .value r, stp) =>
        match runBatchesH ccfg c idx now gets scripts st1 bs (updateRes acc r) with
        | (st2, res, obs) => (st2, res, ⟨s, stp.map fun _ => cl.id, stp, true⟩ :: obs)
      | (st1, .default, stp) =>
        match runBatchesH ccfg c idx now gets scripts st1 bs acc with
        | (st2, res, obs) => (st2, res, ⟨s, stp.map fun _ => cl.id, stp, false⟩ :: obs)
      | (st1, r, stp) => (st1, r, [⟨s, stp.map fun _ => cl.id, stp, false⟩])

/-- what a `get_many` / general call shows -/
structure MObs where
  res : HRes
  batches : List BatchObs := []
deriving Repr

/-- the inner calls of the public call, in order -/
def MObs.steps (ob : MObs) : List Step := ob.batches.filterMap (·.step)

/-- `get_many(keys)` (`gets = false`) / `gets_many(keys)`; every key comes with its routing key -/
def getManyH {RK : Type} (ccfg : Wire.Cfg) (c : Cfg) (route : List Srv → RK → Option Srv) (st : St) (idx : Nat)
    (now : Time) (gets : Bool) (keys : List (RK × Key.K)) (scripts : Srv → Script) : St × MObs :=
  match routeKeysH ccfg c route now st keys [] with
  | (st1, .inl r) => (st1, { res := r })
  | (st1, .inr b) =>
    match runBatchesH ccfg c idx now gets scripts st1 b (if gets then .casDict [] else .dict []) with
    | (st2, r, obs) => (st2, { res := r, batches := obs })

/-- a public call: one of the single-key operations, or `get_many` / `gets_many` -/
inductive MOp (RK : Type)
  | cmd (rk : RK) (call : Call) (sc : Script)
  | getMany (gets : Bool) (keys : List (RK × Key.K)) (scripts : Srv → Script)

structure MCall (RK : Type) where
  op : MOp RK
  now : Time

/-- a single-key call of a `HashCall.runH` history as a general call -/
def HCall.toM {RK : Type} (hc : HCall RK) : MCall RK := { op := .cmd hc.rk hc.call hc.sc, now := hc.now }

def callM {RK : Type} (ccfg : Wire.Cfg) (c : Cfg) (route : List Srv → RK → Option Srv) (st : St) (idx : Nat)
    (mc : MCall RK) : St × MObs :=
  match mc.op with
  | .cmd rk call sc =>
    match callH ccfg c route st idx mc.now rk call sc with
    | (st1, ob) =>
      (st1, { res := ob.res,
              batches := match ob.server with
                | some s => [⟨s, ob.client, ob.step, match ob.res with | .value _ => true | _ => false⟩]
                | none => [] })
  | .getMany gets keys scripts => getManyH ccfg c route st idx mc.now gets keys scripts

/-- run the calls one after the other; the first one is call number `k` -/
def runM {RK : Type} (ccfg : Wire.Cfg) (c : Cfg) (route : List Srv → RK → Option Srv) :
    (st : St) → (k : Nat) → List (MCall RK) → St × List MObs
  | st, _, [] => (st, [])
  | st, k, mc :: rest =>
    match callM ccfg c route st k mc with
    | (st1, ob) =>
      match runM ccfg c route st1 (k + 1) rest with
      | (st2, obs) => (st2, ob :: obs)

/-! ## the framing hypotheses for a public call -/

/-- what arrives on the connection of every server during the call is well-framed for the inner call made on it: for a
single-key operation the script is `WellFramed` for the operation; for `get_many` every server's script delivers,
without fault, exactly one fetch reply (which keys go to which server is decided by the routing at run time; the
extent of a fetch reply does not depend on them) -/
def MOp.WellFramed {RK : Type} (ccfg : Wire.Cfg) : MOp RK → Prop
  | .cmd _ call sc => Framing.WellFramed ccfg call sc.evs
  | .getMany gets _ scripts =>
    ∀ s, Readers.clean (scripts s).evs ∧ (Owed.fetch (.values gets)).Matches (Readers.joinData (scripts s).evs)

/-- the same over connections that may break (`Framing.FaultFramed`) -/
def MOp.FaultFramed {RK : Type} (ccfg : Wire.Cfg) : MOp RK → Prop
  | .cmd _ call sc => Framing.FaultFramed ccfg call sc.evs
  | .getMany gets _ scripts =>
    ∀ s, ∃ pre post, (scripts s).evs = pre ++ post ∧ Readers.clean pre ∧
      (((Owed.fetch (.values gets)).Matches (Readers.joinData pre) ∧ quiet post) ∨
       ((∃ more, more ≠ [] ∧ (Owed.fetch (.values gets)).Matches (Readers.joinData pre ++ more)) ∧ broken post))
end HashCall
