import Pymc.Model.HashCall
/-!
# `HashClient ∘ Client`: `get_many` / `gets_many`, `set_many`, `delete_many`, and histories that mix them with the single-key operations

```
def get_many(self, keys, gets=False, *args, **kwargs):
    client_batches = collections.defaultdict(list); end = {}
    for key in keys:
        client, key = self._get_client(key)             # check_key_helper, _retry_dead, hasher.get_node
        if client is None: continue                     # ignore_exc and nothing in rotation
        client_batches[client.server].append(key)
    for server, keys in client_batches.items():         # insertion order = order of first appearance
        client = self.clients[self._make_client_key(server)]
        get_func = client.gets_many if gets else client.get_many
        result = self._safely_run_func(client, get_func, {}, keys)
        end.update(result)
    return end
```

One public call contacts several servers, each at most once, each contact a real `Client.call (.getMany batch)` (resp.
`.getsMany`) on the client object registered for that server at the time of the second loop; what the connection of
server `s` does meanwhile is `scripts s`; all `recv()` results of the public call carry its index as tag.  An exception
that escapes `_safely_run_func` (or `_get_client`) ends the call at once: the remaining batches are not sent.

`set_many` (hash.py `set_many`, `_safely_run_set_many`, `_set_many`) and `delete_many` follow below, each next to the
Python it transliterates; `MOp` / `callM` / `runM` are the general calls and runs; the last section says what a general
run is for the abstract model `Failover` (`absOfCall`, `absOfRun`, and the hypothesis `projOK` of the projection).
-/
namespace HashCall
open Exchange Client Framing Failover

/-- `client_batches[server].append(key)` on an insertion-ordered `defaultdict(list)` -/
def addToBatch (s : Srv) (k : Key.K) (b : List (Srv × List Key.K)) : List (Srv × List Key.K) :=
  match alookup s b with
  | some ks => ainsert s (ks ++ [k]) b
  | none => ainsert s [k] b

/-- the first loop: `_get_client` for every key; `inl` = the exception that ended the call, `inr` = the batches -/
def routeKeysH {RK : Type} (ccfg : Wire.Cfg) (c : Cfg) (route : List Srv → RK → Option Srv) (now : Time) :
    St → List (RK × Key.K) → List (Srv × List Key.K) → St × Sum HRes (List (Srv × List Key.K))
  | st, [], b => (st, .inr b)
  | st, (rk, k) :: ks, b =>
    match Wire.checkKey ccfg k with
    | .error _ => (st, .inl .illegalKey)
    | .ok _ =>
      match getClient c route now st rk with
      | (st1, .internalError) => (st1, .inl .internalError)
      | (st1, .allDown) => (st1, .inl .allDown)
      | (st1, .noClient) => routeKeysH ccfg c route now st1 ks b
      | (st1, .client s _) => routeKeysH ccfg c route now st1 ks (addToBatch s k b)

/-- the inner call of one batch -/
def batchCall (gets : Bool) (ks : List Key.K) : Call := if gets then .getsMany ks else .getMany ks

/-- `end.update(result)` -/
def updateRes (acc r : Res) : Res :=
  match acc, r with
  | .dict a, .dict b => .dict (b.foldl (fun d kv => dictSet d kv.1 kv.2) a)
  | .casDict a, .casDict b => .casDict (b.foldl (fun d kv => dictSet d kv.1 kv.2) a)
  | a, _ => a

/-- what happened to one batch: the server, the client object invoked and the inner call (if the server was contacted),
whether the batch was served (the inner result was merged; `false` = `{}` was) -/
structure BatchObs where
  server : Srv
  client : Option Nat
  step : Option Step
  served : Bool
deriving Repr

/-- the second loop; an escaping exception ends the call -/
def runBatchesH (ccfg : Wire.Cfg) (c : Cfg) (idx : Nat) (now : Time) (gets : Bool) (scripts : Srv → Script) :
    St → List (Srv × List Key.K) → Res → St × HRes × List BatchObs
  | st, [], acc => (st, .value acc, [])
  | st, (s, ks) :: bs, acc =>
    match alookup s st.clients with
    | none => (st, .internalError, [])
    | some cl =>
      match safelyRunFunc ccfg c idx now st s cl (batchCall gets ks) (scripts s) with
      | (st1, .value r, stp) =>
        match runBatchesH ccfg c idx now gets scripts st1 bs (updateRes acc r) with
        | (st2, res, obs) => (st2, res, ⟨s, stp.map fun _ => cl.id, stp, true⟩ :: obs)
      | (st1, .default, stp) =>
        match runBatchesH ccfg c idx now gets scripts st1 bs acc with
        | (st2, res, obs) => (st2, res, ⟨s, stp.map fun _ => cl.id, stp, false⟩ :: obs)
      | (st1, r, stp) => (st1, r, [⟨s, stp.map fun _ => cl.id, stp, false⟩])

/-- what a `get_many` / general call shows -/
structure MObs where
  res : HRes
  batches : List BatchObs := []
deriving Repr

/-- the inner calls of the public call, in order -/
def MObs.steps (ob : MObs) : List Step := ob.batches.filterMap (·.step)

/-- `get_many(keys)` (`gets = false`) / `gets_many(keys)`; every key comes with its routing key -/
def getManyH {RK : Type} (ccfg : Wire.Cfg) (c : Cfg) (route : List Srv → RK → Option Srv) (st : St) (idx : Nat)
    (now : Time) (gets : Bool) (keys : List (RK × Key.K)) (scripts : Srv → Script) : St × MObs :=
  match routeKeysH ccfg c route now st keys [] with
  | (st1, .inl r) => (st1, { res := r })
  | (st1, .inr b) =>
    match runBatchesH ccfg c idx now gets scripts st1 b (if gets then .casDict [] else .dict []) with
    | (st2, r, obs) => (st2, { res := r, batches := obs })

/-! ## `set_many`

```
def set_many(self, values, *args, **kwargs):
    client_batches = collections.defaultdict(dict); failed = []
    for key, value in values.items():
        client, key = self._get_client(key)
        if client is None: failed.append(key); continue            # ignore_exc and nothing in rotation
        client_batches[client.server][key] = value
    for server, values in client_batches.items():
        client = self.clients[self._make_client_key(server)]
        failed += self._safely_run_set_many(client, values, *args, **kwargs)
    return failed
def _safely_run_set_many(self, client, values, *args, **kwargs):
    failed = []; succeeded = []
    try:
        if client.server in self._failed_clients:
            … if attempts < retry_attempts:
                  if time.time() - failed_time > retry_timeout:
                      succeeded, failed, err = self._set_many(client, values, *args, **kwargs)
                      if err is not None: raise err
                      self._failed_clients.pop(client.server); return failed
                  return values.keys()
              else: self.remove_server(client.server)
        succeeded, failed, err = self._set_many(client, values, *args, **kwargs)
        if err is not None: raise err
        return failed
    except OSError: self._mark_failed_server(client.server); raise unless self.ignore_exc; return list(set(values.keys()) - set(succeeded))
    except Exception: raise unless self.ignore_exc; return list(set(values.keys()) - set(succeeded))
def _set_many(self, client, values, *args, **kwargs):
    failed = []; succeeded = []
    try: failed = client.set_many(values, *args, **kwargs)
    except Exception as e:
        if not self.ignore_exc: return succeeded, failed, e
    succeeded = [key for key in values if key not in failed]
    return succeeded, failed, None
```

The code is modelled as it is: with `ignore_exc=True` the `except Exception` of `_set_many` swallows whatever the inner
`client.set_many` raised (a `BaseException` is not an `Exception` and escapes through everything), `failed` stays `[]`,
`err` is `None` — so `_safely_run_set_many` never learns of the failure: nothing is marked, in the retry branch the failure
record is even *cleared*, and no key of the batch is reported (known finding `C13-setmany-ignoreexc`).  Consequently the
two `return list(set(values.keys()) - set(succeeded))` are dead code: with `ignore_exc=True` no `err` ever comes back, with
`ignore_exc=False` the handlers re-raise (the only other source of an exception inside the `try` is a failing dict
operation of the bookkeeping itself, `internalError` here as in `Failover`) — the returned list therefore never depends
on the iteration order of a `set`. -/

/-- `client_batches[client.server][key] = value` on an insertion-ordered `defaultdict(dict)` -/
def addToBatchKV (s : Srv) (k : Key.K) (v : Wire.Val) (b : List (Srv × List (Key.K × Wire.Val))) :
    List (Srv × List (Key.K × Wire.Val)) :=
  match alookup s b with
  | some kvs => ainsert s (dictSet kvs k v) b
  | none => ainsert s [(k, v)] b

/-- the first loop of `set_many`: `_get_client` for every key; `inl` = the exception that ended the call, `inr` = the
batches and the keys that found no client (`failed.append(key)`) -/
def routeItemsH {RK : Type} (ccfg : Wire.Cfg) (c : Cfg) (route : List Srv → RK → Option Srv) (now : Time) :
    St → List (RK × Key.K × Wire.Val) → List (Srv × List (Key.K × Wire.Val)) → List Key.K →
    St × Sum HRes (List (Srv × List (Key.K × Wire.Val)) × List Key.K)
  | st, [], b, f => (st, .inr (b, f))
  | st, (rk, k, v) :: ks, b, f =>
    match Wire.checkKey ccfg k with
    | .error _ => (st, .inl .illegalKey)
    | .ok _ =>
      match getClient c route now st rk with
      | (st1, .internalError) => (st1, .inl .internalError)
      | (st1, .allDown) => (st1, .inl .allDown)
      | (st1, .noClient) => routeItemsH ccfg c route now st1 ks b (f ++ [k])
      | (st1, .client s _) => routeItemsH ccfg c route now st1 ks (addToBatchKV s k v b) f

/-- `succeeded, failed, err = self._set_many(client, values, …); if err is not None: raise err`, then `return failed`,
preceded in the retry branch (`clear`) by `self._failed_clients.pop(client.server)`; or one of the handlers.
`.value (.keys l)` = the list `l` is returned. -/
def invokeSetMany (ccfg : Wire.Cfg) (c : Cfg) (idx : Nat) (now : Time) (st : St) (s : Srv) (cl : IClient) (call : Call)
    (sc : Script) (clear : Bool) : St × HRes × Option Step :=
  match contact ccfg idx st s cl call sc with
  | (st1, stp) =>
    /- `return failed` after `_set_many` came back with `err = None` and the list `failed` -/
    let finish : Res → St × HRes × Option Step := fun r =>
      if clear then
        match aerase s st1.fo.failed with
        | none => (st1, .internalError, some stp)
        | some f => ({ st1 with fo := { st1.fo with failed := f } }, .value r, some stp)
      else (st1, .value r, some stp)
    match stp.out.res with
    | .ok r => finish r
    | .error e =>
      if isBaseExc e then (st1, .raised s e, some stp)    -- not an `Exception`: through `_set_many` and both handlers
      else if c.ignoreExc then finish (.keys [])           -- swallowed inside `_set_many`: `failed = []`, `err = None`
      else
        match onError c now st1 s e with                   -- `raise err` into the handlers, which re-raise
        | (st2, r) => (st2, r, some stp)

/-- `_safely_run_set_many(client, values, …)` for the client object `cl` of server `s`; `.default` = `values.keys()`
is returned (retry window not yet open) -/
def safelyRunSetMany (ccfg : Wire.Cfg) (c : Cfg) (idx : Nat) (now : Time) (st : St) (s : Srv) (cl : IClient) (call : Call)
    (sc : Script) : St × HRes × Option Step :=
  match alookup s st.fo.failed with
  | some (attempts, failedTime) =>
    if attempts < c.ra then
      if now - failedTime > c.rt then invokeSetMany ccfg c idx now st s cl call sc true
      else (st, .default, none)
    else
      match removeServer now st.fo s with
      | none => (st, .internalError, none)
      | some fo' => invokeSetMany ccfg c idx now { st with fo := fo' } s cl call sc false
  | none => invokeSetMany ccfg c idx now st s cl call sc false

/-- the second loop of a multi-key operation in general: for every batch `(s, x)` look up the client object registered
for `s`, run `runOne` on it, merge what it returned (`onValue`: the inner result; `onDefault`: the default) into the
accumulator and go on; an escaping exception ends the call -/
def runBatchesG {β γ : Type} (runOne : St → Srv → IClient → β → St × HRes × Option Step)
    (onValue : γ → β → Res → γ) (onDefault : γ → β → γ) (fin : γ → Res) :
    St → List (Srv × β) → γ → St × HRes × List BatchObs
  | st, [], acc => (st, .value (fin acc), [])
  | st, (s, x) :: bs, acc =>
    match alookup s st.clients with
    | none => (st, .internalError, [])
    | some cl =>
      match runOne st s cl x with
      | (st1, .value r, stp) =>
        match runBatchesG runOne onValue onDefault fin st1 bs (onValue acc x r) with
        | (st2, res, obs) => (st2, res, ⟨s, stp.map fun _ => cl.id, stp, true⟩ :: obs)
      | (st1, .default, stp) =>
        match runBatchesG runOne onValue onDefault fin st1 bs (onDefault acc x) with
        | (st2, res, obs) => (st2, res, ⟨s, stp.map fun _ => cl.id, stp, false⟩ :: obs)
      | (st1, r, stp) => (st1, r, [⟨s, stp.map fun _ => cl.id, stp, false⟩])

/-- the list a `Client.set_many` returned -/
def keysOfRes : Res → List Key.K
  | .keys ks => ks
  | _ => []

/-- the second loop of `set_many`: `failed += self._safely_run_set_many(client, values, expire, noreply, flags)`; what the
connection of server `s` does when the batch `b` is sent to it is `scripts s b` -/
def runSetBatchesH (ccfg : Wire.Cfg) (c : Cfg) (idx : Nat) (now : Time) (expire : Wire.IntArg) (noreply : Option Bool)
    (flags : Option Int) (scripts : Srv → List (Key.K × Wire.Val) → Script) :
    St → List (Srv × List (Key.K × Wire.Val)) → List Key.K → St × HRes × List BatchObs :=
  runBatchesG
    (fun st s cl b => safelyRunSetMany ccfg c idx now st s cl (.setMany b expire noreply flags) (scripts s b))
    (fun acc _ r => acc ++ keysOfRes r) (fun acc b => acc ++ b.map (·.1)) Res.keys

/-- `set_many(values, expire, noreply, flags)`: every item comes with its routing key; the result is the list of failed
keys, in the order the code builds it (keys without a client first, then batch by batch) -/
def setManyH {RK : Type} (ccfg : Wire.Cfg) (c : Cfg) (route : List Srv → RK → Option Srv) (st : St) (idx : Nat)
    (now : Time) (items : List (RK × Key.K × Wire.Val)) (expire : Wire.IntArg) (noreply : Option Bool) (flags : Option Int)
    (scripts : Srv → List (Key.K × Wire.Val) → Script) : St × MObs :=
  match routeItemsH ccfg c route now st items [] [] with
  | (st1, .inl r) => (st1, { res := r })
  | (st1, .inr (b, f)) =>
    match runSetBatchesH ccfg c idx now expire noreply flags scripts st1 b f with
    | (st2, r, obs) => (st2, { res := r, batches := obs })

/-! ## `delete_many`

```
def delete_many(self, keys, *args, **kwargs) -> bool:
    for key in keys:
        self._run_cmd("delete", key, False, *args, **kwargs)
    return True
```

A loop of single-key calls inside one public call: every `_run_cmd` is a `callH … (.delete k noreply)` of section
`HashCall`, all with the index of the public call as tag; the same server may be contacted several times, so every key
comes with its own script.  An exception that escapes a `_run_cmd` ends the loop. -/

/-- the method raised -/
def raises : HRes → Bool
  | .value _ => false
  | .default => false
  | _ => true

/-- the loop of `delete_many`: the observations of the `_run_cmd`s executed, the last one being the one that raised,
if any did -/
def deleteLoop {RK : Type} (ccfg : Wire.Cfg) (c : Cfg) (route : List Srv → RK → Option Srv) (idx : Nat) (now : Time)
    (noreply : Option Bool) : St → List (RK × Key.K × Script) → St × List HObs
  | st, [] => (st, [])
  | st, (rk, k, sc) :: rest =>
    match callH ccfg c route st idx now rk (.delete k noreply) sc with
    | (st1, ob) =>
      if raises ob.res then (st1, [ob])
      else
        match deleteLoop ccfg c route idx now noreply st1 rest with
        | (st2, obs) => (st2, ob :: obs)

/-- a `_run_cmd` as a batch of one: present when the key was routed to a server -/
def batchOfObs (ob : HObs) : Option BatchObs :=
  match ob.server with
  | some s => some ⟨s, ob.client, ob.step, match ob.res with | .value _ => true | _ => false⟩
  | none => none

/-- `delete_many(keys, noreply)`: `True`, or the exception of the `_run_cmd` that raised -/
def deleteManyH {RK : Type} (ccfg : Wire.Cfg) (c : Cfg) (route : List Srv → RK → Option Srv) (st : St) (idx : Nat)
    (now : Time) (keys : List (RK × Key.K × Script)) (noreply : Option Bool) : St × MObs :=
  match deleteLoop ccfg c route idx now noreply st keys with
  | (st1, obs) =>
    (st1, { res := match obs.find? (fun ob => raises ob.res) with
                   | some ob => ob.res
                   | none => .value (.bool true),
            batches := obs.filterMap batchOfObs })

/-- a public call: one of the single-key operations, `get_many` / `gets_many`, `set_many`, or `delete_many` -/
inductive MOp (RK : Type)
  | cmd (rk : RK) (call : Call) (sc : Script)
  | getMany (gets : Bool) (keys : List (RK × Key.K)) (scripts : Srv → Script)
  | setMany (items : List (RK × Key.K × Wire.Val)) (expire : Wire.IntArg) (noreply : Option Bool) (flags : Option Int)
      (scripts : Srv → List (Key.K × Wire.Val) → Script)
  | deleteMany (keys : List (RK × Key.K × Script)) (noreply : Option Bool)

structure MCall (RK : Type) where
  op : MOp RK
  now : Time

/-- a single-key call of a `HashCall.runH` history as a general call -/
def HCall.toM {RK : Type} (hc : HCall RK) : MCall RK := { op := .cmd hc.rk hc.call hc.sc, now := hc.now }

def callM {RK : Type} (ccfg : Wire.Cfg) (c : Cfg) (route : List Srv → RK → Option Srv) (st : St) (idx : Nat)
    (mc : MCall RK) : St × MObs :=
  match mc.op with
  | .cmd rk call sc =>
    match callH ccfg c route st idx mc.now rk call sc with
    | (st1, ob) =>
      (st1, { res := ob.res,
              batches := match ob.server with
                | some s => [⟨s, ob.client, ob.step, match ob.res with | .value _ => true | _ => false⟩]
                | none => [] })
  | .getMany gets keys scripts => getManyH ccfg c route st idx mc.now gets keys scripts
  | .setMany items expire noreply flags scripts => setManyH ccfg c route st idx mc.now items expire noreply flags scripts
  | .deleteMany keys noreply => deleteManyH ccfg c route st idx mc.now keys noreply

/-- run the calls one after the other; the first one is call number `k` -/
def runM {RK : Type} (ccfg : Wire.Cfg) (c : Cfg) (route : List Srv → RK → Option Srv) :
    (st : St) → (k : Nat) → List (MCall RK) → St × List MObs
  | st, _, [] => (st, [])
  | st, k, mc :: rest =>
    match callM ccfg c route st k mc with
    | (st1, ob) =>
      match runM ccfg c route st1 (k + 1) rest with
      | (st2, obs) => (st2, ob :: obs)

/-! ## the framing hypotheses for a public call -/

/-- what arrives on the connection of every server during the call is well-framed for the inner call made on it: for a
single-key operation the script is `WellFramed` for the operation; for `get_many` every server's script delivers,
without fault, exactly one fetch reply (which keys go to which server is decided by the routing at run time; the
extent of a fetch reply does not depend on them); for `set_many` the script of every server is well-framed for the
`set_many` of whatever batch `b` it is sent (with `noreply=False` one line per item of `b`: the reply is a function of
the request); for `delete_many` the script of every key is well-framed for the `delete` of that key -/
def MOp.WellFramed {RK : Type} (ccfg : Wire.Cfg) : MOp RK → Prop
  | .cmd _ call sc => Framing.WellFramed ccfg call sc.evs
  | .getMany gets _ scripts =>
    ∀ s, Readers.clean (scripts s).evs ∧ (Owed.fetch (.values gets)).Matches (Readers.joinData (scripts s).evs)
  | .setMany _ expire noreply flags scripts =>
    ∀ s b, Framing.WellFramed ccfg (.setMany b expire noreply flags) (scripts s b).evs
  | .deleteMany keys noreply => ∀ x ∈ keys, Framing.WellFramed ccfg (.delete x.2.1 noreply) x.2.2.evs

/-- the same over connections that may break (`Framing.FaultFramed`) -/
def MOp.FaultFramed {RK : Type} (ccfg : Wire.Cfg) : MOp RK → Prop
  | .cmd _ call sc => Framing.FaultFramed ccfg call sc.evs
  | .getMany gets _ scripts =>
    ∀ s, ∃ pre post, (scripts s).evs = pre ++ post ∧ Readers.clean pre ∧
      (((Owed.fetch (.values gets)).Matches (Readers.joinData pre) ∧ quiet post) ∨
       ((∃ more, more ≠ [] ∧ (Owed.fetch (.values gets)).Matches (Readers.joinData pre ++ more)) ∧ broken post))
  | .setMany _ expire noreply flags scripts =>
    ∀ s b, Framing.FaultFramed ccfg (.setMany b expire noreply flags) (scripts s b).evs
  | .deleteMany keys noreply => ∀ x ∈ keys, Framing.FaultFramed ccfg (.delete x.2.1 noreply) x.2.2.evs

/-! ## the history of the abstract model (general calls)

What a general call is for the abstract model `Failover`: a single-key call is a `_run_cmd` event (none when
`check_key_helper` rejected the key), `get_many` / `set_many` are one `.getMany` / `.setMany` event over the routing
keys, `delete_many` is the sequence of `_run_cmd` events of the `delete`s it got round to.  The environment of a
multi-key event is read off the observation: every server does what the inner `Client.call` made on it did. -/

/-- what the server of a batch did, in the vocabulary of `Failover` (`ok` when it was not contacted) -/
def BatchObs.outcome (bo : BatchObs) : Outcome :=
  match bo.step with
  | some stp => outcomeOf stp.out.res
  | none => .ok

/-- the environment of a `get_many` / `set_many` (every server is handed at most one batch) -/
def envOfBatches (bs : List BatchObs) : Srv → Outcome := fun s =>
  match bs.find? (fun bo => bo.server == s) with
  | some bo => bo.outcome
  | none => .ok

/-- the contact log of the call -/
def contactsOfBatches (now : Time) (bs : List BatchObs) : List Contact :=
  bs.flatMap fun bo =>
    match bo.step with
    | some stp => [(bo.server, now, outcomeOf stp.out.res)]
    | none => []

/-- per key of a `get_many` / `set_many` the server `_get_client` assigns it to: the routing of the abstract model on
the bookkeeping state before the call -/
def assignedOf {RK : Type} (c : Cfg) (route : List Srv → RK → Option Srv) (now : Time) (fo : State) (rks : List RK) :
    List (Option Srv) :=
  match (Failover.routeKeys c route now fo rks).2 with
  | .inr a => a
  | .inl _ => []

/-- the result of a `get_many` / `set_many` in the vocabulary of `Failover`: when the method returned, per key whether
its batch was served (`get_many`: the inner result was merged; `set_many`: the inner list of failed keys was) -/
def absResMany (c : Cfg) (assigned : List (Option Srv)) (ob : MObs) : Result :=
  match ob.res with
  | .value _ => .multi (assigned.map (servedOf (ob.batches.map fun bo => (bo.server, bo.served))))
  | r => absRes c r

/-- the exception that ended the call is a `BaseException` -/
def escapedBase : HRes → Bool
  | .raised _ e => isBaseExc e
  | _ => false

/-- **the hypothesis of the projection of one call** (a decidable predicate on the call and its observation).
Nothing is required of a single-key call or a `delete_many`.  A `get_many` / `set_many` must not have been ended by
`check_key_helper` (the abstract model does not validate keys: the `_retry_dead` of the keys before the illegal one has
happened, and no abstract event does just that), and — under `ignore_exc=True` only — not by a `BaseException` of an
inner call (`Exc.sock code` with `code ≥ 100`: it escapes at once, whereas the abstract model, which has no
`BaseException`, sees a failure that `ignore_exc` swallows and goes on with the remaining batches; since a
`BaseException` always ends the call, this is the same as "no inner call of the public call raised one"). -/
def projOK {RK : Type} (c : Cfg) (mc : MCall RK) (ob : MObs) : Bool :=
  match mc.op with
  | .cmd .. => true
  | .deleteMany .. => true
  | .getMany .. => !isIllegalKey ob.res && !(c.ignoreExc && escapedBase ob.res)
  | .setMany .. => !isIllegalKey ob.res && !(c.ignoreExc && escapedBase ob.res)

/-- the `_run_cmd`s of a `delete_many` as single-key calls -/
def hcallsOfDelete {RK : Type} (now : Time) (noreply : Option Bool) (keys : List (RK × Key.K × Script)) : List (HCall RK) :=
  keys.map fun x => { rk := x.1, call := .delete x.2.1 noreply, sc := x.2.2, now := now }

/-- the abstract events call number `idx`, made in state `st`, gives rise to, and the outputs `Failover.run` is to
produce for them -/
def absOfCall {RK : Type} (ccfg : Wire.Cfg) (c : Cfg) (route : List Srv → RK → Option Srv) (st : St) (idx : Nat)
    (mc : MCall RK) : List (Event RK) × List (Result × List Contact) :=
  match mc.op with
  | .cmd rk call sc =>
    let hc : HCall RK := { rk := rk, call := call, sc := sc, now := mc.now }
    let ob := (callH ccfg c route st idx mc.now rk call sc).2
    (eventsOf [hc] [ob], absOuts c [hc] [ob])
  | .getMany gets keys scripts =>
    let ob := (getManyH ccfg c route st idx mc.now gets keys scripts).2
    ([{ now := mc.now, env := envOfBatches ob.batches, op := .getMany (keys.map (·.1)) }],
     [(absResMany c (assignedOf c route mc.now st.fo (keys.map (·.1))) ob, contactsOfBatches mc.now ob.batches)])
  | .setMany items expire noreply flags scripts =>
    let ob := (setManyH ccfg c route st idx mc.now items expire noreply flags scripts).2
    ([{ now := mc.now, env := envOfBatches ob.batches, op := .setMany (items.map (·.1)) }],
     [(absResMany c (assignedOf c route mc.now st.fo (items.map (·.1))) ob, contactsOfBatches mc.now ob.batches)])
  | .deleteMany keys noreply =>
    let obs := (deleteLoop ccfg c route idx mc.now noreply st keys).2
    (eventsOf (hcallsOfDelete mc.now noreply keys) obs, absOuts c (hcallsOfDelete mc.now noreply keys) obs)

/-- the abstract history of a run, and its outputs -/
def absOfRun {RK : Type} (ccfg : Wire.Cfg) (c : Cfg) (route : List Srv → RK → Option Srv) :
    St → Nat → List (MCall RK) → List (Event RK) × List (Result × List Contact)
  | _, _, [] => ([], [])
  | st, k, mc :: rest =>
    ((absOfCall ccfg c route st k mc).1 ++ (absOfRun ccfg c route (callM ccfg c route st k mc).1 (k + 1) rest).1,
     (absOfCall ccfg c route st k mc).2 ++ (absOfRun ccfg c route (callM ccfg c route st k mc).1 (k + 1) rest).2)

/-- every call of the history satisfies the hypothesis of the projection -/
def allProjOK {RK : Type} (c : Cfg) : List (MCall RK) → List MObs → Bool
  | mc :: rest, ob :: obs => projOK c mc ob && allProjOK c rest obs
  | _, _ => true

/-- all contacts of a general composed run, in chronological order: (server, time, what the inner `Client.call` did) -/
def contactLogM {RK : Type} : List (MCall RK) → List MObs → List Contact
  | mc :: rest, ob :: obs => contactsOfBatches mc.now ob.batches ++ contactLogM rest obs
  | _, _ => []

/-- the clock never goes back: call times are non-decreasing, starting at or after `t0` -/
def ChronoM {RK : Type} (t0 : Time) : List (MCall RK) → Prop
  | [] => True
  | mc :: rest => t0 ≤ mc.now ∧ ChronoM mc.now rest

/-- the call is a `set_many` -/
def MOp.isSetMany {RK : Type} : MOp RK → Bool
  | .setMany .. => true
  | _ => false
end HashCall
