/-! Byte strings and the line-protocol helpers shared by every model. No imports outside core. -/
abbrev Bytes := List UInt8

namespace Bytes
def CR : UInt8 := 13
def LF : UInt8 := 10
def SP : UInt8 := 32
def CRLF : Bytes := [13, 10]

def ofString (s : String) : Bytes := s.toUTF8.toList

def hexDigit (n : Nat) : Char :=
  if n < 10 then Char.ofNat (48 + n) else Char.ofNat (87 + n)

/-- lower-case hex; the empty string is written `-` so that every token is non-empty -/
def toHex (b : Bytes) : String :=
  if b.isEmpty then "-" else
  String.ofList (b.flatMap fun x => [hexDigit (x.toNat / 16), hexDigit (x.toNat % 16)])

def hexVal (c : Char) : Option Nat :=
  if '0' ≤ c ∧ c ≤ '9' then some (c.toNat - 48)
  else if 'a' ≤ c ∧ c ≤ 'f' then some (c.toNat - 87)
  else none

def ofHexChars : List Char → Option Bytes
  | [] => some []
  | [_] => none
  | a :: b :: r => do
    let x ← hexVal a
    let y ← hexVal b
    let t ← ofHexChars r
    pure (UInt8.ofNat (x * 16 + y) :: t)

def ofHex (s : String) : Option Bytes :=
  if s = "-" then some [] else ofHexChars s.toList
end Bytes
