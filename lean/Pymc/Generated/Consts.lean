/-! GENERATED on every run by harness/gen_consts.py from the working tree under test. Do not edit. -/
namespace Generated
def recvSize : Nat := 4096
def validStoreResults : List (List UInt8 × List (List UInt8)) := [
  ([97, 100, 100], [[83, 84, 79, 82, 69, 68], [78, 79, 84, 95, 83, 84, 79, 82, 69, 68]]),
  ([97, 112, 112, 101, 110, 100], [[83, 84, 79, 82, 69, 68], [78, 79, 84, 95, 83, 84, 79, 82, 69, 68]]),
  ([99, 97, 115], [[83, 84, 79, 82, 69, 68], [69, 88, 73, 83, 84, 83], [78, 79, 84, 95, 70, 79, 85, 78, 68]]),
  ([112, 114, 101, 112, 101, 110, 100], [[83, 84, 79, 82, 69, 68], [78, 79, 84, 95, 83, 84, 79, 82, 69, 68]]),
  ([114, 101, 112, 108, 97, 99, 101], [[83, 84, 79, 82, 69, 68], [78, 79, 84, 95, 83, 84, 79, 82, 69, 68]]),
  ([115, 101, 116], [[83, 84, 79, 82, 69, 68], [78, 79, 84, 95, 83, 84, 79, 82, 69, 68]])
]
def storeResultsValue : List (List UInt8 × Option Bool) := [
  ([69, 88, 73, 83, 84, 83], some false),
  ([78, 79, 84, 95, 70, 79, 85, 78, 68], none),
  ([78, 79, 84, 95, 83, 84, 79, 82, 69, 68], some false),
  ([83, 84, 79, 82, 69, 68], some true)
]
def flagbytes : Nat := 0
def flagpickle : Nat := 1
def flaginteger : Nat := 2
def flaglong : Nat := 4
def flagcompressed : Nat := 8
def flagtext : Nat := 16
end Generated
