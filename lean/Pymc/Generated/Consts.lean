/-! GENERATED on every run by harness/gen_consts.py from the working tree under test. Do not edit. -/
namespace Generated
def recvSize : Nat := 4096
def validStoreResults : List (List UInt8 × List (List UInt8)) := [
  ([97, 100, 100], [[83, 84, 79, 82, 69, 68], [78, 79, 84, 95, 83, 84, 79, 82, 69, 68]]),
  ([97, 112, 112, 101, 110, 100], [[83, 84, 79, 82, 69, 68], [78, 79, 84, 95, 83, 84, 79, 82, 69, 68]]),
  ([99, 97, 115], [[83, 84, 79, 82, 69, 68], [69, 88, 73, 83, 84, 83], [78, 79, 84, 95, 70, 79, 85, 78, 68]]),
  ([112, 114, 101, 112, 101, 110, 100], [[83, 84, 79, 82, 69, 68], [78, 79, 84, 95, 83, 84, 79, 82, 69, 68]]),
  ([114, 101, 112, 108, 97, 99, 101], [[83, 84, 79, 82, 69, 68], [78, 79, 84, 95, 83, 84, 79, 82, 69, 68]]),
  ([115, 101, 116], [[83, 84, 79, 82, 69, 68], [78, 79, 84, 95, 83, 84, 79, 82, 69, 68]])
]
def storeResultsValue : List (List UInt8 × Option Bool) := [
  ([69, 88, 73, 83, 84, 83], some false),
  ([78, 79, 84, 95, 70, 79, 85, 78, 68], none),
  ([78, 79, 84, 95, 83, 84, 79, 82, 69, 68], some false),
  ([83, 84, 79, 82, 69, 68], some true)
]
def statTypes : List (List UInt8 × String) := [
  ([97, 117, 116, 104, 95, 101, 110, 97, 98, 108, 101, 100, 95, 115, 97, 115, 108], "_parse_bool_string_is_yes"),
  ([99, 97, 115, 95, 101, 110, 97, 98, 108, 101, 100], "_parse_bool_int"),
  ([100, 101, 116, 97, 105, 108, 95, 101, 110, 97, 98, 108, 101, 100], "_parse_bool_int"),
  ([103, 114, 111, 119, 116, 104, 95, 102, 97, 99, 116, 111, 114], "float"),
  ([104, 97, 115, 104, 95, 105, 115, 95, 101, 120, 112, 97, 110, 100, 105, 110, 103], "_parse_bool_int"),
  ([105, 110, 116, 101, 114], "bytes"),
  ([109, 97, 120, 99, 111, 110, 110, 115, 95, 102, 97, 115, 116], "_parse_bool_int"),
  ([114, 117, 115, 97, 103, 101, 95, 115, 121, 115, 116, 101, 109], "_parse_float"),
  ([114, 117, 115, 97, 103, 101, 95, 117, 115, 101, 114], "_parse_float"),
  ([115, 108, 97, 98, 95, 97, 117, 116, 111, 109, 111, 118, 101], "_parse_bool_int"),
  ([115, 108, 97, 98, 95, 114, 101, 97, 115, 115, 105, 103, 110], "_parse_bool_int"),
  ([115, 108, 97, 98, 95, 114, 101, 97, 115, 115, 105, 103, 110, 95, 114, 117, 110, 110, 105, 110, 103], "_parse_bool_int"),
  ([115, 116, 97, 116, 95, 107, 101, 121, 95, 112, 114, 101, 102, 105, 120], "bytes"),
  ([117, 109, 97, 115, 107], "_parse_hex"),
  ([118, 101, 114, 115, 105, 111, 110], "bytes")
]
def statTypesAllBytesKeys : Bool := true
def flagbytes : Nat := 0
def flagpickle : Nat := 1
def flaginteger : Nat := 2
def flaglong : Nat := 4
def flagcompressed : Nat := 8
def flagtext : Nat := 16
def keyMethods : List String := ["set", "set_many", "add", "replace", "append", "prepend", "cas", "get", "gat", "gets", "gats", "get_many", "gets_many", "delete", "delete_many", "incr", "decr", "touch"]
def clientSigs : List (String × List (String × String)) := [
  ("set", [("key", "REQUIRED"), ("value", "REQUIRED"), ("expire", "0"), ("noreply", "None"), ("flags", "None")]),
  ("set_many", [("values", "REQUIRED"), ("expire", "0"), ("noreply", "None"), ("flags", "None")]),
  ("add", [("key", "REQUIRED"), ("value", "REQUIRED"), ("expire", "0"), ("noreply", "None"), ("flags", "None")]),
  ("replace", [("key", "REQUIRED"), ("value", "REQUIRED"), ("expire", "0"), ("noreply", "None"), ("flags", "None")]),
  ("append", [("key", "REQUIRED"), ("value", "REQUIRED"), ("expire", "0"), ("noreply", "None"), ("flags", "None")]),
  ("prepend", [("key", "REQUIRED"), ("value", "REQUIRED"), ("expire", "0"), ("noreply", "None"), ("flags", "None")]),
  ("cas", [("key", "REQUIRED"), ("value", "REQUIRED"), ("cas", "REQUIRED"), ("expire", "0"), ("noreply", "False"), ("flags", "None")]),
  ("get", [("key", "REQUIRED"), ("default", "None")]),
  ("gat", [("key", "REQUIRED"), ("expire", "0"), ("default", "None")]),
  ("gets", [("key", "REQUIRED"), ("default", "None"), ("cas_default", "None")]),
  ("gats", [("key", "REQUIRED"), ("expire", "0"), ("default", "None"), ("cas_default", "None")]),
  ("get_many", [("keys", "REQUIRED")]),
  ("gets_many", [("keys", "REQUIRED")]),
  ("delete", [("key", "REQUIRED"), ("noreply", "None")]),
  ("delete_many", [("keys", "REQUIRED"), ("noreply", "None")]),
  ("incr", [("key", "REQUIRED"), ("value", "REQUIRED"), ("noreply", "False")]),
  ("decr", [("key", "REQUIRED"), ("value", "REQUIRED"), ("noreply", "False")]),
  ("touch", [("key", "REQUIRED"), ("expire", "0"), ("noreply", "None")])
]
def pooledSigs : List (String × List (String × String)) := [
  ("set", [("key", "REQUIRED"), ("value", "REQUIRED"), ("expire", "0"), ("noreply", "None"), ("flags", "None")]),
  ("set_many", [("values", "REQUIRED"), ("expire", "0"), ("noreply", "None"), ("flags", "None")]),
  ("add", [("key", "REQUIRED"), ("value", "REQUIRED"), ("expire", "0"), ("noreply", "None"), ("flags", "None")]),
  ("replace", [("key", "REQUIRED"), ("value", "REQUIRED"), ("expire", "0"), ("noreply", "None"), ("flags", "None")]),
  ("append", [("key", "REQUIRED"), ("value", "REQUIRED"), ("expire", "0"), ("noreply", "None"), ("flags", "None")]),
  ("prepend", [("key", "REQUIRED"), ("value", "REQUIRED"), ("expire", "0"), ("noreply", "None"), ("flags", "None")]),
  ("cas", [("key", "REQUIRED"), ("value", "REQUIRED"), ("cas", "REQUIRED"), ("expire", "0"), ("noreply", "False"), ("flags", "None")]),
  ("get", [("key", "REQUIRED"), ("default", "None")]),
  ("gat", [("key", "REQUIRED"), ("expire", "0"), ("default", "None")]),
  ("gets", [("key", "REQUIRED"), ("default", "None"), ("cas_default", "None")]),
  ("gats", [("key", "REQUIRED"), ("expire", "0"), ("default", "None"), ("cas_default", "None")]),
  ("get_many", [("keys", "REQUIRED")]),
  ("gets_many", [("keys", "REQUIRED")]),
  ("delete", [("key", "REQUIRED"), ("noreply", "None")]),
  ("delete_many", [("keys", "REQUIRED"), ("noreply", "None")]),
  ("incr", [("key", "REQUIRED"), ("value", "REQUIRED"), ("noreply", "False")]),
  ("decr", [("key", "REQUIRED"), ("value", "REQUIRED"), ("noreply", "False")]),
  ("touch", [("key", "REQUIRED"), ("expire", "0"), ("noreply", "None")])
]
def hashSigs : List (String × List (String × String)) := [
  ("set", [("key", "REQUIRED"), ("*args", "REQUIRED"), ("**kwargs", "REQUIRED")]),
  ("set_many", [("values", "REQUIRED"), ("*args", "REQUIRED"), ("**kwargs", "REQUIRED")]),
  ("add", [("key", "REQUIRED"), ("*args", "REQUIRED"), ("**kwargs", "REQUIRED")]),
  ("replace", [("key", "REQUIRED"), ("*args", "REQUIRED"), ("**kwargs", "REQUIRED")]),
  ("append", [("key", "REQUIRED"), ("*args", "REQUIRED"), ("**kwargs", "REQUIRED")]),
  ("prepend", [("key", "REQUIRED"), ("*args", "REQUIRED"), ("**kwargs", "REQUIRED")]),
  ("cas", [("key", "REQUIRED"), ("*args", "REQUIRED"), ("**kwargs", "REQUIRED")]),
  ("get", [("key", "REQUIRED"), ("default", "None"), ("**kwargs", "REQUIRED")]),
  ("gat", [("key", "REQUIRED"), ("expire", "0"), ("default", "None"), ("**kwargs", "REQUIRED")]),
  ("gets", [("key", "REQUIRED"), ("default", "None"), ("cas_default", "None"), ("**kwargs", "REQUIRED")]),
  ("gats", [("key", "REQUIRED"), ("expire", "0"), ("default", "None"), ("cas_default", "None"), ("**kwargs", "REQUIRED")]),
  ("get_many", [("keys", "REQUIRED"), ("gets", "False"), ("*args", "REQUIRED"), ("**kwargs", "REQUIRED")]),
  ("gets_many", [("keys", "REQUIRED"), ("*args", "REQUIRED"), ("**kwargs", "REQUIRED")]),
  ("delete", [("key", "REQUIRED"), ("*args", "REQUIRED"), ("**kwargs", "REQUIRED")]),
  ("delete_many", [("keys", "REQUIRED"), ("*args", "REQUIRED"), ("**kwargs", "REQUIRED")]),
  ("incr", [("key", "REQUIRED"), ("*args", "REQUIRED"), ("**kwargs", "REQUIRED")]),
  ("decr", [("key", "REQUIRED"), ("*args", "REQUIRED"), ("**kwargs", "REQUIRED")]),
  ("touch", [("key", "REQUIRED"), ("*args", "REQUIRED"), ("**kwargs", "REQUIRED")])
]
def pooledForward : List (String × String × List String × List (String × String)) := [
  ("set", "set", ["key", "value"], [("expire", "expire"), ("noreply", "noreply"), ("flags", "flags")]),
  ("set_many", "set_many", ["values"], [("expire", "expire"), ("noreply", "noreply"), ("flags", "flags")]),
  ("add", "add", ["key", "value"], [("expire", "expire"), ("noreply", "noreply"), ("flags", "flags")]),
  ("replace", "replace", ["key", "value"], [("expire", "expire"), ("noreply", "noreply"), ("flags", "flags")]),
  ("append", "append", ["key", "value"], [("expire", "expire"), ("noreply", "noreply"), ("flags", "flags")]),
  ("prepend", "prepend", ["key", "value"], [("expire", "expire"), ("noreply", "noreply"), ("flags", "flags")]),
  ("cas", "cas", ["key", "value", "cas"], [("expire", "expire"), ("noreply", "noreply"), ("flags", "flags")]),
  ("get", "get", ["key", "default"], []),
  ("gat", "gat", ["key", "expire", "default"], []),
  ("gets", "gets", ["key", "default", "cas_default"], []),
  ("gats", "gats", ["key", "expire", "default", "cas_default"], []),
  ("get_many", "get_many", ["keys"], []),
  ("gets_many", "gets_many", ["keys"], []),
  ("delete", "delete", ["key"], [("noreply", "noreply")]),
  ("delete_many", "delete_many", ["keys"], [("noreply", "noreply")]),
  ("incr", "incr", ["key", "value"], [("noreply", "noreply")]),
  ("decr", "decr", ["key", "value"], [("noreply", "noreply")]),
  ("touch", "touch", ["key"], [("expire", "expire"), ("noreply", "noreply")])
]
def pooledCreateClientKw : List (String × String) := [("serde", "self.serde"), ("connect_timeout", "self.connect_timeout"), ("timeout", "self.timeout"), ("no_delay", "self.no_delay"), ("ignore_exc", "False"), ("socket_module", "self.socket_module"), ("socket_keepalive", "self.socket_keepalive"), ("key_prefix", "self.key_prefix"), ("default_noreply", "self.default_noreply"), ("allow_unicode_keys", "self.allow_unicode_keys"), ("encoding", "self.encoding"), ("tls_context", "self.tls_context")]
def hashDefaultKwargs : List String := ["allow_unicode_keys", "connect_timeout", "default_noreply", "deserializer", "encoding", "key_prefix", "no_delay", "serde", "serializer", "socket_keepalive", "socket_module", "timeout", "tls_context"]
def hashPooledDefaultKwargs : List String := ["allow_unicode_keys", "connect_timeout", "default_noreply", "deserializer", "encoding", "key_prefix", "lock_generator", "max_pool_size", "no_delay", "pool_idle_timeout", "serde", "serializer", "socket_keepalive", "socket_module", "timeout", "tls_context"]
def clientCtorParams : List String := ["server", "serde", "serializer", "deserializer", "connect_timeout", "timeout", "no_delay", "ignore_exc", "socket_module", "socket_keepalive", "key_prefix", "default_noreply", "allow_unicode_keys", "encoding", "tls_context"]
def pooledCtorParams : List String := ["server", "serde", "serializer", "deserializer", "connect_timeout", "timeout", "no_delay", "ignore_exc", "socket_module", "socket_keepalive", "key_prefix", "max_pool_size", "pool_idle_timeout", "lock_generator", "default_noreply", "allow_unicode_keys", "encoding", "tls_context"]
end Generated
