import Pymc.Proofs.C01Examples
import Pymc.Proofs.ServerAnswersCall
import Pymc.Proofs.PooledCallExamples
import Pymc.Proofs.HashCallExamples
import Pymc.Proofs.HashCallManyExamples
import Pymc.Proofs.HashCallSetExamples
import Pymc.Proofs.HashPooledCallExamples
import Pymc.Proofs.HashInnerPlain
import Pymc.Proofs.HashPooledCallManyExamples
import Pymc.Proofs.HashInnerManyPlain
import Pymc.Proofs.HashBroadcastExamples
import Pymc.Proofs.HashBroadcastMixedExamples
/-!
# C01 — no reply is ever read by the wrong call

Model: `Exchange.storeLoop/miscLoop/fetchLoop` (the reply loops of `_store_cmd`, `_misc_cmd`,
`_fetch_cmd`), `Exchange.exchangeStore/Misc/Fetch` (connect if needed, send, read) and `Client.call`
(every public operation) over an explicit script of what the connection does during the call:
`connectFails`, `sendFails`, and the list `evs` of `recv()` results (`data b`, `b = []` being
end-of-stream; `eintr`; `err c` for timeouts, resets, …).  `unread` is what a call leaves in the pipe,
`sockOpen`/`closed` whether the socket survives.

The argument is the invariant *at a call boundary an open socket has nothing unread in its pipe*
(section numbers refer to the sections below):
1. an exception raised inside an exchange always closes the socket — for every behaviour of the
   connection (`C01_error_closes_*`); the only exceptions raised with the socket left open are
   argument errors before anything is sent and the two post-processing errors (`incr`/`decr`'s
   `int()`, `version`'s prefix check), which happen after the reply has been consumed;
2. a `noreply` call never calls `recv()` (`C01_noreply_*`);
3. and 4. a call that waits for replies and returns normally has consumed exactly the reply units the
   server owes for its commands (`C01_*_consumes_exactly`, `C01_call_clean`), under the framing
   assumption of `Pymc/Model/Framing.lean` (one unit per reply-expecting command, content adversarial);
5. hence in any sequence of calls every byte a call reads was provoked by its own commands
   (`C01_sequence_clean`, `C01_own_bytes_only`);
6. the same when the connection may break at any byte or fail at any later time
   (`C01_result_is_local`, `C01_nothing_after_a_fault_matters`, `C01_call_clean_faults`,
   `C01_sequence_clean_faults`, `C01_own_bytes_only_faults`): a reply that is cut short never produces a
   normal return, and whatever follows a fault in the pipe is never read and never influences a call;
7. the framing assumption is not vacuous: the reference server of the model (`Server.feed`, the one
   C04/C05 are stated against) obeys it (`C01_model_server_is_framed`);
8. with C02 (the strict parser reads the bytes of a call as the requests the call means) the assumption
   becomes a theorem for that server: its answer to the bytes of a call is exactly what `owed` says
   (`C01_reference_server_answers_what_is_owed`), hence `Client.onServer` never leaves anything unread
   (`C01_onServer_pipe_clean`);
9. the same for `PooledClient`: model `Pymc/Model/PooledCall.lean`, in which every public call of the wrapper is the pool
   bracket (`get`, then `release` or `destroy`) around a real `Client.call` on the checked-out inner client.  The
   invariant becomes *every idle pooled client with an open socket has nothing unread in its pipe*
   (`C01_pooled_sequence_clean`, `C01_pooled_own_bytes_only`, and the `…_faults` variants);
10. and for `HashClient` (`use_pooling=False`, the single-key operations): model `Pymc/Model/HashCall.lean`, in which every
   contact of the failover code with a server is a real `Client.call` on the client object registered for that server.
   The invariant becomes *every client object registered in `self.clients` with an open socket has nothing unread in its
   pipe* (`C01_hash_sequence_clean`, `C01_hash_own_bytes_only`, and the `…_faults` variants); with `get_many` /
   `gets_many`, `set_many` and `delete_many` — several servers contacted by one public call, or one server several
   times — in `C01_hash_many_*` (model `Pymc/Model/HashCallMany.lean`);
12. and for `HashClient(use_pooling=True)` (the single-key operations): model `Pymc/Model/HashPooledCall.lean` — the failover
   code of section 10 (`Pymc/Model/HashInner.lean`: the same code with the registered object as a parameter) around the pool
   bracket of section 9: every contact with a server is one `PooledClient` call, i.e. a real `Client.call` on an inner
   client of the pool of the `PooledClient` registered for that server.  The invariant becomes *every idle inner client,
   of every pool registered in `self.clients`, with an open socket has nothing unread in its pipe*
   (`C01_hashpooled_sequence_clean`, `C01_hashpooled_own_bytes_only`, and the `…_faults` variants);
13. and for `HashClient(use_pooling=True)` with `get_many` / `gets_many`, `set_many` and `delete_many`: model
   `Pymc/Model/HashPooledCallMany.lean` — the multi-key code of section 11 (`Pymc/Model/HashInnerMany.lean`: the same code
   with the registered object as a parameter) around the pool bracket: one public call checks inner clients out of
   several pools one after the other, every batch is a real `Client.call` on the checked-out inner client
   (`C01_hashpooled_many_sequence_clean`, `C01_hashpooled_many_own_bytes_only`, and the `…_faults` variants).

No bound on lengths, number of keys or chunking anywhere.
-/
namespace C01
open Bytes Readers Wire Exchange Client Framing C01Examples

/-! ## 1. an error closes the socket -/

/-- C01 (loops): whatever the connection does — faults, garbage, end-of-stream anywhere — and from any
loop state, a reply loop that ends with an exception has closed the socket, and one that returns
normally has not. -/
theorem C01_error_closes_loops :
    (∀ verb n buf evs acc,
      (∀ e, (storeLoop verb n buf evs acc).res = .error e → (storeLoop verb n buf evs acc).closed = true) ∧
      (∀ r, (storeLoop verb n buf evs acc).res = .ok r → (storeLoop verb n buf evs acc).closed = false)) ∧
    (∀ tok n buf evs acc,
      (∀ e, (miscLoop tok n buf evs acc).res = .error e → (miscLoop tok n buf evs acc).closed = true) ∧
      (∀ r, (miscLoop tok n buf evs acc).res = .ok r → (miscLoop tok n buf evs acc).closed = false)) ∧
    (∀ kind wanted fuel buf evs acc,
      (∀ e, (fetchLoop kind wanted fuel buf evs acc).res = .error e →
        (fetchLoop kind wanted fuel buf evs acc).closed = true) ∧
      (∀ r, (fetchLoop kind wanted fuel buf evs acc).res = .ok r →
        (fetchLoop kind wanted fuel buf evs acc).closed = false)) :=
  ⟨fun verb n buf evs acc =>
      ⟨fun _ h => storeLoop_error_closed verb n buf evs acc h,
       fun _ h => (storeLoop_ok_open verb n buf evs acc h).1⟩,
   fun tok n buf evs acc =>
      ⟨fun _ h => miscLoop_error_closed tok n buf evs acc h,
       fun _ h => (miscLoop_ok_open tok n buf evs acc h).1⟩,
   fun kind wanted fuel buf evs acc => (fetchLoop_inv kind wanted fuel buf evs acc).2⟩

/-- C01 (exchanges): an exchange that raises — connect failure, send failure, receive failure, error
reply, unparseable reply, end-of-stream — leaves no socket behind.  Equivalently, if the socket is
open afterwards the exchange returned normally, it did send its commands, and (unless `noreply`) the
result is the one the reply loop computed. -/
theorem C01_error_closes_exchange :
    (∀ verb cmds nr so sc, (exchangeStore verb cmds nr so sc).sockOpen = true →
      ∃ r, (exchangeStore verb cmds nr so sc).res = .ok r ∧
        (exchangeStore verb cmds nr so sc).sent = some cmds.flatten ∧
        (nr = false → (storeLoop verb cmds.length [] sc.evs []).res = .ok r)) ∧
    (∀ cmds nr tok so sc, (exchangeMisc cmds nr tok so sc).sockOpen = true →
      ∃ r, (exchangeMisc cmds nr tok so sc).res = .ok r ∧
        (exchangeMisc cmds nr tok so sc).sent = some cmds.flatten ∧
        (nr = false → (miscLoop tok cmds.length [] sc.evs []).res = .ok r)) ∧
    (∀ kind cmd wanted ie so sc, (exchangeFetch kind cmd wanted ie so sc).sockOpen = true →
      ∃ r, (exchangeFetch kind cmd wanted ie so sc).res = .ok r ∧
        (exchangeFetch kind cmd wanted ie so sc).sent = some cmd ∧
        (fetchLoop kind wanted (totalLen [] sc.evs) [] sc.evs []).res = .ok r) := by
  refine ⟨fun verb cmds nr so sc h => ?_, fun cmds nr tok so sc h => ?_,
    fun kind cmd wanted ie so sc h => exchangeFetch_open kind cmd wanted ie so sc h⟩
  · obtain ⟨r, h1, -, h3, h4⟩ := exchangeStore_open verb cmds nr so sc h
    exact ⟨r, h1, h3, h4⟩
  · obtain ⟨r, h1, -, h3, h4⟩ := exchangeMisc_open cmds nr tok so sc h
    exact ⟨r, h1, h3, h4⟩

/-- C01 (`ignore_exc`): when the fetch loop raises, `ignore_exc=True` turns the exception into an empty
result, but the socket is closed all the same. -/
theorem C01_ignore_exc_still_closes (kind : FetchKind) (cmd : Bytes) (wanted : List Bytes)
    (so : Bool) (sc : Script) (e : Exc)
    (h : (fetchLoop kind wanted (totalLen [] sc.evs) [] sc.evs []).res = .error e) :
    (exchangeFetch kind cmd wanted true so sc).sockOpen = false := by
  cases ho : (exchangeFetch kind cmd wanted true so sc).sockOpen with
  | false => rfl
  | true =>
    obtain ⟨r, -, -, hr⟩ := exchangeFetch_open kind cmd wanted true so sc ho
    rw [h] at hr; cases hr

/-- an error line in answer to `get`: the caller sees `{}`, the socket is gone -/
example :
    (fetchLoop (.values false) [[107]] (totalLen [] [.data [69, 82, 82, 79, 82, 13, 10]]) []
      [.data [69, 82, 82, 79, 82, 13, 10]] []).res = .error .unknownCommand ∧
    (exchangeFetch (.values false) [] [[107]] true true { evs := [.data [69, 82, 82, 79, 82, 13, 10]] }).res
      = .ok [] ∧
    (exchangeFetch (.values false) [] [[107]] true true { evs := [.data [69, 82, 82, 79, 82, 13, 10]] }).sockOpen
      = false := by
  simp [exchangeFetch, totalLen, joinData, fetchLoop, readline, findCRLF, CR, LF, raiseErrors, startsWith,
    lit_ERROR, isBaseExc]

/-- C01 (every public operation): if the call got as far as sending (or trying to send) and the socket
is open afterwards, then the call returned normally, or it raised one of the two post-processing
errors (`incr`/`decr`: `ValueError` from `int()`; `version`: `MemcacheUnknownError`) — which are raised
after the exchange has returned normally, so `C01_call_clean` applies to them as well.  Every other
exception raised after the first byte was handed to `sendall` has closed the socket. -/
theorem C01_error_closes_call (cfg : Cfg) (ignoreExc sockOpen : Bool) (c : Call) (sc : Script)
    (hsent : (Client.call cfg ignoreExc sockOpen c sc).sent ≠ none)
    (hopen : (Client.call cfg ignoreExc sockOpen c sc).sockOpen = true) :
    (∃ r, (Client.call cfg ignoreExc sockOpen c sc).res = .ok r) ∨
    (∃ e, (Client.call cfg ignoreExc sockOpen c sc).res = .error e ∧ postProcessingError c e) :=
  call_open_result cfg ignoreExc sockOpen c sc hsent hopen

/-- both hypotheses hold and the second alternative occurs: `version` answered by `OK` -/
example :
    (Client.call {} false true .version { evs := [.data [79, 75, 13, 10]] }).sent ≠ none ∧
    (Client.call {} false true .version { evs := [.data [79, 75, 13, 10]] }).sockOpen = true ∧
    (Client.call {} false true .version { evs := [.data [79, 75, 13, 10]] }).res
      = .error (.unknownError [79, 75]) := by
  simp [lit_VERSION, Client.call, mapOut, exchangeMisc, miscLoop, readline, findCRLF, CR, LF, raiseErrors, startsWith,
    lit_ERROR, lit_CLIENT_ERROR, lit_SERVER_ERROR, SP, List.idxOf?, List.findIdx?, List.findIdx?.go]

/-! ## 2. `noreply` never reads -/

/-- C01 (`noreply`, exchanges): with `noreply` the store and misc exchanges never call `recv()`: whatever
is in the pipe stays there, and nothing else in the outcome depends on it. -/
theorem C01_noreply_never_reads :
    (∀ verb cmds so sc evs',
      (exchangeStore verb cmds true so sc).unread = sc.evs ∧
      exchangeStore verb cmds true so { sc with evs := evs' } =
        { exchangeStore verb cmds true so sc with unread := evs' }) ∧
    (∀ cmds tok so sc evs',
      (exchangeMisc cmds true tok so sc).unread = sc.evs ∧
      exchangeMisc cmds true tok so { sc with evs := evs' } =
        { exchangeMisc cmds true tok so sc with unread := evs' }) :=
  ⟨fun verb cmds so sc evs' => exchangeStore_noreply verb cmds so sc evs',
   fun cmds tok so sc evs' => exchangeMisc_noreply cmds tok so sc evs'⟩

/-- C01 (`noreply`, every public operation): a call that is owed nothing — it sends nothing, or its
effective `noreply` is true, or it is `quit` — never calls `recv()`. -/
theorem C01_noreply_call_never_reads (cfg : Cfg) (ignoreExc sockOpen : Bool) (c : Call) (sc : Script)
    (hn : owed cfg c = .nothing) (evs' : List Ev) :
    (Client.call cfg ignoreExc sockOpen c sc).unread = sc.evs ∧
    Client.call cfg ignoreExc sockOpen c { sc with evs := evs' } =
      { Client.call cfg ignoreExc sockOpen c sc with unread := evs' } :=
  call_noreply cfg ignoreExc sockOpen c sc hn evs'

example : owed {} (.flushAll (.int 0) none) = .nothing ∧ owed {} .quit = .nothing := by
  have h : encodeFlush (.int 0) true = .ok (flushCmd 0 true) := rfl
  simp [owed, sends, Client.call, boolOr, h, exchangeMisc_probe, effNoreply]

/-! ## 3. a waiting call consumes exactly its reply units -/

/-- C01 (`_store_cmd`): on a fault-free delivery — cut into pieces arbitrarily — of exactly one reply
line per command, the store loop either returns normally with nothing left (neither in its buffer,
which it drops, nor in the pipe), or raises (error line, unknown line) and the socket is closed. -/
theorem C01_store_consumes_exactly (verb : SVerb) (n : Nat) (evs : List Ev)
    (hclean : clean evs) (hunits : Units LineUnit n (joinData evs)) :
    (∃ r, (storeLoop verb n [] evs []).res = .ok r ∧ (storeLoop verb n [] evs []).closed = false ∧
      joinData (storeLoop verb n [] evs []).unread = [] ∧ clean (storeLoop verb n [] evs []).unread) ∨
    (∃ e, (storeLoop verb n [] evs []).res = .error e ∧ (storeLoop verb n [] evs []).closed = true) := by
  obtain ⟨us, hlen, hu, hj⟩ := hunits
  have := storeLoop_units verb us [] evs [] hclean hu (by simpa using hj)
  rw [hlen] at this
  exact this

/-- `STORED\r\nNOT_STORED\r\n` for two commands, delivered as `STO`, (EINTR), `RED\r\nNOT_`, `STORED\r\n` -/
example :
    clean [.data [83, 84, 79], .eintr, .data [82, 69, 68, 13, 10, 78, 79, 84, 95],
      .data [83, 84, 79, 82, 69, 68, 13, 10]] ∧
    Units LineUnit 2 (joinData [.data [83, 84, 79], .eintr, .data [82, 69, 68, 13, 10, 78, 79, 84, 95],
      .data [83, 84, 79, 82, 69, 68, 13, 10]]) := by
  refine ⟨by simp [clean], [[83, 84, 79, 82, 69, 68, 13, 10], [78, 79, 84, 95, 83, 84, 79, 82, 69, 68, 13, 10]],
    rfl, ?_, by decide⟩
  intro u hu
  simp only [List.mem_cons, List.not_mem_nil, or_false] at hu
  rcases hu with rfl | rfl
  · exact ⟨[83, 84, 79, 82, 69, 68], by decide⟩
  · exact ⟨[78, 79, 84, 95, 83, 84, 79, 82, 69, 68], by decide⟩

/-- C01 (`_misc_cmd`): the same for the misc loop, with reply lines (`tok = none`) or, for a raw command
with end token `t`, replies that end at the first occurrence of `t` (`tok = some t`). -/
theorem C01_misc_consumes_exactly (tok : Option Bytes) (n : Nat) (evs : List Ev)
    (hclean : clean evs)
    (hunits : Units (match tok with | none => LineUnit | some t => SegUnit t) n (joinData evs)) :
    (∃ r, (miscLoop tok n [] evs []).res = .ok r ∧ (miscLoop tok n [] evs []).closed = false ∧
      joinData (miscLoop tok n [] evs []).unread = [] ∧ clean (miscLoop tok n [] evs []).unread) ∨
    (∃ e, (miscLoop tok n [] evs []).res = .error e ∧ (miscLoop tok n [] evs []).closed = true) := by
  obtain ⟨us, hlen, hu, hj⟩ := hunits
  have hu' : ∀ u ∈ us, MiscUnit tok u := by
    intro u h; have := hu u h; cases tok <;> exact this
  have := miscLoop_units tok us [] evs [] hclean hu' (by simpa using hj)
  rw [hlen] at this
  exact this

/-- a raw command with end token `END\r\n`, reply `a\r\nEND\r\n` in two pieces -/
example :
    clean [.data [97, 13, 10, 69], .data [78, 68, 13, 10]] ∧
    Units (match some [69, 78, 68, 13, 10] with | none => LineUnit | some t => SegUnit t) 1
      (joinData [.data [97, 13, 10, 69], .data [78, 68, 13, 10]]) := by
  refine ⟨by simp [clean], [[97, 13, 10, 69, 78, 68, 13, 10]], rfl, ?_, by decide⟩
  intro u hu
  simp only [List.mem_cons, List.not_mem_nil, or_false] at hu
  subst hu
  exact ⟨[97, 13, 10], by decide⟩

/-- C01 (`_fetch_cmd`, the fuel): the model's loop carries a fuel argument that the exchange sets to
`totalLen [] evs`.  For every behaviour of the connection each iteration consumes at least one byte
or one `recv()` result, so this fuel is never used up: (1) started with more fuel than there is
pending input, the loop never reaches its `fuel = 0` branch; (2) any two such fuels give the same
outcome; (3) `totalLen [] evs` is such a fuel. -/
theorem C01_fetch_fuel_never_runs_out (kind : FetchKind) (wanted : List Bytes) (buf : Bytes)
    (evs : List Ev) (acc : List FetchEntry) :
    (∀ fuel, pending buf evs < fuel → ¬ fetchRunsOut kind wanted fuel buf evs acc) ∧
    (∀ f₁ f₂, pending buf evs < f₁ → pending buf evs < f₂ →
      fetchLoop kind wanted f₁ buf evs acc = fetchLoop kind wanted f₂ buf evs acc) ∧
    pending buf evs < totalLen buf evs :=
  ⟨fun fuel h => fetch_never_runs_out kind wanted fuel buf evs acc h,
   fun f₁ f₂ h₁ h₂ => fetchLoop_fuel_irrelevant kind wanted f₁ f₂ buf evs acc h₁ h₂,
   by simp [pending, totalLen]⟩

/-- C01 (`_fetch_cmd`, reading `fetchRunsOut`): `fetchLoop` is the iteration of the loop body
`fetchStep`, and `fetchRunsOut` follows exactly that iteration down to `fuel = 0`. -/
theorem C01_fetch_loop_is_iterated_step (kind : FetchKind) (wanted : List Bytes) (fuel : Nat)
    (buf : Bytes) (evs : List Ev) (acc : List FetchEntry) :
    fetchLoop kind wanted (fuel + 1) buf evs acc =
      (match fetchStep kind wanted buf evs acc with
       | .inl o => o
       | .inr s => fetchLoop kind wanted fuel s.1 s.2.1 s.2.2) ∧
    (fetchRunsOut kind wanted (fuel + 1) buf evs acc ↔
      match fetchStep kind wanted buf evs acc with
       | .inl _ => False
       | .inr s => fetchRunsOut kind wanted fuel s.1 s.2.1 s.2.2) ∧
    fetchRunsOut kind wanted 0 buf evs acc := by
  refine ⟨?_, Iff.rfl, trivial⟩
  rw [fetchLoop_succ]
  rcases fetchStep kind wanted buf evs acc with o | s <;> rfl

/-- C01 (`_fetch_cmd`): on a fault-free delivery of exactly one fetch reply (value blocks whose headers
announce their sizes truthfully, then a final line — `END`, `OK`, an error line or garbage), the fetch
loop either returns normally with nothing left, or raises (error line, unknown line, unexpected key,
unparseable flags, …) and the socket is closed.  The loop alternates `_readline` and `_readvalue`;
the data blocks may contain CR LF, `END`, anything. -/
theorem C01_fetch_consumes_exactly (kind : FetchKind) (wanted : List Bytes) (evs : List Ev)
    (hclean : clean evs) (hunit : FetchUnit kind (joinData evs)) :
    let o := fetchLoop kind wanted (totalLen [] evs) [] evs []
    (∃ r, o.res = .ok r ∧ o.closed = false ∧ joinData o.unread = [] ∧ clean o.unread) ∨
    (∃ e, o.res = .error e ∧ o.closed = true) :=
  fetchLoop_unit kind wanted (totalLen [] evs) [] evs [] hclean (by simpa using hunit)
    (pending_lt_totalLen evs)

/-- `VALUE k 0 5\r\nEND\r\n\r\nEND\r\n`: a value whose data is `END\r\n`, delivered in three pieces -/
example :
    clean [.data [86, 65, 76, 85, 69, 32, 107, 32, 48, 32, 53, 13], .data [10, 69, 78, 68, 13, 10, 13],
      .data [10, 69, 78, 68, 13, 10]] ∧
    FetchUnit (.values false) (joinData [.data [86, 65, 76, 85, 69, 32, 107, 32, 48, 32, 53, 13],
      .data [10, 69, 78, 68, 13, 10, 13], .data [10, 69, 78, 68, 13, 10]]) := by
  refine ⟨by simp [clean], ?_⟩
  have : joinData [.data [86, 65, 76, 85, 69, 32, 107, 32, 48, 32, 53, 13],
      .data [10, 69, 78, 68, 13, 10, 13], .data [10, 69, 78, 68, 13, 10]] =
      [86, 65, 76, 85, 69, 32, 107, 32, 48, 32, 53, 13, 10] ++ [69, 78, 68, 13, 10] ++ [13, 10] ++
        [69, 78, 68, 13, 10] := by decide
  rw [this]
  refine .value _ [86, 65, 76, 85, 69, 32, 107, 32, 48, 32, 53] _ _ _ (by decide) ?_ rfl ?_
  · refine ⟨by rw [lit_VALUE]; decide, by decide, by decide⟩
  · exact .final _ [69, 78, 68] (by decide) ⟨by rw [lit_VALUE]; decide, by simp⟩

/-- the `stats` kind of the loop: `STAT pid 1\r\nEND\r\n` -/
example :
    clean [.data [83, 84, 65, 84, 32, 112, 105, 100, 32, 49, 13, 10, 69], .data [78, 68, 13, 10]] ∧
    FetchUnit .stats (joinData [.data [83, 84, 65, 84, 32, 112, 105, 100, 32, 49, 13, 10, 69],
      .data [78, 68, 13, 10]]) := by
  refine ⟨by simp [clean], ?_⟩
  have : joinData [.data [83, 84, 65, 84, 32, 112, 105, 100, 32, 49, 13, 10, 69], .data [78, 68, 13, 10]] =
      [83, 84, 65, 84, 32, 112, 105, 100, 32, 49, 13, 10] ++ [69, 78, 68, 13, 10] := by decide
  rw [this]
  refine .stat _ [83, 84, 65, 84, 32, 112, 105, 100, 32, 49] _ rfl (by decide) (.inl (by rw [lit_STAT]; decide)) ?_
  exact .final _ [69, 78, 68] (by decide)
    ⟨by rw [lit_VALUE]; decide, fun _ => ⟨by rw [lit_STAT]; decide, by rw [lit_ITEM]; decide⟩⟩

/-! ## 4. every public operation leaves a clean pipe -/

/-- C01 (every public operation): if the `recv()` results of the call deliver, without fault, exactly
the reply units owed for what the call sends (nothing if it sends nothing or asks for `noreply`),
then — whatever connect and send do, whether or not the socket was open before, with or without
`ignore_exc`, and whether the call returns or raises — if the socket is open after the call, nothing
is left unread on it. -/
theorem C01_call_clean (cfg : Cfg) (ignoreExc sockOpen : Bool) (c : Call) (sc : Script)
    (hwf : WellFramed cfg c sc.evs)
    (hopen : (Client.call cfg ignoreExc sockOpen c sc).sockOpen = true) :
    joinData (Client.call cfg ignoreExc sockOpen c sc).unread = [] ∧
    clean (Client.call cfg ignoreExc sockOpen c sc).unread :=
  call_clean cfg ignoreExc sockOpen c sc hwf hopen

/-- `get k` answered by `VALUE k 0 1\r\nx\r\nEND\r\n` in two pieces; `version` answered by one line in two
pieces; and the calls do leave the socket open -/
example :
    WellFramed {} (.get (.bytes [107])) [.data [86, 65, 76, 85, 69, 32, 107, 32, 48, 32, 49, 13, 10, 120],
      .eintr, .data [13, 10, 69, 78, 68, 13, 10]] ∧
    WellFramed {} .version [.data [86, 69, 82, 83, 73, 79, 78, 32, 49, 13], .data [10]] ∧
    (Client.call {} false false .version
      { evs := [.data [86, 69, 82, 83, 73, 79, 78, 32, 49, 13], .data [10]] }).sockOpen = true := by
  refine ⟨wf_get, wf_version, ?_⟩
  simp [lit_VERSION, Client.call, mapOut, exchangeMisc, miscLoop, readline, findCRLF, CR, LF, raiseErrors,
    startsWith, lit_ERROR, lit_CLIENT_ERROR, lit_SERVER_ERROR, SP, List.idxOf?, List.findIdx?,
    List.findIdx?.go]

/-- the administrative operations are inside the theorem: `stats` answered by `STAT pid 1\r\nEND\r\n` in two pieces
(with an interrupted `recv()` in between), `cache_memlimit 64` answered `OK\r\n`, `shutdown graceful` answered by a line
that is not an error line — the three scripts are well-framed, the calls return normally and leave the socket open, so
`C01_call_clean` says nothing is left unread -/
example :
    WellFramed {} (.stats []) [.data [83, 84, 65, 84, 32, 112, 105, 100], .eintr,
      .data [32, 49, 13, 10, 69, 78, 68, 13, 10]] ∧
    Client.call {} false true (.stats []) { evs := [.data [83, 84, 65, 84, 32, 112, 105, 100], .eintr,
      .data [32, 49, 13, 10, 69, 78, 68, 13, 10]] } =
      ⟨.ok (.stats [(.bytes [112, 105, 100], [49])]), true, false, some [115, 116, 97, 116, 115, 13, 10], []⟩ ∧
    WellFramed {} (.cacheMemlimit (.int 64)) [.data [79, 75, 13, 10]] ∧
    (Client.call {} false true (.cacheMemlimit (.int 64)) { evs := [.data [79, 75, 13, 10]] }).res = .ok (.bool true) ∧
    (Client.call {} false true (.cacheMemlimit (.int 64)) { evs := [.data [79, 75, 13, 10]] }).sockOpen = true ∧
    WellFramed {} (.shutdown true) [.data [79, 75, 13, 10]] ∧
    (Client.call {} false true (.shutdown true) { evs := [.data [79, 75, 13, 10]] }).res = .ok .none ∧
    (Client.call {} false true (.shutdown true) { evs := [.data [79, 75, 13, 10]] }).sockOpen = true :=
  ⟨wf_stats, by with_unfolding_all rfl, wf_cacheMemlimit, by with_unfolding_all rfl, by with_unfolding_all rfl,
   wf_shutdown, by with_unfolding_all rfl, by with_unfolding_all rfl⟩

/-- `shutdown` against a server that does shut down: nothing comes back, the connection is closed by the peer.  The
script is `FaultFramed` (an empty prefix of the owed line, then end-of-stream); `_misc_cmd` closes the socket and raises
`MemcacheUnexpectedCloseError`, which `shutdown()` swallows: the call returns `None` with the socket closed, so the
hypothesis `sockOpen = true` of `C01_call_clean_faults` fails and the next call reconnects. -/
example :
    FaultFramed {} (.shutdown false) [.data []] ∧
    Client.call {} false true (.shutdown false) { evs := [.data []] } =
      ⟨.ok .none, false, false, some [115, 104, 117, 116, 100, 111, 119, 110, 13, 10], []⟩ := by
  refine ⟨⟨[], [.data []], rfl, trivial, .inr ⟨⟨[79, 75, 13, 10], by simp, ?_⟩, rfl⟩⟩, by with_unfolding_all rfl⟩
  rw [owed_shutdown]
  exact ⟨[[79, 75, 13, 10]], rfl, by simp [LineUnit]; exact ⟨[79, 75], by decide⟩, by simp [joinData]⟩

/-- C01 (perfect connection — the situation of `Client.onServer`): if the whole reply arrives in one piece
and is exactly what the call is owed, a call that leaves the socket open leaves *nothing* behind, so
the third component of `Client.onServer` (`sockOpen && unread = []`) is then just `sockOpen`. -/
theorem C01_perfect_connection_clean (cfg : Cfg) (ignoreExc sockOpen : Bool) (c : Call) (sc : Script)
    (reply : Bytes) (h : (owed cfg c).Matches reply)
    (hopen : (Client.call cfg ignoreExc sockOpen c
      { sc with evs := if reply = [] then [] else [.data reply] }).sockOpen = true) :
    (Client.call cfg ignoreExc sockOpen c
      { sc with evs := if reply = [] then [] else [.data reply] }).unread = [] :=
  call_onePiece_clean cfg ignoreExc sockOpen c sc reply h hopen

example : (owed {} (.get (.bytes [107]))).Matches getReply := by
  rw [owed_get]; exact getReply_unit

/-- C01 (a call that sends nothing touches nothing): if nothing was handed to `sendall` — the arguments
were rejected, there was nothing to do, or the connect failed — then no `recv()` happened, and the
socket is open afterwards only if it was open before. -/
theorem C01_no_send_no_read (cfg : Cfg) (ignoreExc sockOpen : Bool) (c : Call) (sc : Script)
    (h : (Client.call cfg ignoreExc sockOpen c sc).sent = none) :
    (Client.call cfg ignoreExc sockOpen c sc).unread = sc.evs ∧
    ((Client.call cfg ignoreExc sockOpen c sc).sockOpen = true → sockOpen = true) :=
  call_not_sent cfg ignoreExc sockOpen c sc h

/-- `get_many([])` sends nothing -/
example : (Client.call {} false true (.getMany []) {}).sent = none := by simp [Client.call]

/-- C01 (what a call leaves is a suffix of what it could see): for every behaviour of the connection. -/
theorem C01_unread_is_suffix (cfg : Cfg) (ignoreExc sockOpen : Bool) (c : Call) (sc : Script) :
    (Client.call cfg ignoreExc sockOpen c sc).unread <:+ sc.evs :=
  call_suffix cfg ignoreExc sockOpen c sc

/-! ## 5. sequences of calls -/

/-- C01 (sequences): run any sequence of calls on one object, starting at a call boundary with an empty
pipe (socket open or not).  Call `k` sees what call `k-1` left unread followed by what arrives during
call `k` if the socket stayed open, and only what arrives during call `k` if it has to reconnect.
If what arrives during each call is well-framed for that call, then after every call that leaves
the socket open the pipe holds no byte. -/
theorem C01_sequence_clean (cfg : Cfg) (ignoreExc sockOpen : Bool) (calls : List (Call × Script))
    (hwf : ∀ cs ∈ calls, WellFramed cfg cs.1 cs.2.evs) :
    ∀ o ∈ runCalls cfg ignoreExc sockOpen calls, o.sockOpen = true →
      joinData o.unread = [] ∧ clean o.unread :=
  runFrom_clean cfg ignoreExc sockOpen [] calls (fun _ => ⟨rfl, trivial⟩) hwf

/-- a run of two calls with well-framed scripts: `version` on a closed socket (it connects), then `get k`
on the same connection; both return normally -/
example :
    (∀ cs ∈ [(Call.version, ({ evs := [.data [86, 69, 82, 83, 73, 79, 78, 32, 49, 13], .data [10]] } : Script)),
        (Call.get (.bytes [107]), { evs := [.data [86, 65, 76, 85, 69, 32, 107, 32, 48, 32, 49, 13, 10, 120],
          .eintr, .data [13, 10, 69, 78, 68, 13, 10]] })],
      WellFramed {} cs.1 cs.2.evs) := by
  intro cs hcs
  simp only [List.mem_cons, List.not_mem_nil, or_false] at hcs
  rcases hcs with rfl | rfl
  · exact wf_version
  · exact wf_get

/-- C01 (own bytes only): in the same run, tag every `recv()` result with the index of the call during
which it arrives (the call whose commands provoked it).  Then everything call `k` can see — a fortiori
everything it consumes — carries tag `k`, except possibly interrupted `recv()` attempts (`eintr`), which
carry no bytes.  So no call ever reads a byte that answers an earlier call.  (`consumed ++ leftover =
avail`, and `leftover` is what the untagged run leaves unread.) -/
theorem C01_own_bytes_only (cfg : Cfg) (ignoreExc sockOpen : Bool) (calls : List (Call × Script))
    (hwf : ∀ cs ∈ calls, WellFramed cfg cs.1 cs.2.evs) :
    ∀ st ∈ runTagged cfg ignoreExc sockOpen calls,
      st.consumed ++ st.leftover = st.avail ∧
      st.leftover.map (·.2) = st.out.unread ∧
      (∀ te ∈ st.avail, te.1 = st.idx ∨ te.2 = .eintr) ∧
      (∀ te ∈ st.consumed, te.1 = st.idx ∨ te.2 = .eintr) := by
  intro st hst
  have h := runTaggedFrom_facts cfg ignoreExc 0 sockOpen [] calls (by simp) hwf st hst
  refine ⟨h.split, h.left, h.own, fun te hte => h.own te ?_⟩
  rw [← h.split]; exact List.mem_append_left _ hte

/-- the hypothesis is that of `C01_sequence_clean` (instance above); here is a tagged run in which the second
call consumes only events tagged 1 -/
example :
    (runTagged {} false false
      [(.version, { evs := [.data [86, 69, 82, 83, 73, 79, 78, 32, 49, 13, 10]] }),
       (.version, { evs := [.data [86, 69, 82, 83, 73, 79, 78], .data [32, 50, 13, 10]] })]).map
      (fun st => (st.idx, st.consumed)) =
    [(0, [(0, .data [86, 69, 82, 83, 73, 79, 78, 32, 49, 13, 10])]),
     (1, [(1, .data [86, 69, 82, 83, 73, 79, 78]), (1, .data [32, 50, 13, 10])])] := by
  simp [runTagged, runTaggedFrom, available, lit_VERSION, Client.call, mapOut, exchangeMisc, miscLoop,
    readline, findCRLF, CR, LF, raiseErrors, startsWith, lit_ERROR, lit_CLIENT_ERROR, lit_SERVER_ERROR, SP,
    List.idxOf?, List.findIdx?, List.findIdx?.go]

/- C01 (own bytes only) at full strength would read: *every event consumed by call `k` carries tag
`k`*.  That is false in the model for one reason only: a script may list an interrupted `recv()`
(`eintr`) after the piece that completes the reply; the call returns without making that `recv()`, so
the `eintr` stays "in the pipe" and is met by the next call.  It carries no bytes.  (In reality EINTR is
an outcome of a `recv()` call, not something queued in the socket; the leftover `eintr` is an artifact
of scripting `recv()` outcomes per call.) -/

/-- C01 (own bytes only, the `eintr` exception is real): two `version` calls on an open socket; the
first script ends with an interrupted `recv()` that the first call never makes; the second call
consumes it (tag 0) before its own reply (tag 1).  Both calls return their own version string. -/
theorem C01_own_bytes_only_eintr_counterexample :
    (runTagged {} false true
      [(.version, { evs := [.data [86, 69, 82, 83, 73, 79, 78, 32, 49, 13, 10], .eintr] }),
       (.version, { evs := [.data [86, 69, 82, 83, 73, 79, 78, 32, 50, 13, 10]] })]).map
      (fun st => (st.idx, st.consumed, st.out.res, st.out.sockOpen)) =
    [(0, [(0, .data [86, 69, 82, 83, 73, 79, 78, 32, 49, 13, 10])], .ok (.bytes [49]), true),
     (1, [(0, .eintr), (1, .data [86, 69, 82, 83, 73, 79, 78, 32, 50, 13, 10])], .ok (.bytes [50]), true)] := by
  simp [runTagged, runTaggedFrom, available, lit_VERSION, Client.call, mapOut, exchangeMisc, miscLoop,
    readline, findCRLF, CR, LF, raiseErrors, startsWith, lit_ERROR, lit_CLIENT_ERROR, lit_SERVER_ERROR, SP,
    List.idxOf?, List.findIdx?, List.findIdx?.go]

/-- C01 (own bytes only, partial: full strength when no script lists an interrupted `recv()`): then every
event call `k` can see, hence every event it consumes, carries tag `k`. -/
theorem C01_own_bytes_only_partial (cfg : Cfg) (ignoreExc sockOpen : Bool) (calls : List (Call × Script))
    (hwf : ∀ cs ∈ calls, WellFramed cfg cs.1 cs.2.evs)
    (hno : ∀ cs ∈ calls, ∀ e ∈ cs.2.evs, e ≠ .eintr) :
    ∀ st ∈ runTagged cfg ignoreExc sockOpen calls,
      (∀ te ∈ st.avail, te.1 = st.idx) ∧ (∀ te ∈ st.consumed, te.1 = st.idx) := by
  intro st hst
  have h := C01_own_bytes_only cfg ignoreExc sockOpen calls hwf st hst
  have hne := runTaggedFrom_avail_from_scripts cfg ignoreExc 0 sockOpen [] calls (· ≠ .eintr)
    (by simp) hno st hst
  have hav : ∀ te ∈ st.avail, te.1 = st.idx := fun te hte =>
    (h.2.2.1 te hte).resolve_right (hne te hte)
  refine ⟨hav, fun te hte => hav te ?_⟩
  rw [← h.1]; exact List.mem_append_left _ hte

example :
    ∀ cs ∈ [(Call.version, ({ evs := [.data [86, 69, 82, 83, 73, 79, 78, 32, 49, 13], .data [10]] } : Script))],
      WellFramed {} cs.1 cs.2.evs ∧ ∀ e ∈ cs.2.evs, e ≠ .eintr := by
  intro cs hcs
  simp only [List.mem_cons, List.not_mem_nil, or_false] at hcs
  subst hcs
  exact ⟨wf_version, by simp⟩

/-- C01 (no foreign bytes — the byte-level reading, no extra hypothesis): every `recv()` result that
carries data and is consumed by call `k` carries tag `k`. -/
theorem C01_no_foreign_bytes (cfg : Cfg) (ignoreExc sockOpen : Bool) (calls : List (Call × Script))
    (hwf : ∀ cs ∈ calls, WellFramed cfg cs.1 cs.2.evs) :
    ∀ st ∈ runTagged cfg ignoreExc sockOpen calls, ∀ te ∈ st.consumed, ∀ b, te.2 = .data b →
      te.1 = st.idx := by
  intro st hst te hte b hb
  rcases (C01_own_bytes_only cfg ignoreExc sockOpen calls hwf st hst).2.2.2 te hte with h | h
  · exact h
  · rw [hb] at h; cases h

/-- C01 (the tagged run is the run): forgetting the tags gives `runCalls`, for arbitrary scripts. -/
theorem C01_tagged_run_faithful (cfg : Cfg) (ignoreExc sockOpen : Bool) (calls : List (Call × Script)) :
    (runTagged cfg ignoreExc sockOpen calls).map (·.out) = runCalls cfg ignoreExc sockOpen calls :=
  runTaggedFrom_out cfg ignoreExc 0 sockOpen [] calls

/-! ## 6. the same over a connection that may break -/

/-- C01 (a result is computed from the consumed bytes only): for every behaviour of the connection, a call
that leaves the socket open has consumed a fault-free prefix `cons` of the `recv()` results, and
its whole outcome — result, bytes sent, socket state — is the same whatever follows `cons`; only
what is left unread changes.  (Any script `sc`; `evs` is the pipe content during the call.) -/
theorem C01_result_is_local (cfg : Cfg) (ignoreExc sockOpen : Bool) (c : Call) (sc : Script)
    (evs : List Ev)
    (hopen : (Client.call cfg ignoreExc sockOpen c { sc with evs := evs }).sockOpen = true) :
    ∃ cons, evs = cons ++ (Client.call cfg ignoreExc sockOpen c { sc with evs := evs }).unread ∧
      clean cons ∧
      ∀ other, Client.call cfg ignoreExc sockOpen c { sc with evs := cons ++ other } =
        { Client.call cfg ignoreExc sockOpen c { sc with evs := evs } with unread := other } :=
  call_local cfg ignoreExc sockOpen c sc evs hopen

example : (Client.call {} false true .version { evs := [.data [79, 75, 13, 10], .err 3] }).sockOpen = true := by
  simp [lit_VERSION, Client.call, mapOut, exchangeMisc, miscLoop, readline, findCRLF, CR, LF, raiseErrors, startsWith,
    lit_ERROR, lit_CLIENT_ERROR, lit_SERVER_ERROR, SP, List.idxOf?, List.findIdx?, List.findIdx?.go]

/-- C01 (nothing after a fault matters — whether the call returns or raises): cut the `recv()` results after
the first fault (end-of-stream or exception); the call has the same result or exception, sends the
same bytes and leaves the socket in the same state.  So two behaviours of the connection that agree up
to and including their first fault are indistinguishable for the call: in particular the exception a
call raises is computed only from what it could receive before (and including) that fault. -/
theorem C01_nothing_after_a_fault_matters (cfg : Cfg) (ignoreExc sockOpen : Bool) (c : Call) (sc : Script)
    (evs evs' : List Ev) :
    (Client.call cfg ignoreExc sockOpen c { sc with evs := cutAtFault evs } =
      { Client.call cfg ignoreExc sockOpen c { sc with evs := evs } with
        unread := cutAtFault (Client.call cfg ignoreExc sockOpen c { sc with evs := evs }).unread }) ∧
    (cutAtFault evs = cutAtFault evs' →
      (Client.call cfg ignoreExc sockOpen c { sc with evs := evs }).res =
        (Client.call cfg ignoreExc sockOpen c { sc with evs := evs' }).res ∧
      (Client.call cfg ignoreExc sockOpen c { sc with evs := evs }).sockOpen =
        (Client.call cfg ignoreExc sockOpen c { sc with evs := evs' }).sockOpen ∧
      (Client.call cfg ignoreExc sockOpen c { sc with evs := evs }).sent =
        (Client.call cfg ignoreExc sockOpen c { sc with evs := evs' }).sent) := by
  refine ⟨call_cut cfg ignoreExc sockOpen c sc evs, fun h => ?_⟩
  have h1 := call_cut cfg ignoreExc sockOpen c sc evs
  have h2 := call_cut cfg ignoreExc sockOpen c sc evs'
  rw [h] at h1
  have := h1.symm.trans h2
  simp only [cutCall, CallOut.mk.injEq] at this
  exact ⟨this.1, this.2.1, this.2.2.2.1⟩

example : cutAtFault [.data [1], .eintr, .err 7, .data [2]] = cutAtFault [.data [1], .eintr, .err 7] ∧
    cutAtFault [.data [1], .data [], .data [2]] = [.data [1], .data []] := by decide

/-- C01 (every public operation, broken connections): let the pipe of an open socket hold `leftover` with
no byte readable before a fault (`quiet`), and let the `recv()` results during the call be
`FaultFramed`: the owed units delivered completely and then nothing before a fault, *or* only a strict
prefix of them — cut at any byte — followed by end-of-stream or an exception.  If the socket is open
after the call then again no byte is readable from its pipe before a fault.  In particular a reply that
is cut short never leads to a normal return with the socket left open. -/
theorem C01_call_clean_faults (cfg : Cfg) (ignoreExc sockOpen : Bool) (c : Call) (sc : Script)
    (leftover : List Ev) (hleft : sockOpen = true → quiet leftover)
    (hff : FaultFramed cfg c sc.evs)
    (hopen : (Client.call cfg ignoreExc sockOpen c
      { sc with evs := available sockOpen leftover sc.evs }).sockOpen = true) :
    quiet (Client.call cfg ignoreExc sockOpen c
      { sc with evs := available sockOpen leftover sc.evs }).unread :=
  call_quiet cfg ignoreExc sockOpen c sc leftover sc.evs hleft hff hopen

/-- `version`: (1) the reply `VERSION 1\r\n` cut after `VERS` by a timeout, with junk arriving later;
(2) the complete reply, then a reset.  And a `quiet` leftover that is not empty. -/
example :
    FaultFramed {} .version [.data [86, 69, 82, 83], .err 7, .data [1, 2, 3]] ∧
    FaultFramed {} .version [.data [86, 69, 82, 83, 73, 79, 78, 32, 49, 13, 10], .eintr, .err 104, .data [9]] ∧
    quiet [.eintr, .err 7, .data [1, 2, 3]] := by
  have ho := owed_version
  have hu : Units LineUnit 1 [86, 69, 82, 83, 73, 79, 78, 32, 49, 13, 10] := versionReply_units 49 (by decide)
  refine ⟨⟨[.data [86, 69, 82, 83]], [.err 7, .data [1, 2, 3]], rfl, by simp [clean], .inr ⟨⟨[73, 79, 78, 32, 49, 13, 10], by simp, ?_⟩, by simp [broken, isFault]⟩⟩,
    ⟨[.data [86, 69, 82, 83, 73, 79, 78, 32, 49, 13, 10]], [.eintr, .err 104, .data [9]], rfl, by simp [clean],
      .inl ⟨?_, by simp [quiet]⟩⟩, by simp [quiet]⟩
  · rw [ho]; exact hu
  · rw [ho]; exact hu

/-- C01 (sequences, broken connections): in a run that starts at a call boundary with an empty pipe, if
what arrives during each call is `FaultFramed` for that call, then after every call that leaves the
socket open no byte is readable from the pipe before a fault — so the next call on that socket can
only receive what arrives in answer to its own commands, or fail. -/
theorem C01_sequence_clean_faults (cfg : Cfg) (ignoreExc sockOpen : Bool) (calls : List (Call × Script))
    (hff : ∀ cs ∈ calls, FaultFramed cfg cs.1 cs.2.evs) :
    ∀ o ∈ runCalls cfg ignoreExc sockOpen calls, o.sockOpen = true → quiet o.unread :=
  runFrom_quiet cfg ignoreExc sockOpen [] calls (fun _ => trivial) hff

/-- a run over a breaking connection: the first `version` gets `VERS`, then a timeout (and `JUNK\r\n` would
arrive later); it raises and closes.  The second `version` reconnects and reads its own reply — never
the junk.  Both scripts are `FaultFramed`. -/
example :
    (∀ cs ∈ [(Call.version, ({ evs := [.data [86, 69, 82, 83], .err 7, .data [74, 85, 78, 75, 13, 10]] } : Script)),
        (Call.version, { evs := [.data [86, 69, 82, 83, 73, 79, 78, 32, 50, 13, 10]] })],
      FaultFramed {} cs.1 cs.2.evs) ∧
    (runCalls {} false true
      [(.version, { evs := [.data [86, 69, 82, 83], .err 7, .data [74, 85, 78, 75, 13, 10]] }),
       (.version, { evs := [.data [86, 69, 82, 83, 73, 79, 78, 32, 50, 13, 10]] })]).map
      (fun o => (o.res, o.sockOpen, o.connected, o.unread)) =
    [(.error (.sock 7), false, false, []),
     (.ok (.bytes [50]), true, true, [])] := by
  constructor
  · intro cs hcs
    simp only [List.mem_cons, List.not_mem_nil, or_false] at hcs
    rcases hcs with rfl | rfl
    · refine ⟨[.data [86, 69, 82, 83]], [.err 7, .data [74, 85, 78, 75, 13, 10]], rfl, by simp [clean],
        .inr ⟨⟨[73, 79, 78, 32, 49, 13, 10], by simp, ?_⟩, by simp [broken, isFault]⟩⟩
      rw [owed_version]; exact versionReply_units 49 (by decide)
    · refine faultFramed_of_wellFramed ⟨by simp [clean], ?_⟩
      rw [owed_version]; exact versionReply_units 50 (by decide)
  · simp [runCalls, runFrom, available, lit_VERSION, Client.call, mapOut, exchangeMisc, miscLoop,
      readline, findCRLF, CR, LF, raiseErrors, startsWith, lit_ERROR, lit_CLIENT_ERROR, lit_SERVER_ERROR, SP,
      List.idxOf?, List.findIdx?, List.findIdx?.go, ofReaderErr]

/-- C01 (own bytes only, broken connections): in the tagged run, everything call `k` can possibly receive
— the pipe content up to the first fault, `readable` — carries tag `k` or is an interrupted attempt
without bytes; and a call that leaves the socket open has consumed only such events. -/
theorem C01_own_bytes_only_faults (cfg : Cfg) (ignoreExc sockOpen : Bool) (calls : List (Call × Script))
    (hff : ∀ cs ∈ calls, FaultFramed cfg cs.1 cs.2.evs) :
    ∀ st ∈ runTagged cfg ignoreExc sockOpen calls,
      st.consumed ++ st.leftover = st.avail ∧
      st.leftover.map (·.2) = st.out.unread ∧
      (∀ te ∈ readable st.avail, te.1 = st.idx ∨ te.2 = .eintr) ∧
      (st.out.sockOpen = true → ∀ te ∈ st.consumed, te.1 = st.idx ∨ te.2 = .eintr) := by
  intro st hst
  have h := runTaggedFrom_factsF cfg ignoreExc 0 sockOpen [] calls (fun _ => trivial) hff st hst
  exact ⟨h.split, h.left, h.own, fun ho te hte => h.own te (h.taken ho te hte)⟩

/-- a well-framed script is in particular fault-framed, so the two theorems above cover C01_sequence_clean's
runs, and runs in which some scripts are well-framed and others break -/
example (cfg : Cfg) (c : Call) (evs : List Ev) (h : WellFramed cfg c evs) : FaultFramed cfg c evs :=
  faultFramed_of_wellFramed h

/-! ## 7. the reference server obeys the framing assumption -/

/-- C01 (the framing assumption holds for the model's memcached): for every state and every request
whose fetch keys a strict server accepts, the reply `Server.render r (AbsMap.apply s r).2` is exactly
the unit `reqOwed r` — nothing if the request carries `noreply` (or is `quit`), one fetch reply for
`get`/`gets`/`gat`/`gats`, one line otherwise; and whenever `Server.feed` answers a byte stream at all,
the stream parses into requests `reqs` and the answer is the concatenation, in order, of the units owed
for them. -/
theorem C01_model_server_is_framed :
    (∀ (s : AbsMap.St) (r : Req), reqKeysValid r →
      (reqOwed r).Matches (Server.render r (AbsMap.apply s r).2)) ∧
    (∀ (s s' : AbsMap.St) (data reply : Bytes), Server.feed s data = some (s', reply) →
      ∃ reqs, parseAll data.length data = some reqs ∧ ReqsMatch reqs reply) :=
  ⟨fun s r hv => ServerFraming.apply_framed s r hv,
   fun s _ data _ h => ServerFraming.feed_framed s data h⟩

example : reqKeysValid (.fetch .get none [[107]]) ∧ reqKeysValid (.delete [] true) := by
  refine ⟨?_, trivial⟩
  intro k hk
  simp only [List.mem_cons, List.not_mem_nil, or_false] at hk
  subst hk; decide

/-- end to end on an instance: the bytes `get k` sends, fed to the reference server holding `k ↦ x`, are
answered by `VALUE k 0 1\r\nx\r\nEND\r\n`, which is the fetch unit owed to that call -/
example :
    (Client.call {} false true (.get (.bytes [107])) {}).sent = some [103, 101, 116, 32, 107, 13, 10] ∧
    (Server.feed stateWithK [103, 101, 116, 32, 107, 13, 10]).map (·.2) = some getReply ∧
    (owed {} (.get (.bytes [107]))).Matches getReply := by
  refine ⟨feed_get.1, feed_get.2, ?_⟩
  rw [owed_get]; exact getReply_unit

/-! ## 8. C01 ∘ C02: for the reference server the framing assumption is a theorem -/

/-- C01 (client ∘ wire ∘ reference server): take any call other than a raw command, with the side conditions
under which C02 proves its round trip (`ServerAnswers.SideOK`: non-empty wire keys — the empty key is
C02's open finding —, non-negative `flags`/`delta`/`delay`).  If the call sends `payload` and the
reference server answers it at all, the answer is exactly the reply units `owed cfg c`: nothing for a
`noreply` call, one line per command otherwise, one fetch reply for the fetch calls. -/
theorem C01_reference_server_answers_what_is_owed (cfg : Cfg) (c : Call)
    (hside : ServerAnswers.SideOK cfg c) (payload : Bytes)
    (hsent : (Client.call cfg false true c {}).sent = some payload)
    (s s' : AbsMap.St) (reply : Bytes) (hfeed : Server.feed s payload = some (s', reply)) :
    (owed cfg c).Matches reply :=
  ServerAnswers.server_answers_call cfg c hside payload hsent s s' reply hfeed

example : ServerAnswers.SideOK {} (.get (.bytes [107])) := by
  intro w hw
  have : checkKey {} (.bytes [107]) = .ok [107] := by decide
  rw [this] at hw; cases hw; decide

/-- C01 (`Client.onServer` never leaves anything unread): under the same side conditions, the third
component of `Client.onServer` — "the socket is open and nothing is left in the pipe" — is true
whenever the call over the perfect connection leaves the socket open. -/
theorem C01_onServer_pipe_clean (cfg : Cfg) (c : Call) (hside : ServerAnswers.SideOK cfg c)
    (payload : Bytes) (hsent : (Client.call cfg false true c {}).sent = some payload)
    (s s' : AbsMap.St) (reply : Bytes) (hfeed : Server.feed s payload = some (s', reply))
    (hopen : (Client.call cfg false true c { evs := if reply = [] then [] else [.data reply] }).sockOpen = true) :
    (Client.onServer cfg s c).2.2 = true := by
  have hm := C01_reference_server_answers_what_is_owed cfg c hside payload hsent s s' reply hfeed
  have hu := C01_perfect_connection_clean cfg false true c {} reply hm hopen
  simp only [Client.onServer, hsent, hfeed]
  simp only [Bool.and_eq_true, decide_eq_true_eq]
  exact ⟨hopen, hu⟩

/-! ## 9. `PooledClient`: the pool bracket around every call

Model: `Pymc/Model/PooledCall.lean`.  A history is a list of `(call, script, checkout time, release time)`;
`runP ccfg pcfg ignoreExc {} 0 calls` runs it on a fresh `PooledClient` whose inner clients are configured by
`ccfg`, whose pool is configured by `pcfg` (`max_pool_size`, `pool_idle_timeout`) and whose own `ignore_exc` is
`ignoreExc`; it returns the final pool state and one observation per call.  `ob.step`, when the pool could hand out
a client, is the inner `Client.call` (with `ignore_exc=False`) on that client: `recv()` results tagged with the
number of the pooled call during which they arrive, exactly one step of `Framing.runTaggedFrom`
(`PooledCall.runTaggedFrom_single`).  Which inner client serves a call, whether it reconnects, and whether it goes back
to the pool or is destroyed is decided by the pool (idle expiry, `release`, `destroy`) — see C09. -/
section pooled
open PooledCall

/-- C01 (`PooledClient`, the step is the inner call): the step observed for pooled call `i` is `Client.call` for the
`i`-th call of the history on some inner client (socket state `so`, pipe `left`), with that call's `recv()`
results tagged `i`; the method returns what the inner call returned or raised — except that a read method of a
`PooledClient(ignore_exc=True)` returns the miss value when the inner call raised an `Exception` other than
`MemcacheIllegalInputError`. -/
theorem C01_pooled_step_is_client_call (ccfg : Cfg) (pcfg : Pooled.Cfg) (ignoreExc : Bool) (calls : List PCall) :
    ∀ (i : Nat) (ob : PObs), (runP ccfg pcfg ignoreExc {} 0 calls).2[i]? = some ob →
      ∃ c sc now fin, calls[i]? = some (c, sc, now, fin) ∧
        ∀ st, ob.step = some st →
          (∃ so left,
            st.idx = i ∧ st.avail = available so left (sc.evs.map fun e => (i, e)) ∧
            st.out = Client.call ccfg false so c { sc with evs := st.avail.map (·.2) }) ∧
          (ob.res = some st.out.res ∨
            ∃ e, st.out.res = .error e ∧ swallows ignoreExc c e = true ∧ ob.res = some (.ok (missRes c))) := by
  intro i ob hi
  obtain ⟨c, sc, now, fin, hc, h⟩ := runP_steps ccfg pcfg ignoreExc {} 0 calls i ob hi
  refine ⟨c, sc, now, fin, hc, fun st hst => ?_⟩
  obtain ⟨⟨so, left, hs⟩, hres, -⟩ := h st hst
  rw [Nat.zero_add] at hs
  subst hs
  exact ⟨⟨so, left, rfl, rfl, rfl⟩, hres⟩

/-- C01 (`PooledClient`, sequences): run any history on a fresh `PooledClient`.  If what arrives during each call is
well-framed for that call, then after every call (`calls.take n` = the first `n` calls) no client is checked out
and every inner client idle in the pool with an open socket has no byte unread in its pipe — whatever the pool
did in between (reuse, idle expiry, swallowed failures under `ignore_exc`, destroyed clients, `quit`). -/
theorem C01_pooled_sequence_clean (ccfg : Cfg) (pcfg : Pooled.Cfg) (ignoreExc : Bool) (calls : List PCall)
    (hwf : ∀ pc ∈ calls, WellFramed ccfg pc.1 pc.2.1.evs) (n : Nat) :
    (runP ccfg pcfg ignoreExc {} 0 (calls.take n)).1.used = [] ∧
    ∀ cl ∈ (runP ccfg pcfg ignoreExc {} 0 (calls.take n)).1.free, cl.sockOpen = true →
      joinData (cl.pipe.map (·.2)) = [] ∧ clean (cl.pipe.map (·.2)) := by
  refine ⟨used_nil_of_proj ?_, fun cl hcl hopen => ?_⟩
  · rw [(runP_proj ccfg pcfg ignoreExc {} 0 (calls.take n) coh_init).1]
    exact (Pooled.inv_runT _ Pooled.inv_init).used_nil
  · have h := (runP_clean ccfg pcfg ignoreExc {} 0 (calls.take n) pipesClean_init
      (fun pc hpc => hwf pc (List.mem_of_mem_take hpc))).1 cl hcl hopen
    have hd : Drained (cl.pipe.map (·.2)) := by
      rw [drained_iff_all_eintr]
      intro e he
      obtain ⟨te, hte, rfl⟩ := List.mem_map.mp he
      exact h te hte
    exact hd

/-- the five-call history `PooledCallExamples.demoCalls` satisfies the hypothesis, and its run shows the cases the
theorem covers: a swallowed failure (client 0 kept, reconnects), a propagated failure (client 0 destroyed, call 4 is
served by the new client 1), and in the end client 1 idle with connection 2 open and an empty pipe -/
example :
    (∀ pc ∈ PooledCallExamples.demoCalls, WellFramed {} pc.1 pc.2.1.evs) ∧
    PooledCallExamples.obsSummary (runP {} ⟨1, 0⟩ true {} 0 PooledCallExamples.demoCalls) =
      [(some 0, some 0, some 0, true, some true),
       (some 0, some 0, none, false, some true),
       (some 0, some 1, some 1, true, some true),
       (some 0, some 1, none, false, some false),
       (some 1, some 2, some 2, true, some true)] ∧
    PooledCallExamples.poolSummary (runP {} ⟨1, 0⟩ true {} 0 PooledCallExamples.demoCalls) =
      ([(1, some 2, true, 0)], [0, 1], 0) :=
  ⟨PooledCallExamples.demoCalls_wf, PooledCallExamples.demo_ignoreExc.1, PooledCallExamples.demo_ignoreExc.2.1⟩

/-- C01 (`PooledClient`, own bytes only): under the same hypothesis, everything pooled call number `i` can see on the
socket of the inner client that serves it — a fortiori everything it consumes — carries tag `i`, except possibly
interrupted `recv()` attempts (`eintr`), which carry no bytes (see `C01_own_bytes_only_eintr_counterexample`).  So
no `PooledClient` call ever reads a byte that answers an earlier call, on whichever pooled connection it runs. -/
theorem C01_pooled_own_bytes_only (ccfg : Cfg) (pcfg : Pooled.Cfg) (ignoreExc : Bool) (calls : List PCall)
    (hwf : ∀ pc ∈ calls, WellFramed ccfg pc.1 pc.2.1.evs) :
    ∀ (i : Nat) (ob : PObs), (runP ccfg pcfg ignoreExc {} 0 calls).2[i]? = some ob → ∀ st, ob.step = some st →
      st.idx = i ∧
      st.consumed ++ st.leftover = st.avail ∧
      st.leftover.map (·.2) = st.out.unread ∧
      (∀ te ∈ st.avail, te.1 = i ∨ te.2 = .eintr) ∧
      (∀ te ∈ st.consumed, te.1 = i ∨ te.2 = .eintr) := by
  intro i ob hi st hst
  obtain ⟨hidx, h⟩ := (runP_clean ccfg pcfg ignoreExc {} 0 calls pipesClean_init hwf).2 i ob hi st hst
  rw [Nat.zero_add] at hidx
  have hown : ∀ te ∈ st.avail, te.1 = i ∨ te.2 = .eintr := fun te hte => hidx ▸ h.own te hte
  refine ⟨hidx, h.split, h.left, hown, fun te hte => hown te ?_⟩
  rw [← h.split]; exact List.mem_append_left _ hte

/-- in the run of `PooledCallExamples.demoCalls` every call consumes exactly its own `recv()` results (per call: index,
tags of the consumed results, number of results left) -/
example :
    PooledCallExamples.stepSummary (runP {} ⟨1, 0⟩ true {} 0 PooledCallExamples.demoCalls) =
      [some (0, [0], 0), some (1, [1], 0), some (2, [2, 2], 0), some (3, [3], 0), some (4, [4], 0)] :=
  PooledCallExamples.demo_ignoreExc.2.2.1

/-- C01 (`PooledClient`, no foreign bytes): every `recv()` result that carries data and is consumed by pooled call
`i` carries tag `i`. -/
theorem C01_pooled_no_foreign_bytes (ccfg : Cfg) (pcfg : Pooled.Cfg) (ignoreExc : Bool) (calls : List PCall)
    (hwf : ∀ pc ∈ calls, WellFramed ccfg pc.1 pc.2.1.evs) :
    ∀ (i : Nat) (ob : PObs), (runP ccfg pcfg ignoreExc {} 0 calls).2[i]? = some ob → ∀ st, ob.step = some st →
      ∀ te ∈ st.consumed, ∀ b, te.2 = .data b → te.1 = i := by
  intro i ob hi st hst te hte b hb
  rcases (C01_pooled_own_bytes_only ccfg pcfg ignoreExc calls hwf i ob hi st hst).2.2.2.2 te hte with h | h
  · exact h
  · rw [hb] at h; cases h

/-- C01 (`PooledClient`, sequences, broken connections): if what arrives during each call is `FaultFramed` for that
call (the owed units, or a strict prefix of them cut at any byte by end-of-stream or an exception), then after
every call no byte is readable, before a fault, from the pipe of any idle pooled client with an open socket. -/
theorem C01_pooled_sequence_clean_faults (ccfg : Cfg) (pcfg : Pooled.Cfg) (ignoreExc : Bool) (calls : List PCall)
    (hff : ∀ pc ∈ calls, FaultFramed ccfg pc.1 pc.2.1.evs) (n : Nat) :
    ∀ cl ∈ (runP ccfg pcfg ignoreExc {} 0 (calls.take n)).1.free, cl.sockOpen = true →
      quiet (cl.pipe.map (·.2)) :=
  (runP_quiet ccfg pcfg ignoreExc {} 0 (calls.take n) pipesQuiet_init
    (fun pc hpc => hff pc (List.mem_of_mem_take hpc))).1

/-- C01 (`PooledClient`, own bytes only, broken connections): everything pooled call `i` can possibly receive — the
pipe content of its inner client up to the first fault — carries tag `i` or is an interrupted attempt without
bytes; and a call whose inner client keeps its socket has consumed only such events. -/
theorem C01_pooled_own_bytes_only_faults (ccfg : Cfg) (pcfg : Pooled.Cfg) (ignoreExc : Bool) (calls : List PCall)
    (hff : ∀ pc ∈ calls, FaultFramed ccfg pc.1 pc.2.1.evs) :
    ∀ (i : Nat) (ob : PObs), (runP ccfg pcfg ignoreExc {} 0 calls).2[i]? = some ob → ∀ st, ob.step = some st →
      st.idx = i ∧
      st.consumed ++ st.leftover = st.avail ∧
      st.leftover.map (·.2) = st.out.unread ∧
      (∀ te ∈ readable st.avail, te.1 = i ∨ te.2 = .eintr) ∧
      (st.out.sockOpen = true → ∀ te ∈ st.consumed, te.1 = i ∨ te.2 = .eintr) := by
  intro i ob hi st hst
  obtain ⟨hidx, h⟩ := (runP_quiet ccfg pcfg ignoreExc {} 0 calls pipesQuiet_init hff).2 i ob hi st hst
  rw [Nat.zero_add] at hidx
  have hown : ∀ te ∈ readable st.avail, te.1 = i ∨ te.2 = .eintr := fun te hte => hidx ▸ h.own te hte
  exact ⟨hidx, h.split, h.left, hown, fun ho te hte => hown te (h.taken ho te hte)⟩

/-- a history over a breaking connection (`PooledCallExamples.faultCalls`: a send failure swallowed under `ignore_exc`, a
reply cut by a timeout with junk arriving later, a `get_many([])` that touches nothing): every script is
`FaultFramed`; call 4, served by a new client on a new connection, never sees the junk of call 2 -/
example :
    (∀ pc ∈ PooledCallExamples.faultCalls, FaultFramed {} pc.1 pc.2.1.evs) ∧
    PooledCallExamples.stepSummary (runP {} ⟨1, 0⟩ true {} 0 PooledCallExamples.faultCalls) =
      [some (0, [0], 1), some (1, [], 1), some (2, [2, 2, 2], 0), some (3, [], 0), some (4, [4], 0)] ∧
    PooledCallExamples.poolSummary (runP {} ⟨1, 0⟩ true {} 0 PooledCallExamples.faultCalls) =
      ([(1, some 2, true, 0)], [0, 1], 0) :=
  ⟨PooledCallExamples.faultCalls_ff, PooledCallExamples.demo_faults.2.2.1, PooledCallExamples.demo_faults.2.1⟩

end pooled

/-! ## 10. `HashClient`: failover bookkeeping around every call

Model: `Pymc/Model/HashCall.lean`.  A history is a list of single-key calls `(routing key, operation, script, time)`
— the operations `HashClient` runs through `_run_cmd`: `set get gets gat gats add replace append prepend cas delete
incr decr touch`; `runH ccfg fcfg route (init servers t0) 0 calls` runs it on a fresh `HashClient` (no pooling)
over `servers` whose inner clients are configured by `ccfg`, whose failover parameters (`retry_attempts`,
`retry_timeout`, `dead_timeout`, `ignore_exc`) are `fcfg` and whose hasher is `route` (any function — no assumption
on it here); it returns the final state and one observation per call.  `ob.step`, when the failover code invoked a
client object, is the inner `Client.call` (with `ignore_exc=False`) on that object: `recv()` results tagged with the
number of the `HashClient` call during which they arrive, exactly one step of `Framing.runTaggedFrom`.  Which
server's client object serves a call, whether it is contacted at all, and when it is replaced by a fresh object
(`add_server` when a dead server is brought back) is decided by the failover code — see C13. -/
section hash
open HashCall

variable {Key : Type}

/-- C01 (`HashClient`, the step is the inner call): the step observed for call `i` is `Client.call` for the `i`-th
operation of the history on some client object (socket state `so`, pipe `left`), with that call's `recv()` results
tagged `i`; and the method's result is the inner result, or `default_val` / the inner exception as `ignore_exc` and
the exception class decide (`HashCall.ResOfStep`). -/
theorem C01_hash_step_is_client_call (ccfg : Cfg) (fcfg : Failover.Cfg) (route : List Nat → Key → Option Nat)
    (servers : List Nat) (t0 : Nat) (calls : List (HCall Key)) :
    ∀ (i : Nat) (ob : HObs), (runH ccfg fcfg route (init servers t0) 0 calls).2[i]? = some ob →
      ∃ hc, calls[i]? = some hc ∧
        ∀ st, ob.step = some st →
          (∃ so left,
            st.idx = i ∧ st.avail = available so left (hc.sc.evs.map fun e => (i, e)) ∧
            st.out = Client.call ccfg false so hc.call { hc.sc with evs := st.avail.map (·.2) }) ∧
          ResOfStep fcfg ob.res st := by
  intro i ob hi
  obtain ⟨hc, hcall, h⟩ := runH_steps ccfg fcfg route (init servers t0) 0 calls i ob hi
  refine ⟨hc, hcall, fun st hst => ?_⟩
  obtain ⟨⟨so, left, hs⟩, hres⟩ := h st hst
  rw [Nat.zero_add] at hs
  subst hs
  exact ⟨⟨so, left, rfl, rfl, rfl⟩, hres⟩

/-- C01 (`HashClient`, sequences): run any history of single-key calls on a fresh `HashClient`.  If what arrives during
each call is well-framed for that call, then after every call (`calls.take n` = the first `n` calls) every client
object registered in `self.clients` that has an open socket has no byte unread in its pipe — whatever the failover
code did in between (servers marked, retried, evicted, keys rerouted, servers brought back with a fresh client
object, exceptions swallowed under `ignore_exc`). -/
theorem C01_hash_sequence_clean (ccfg : Cfg) (fcfg : Failover.Cfg) (route : List Nat → Key → Option Nat)
    (servers : List Nat) (t0 : Nat) (calls : List (HCall Key))
    (hwf : ∀ hc ∈ calls, WellFramed ccfg hc.call hc.sc.evs) (n : Nat) :
    ∀ x ∈ (runH ccfg fcfg route (init servers t0) 0 (calls.take n)).1.clients, x.2.sockOpen = true →
      joinData (x.2.pipe.map (·.2)) = [] ∧ clean (x.2.pipe.map (·.2)) := by
  intro x hx hopen
  have h := (runH_clean ccfg fcfg route (init servers t0) 0 (calls.take n) (pipesClean_init servers t0)
    (fun hc h => hwf hc (List.mem_of_mem_take h))).1 x hx hopen
  have hd : Drained (x.2.pipe.map (·.2)) := by
    rw [drained_iff_all_eintr]
    intro e he
    obtain ⟨te, hte, rfl⟩ := List.mem_map.mp he
    exact h te hte
  exact hd

/-- the six-call history `HashCallExamples.demoCalls` satisfies the hypothesis, and its run shows the cases the theorem
covers: server 0 serves the key, then fails (marked, retried, evicted with a final probe), the key is rerouted to server
1, and server 0 comes back with a fresh client object (number 2) on a new connection; in the end both registered
client objects have an open socket and an empty pipe -/
example :
    (∀ hc ∈ HashCallExamples.demoCalls, WellFramed {} hc.call hc.sc.evs) ∧
    HashCallExamples.obsSummary (runH {} HashCallExamples.cfgStrict Failover.prefRoute (init [0, 1] 0) 0 HashCallExamples.demoCalls) =
      [(.value (.bytes [120]), some 0, some 0, [0]),
       (.raised 0 (.sock 32), some 0, some 0, []),
       (.raised 0 (.sock 61), some 0, some 0, []),
       (.raised 0 (.sock 61), some 0, some 0, []),
       (.value .dflt, some 1, some 1, [4]),
       (.value (.bytes [120]), some 0, some 2, [5])] ∧
    HashCallExamples.stateSummary (runH {} HashCallExamples.cfgStrict Failover.prefRoute (init [0, 1] 0) 0 HashCallExamples.demoCalls) =
      ({ nodes := [1, 0], failed := [], dead := [], lastDeadCheck := 12 }, [(0, 2, true, 0), (1, 1, true, 0)]) :=
  ⟨HashCallExamples.demoCalls_wf, HashCallExamples.demo_strict.1, HashCallExamples.demo_strict.2.1⟩

/-- C01 (`HashClient`, own bytes only): under the same hypothesis, everything `HashClient` call number `i` can see on the
socket of the client object it invokes — a fortiori everything it consumes — carries tag `i`, except possibly
interrupted `recv()` attempts (`eintr`), which carry no bytes (see `C01_own_bytes_only_eintr_counterexample`).  So no
`HashClient` call ever reads a byte that answers an earlier call, whichever server it is routed to. -/
theorem C01_hash_own_bytes_only (ccfg : Cfg) (fcfg : Failover.Cfg) (route : List Nat → Key → Option Nat)
    (servers : List Nat) (t0 : Nat) (calls : List (HCall Key))
    (hwf : ∀ hc ∈ calls, WellFramed ccfg hc.call hc.sc.evs) :
    ∀ (i : Nat) (ob : HObs), (runH ccfg fcfg route (init servers t0) 0 calls).2[i]? = some ob →
      ∀ st, ob.step = some st →
        st.idx = i ∧
        st.consumed ++ st.leftover = st.avail ∧
        st.leftover.map (·.2) = st.out.unread ∧
        (∀ te ∈ st.avail, te.1 = i ∨ te.2 = .eintr) ∧
        (∀ te ∈ st.consumed, te.1 = i ∨ te.2 = .eintr) := by
  intro i ob hi st hst
  obtain ⟨hidx, h⟩ := (runH_clean ccfg fcfg route (init servers t0) 0 calls (pipesClean_init servers t0) hwf).2 i ob hi st hst
  rw [Nat.zero_add] at hidx
  have hown : ∀ te ∈ st.avail, te.1 = i ∨ te.2 = .eintr := fun te hte => hidx ▸ h.own te hte
  refine ⟨hidx, h.split, h.left, hown, fun te hte => hown te ?_⟩
  rw [← h.split]; exact List.mem_append_left _ hte

/-- C01 (`HashClient`, no foreign bytes): every `recv()` result that carries data and is consumed by `HashClient` call
`i` carries tag `i`. -/
theorem C01_hash_no_foreign_bytes (ccfg : Cfg) (fcfg : Failover.Cfg) (route : List Nat → Key → Option Nat)
    (servers : List Nat) (t0 : Nat) (calls : List (HCall Key))
    (hwf : ∀ hc ∈ calls, WellFramed ccfg hc.call hc.sc.evs) :
    ∀ (i : Nat) (ob : HObs), (runH ccfg fcfg route (init servers t0) 0 calls).2[i]? = some ob →
      ∀ st, ob.step = some st → ∀ te ∈ st.consumed, ∀ b, te.2 = .data b → te.1 = i := by
  intro i ob hi st hst te hte b hb
  rcases (C01_hash_own_bytes_only ccfg fcfg route servers t0 calls hwf i ob hi st hst).2.2.2.2 te hte with h | h
  · exact h
  · rw [hb] at h; cases h

/-- C01 (`HashClient`, sequences, broken connections): if what arrives during each call is `FaultFramed` for that call
(the owed units, or a strict prefix of them cut at any byte by end-of-stream or an exception), then after every call
no byte is readable, before a fault, from the pipe of any registered client object with an open socket. -/
theorem C01_hash_sequence_clean_faults (ccfg : Cfg) (fcfg : Failover.Cfg) (route : List Nat → Key → Option Nat)
    (servers : List Nat) (t0 : Nat) (calls : List (HCall Key))
    (hff : ∀ hc ∈ calls, FaultFramed ccfg hc.call hc.sc.evs) (n : Nat) :
    ∀ x ∈ (runH ccfg fcfg route (init servers t0) 0 (calls.take n)).1.clients, x.2.sockOpen = true →
      quiet (x.2.pipe.map (·.2)) :=
  (runH_quiet ccfg fcfg route (init servers t0) 0 (calls.take n) (pipesQuiet_init servers t0)
    (fun hc h => hff hc (List.mem_of_mem_take h))).1

/-- C01 (`HashClient`, own bytes only, broken connections): everything `HashClient` call `i` can possibly receive — the
pipe content of the client object it invokes, up to the first fault — carries tag `i` or is an interrupted attempt
without bytes; and a call whose client object keeps its socket has consumed only such events. -/
theorem C01_hash_own_bytes_only_faults (ccfg : Cfg) (fcfg : Failover.Cfg) (route : List Nat → Key → Option Nat)
    (servers : List Nat) (t0 : Nat) (calls : List (HCall Key))
    (hff : ∀ hc ∈ calls, FaultFramed ccfg hc.call hc.sc.evs) :
    ∀ (i : Nat) (ob : HObs), (runH ccfg fcfg route (init servers t0) 0 calls).2[i]? = some ob →
      ∀ st, ob.step = some st →
        st.idx = i ∧
        st.consumed ++ st.leftover = st.avail ∧
        st.leftover.map (·.2) = st.out.unread ∧
        (∀ te ∈ readable st.avail, te.1 = i ∨ te.2 = .eintr) ∧
        (st.out.sockOpen = true → ∀ te ∈ st.consumed, te.1 = i ∨ te.2 = .eintr) := by
  intro i ob hi st hst
  obtain ⟨hidx, h⟩ := (runH_quiet ccfg fcfg route (init servers t0) 0 calls (pipesQuiet_init servers t0) hff).2 i ob hi st hst
  rw [Nat.zero_add] at hidx
  have hown : ∀ te ∈ readable st.avail, te.1 = i ∨ te.2 = .eintr := fun te hte => hidx ▸ h.own te hte
  exact ⟨hidx, h.split, h.left, hown, fun ho te hte => hown te (h.taken ho te hte)⟩

/-- a history over a breaking connection (`HashCallExamples.faultCalls`, `ignore_exc=True`): a reply cut by a timeout with
junk arriving later (the call also takes the interrupted `recv()` left by call 0: tags `[0, 1, 1, 1]`), a
`BaseException` while connecting (escapes although `ignore_exc` is set, marks nothing), a half line followed by
end-of-stream (`MemcacheUnexpectedCloseError`: swallowed, marks nothing), refused connections (marked, evicted), an
illegal key (rejected before any bookkeeping); every script is `FaultFramed`; call 7, served by the fresh client
object 2 of the revived server 0, never sees the junk of call 1 -/
example :
    (∀ hc ∈ HashCallExamples.faultCalls, FaultFramed {} hc.call hc.sc.evs) ∧
    HashCallExamples.obsSummary (runH {} HashCallExamples.cfgIgnore Failover.prefRoute (init [0, 1] 0) 0 HashCallExamples.faultCalls) =
      [(.value (.bytes [120]), some 0, some 0, [0]),
       (.default, some 0, some 0, [0, 1, 1, 1]),
       (.raised 0 (.sock 130), some 0, some 0, []),
       (.default, some 0, some 0, [3, 3]),
       (.default, some 0, some 0, []),
       (.default, some 0, some 0, []),
       (.illegalKey, none, none, []),
       (.value (.bytes [120]), some 0, some 2, [7])] ∧
    HashCallExamples.stateSummary (runH {} HashCallExamples.cfgIgnore Failover.prefRoute (init [0, 1] 0) 0 HashCallExamples.faultCalls) =
      ({ nodes := [1, 0], failed := [], dead := [], lastDeadCheck := 20 }, [(0, 2, true, 0), (1, 1, false, 0)]) :=
  ⟨HashCallExamples.faultCalls_ff, HashCallExamples.demo_faults.1, HashCallExamples.demo_faults.2.1⟩

end hash

/-! ## 11. `HashClient`: `get_many` / `gets_many`, `set_many`, `delete_many` mixed with the single-key operations

Model: `Pymc/Model/HashCallMany.lean`.  A public call (`MCall`) is a single-key operation as in section 10, a
`get_many` / `gets_many` (every key with its routing key, one script per server: `scripts s` = what the connection
of server `s` does during the call), a `set_many` (every item with its routing key, the `expire` / `noreply` / `flags`
handed through, and `scripts s b` = what the connection of server `s` does when the batch `b` is sent to it — with
`noreply=False` the server owes one line per item of the batch it receives, so its reply is a function of the batch), or a
`delete_many` (in the code a loop of `_run_cmd("delete", …)`: every key with its routing key and its own script, since
one server may be contacted several times; all inner calls carry the tag of the public call).  `runM` runs a history;
the observation of a call lists its batches in order, each with the inner `Client.call` (`.getMany batch` /
`.setMany batch …` / `.delete key …`) made on the client object registered for that server (`ob.steps` = the inner
calls of the public call, all tagged with its number).  The framing hypothesis (`MOp.WellFramed`) is about the scripts:
for `get_many` every server's script delivers exactly one fetch reply — which keys are sent to which server is decided by
the failover code at run time, and a batch of legal keys is owed one fetch reply whatever it holds
(`HashCall.owed_batchCall`); for `set_many` the script of every server is well-framed for whatever batch it is sent; for
`delete_many` the script of every key is well-framed for its `delete`.  The `ignore_exc` swallow inside `_set_many`
(known finding `C13-setmany-ignoreexc`) is modelled as it is; it does not affect ownership of bytes. -/
section hashmany
open HashCall

variable {RK : Type}

/-- C01 (`HashClient` with `get_many`, sequences): run any history of single-key and `get_many` / `gets_many` calls on a
fresh `HashClient`.  If what arrives on every server's connection during each call is well-framed, then after every
call every client object registered in `self.clients` that has an open socket has no byte unread in its pipe. -/
theorem C01_hash_many_sequence_clean (ccfg : Cfg) (fcfg : Failover.Cfg) (route : List Nat → RK → Option Nat)
    (servers : List Nat) (t0 : Nat) (calls : List (MCall RK))
    (hwf : ∀ mc ∈ calls, mc.op.WellFramed ccfg) (n : Nat) :
    ∀ x ∈ (runM ccfg fcfg route (init servers t0) 0 (calls.take n)).1.clients, x.2.sockOpen = true →
      joinData (x.2.pipe.map (·.2)) = [] ∧ clean (x.2.pipe.map (·.2)) := by
  intro x hx hopen
  have h := (runM_clean ccfg fcfg route (init servers t0) 0 (calls.take n) (pipesClean_init servers t0)
    (fun mc h => hwf mc (List.mem_of_mem_take h))).1 x hx hopen
  have hd : Drained (x.2.pipe.map (·.2)) := by
    rw [drained_iff_all_eintr]
    intro e he
    obtain ⟨te, hte, rfl⟩ := List.mem_map.mp he
    exact h te hte
  exact hd

/-- C01 (`HashClient` with `get_many`, own bytes only): under the same hypothesis, for every inner call made during public
call number `i` — one per contacted server for `get_many` — everything it can see on the socket of the client object
it runs on, a fortiori everything it consumes, carries tag `i`, except possibly interrupted `recv()` attempts. -/
theorem C01_hash_many_own_bytes_only (ccfg : Cfg) (fcfg : Failover.Cfg) (route : List Nat → RK → Option Nat)
    (servers : List Nat) (t0 : Nat) (calls : List (MCall RK))
    (hwf : ∀ mc ∈ calls, mc.op.WellFramed ccfg) :
    ∀ (i : Nat) (ob : MObs), (runM ccfg fcfg route (init servers t0) 0 calls).2[i]? = some ob →
      ∀ st ∈ ob.steps,
        st.idx = i ∧
        st.consumed ++ st.leftover = st.avail ∧
        st.leftover.map (·.2) = st.out.unread ∧
        (∀ te ∈ st.avail, te.1 = i ∨ te.2 = .eintr) ∧
        (∀ te ∈ st.consumed, te.1 = i ∨ te.2 = .eintr) := by
  intro i ob hi st hst
  obtain ⟨hidx, h⟩ := (runM_clean ccfg fcfg route (init servers t0) 0 calls (pipesClean_init servers t0) hwf).2 i ob hi st hst
  rw [Nat.zero_add] at hidx
  have hown : ∀ te ∈ st.avail, te.1 = i ∨ te.2 = .eintr := fun te hte => hidx ▸ h.own te hte
  refine ⟨hidx, h.split, h.left, hown, fun te hte => hown te ?_⟩
  rw [← h.split]; exact List.mem_append_left _ hte

/-- the six-call history `HashCallExamples.manyCalls` (`ignore_exc=True`) satisfies the hypothesis; its run shows a
`get_many` split over two servers, a failing batch swallowed while the other batch is still sent, eviction with the
final probe inside a `get_many`, both keys rerouted into one batch, and the revived server served through a fresh
client object; every inner call consumes only `recv()` results of its own public call -/
example :
    (∀ mc ∈ HashCallExamples.manyCalls, mc.op.WellFramed {}) ∧
    HashCallExamples.manySummary (runM {} HashCallExamples.cfgIgnore Failover.prefRoute (init [0, 1] 0) 0 HashCallExamples.manyCalls) =
      [(.value (.dict [(.bytes [107], [120])]), [(0, some 0, true), (1, some 1, true)]),
       (.value (.dict []), [(0, some 0, false), (1, some 1, true)]),
       (.default, [(0, some 0, false)]),
       (.value (.dict []), [(0, some 0, false), (1, some 1, true)]),
       (.value (.dict []), [(1, some 1, true)]),
       (.value (.dict [(.bytes [107], [120])]), [(0, some 2, true), (1, some 1, true)])] ∧
    HashCallExamples.manyTags (runM {} HashCallExamples.cfgIgnore Failover.prefRoute (init [0, 1] 0) 0 HashCallExamples.manyCalls) =
      [[[0], [0]], [[], [1]], [[]], [[], [3]], [[4]], [[5], [5]]] ∧
    HashCallExamples.manyState (runM {} HashCallExamples.cfgIgnore Failover.prefRoute (init [0, 1] 0) 0 HashCallExamples.manyCalls) =
      ({ nodes := [1, 0], failed := [], dead := [], lastDeadCheck := 12 }, [(0, 2, true, 0), (1, 1, true, 0)]) :=
  ⟨HashCallExamples.manyCalls_wf, HashCallExamples.demo_many.1, HashCallExamples.demo_many.2.1, HashCallExamples.demo_many.2.2⟩

/-- the seven-call history `HashCallExamples.setCalls` (`ignore_exc=False`) satisfies the hypothesis (a server that
answers `STORED` once per item of the batch it receives, `DELETED` to every `delete`); its run shows a `set_many` split
over two servers, the failing batch of server 0 ending the call before the batch of server 1 is sent, the keys of a
batch that is skipped inside the retry window reported as failed, a `delete_many` ended by its first `delete`, eviction
inside a `set_many`, both items rerouted into one batch (two reply lines consumed by one inner call), and a `delete_many`
over two servers after the revival; every inner call consumes only `recv()` results of its own public call -/
example :
    (∀ mc ∈ HashCallExamples.setCalls, mc.op.WellFramed {}) ∧
    HashCallExamples.manySummary (runM {} HashCallExamples.cfgStrict Failover.prefRoute (init [0, 1] 0) 0 HashCallExamples.setCalls) =
      [(.value (.keys []), [(0, some 0, true), (1, some 1, true)]),
       (.raised 0 (.sock 32), [(0, some 0, false)]),
       (.value (.keys [.bytes [107]]), [(0, none, false), (1, some 1, true)]),
       (.raised 0 (.sock 61), [(0, some 0, false)]),
       (.raised 0 (.sock 61), [(0, some 0, false)]),
       (.value (.keys []), [(1, some 1, true)]),
       (.value (.bool true), [(0, some 2, true), (1, some 1, true)])] ∧
    HashCallExamples.manyTags (runM {} HashCallExamples.cfgStrict Failover.prefRoute (init [0, 1] 0) 0 HashCallExamples.setCalls) =
      [[[0], [0]], [[]], [[2]], [[]], [[]], [[5, 5]], [[6], [6]]] ∧
    HashCallExamples.manyState (runM {} HashCallExamples.cfgStrict Failover.prefRoute (init [0, 1] 0) 0 HashCallExamples.setCalls) =
      ({ nodes := [1, 0], failed := [], dead := [], lastDeadCheck := 12 }, [(0, 2, true, 0), (1, 1, true, 0)]) :=
  ⟨HashCallExamples.setCalls_wf, HashCallExamples.demo_set.1, HashCallExamples.demo_set.2.1, HashCallExamples.demo_set.2.2⟩

/-- C01 (`HashClient` with `get_many`, sequences, broken connections): if what arrives on every server's connection
during each call is fault-framed (`MOp.FaultFramed`: the owed reply, or a strict prefix of it cut at any byte by
end-of-stream or an exception), then after every call no byte is readable, before a fault, from the pipe of any
registered client object with an open socket. -/
theorem C01_hash_many_sequence_clean_faults (ccfg : Cfg) (fcfg : Failover.Cfg) (route : List Nat → RK → Option Nat)
    (servers : List Nat) (t0 : Nat) (calls : List (MCall RK))
    (hff : ∀ mc ∈ calls, mc.op.FaultFramed ccfg) (n : Nat) :
    ∀ x ∈ (runM ccfg fcfg route (init servers t0) 0 (calls.take n)).1.clients, x.2.sockOpen = true →
      quiet (x.2.pipe.map (·.2)) :=
  (runM_quiet ccfg fcfg route (init servers t0) 0 (calls.take n) (pipesQuiet_init servers t0)
    (fun mc h => hff mc (List.mem_of_mem_take h))).1

/-- C01 (`HashClient` with `get_many`, own bytes only, broken connections): everything an inner call of public call `i`
can possibly receive — the pipe content of its client object up to the first fault — carries tag `i` or is an
interrupted attempt without bytes; and an inner call whose client object keeps its socket has consumed only such
events. -/
theorem C01_hash_many_own_bytes_only_faults (ccfg : Cfg) (fcfg : Failover.Cfg) (route : List Nat → RK → Option Nat)
    (servers : List Nat) (t0 : Nat) (calls : List (MCall RK))
    (hff : ∀ mc ∈ calls, mc.op.FaultFramed ccfg) :
    ∀ (i : Nat) (ob : MObs), (runM ccfg fcfg route (init servers t0) 0 calls).2[i]? = some ob →
      ∀ st ∈ ob.steps,
        st.idx = i ∧
        st.consumed ++ st.leftover = st.avail ∧
        st.leftover.map (·.2) = st.out.unread ∧
        (∀ te ∈ readable st.avail, te.1 = i ∨ te.2 = .eintr) ∧
        (st.out.sockOpen = true → ∀ te ∈ st.consumed, te.1 = i ∨ te.2 = .eintr) := by
  intro i ob hi st hst
  obtain ⟨hidx, h⟩ := (runM_quiet ccfg fcfg route (init servers t0) 0 calls (pipesQuiet_init servers t0) hff).2 i ob hi st hst
  rw [Nat.zero_add] at hidx
  have hown : ∀ te ∈ readable st.avail, te.1 = i ∨ te.2 = .eintr := fun te hte => hidx ▸ h.own te hte
  exact ⟨hidx, h.split, h.left, hown, fun ho te hte => hown te (h.taken ho te hte)⟩

/-- the fault hypothesis is satisfiable with `set_many`: every well-framed history is fault-framed (so
`HashCallExamples.setCalls` and `HashCallExamples.manyCalls` are), and in `HashCallExamples.cutCalls` the connection of
server 1 breaks after `STOR` in the middle of a `set_many` reply (`MemcacheUnexpectedCloseError` escapes, the inner client
closes its socket; the next `get_many` is served over a new connection and sees nothing of the cut reply) -/
example :
    (∀ mc ∈ HashCallExamples.setCalls, mc.op.FaultFramed {}) ∧
    (∀ mc ∈ HashCallExamples.cutCalls, mc.op.FaultFramed {}) ∧
    HashCallExamples.manySummary (runM {} HashCallExamples.cfgStrict Failover.prefRoute (init [0, 1] 0) 0 HashCallExamples.cutCalls) =
      [(.raised 1 .unexpectedClose, [(0, some 0, true), (1, some 1, false)]),
       (.value (.dict [(.bytes [107], [120])]), [(0, some 0, true), (1, some 1, true)])] ∧
    HashCallExamples.manyTags (runM {} HashCallExamples.cfgStrict Failover.prefRoute (init [0, 1] 0) 0 HashCallExamples.cutCalls) =
      [[[0], [0, 0]], [[1], [1]]] ∧
    HashCallExamples.manyState (runM {} HashCallExamples.cfgStrict Failover.prefRoute (init [0, 1] 0) 0 HashCallExamples.cutCalls) =
      ({ nodes := [0, 1], failed := [], dead := [], lastDeadCheck := 0 }, [(0, 0, true, 0), (1, 1, true, 0)]) :=
  ⟨fun mc h => HashCallExamples.faultFramed_of_wellFramed_M {} mc.op (HashCallExamples.setCalls_wf mc h),
    HashCallExamples.cutCalls_ff, HashCallExamples.demo_cut.1, HashCallExamples.demo_cut.2.1, HashCallExamples.demo_cut.2.2⟩

/-- C01 (`HashClient`, sections 10 and 11 agree): on a history of single-key calls the general run `runM` is the run
`runH` of section 10 — same final state, same results, same inner calls. -/
theorem C01_hash_many_extends_single (ccfg : Cfg) (fcfg : Failover.Cfg) (route : List Nat → RK → Option Nat)
    (servers : List Nat) (t0 : Nat) (calls : List (HCall RK)) :
    (runM ccfg fcfg route (init servers t0) 0 (calls.map HCall.toM)).1 = (runH ccfg fcfg route (init servers t0) 0 calls).1 ∧
    (runM ccfg fcfg route (init servers t0) 0 (calls.map HCall.toM)).2.map (·.res) =
      (runH ccfg fcfg route (init servers t0) 0 calls).2.map (·.res) ∧
    (runM ccfg fcfg route (init servers t0) 0 (calls.map HCall.toM)).2.map (·.steps) =
      (runH ccfg fcfg route (init servers t0) 0 calls).2.map (fun ob => ob.step.toList) :=
  runM_cmds ccfg fcfg route (init servers t0) 0 calls

end hashmany

/-! ## 12. `HashClient(use_pooling=True)`: failover bookkeeping around the pool bracket around every call

Model: `Pymc/Model/HashPooledCall.lean` (= `Pymc/Model/HashInner.lean`, the failover code of section 10 with the object
registered in `self.clients` as a parameter, instantiated with the `PooledClient` of section 9).  A history is a list of
single-key calls `(routing key, operation, script, time of the call, time at which the pool releases the inner client)`;
`runHP ccfg pcfg fcfg route (init pcfg servers t0) 0 calls` runs it on a fresh `HashClient(use_pooling=True)` over
`servers`: inner clients configured by `ccfg`, every `PooledClient` with `max_pool_size` / `pool_idle_timeout` = `pcfg`
(and without `ignore_exc`: the one that swallows is the `HashClient`), failover parameters `fcfg`, hasher `route` (any
function).  `pools st` lists, per server, the number of the `PooledClient` registered for it and its pool.  `stepOf ob`,
when the failover code invoked a `PooledClient` whose pool handed out an inner client, is the inner `Client.call` (with
`ignore_exc=False`) on that client: `recv()` results tagged with the number of the `HashClient` call during which they
arrive, exactly one step of `Framing.runTaggedFrom`.  Which server is contacted and when its `PooledClient` is replaced by
a fresh one with an empty pool (`add_server` when a dead server is brought back — the old pool is dropped as it is) is
decided by the failover code (C13); which inner client serves, whether it reconnects, and whether it goes back to the
pool or is destroyed is decided by the pool (C09). -/
section hashpooled
open HashPooledCall

variable {Key : Type}

/-- C01 (`HashClient(use_pooling=True)`, the step is the inner call): the step observed for call `i` is `Client.call` for
the `i`-th operation of the history on some inner client (socket state `so`, pipe `left`), with that call's `recv()`
results tagged `i`; the `PooledClient` method returns or raises what it returned or raised (`po.res`; the pooled wrapper
swallows nothing); and the `HashClient` method's result is that result, or `default_val` / the exception as `ignore_exc`
and the exception class decide (`HashInner.ResOfInner`). -/
theorem C01_hashpooled_step_is_client_call (ccfg : Cfg) (pcfg : Pooled.Cfg) (fcfg : Failover.Cfg)
    (route : List Nat → Key → Option Nat) (servers : List Nat) (t0 : Nat) (calls : List (HPCall Key)) :
    ∀ (i : Nat) (ob : HPObs pcfg), (runHP ccfg pcfg fcfg route (init pcfg servers t0) 0 calls).2[i]? = some ob →
      ∃ hc, calls[i]? = some hc ∧
        ∀ st, stepOf ob = some st →
          (∃ so left,
            st.idx = i ∧ st.avail = available so left (hc.sc.evs.map fun e => (i, e)) ∧
            st.out = Client.call ccfg false so hc.call { hc.sc with evs := st.avail.map (·.2) }) ∧
          ∃ po : PooledCall.PObs, ob.inner = some po ∧ po.step = some st ∧ po.res = some st.out.res ∧
            HashInner.ResOfInner (I := pooled pcfg) fcfg ob.res po := by
  intro i ob hi
  obtain ⟨hc, hcall, h⟩ := runHP_steps ccfg fcfg route (init pcfg servers t0) 0 calls i ob hi
  refine ⟨hc, hcall, fun st hst => ?_⟩
  obtain ⟨⟨so, left, hs⟩, hres⟩ := h st hst
  rw [Nat.zero_add] at hs
  subst hs
  exact ⟨⟨so, left, rfl, rfl, rfl⟩, hres⟩

/-- C01 (`HashClient(use_pooling=True)`, sequences): run any history of single-key calls on a fresh pooling `HashClient`.
If what arrives during each call is well-framed for that call, then after every call (`calls.take n` = the first `n`
calls), in the pool of every `PooledClient` registered in `self.clients`, no inner client is checked out and every idle
inner client with an open socket has no byte unread in its pipe — whatever the failover code did in between (servers
marked, retried, evicted, keys rerouted, servers brought back with a fresh `PooledClient`, exceptions swallowed under
`ignore_exc`) and whatever the pools did (reuse, idle expiry, inner clients destroyed by a failing contact). -/
theorem C01_hashpooled_sequence_clean (ccfg : Cfg) (pcfg : Pooled.Cfg) (fcfg : Failover.Cfg)
    (route : List Nat → Key → Option Nat) (servers : List Nat) (t0 : Nat) (calls : List (HPCall Key))
    (hwf : ∀ hc ∈ calls, WellFramed ccfg hc.call hc.sc.evs) (n : Nat) :
    ∀ p ∈ pools (runHP ccfg pcfg fcfg route (init pcfg servers t0) 0 (calls.take n)).1,
      p.2.2.used = [] ∧
      ∀ cl ∈ p.2.2.free, cl.sockOpen = true → joinData (cl.pipe.map (·.2)) = [] ∧ clean (cl.pipe.map (·.2)) := by
  intro p hp
  obtain ⟨x, hx, hpx⟩ := mem_pools hp
  rw [hpx]
  refine ⟨PooledCall.used_nil_of_proj ?_, fun cl hcl hopen => ?_⟩
  · exact ((runHP_poolsOK ccfg fcfg route (init pcfg servers t0) 0 (calls.take n) (poolsOK_init servers t0)).1 x hx).2.used_nil
  · have h := (runHP_clean ccfg fcfg route (init pcfg servers t0) 0 (calls.take n) (pipesClean_init servers t0)
      (fun hc h => hwf hc (List.mem_of_mem_take h))).1 x hx cl hcl hopen
    have hd : Drained (cl.pipe.map (·.2)) := by
      rw [drained_iff_all_eintr]
      intro e he
      obtain ⟨te, hte, rfl⟩ := List.mem_map.mp he
      exact h te hte
    exact hd

/-- the six-call history `HashPooledCallExamples.demoCalls` (`HashCallExamples.demoCalls` with pooling, `max_pool_size=1`)
satisfies the hypothesis, and its run shows the cases the theorem covers: server 0 serves the key (`PooledClient` 0, inner
client 0, connection 0), then fails — the failing contact destroys the inner client, the server is marked, retried
(inner clients 1 and 2 of the same pool, refused), evicted with a final probe —, the key is rerouted to server 1
(`PooledClient` 1), and server 0 comes back with a fresh `PooledClient` (number 2) whose pool creates its own inner client
0 on its own connection 0; in the end both registered pools hold one idle inner client with an open socket and an
empty pipe (per pool: server, `PooledClient`, idle clients as (id, connection, open, events left), closed connections,
checked out) -/
example :
    (∀ hc ∈ HashPooledCallExamples.demoCalls, WellFramed {} hc.call hc.sc.evs) ∧
    HashPooledCallExamples.obsSummary (runHP {} HashPooledCallExamples.pool1 HashCallExamples.cfgStrict Failover.prefRoute
        (init HashPooledCallExamples.pool1 [0, 1] 0) 0 HashPooledCallExamples.demoCalls) =
      [⟨.value (.bytes [120]), some 0, some 0, some 0, some 0, [0]⟩,
       ⟨.raised 0 (.inner (.sock 32)), some 0, some 0, some 0, some 0, []⟩,
       ⟨.raised 0 (.inner (.sock 61)), some 0, some 0, some 1, none, []⟩,
       ⟨.raised 0 (.inner (.sock 61)), some 0, some 0, some 2, none, []⟩,
       ⟨.value .dflt, some 1, some 1, some 0, some 0, [4]⟩,
       ⟨.value (.bytes [120]), some 0, some 2, some 0, some 0, [5]⟩] ∧
    HashPooledCallExamples.stateSummary (runHP {} HashPooledCallExamples.pool1 HashCallExamples.cfgStrict Failover.prefRoute
        (init HashPooledCallExamples.pool1 [0, 1] 0) 0 HashPooledCallExamples.demoCalls) =
      ({ nodes := [1, 0], failed := [], dead := [], lastDeadCheck := 12 },
       [⟨0, 2, [(0, some 0, true, 0)], [], 0⟩, ⟨1, 1, [(0, some 0, true, 0)], [], 0⟩]) :=
  ⟨HashPooledCallExamples.demoCalls_wf, HashPooledCallExamples.demo_strict.1, HashPooledCallExamples.demo_strict.2.1⟩

/-- C01 (`HashClient(use_pooling=True)`, own bytes only): under the same hypothesis, everything `HashClient` call number
`i` can see on the socket of the inner client that serves it — a fortiori everything it consumes — carries tag `i`,
except possibly interrupted `recv()` attempts (`eintr`), which carry no bytes (see
`C01_own_bytes_only_eintr_counterexample`).  So no call of a pooling `HashClient` ever reads a byte that answers an
earlier call, whichever server it is routed to and whichever pooled connection it runs on. -/
theorem C01_hashpooled_own_bytes_only (ccfg : Cfg) (pcfg : Pooled.Cfg) (fcfg : Failover.Cfg)
    (route : List Nat → Key → Option Nat) (servers : List Nat) (t0 : Nat) (calls : List (HPCall Key))
    (hwf : ∀ hc ∈ calls, WellFramed ccfg hc.call hc.sc.evs) :
    ∀ (i : Nat) (ob : HPObs pcfg), (runHP ccfg pcfg fcfg route (init pcfg servers t0) 0 calls).2[i]? = some ob →
      ∀ st, stepOf ob = some st →
        st.idx = i ∧
        st.consumed ++ st.leftover = st.avail ∧
        st.leftover.map (·.2) = st.out.unread ∧
        (∀ te ∈ st.avail, te.1 = i ∨ te.2 = .eintr) ∧
        (∀ te ∈ st.consumed, te.1 = i ∨ te.2 = .eintr) := by
  intro i ob hi st hst
  obtain ⟨hidx, h⟩ := (runHP_clean ccfg fcfg route (init pcfg servers t0) 0 calls (pipesClean_init servers t0) hwf).2 i ob hi st hst
  rw [Nat.zero_add] at hidx
  have hown : ∀ te ∈ st.avail, te.1 = i ∨ te.2 = .eintr := fun te hte => hidx ▸ h.own te hte
  refine ⟨hidx, h.split, h.left, hown, fun te hte => hown te ?_⟩
  rw [← h.split]; exact List.mem_append_left _ hte

/-- C01 (`HashClient(use_pooling=True)`, no foreign bytes): every `recv()` result that carries data and is consumed by
`HashClient` call `i` carries tag `i`. -/
theorem C01_hashpooled_no_foreign_bytes (ccfg : Cfg) (pcfg : Pooled.Cfg) (fcfg : Failover.Cfg)
    (route : List Nat → Key → Option Nat) (servers : List Nat) (t0 : Nat) (calls : List (HPCall Key))
    (hwf : ∀ hc ∈ calls, WellFramed ccfg hc.call hc.sc.evs) :
    ∀ (i : Nat) (ob : HPObs pcfg), (runHP ccfg pcfg fcfg route (init pcfg servers t0) 0 calls).2[i]? = some ob →
      ∀ st, stepOf ob = some st → ∀ te ∈ st.consumed, ∀ b, te.2 = .data b → te.1 = i := by
  intro i ob hi st hst te hte b hb
  rcases (C01_hashpooled_own_bytes_only ccfg pcfg fcfg route servers t0 calls hwf i ob hi st hst).2.2.2.2 te hte with h | h
  · exact h
  · rw [hb] at h; cases h

/-- C01 (`HashClient(use_pooling=True)`, sequences, broken connections): if what arrives during each call is `FaultFramed`
for that call (the owed units, or a strict prefix of them cut at any byte by end-of-stream or an exception), then after
every call no byte is readable, before a fault, from the pipe of any idle inner client with an open socket of any
registered pool. -/
theorem C01_hashpooled_sequence_clean_faults (ccfg : Cfg) (pcfg : Pooled.Cfg) (fcfg : Failover.Cfg)
    (route : List Nat → Key → Option Nat) (servers : List Nat) (t0 : Nat) (calls : List (HPCall Key))
    (hff : ∀ hc ∈ calls, FaultFramed ccfg hc.call hc.sc.evs) (n : Nat) :
    ∀ p ∈ pools (runHP ccfg pcfg fcfg route (init pcfg servers t0) 0 (calls.take n)).1,
      ∀ cl ∈ p.2.2.free, cl.sockOpen = true → quiet (cl.pipe.map (·.2)) := by
  intro p hp
  obtain ⟨x, hx, hpx⟩ := mem_pools hp
  rw [hpx]
  exact (runHP_quiet ccfg fcfg route (init pcfg servers t0) 0 (calls.take n) (pipesQuiet_init servers t0)
    (fun hc h => hff hc (List.mem_of_mem_take h))).1 x hx

/-- C01 (`HashClient(use_pooling=True)`, own bytes only, broken connections): everything `HashClient` call `i` can
possibly receive — the pipe content of the inner client that serves it, up to the first fault — carries tag `i` or is an
interrupted attempt without bytes; and a call whose inner client keeps its socket has consumed only such events. -/
theorem C01_hashpooled_own_bytes_only_faults (ccfg : Cfg) (pcfg : Pooled.Cfg) (fcfg : Failover.Cfg)
    (route : List Nat → Key → Option Nat) (servers : List Nat) (t0 : Nat) (calls : List (HPCall Key))
    (hff : ∀ hc ∈ calls, FaultFramed ccfg hc.call hc.sc.evs) :
    ∀ (i : Nat) (ob : HPObs pcfg), (runHP ccfg pcfg fcfg route (init pcfg servers t0) 0 calls).2[i]? = some ob →
      ∀ st, stepOf ob = some st →
        st.idx = i ∧
        st.consumed ++ st.leftover = st.avail ∧
        st.leftover.map (·.2) = st.out.unread ∧
        (∀ te ∈ readable st.avail, te.1 = i ∨ te.2 = .eintr) ∧
        (st.out.sockOpen = true → ∀ te ∈ st.consumed, te.1 = i ∨ te.2 = .eintr) := by
  intro i ob hi st hst
  obtain ⟨hidx, h⟩ := (runHP_quiet ccfg fcfg route (init pcfg servers t0) 0 calls (pipesQuiet_init servers t0) hff).2 i ob hi st hst
  rw [Nat.zero_add] at hidx
  have hown : ∀ te ∈ readable st.avail, te.1 = i ∨ te.2 = .eintr := fun te hte => hidx ▸ h.own te hte
  exact ⟨hidx, h.split, h.left, hown, fun ho te hte => hown te (h.taken ho te hte)⟩

/-- a history over a breaking connection (`HashPooledCallExamples.faultCalls` = `HashCallExamples.faultCalls` with pooling,
`ignore_exc=True`): every script is `FaultFramed`; call 1 — the last one served by inner client 0 of the first pool —
also takes the interrupted `recv()` left by call 0 (tags `[0, 1, 1, 1]`) and is cut by a timeout with junk arriving
later; every failing contact destroys the inner client it used (inner clients 1 … 4 of that pool serve one call each);
call 7, served by inner client 0 of the fresh `PooledClient` 2 of the revived server 0, never sees the junk of call 1 -/
example :
    (∀ hc ∈ HashPooledCallExamples.faultCalls, FaultFramed {} hc.call hc.sc.evs) ∧
    HashPooledCallExamples.obsSummary (runHP {} HashPooledCallExamples.pool1 HashCallExamples.cfgIgnore Failover.prefRoute
        (init HashPooledCallExamples.pool1 [0, 1] 0) 0 HashPooledCallExamples.faultCalls) =
      [⟨.value (.bytes [120]), some 0, some 0, some 0, some 0, [0]⟩,
       ⟨.default, some 0, some 0, some 0, some 0, [0, 1, 1, 1]⟩,
       ⟨.raised 0 (.inner (.sock 130)), some 0, some 0, some 1, none, []⟩,
       ⟨.default, some 0, some 0, some 2, some 1, [3, 3]⟩,
       ⟨.default, some 0, some 0, some 3, none, []⟩,
       ⟨.default, some 0, some 0, some 4, none, []⟩,
       ⟨.illegalKey, none, none, none, none, []⟩,
       ⟨.value (.bytes [120]), some 0, some 2, some 0, some 0, [7]⟩] ∧
    HashPooledCallExamples.stateSummary (runHP {} HashPooledCallExamples.pool1 HashCallExamples.cfgIgnore Failover.prefRoute
        (init HashPooledCallExamples.pool1 [0, 1] 0) 0 HashPooledCallExamples.faultCalls) =
      ({ nodes := [1, 0], failed := [], dead := [], lastDeadCheck := 20 },
       [⟨0, 2, [(0, some 0, true, 0)], [], 0⟩, ⟨1, 1, [], [], 0⟩]) :=
  ⟨HashPooledCallExamples.faultCalls_ff, HashPooledCallExamples.demo_faults.1, HashPooledCallExamples.demo_faults.2⟩

/-- C01 (the generic failover model instantiated with one `Client` per server is the model of section 10): the development
behind this section is `Pymc/Model/HashInner.lean` — the failover code with "what a contact does" as a parameter —
instantiated with the pool bracket (`HashPooledCall.pooled`).  Instantiated instead with a single `Client` per server
(`HashInner.plain`, a contact being one `PooledCall.stepTagged`), it goes through the same states and makes the same
observations as `HashCall.runH` (translations `HashInner.toG`, `HashInner.toGCall`, `HashInner.obsMap`): sections 10 and 12
are about the same `HashClient` code, with `use_pooling=False` and `use_pooling=True`. -/
theorem C01_hash_is_plain_instance (ccfg : Cfg) (fcfg : Failover.Cfg) (route : List Nat → Key → Option Nat)
    (servers : List Nat) (t0 : Nat) (calls : List (HashCall.HCall Key)) :
    HashInner.runG ccfg fcfg route (HashInner.init HashInner.plain servers t0) 0 (calls.map HashInner.toGCall) =
      (HashInner.toG (HashCall.runH ccfg fcfg route (HashCall.init servers t0) 0 calls).1,
       (HashCall.runH ccfg fcfg route (HashCall.init servers t0) 0 calls).2.map HashInner.obsMap) := by
  rw [← HashInner.init_plain]
  exact HashInner.runG_plain ccfg fcfg route (HashCall.init servers t0) 0 calls

end hashpooled

/-! ## 13. `HashClient`: the broadcast operations `flush_all`, `quit`, `close` / `disconnect_all`

Model: `Pymc/Model/HashBroadcast.lean`.  A broadcast is `for client in self.clients.values():
self._safely_run_func(client, client.<op>, False, …)`: it walks over every client object registered in `self.clients`, in
registration order — also those of servers that are out of rotation — and stops at the first exception that escapes
`_safely_run_func`.  A public call (`BCall`) is a key-addressed call of section 11 (`.keyed`) or a broadcast
(`.broadcast op scripts now`: the operation, per server `s` the script `scripts s` of what its connection does during the
call, the time); `runB` runs a history that mixes them; the observation of a broadcast (`BcObs`) lists its visits in
order, each with the inner `Client.call (.flushAll …)` / `Client.call .quit` made on the client object registered for that
server (`ob.steps` = the inner calls of the public call, all tagged with its number); `close` is no `Client.call` (it sends
and receives nothing): the object simply has no socket afterwards.  The framing hypothesis (`BCall.WellFramed`) for a
broadcast: every server's script is well-framed for the inner call — one reply line for a `flush_all` that waits, nothing for
`flush_all(noreply=True)` and for `quit`.  How the failover bookkeeping treats the outcome of each visit — including the
`ValueError` of `remove_node` for a server that is already out of rotation — is C13 (`C13_hash_broadcast_…`); it does not
affect ownership of bytes. -/
section hashbroadcast
open HashCall

variable {RK : Type}

/-- C01 (`HashClient` with broadcasts, sequences): run any history of key-addressed calls and broadcasts on a fresh
`HashClient`.  If what arrives on every server's connection during each call is well-framed, then after every call every
client object registered in `self.clients` that has an open socket — whether or not its server is in rotation, whether or
not the broadcast got as far as visiting it — has no byte unread in its pipe. -/
theorem C01_hash_broadcast_sequence_clean (ccfg : Cfg) (fcfg : Failover.Cfg) (route : List Nat → RK → Option Nat)
    (servers : List Nat) (t0 : Nat) (calls : List (BCall RK))
    (hwf : ∀ bc ∈ calls, bc.WellFramed ccfg) (n : Nat) :
    ∀ x ∈ (runB ccfg fcfg route (init servers t0) 0 (calls.take n)).1.clients, x.2.sockOpen = true →
      joinData (x.2.pipe.map (·.2)) = [] ∧ clean (x.2.pipe.map (·.2)) := by
  intro x hx hopen
  have h := (runB_clean ccfg fcfg route (init servers t0) 0 (calls.take n) (pipesClean_init servers t0)
    (fun bc h => hwf bc (List.mem_of_mem_take h))).1 x hx hopen
  have hd : Drained (x.2.pipe.map (·.2)) := by
    rw [drained_iff_all_eintr]
    intro e he
    obtain ⟨te, hte, rfl⟩ := List.mem_map.mp he
    exact h te hte
  exact hd

/-- C01 (`HashClient` with broadcasts, own bytes only): under the same hypothesis, for every inner call made during public
call number `i` — one per client the broadcast calls `flush_all` / `quit` on — everything it can see on the socket of the
client object it runs on, a fortiori everything it consumes, carries tag `i`, except possibly interrupted `recv()`
attempts: a broadcast reads, on every connection, the reply to its own command and nothing else. -/
theorem C01_hash_broadcast_own_bytes_only (ccfg : Cfg) (fcfg : Failover.Cfg) (route : List Nat → RK → Option Nat)
    (servers : List Nat) (t0 : Nat) (calls : List (BCall RK))
    (hwf : ∀ bc ∈ calls, bc.WellFramed ccfg) :
    ∀ (i : Nat) (ob : XObs), (runB ccfg fcfg route (init servers t0) 0 calls).2[i]? = some ob →
      ∀ st ∈ ob.steps,
        st.idx = i ∧
        st.consumed ++ st.leftover = st.avail ∧
        st.leftover.map (·.2) = st.out.unread ∧
        (∀ te ∈ st.avail, te.1 = i ∨ te.2 = .eintr) ∧
        (∀ te ∈ st.consumed, te.1 = i ∨ te.2 = .eintr) := by
  intro i ob hi st hst
  obtain ⟨hidx, h⟩ := (runB_clean ccfg fcfg route (init servers t0) 0 calls (pipesClean_init servers t0) hwf).2 i ob hi st hst
  rw [Nat.zero_add] at hidx
  have hown : ∀ te ∈ st.avail, te.1 = i ∨ te.2 = .eintr := fun te hte => hidx ▸ h.own te hte
  refine ⟨hidx, h.split, h.left, hown, fun te hte => hown te ?_⟩
  rw [← h.split]; exact List.mem_append_left _ hte

/-- the five-call history `HashBroadcastExamples.mixCalls` (`get`, `flush_all`, `quit`, `get`, `close` over two servers)
satisfies the hypothesis; its run shows the `flush_all` reusing the socket the `get` opened on server 0 and connecting to
server 1, both reading their own `OK` (tags `[1]`, `[1]`), `quit` closing both, the second `get` reconnecting, and `close`
leaving no socket -/
example :
    (∀ bc ∈ HashBroadcastExamples.mixCalls, bc.WellFramed {}) ∧
    HashBroadcastExamples.xSummary (runB {} HashCallExamples.cfgStrict Failover.prefRoute (init [0, 1] 0) 0 HashBroadcastExamples.mixCalls) =
      [(.inl (.value (.bytes [120])), [(0, some 0)]),
       (.inr .done, [(0, some 0), (1, some 1)]),
       (.inr .done, [(0, some 0), (1, some 1)]),
       (.inl (.value (.bytes [120])), [(0, some 0)]),
       (.inr .done, [(0, some 0), (1, some 1)])] ∧
    HashBroadcastExamples.xTags (runB {} HashCallExamples.cfgStrict Failover.prefRoute (init [0, 1] 0) 0 HashBroadcastExamples.mixCalls) =
      [[[0]], [[1], [1]], [[], []], [[3]], []] ∧
    HashBroadcastExamples.xState (runB {} HashCallExamples.cfgStrict Failover.prefRoute (init [0, 1] 0) 0 (HashBroadcastExamples.mixCalls.take 2)) =
      ({ nodes := [0, 1], failed := [], dead := [], lastDeadCheck := 0 }, [(0, 0, true, 0), (1, 1, true, 0)]) ∧
    HashBroadcastExamples.xState (runB {} HashCallExamples.cfgStrict Failover.prefRoute (init [0, 1] 0) 0 HashBroadcastExamples.mixCalls) =
      ({ nodes := [0, 1], failed := [], dead := [], lastDeadCheck := 0 }, [(0, 0, false, 0), (1, 1, false, 0)]) :=
  ⟨HashBroadcastExamples.mixCalls_wf, HashBroadcastExamples.demo_mix.1, HashBroadcastExamples.demo_mix.2.1,
    HashBroadcastExamples.demo_mix.2.2.1, HashBroadcastExamples.demo_mix.2.2.2⟩

/-- C01 (`HashClient` with broadcasts, the step is the inner call): from any state, every inner call of a broadcast is
`Client.call` (with `ignore_exc=False`) for the broadcast's operation on some client object (socket state `so`, pipe
`left`) under the script of one server's connection, with that call's `recv()` results tagged with the number of the public
call — exactly one step of `Framing.runTaggedFrom`: what a visit returns is computed from what is on that object's own
socket. -/
theorem C01_hash_broadcast_step_is_client_call (ccfg : Cfg) (fcfg : Failover.Cfg) (st : St) (idx now : Nat) (op : BOp)
    (scripts : Nat → Script) :
    ∀ stp ∈ (broadcastH ccfg fcfg st idx now op scripts).2.steps,
      ∃ call s so left, op.call? = some call ∧
        stp = PooledCall.stepTagged ccfg idx so left call (scripts s) ∧
        runTaggedFrom ccfg false idx so left [(call, scripts s)] = [stp] := by
  intro stp hstp
  obtain ⟨call, s, so, left, hc, h⟩ := broadcastH_steps ccfg fcfg st idx now op scripts stp hstp
  exact ⟨call, s, so, left, hc, h, by rw [h]; rfl⟩

/-- non-vacuity: the `flush_all` of `mixCalls` makes two inner calls -/
example :
    ((broadcastH {} HashCallExamples.cfgStrict (init [0, 1] 0) 0 0 HashBroadcastExamples.flushOp HashBroadcastExamples.allUp).2.steps).length = 2 := by
  decide +kernel

/-- C01 (`HashClient` with broadcasts, sequences, broken connections): if what arrives on every server's connection
during each call is fault-framed (`BCall.FaultFramed`: the owed reply, or a strict prefix of it cut at any byte by
end-of-stream or an exception), then after every call no byte is readable, before a fault, from the pipe of any
registered client object with an open socket. -/
theorem C01_hash_broadcast_sequence_clean_faults (ccfg : Cfg) (fcfg : Failover.Cfg) (route : List Nat → RK → Option Nat)
    (servers : List Nat) (t0 : Nat) (calls : List (BCall RK))
    (hff : ∀ bc ∈ calls, bc.FaultFramed ccfg) (n : Nat) :
    ∀ x ∈ (runB ccfg fcfg route (init servers t0) 0 (calls.take n)).1.clients, x.2.sockOpen = true →
      quiet (x.2.pipe.map (·.2)) :=
  (runB_quiet ccfg fcfg route (init servers t0) 0 (calls.take n) (pipesQuiet_init servers t0)
    (fun bc h => hff bc (List.mem_of_mem_take h))).1

/-- C01 (`HashClient` with broadcasts, own bytes only, broken connections): everything an inner call of public call `i` can
possibly receive — the pipe content of its client object up to the first fault — carries tag `i` or is an interrupted
attempt without bytes; and an inner call whose client object keeps its socket has consumed only such events. -/
theorem C01_hash_broadcast_own_bytes_only_faults (ccfg : Cfg) (fcfg : Failover.Cfg) (route : List Nat → RK → Option Nat)
    (servers : List Nat) (t0 : Nat) (calls : List (BCall RK))
    (hff : ∀ bc ∈ calls, bc.FaultFramed ccfg) :
    ∀ (i : Nat) (ob : XObs), (runB ccfg fcfg route (init servers t0) 0 calls).2[i]? = some ob →
      ∀ st ∈ ob.steps,
        st.idx = i ∧
        st.consumed ++ st.leftover = st.avail ∧
        st.leftover.map (·.2) = st.out.unread ∧
        (∀ te ∈ readable st.avail, te.1 = i ∨ te.2 = .eintr) ∧
        (st.out.sockOpen = true → ∀ te ∈ st.consumed, te.1 = i ∨ te.2 = .eintr) := by
  intro i ob hi st hst
  obtain ⟨hidx, h⟩ := (runB_quiet ccfg fcfg route (init servers t0) 0 calls (pipesQuiet_init servers t0) hff).2 i ob hi st hst
  rw [Nat.zero_add] at hidx
  have hown : ∀ te ∈ readable st.avail, te.1 = i ∨ te.2 = .eintr := fun te hte => hidx ▸ h.own te hte
  exact ⟨hidx, h.split, h.left, hown, fun ho te hte => hown te (h.taken ho te hte)⟩

/-- the fault hypothesis is satisfiable: in `HashBroadcastExamples.cutCallsB` the connection of server 1 breaks after `O`
in the middle of the reply to a `flush_all` (`MemcacheUnexpectedCloseError` escapes after both servers were visited, the
inner client closes its socket); the next `flush_all` is served over a new connection and sees nothing of the cut reply -/
example :
    (∀ bc ∈ HashBroadcastExamples.cutCallsB, bc.FaultFramed {}) ∧
    HashBroadcastExamples.xSummary (runB {} HashCallExamples.cfgStrict Failover.prefRoute (init [0, 1] 0) 0 HashBroadcastExamples.cutCallsB) =
      [(.inr (.raised 1 .unexpectedClose), [(0, some 0), (1, some 1)]),
       (.inr .done, [(0, some 0), (1, some 1)])] ∧
    HashBroadcastExamples.xTags (runB {} HashCallExamples.cfgStrict Failover.prefRoute (init [0, 1] 0) 0 HashBroadcastExamples.cutCallsB) =
      [[[0], [0, 0]], [[1], [1]]] ∧
    HashBroadcastExamples.xState (runB {} HashCallExamples.cfgStrict Failover.prefRoute (init [0, 1] 0) 0 HashBroadcastExamples.cutCallsB) =
      ({ nodes := [0, 1], failed := [], dead := [], lastDeadCheck := 0 }, [(0, 0, true, 0), (1, 1, true, 0)]) :=
  ⟨HashBroadcastExamples.cutCallsB_ff, HashBroadcastExamples.demo_cutB.1, HashBroadcastExamples.demo_cutB.2.1,
    HashBroadcastExamples.demo_cutB.2.2⟩

/-- C01 (`HashClient`, `quit` / `close` leave no socket on the clients they reach): from any state, after a `quit()` or a
`close()` / `disconnect_all()`, every client object the function was called on (`v.invoked`) has no socket — together with
`C01_hash_broadcast_sequence_clean`: every client a broadcast contacts ends with its socket closed or with nothing unread
on it.  (Not reached: a client inside its retry window — `_safely_run_func` returns `default_val` without calling the
function —, and the clients after an exception that escapes.) -/
theorem C01_hash_broadcast_quit_close_leave_no_socket (ccfg : Cfg) (fcfg : Failover.Cfg) (st : St) (idx now : Nat) (op : BOp)
    (scripts : Nat → Script) (hop : op.closes = true) :
    ∀ v ∈ (broadcastH ccfg fcfg st idx now op scripts).2.visits, v.invoked = true →
      ∀ x ∈ (broadcastH ccfg fcfg st idx now op scripts).1.clients, x.1 = v.server → x.2.sockOpen = false :=
  fun v hv hi => (bloop_closes ccfg fcfg idx now op scripts hop st st.servers).2 v hv hi

/-- non-vacuity: in `mixCalls` the `quit` (call 2) is made with both sockets open and reaches both clients -/
example :
    (HashBroadcastExamples.xState (runB {} HashCallExamples.cfgStrict Failover.prefRoute (init [0, 1] 0) 0 (HashBroadcastExamples.mixCalls.take 2))).2 =
      [(0, 0, true, 0), (1, 1, true, 0)] ∧
    (HashBroadcastExamples.xState (runB {} HashCallExamples.cfgStrict Failover.prefRoute (init [0, 1] 0) 0 (HashBroadcastExamples.mixCalls.take 3))).2 =
      [(0, 0, false, 0), (1, 1, false, 0)] ∧ BOp.quit.closes = true := by
  refine ⟨by decide +kernel, by decide +kernel, rfl⟩

/-- C01 (`HashClient`, sections 11 and 13 agree): on a history of key-addressed calls the general run `runB` is the run
`runM` of section 11 — same final state, same observations. -/
theorem C01_hash_broadcast_extends_keyed (ccfg : Cfg) (fcfg : Failover.Cfg) (route : List Nat → RK → Option Nat)
    (servers : List Nat) (t0 : Nat) (calls : List (MCall RK)) :
    runB ccfg fcfg route (init servers t0) 0 (calls.map MCall.toB) =
      ((runM ccfg fcfg route (init servers t0) 0 calls).1,
       (runM ccfg fcfg route (init servers t0) 0 calls).2.map XObs.keyed) :=
  runB_keyed ccfg fcfg route (init servers t0) 0 calls

/-- non-vacuity: the key-addressed history `HashCallExamples.setCalls` of section 11 as a general history -/
example :
    (runB {} HashCallExamples.cfgStrict Failover.prefRoute (init [0, 1] 0) 0 (HashCallExamples.setCalls.map MCall.toB)).2.length = 7 := by
  rw [runB_length]; rfl

end hashbroadcast

/-! ## 13. `HashClient(use_pooling=True)`: `get_many` / `gets_many`, `set_many`, `delete_many` mixed with the single-key operations

Model: `Pymc/Model/HashPooledCallMany.lean` (= `Pymc/Model/HashInnerMany.lean`, the multi-key code of `HashClient` —
that of section 11 — with the object registered in `self.clients` as a parameter, instantiated with the `PooledClient`
of section 9 exactly as section 12 instantiates the single-key code).  A public call (`MPCall`) is an operation of
section 11 (`HashCall.MOp`: a single-key operation, `get_many` / `gets_many` with one script per server, `set_many` with one
script per server and batch, `delete_many` with one script per key) with the time of the call and the time at which the
pools release their inner clients; `runMP ccfg pcfg fcfg route (init pcfg servers t0) 0 calls` runs a history on a fresh
`HashClient(use_pooling=True)`.  Every batch that reaches a server is one `PooledCall.callP` on the pool of the
`PooledClient` registered for that server when the second loop gets there — check-out, `Client.call … (.getMany batch)` /
`(.setMany batch …)` / `(.delete key …)` on the checked-out inner client, release or destroy — so one public call may use
several pools one after the other (and `delete_many` the same pool several times); `stepsOf ob` lists the inner
`Client.call`s of a public call in order, all tagged with its number.  The framing hypothesis is that of section 11
(`MOp.WellFramed` / `MOp.FaultFramed`): it is about the scripts, not about which keys the failover code sends where. -/
section hashpooledmany
open HashPooledCall

variable {RK : Type}

/-- C01 (`HashClient(use_pooling=True)` with multi-key calls, the step is the inner call): every inner step observed for
call `i` is `Client.call` (with `ignore_exc=False`) for one of the invocations the `i`-th operation of the history can
make (`HashPooledCall.InvocationOf`: the operation itself; `get_many batch` / `gets_many batch` with the script of a server;
`set_many batch expire noreply flags` with the script of a server for that batch; the `delete` of one of the keys of a
`delete_many` with its script) on some inner client (socket state `so`, pipe `left`), that call's `recv()` results tagged
`i`; and the `PooledClient` method returned or raised what it returned or raised. -/
theorem C01_hashpooled_many_step_is_client_call (ccfg : Cfg) (pcfg : Pooled.Cfg) (fcfg : Failover.Cfg)
    (route : List Nat → RK → Option Nat) (servers : List Nat) (t0 : Nat) (calls : List (MPCall RK)) :
    ∀ (i : Nat) (ob : MPObs pcfg), (runMP ccfg pcfg fcfg route (init pcfg servers t0) 0 calls).2[i]? = some ob →
      ∃ mc, calls[i]? = some mc ∧
        ∀ po ∈ pobsOf ob, ∀ st, po.step = some st →
          ∃ so left call sc, InvocationOf mc.op call sc ∧
            st.idx = i ∧ st.avail = available so left (sc.evs.map fun e => (i, e)) ∧
            st.out = Client.call ccfg false so call { sc with evs := st.avail.map (·.2) } ∧
            po.res = some st.out.res := by
  intro i ob hi
  obtain ⟨mc, hmc, h⟩ := runMP_steps ccfg fcfg route (init pcfg servers t0) 0 calls i ob hi
  refine ⟨mc, hmc, fun po hpo st hst => ?_⟩
  obtain ⟨so, left, call, sc, hinvoc, hs, hres⟩ := h po hpo st hst
  rw [Nat.zero_add] at hs
  subst hs
  exact ⟨so, left, call, sc, hinvoc, rfl, rfl, rfl, hres⟩

/-- C01 (`HashClient(use_pooling=True)` with multi-key calls, sequences): run any history of single-key calls,
`get_many` / `gets_many`, `set_many` and `delete_many` on a fresh pooling `HashClient`.  If what arrives on every connection
during each call is well-framed, then after every call (`calls.take n` = the first `n` calls) — returned or raised —, in
the pool of every `PooledClient` registered in `self.clients`, no inner client is checked out and every idle inner client
with an open socket has no byte unread in its pipe. -/
theorem C01_hashpooled_many_sequence_clean (ccfg : Cfg) (pcfg : Pooled.Cfg) (fcfg : Failover.Cfg)
    (route : List Nat → RK → Option Nat) (servers : List Nat) (t0 : Nat) (calls : List (MPCall RK))
    (hwf : ∀ mc ∈ calls, mc.op.WellFramed ccfg) (n : Nat) :
    ∀ p ∈ pools (runMP ccfg pcfg fcfg route (init pcfg servers t0) 0 (calls.take n)).1,
      p.2.2.used = [] ∧
      ∀ cl ∈ p.2.2.free, cl.sockOpen = true → joinData (cl.pipe.map (·.2)) = [] ∧ clean (cl.pipe.map (·.2)) := by
  intro p hp
  obtain ⟨x, hx, hpx⟩ := mem_pools hp
  rw [hpx]
  refine ⟨PooledCall.used_nil_of_proj ?_, fun cl hcl hopen => ?_⟩
  · exact ((runMP_poolsOK ccfg fcfg route (init pcfg servers t0) 0 (calls.take n) (poolsOK_init servers t0)).1 x hx).2.used_nil
  · have h := (runMP_clean ccfg fcfg route (init pcfg servers t0) 0 (calls.take n) (pipesClean_init servers t0)
      (fun mc h => hwf mc (List.mem_of_mem_take h))).1 x hx cl hcl hopen
    have hd : Drained (cl.pipe.map (·.2)) := by
      rw [drained_iff_all_eintr]
      intro e he
      obtain ⟨te, hte, rfl⟩ := List.mem_map.mp he
      exact h te hte
    exact hd

/-- `HashPooledCallExamples.manyCalls` (`HashCallExamples.manyCalls` with pooling, `max_pool_size=1`, `ignore_exc=True`)
satisfies the hypothesis; its run shows a `get_many` split over the pools of two servers, a failing batch whose inner
client is destroyed by its pool while the exception is swallowed and the other batch is still sent, eviction with the
final probe inside a `get_many`, both keys rerouted into one batch, and the revived server served through a fresh
`PooledClient` with an empty pool (per batch: server, `PooledClient`, inner client, connection, served; per pool: server,
`PooledClient`, idle clients as (id, connection, open, events left), closed connections, checked out) -/
example :
    (∀ mc ∈ HashPooledCallExamples.manyCalls, mc.op.WellFramed {}) ∧
    HashPooledCallExamples.manySummaryP (runMP {} HashPooledCallExamples.pool1 HashCallExamples.cfgIgnore Failover.prefRoute
        (init HashPooledCallExamples.pool1 [0, 1] 0) 0 HashPooledCallExamples.manyCalls) =
      [(.value (.dict [(.bytes [107], [120])]), [⟨0, some 0, some 0, some 0, true⟩, ⟨1, some 1, some 0, some 0, true⟩]),
       (.value (.dict []), [⟨0, some 0, some 0, some 0, false⟩, ⟨1, some 1, some 0, some 0, true⟩]),
       (.default, [⟨0, some 0, some 1, none, false⟩]),
       (.value (.dict []), [⟨0, some 0, some 2, none, false⟩, ⟨1, some 1, some 0, some 0, true⟩]),
       (.value (.dict []), [⟨1, some 1, some 0, some 0, true⟩]),
       (.value (.dict [(.bytes [107], [120])]), [⟨0, some 2, some 0, some 0, true⟩, ⟨1, some 1, some 0, some 0, true⟩])] ∧
    HashPooledCallExamples.manyStateP (runMP {} HashPooledCallExamples.pool1 HashCallExamples.cfgIgnore Failover.prefRoute
        (init HashPooledCallExamples.pool1 [0, 1] 0) 0 HashPooledCallExamples.manyCalls) =
      ({ nodes := [1, 0], failed := [], dead := [], lastDeadCheck := 12 },
       [⟨0, 2, [(0, some 0, true, 0)], [], 0⟩, ⟨1, 1, [(0, some 0, true, 0)], [], 0⟩]) :=
  ⟨HashPooledCallExamples.manyCalls_wf, HashPooledCallExamples.demo_many_pooled.1, HashPooledCallExamples.demo_many_pooled.2.2⟩

/-- C01 (`HashClient(use_pooling=True)` with multi-key calls, own bytes only): under the same hypothesis, for every inner
`Client.call` made during public call number `i` — one per contacted server for `get_many` / `set_many`, one per key for
`delete_many` — everything it can see on the socket of the inner client it runs on, a fortiori everything it consumes,
carries tag `i`, except possibly interrupted `recv()` attempts (`eintr`), which carry no bytes. -/
theorem C01_hashpooled_many_own_bytes_only (ccfg : Cfg) (pcfg : Pooled.Cfg) (fcfg : Failover.Cfg)
    (route : List Nat → RK → Option Nat) (servers : List Nat) (t0 : Nat) (calls : List (MPCall RK))
    (hwf : ∀ mc ∈ calls, mc.op.WellFramed ccfg) :
    ∀ (i : Nat) (ob : MPObs pcfg), (runMP ccfg pcfg fcfg route (init pcfg servers t0) 0 calls).2[i]? = some ob →
      ∀ st ∈ stepsOf ob,
        st.idx = i ∧
        st.consumed ++ st.leftover = st.avail ∧
        st.leftover.map (·.2) = st.out.unread ∧
        (∀ te ∈ st.avail, te.1 = i ∨ te.2 = .eintr) ∧
        (∀ te ∈ st.consumed, te.1 = i ∨ te.2 = .eintr) := by
  intro i ob hi st hst
  obtain ⟨hidx, h⟩ := (runMP_clean ccfg fcfg route (init pcfg servers t0) 0 calls (pipesClean_init servers t0) hwf).2 i ob hi st hst
  rw [Nat.zero_add] at hidx
  have hown : ∀ te ∈ st.avail, te.1 = i ∨ te.2 = .eintr := fun te hte => hidx ▸ h.own te hte
  refine ⟨hidx, h.split, h.left, hown, fun te hte => hown te ?_⟩
  rw [← h.split]; exact List.mem_append_left _ hte

/-- `HashPooledCallExamples.setCalls` (`HashCallExamples.setCalls` with pooling, `ignore_exc=False`) satisfies the
hypothesis; its run shows a `set_many` split over two pools, the failing batch of server 0 ending the call before the pool
of server 1 is asked, a batch skipped inside the retry window (no pool is asked: `pc = none`), a `delete_many` ended by
its first `delete`, eviction inside a `set_many`, both items in one batch (two reply lines consumed by one inner call),
and a `delete_many` over two pools after the revival; every inner call consumes only `recv()` results of its own public
call (tags per public call, per inner call) -/
example :
    (∀ mc ∈ HashPooledCallExamples.setCalls, mc.op.WellFramed {}) ∧
    HashPooledCallExamples.manySummaryP (runMP {} HashPooledCallExamples.pool1 HashCallExamples.cfgStrict Failover.prefRoute
        (init HashPooledCallExamples.pool1 [0, 1] 0) 0 HashPooledCallExamples.setCalls) =
      [(.value (.keys []), [⟨0, some 0, some 0, some 0, true⟩, ⟨1, some 1, some 0, some 0, true⟩]),
       (.raised 0 (.inner (.sock 32)), [⟨0, some 0, some 0, some 0, false⟩]),
       (.value (.keys [.bytes [107]]), [⟨0, none, none, none, false⟩, ⟨1, some 1, some 0, some 0, true⟩]),
       (.raised 0 (.inner (.sock 61)), [⟨0, some 0, some 1, none, false⟩]),
       (.raised 0 (.inner (.sock 61)), [⟨0, some 0, some 2, none, false⟩]),
       (.value (.keys []), [⟨1, some 1, some 0, some 0, true⟩]),
       (.value (.bool true), [⟨0, some 2, some 0, some 0, true⟩, ⟨1, some 1, some 0, some 0, true⟩])] ∧
    HashPooledCallExamples.manyTagsP (runMP {} HashPooledCallExamples.pool1 HashCallExamples.cfgStrict Failover.prefRoute
        (init HashPooledCallExamples.pool1 [0, 1] 0) 0 HashPooledCallExamples.setCalls) =
      [[[0], [0]], [[]], [[2]], [[]], [[]], [[5, 5]], [[6], [6]]] :=
  ⟨HashPooledCallExamples.setCalls_wf, HashPooledCallExamples.demo_set_pooled.1, HashPooledCallExamples.demo_set_pooled.2.1⟩

/-- C01 (`HashClient(use_pooling=True)` with multi-key calls, no foreign bytes): every `recv()` result that carries data
and is consumed by an inner call of public call `i` carries tag `i`. -/
theorem C01_hashpooled_many_no_foreign_bytes (ccfg : Cfg) (pcfg : Pooled.Cfg) (fcfg : Failover.Cfg)
    (route : List Nat → RK → Option Nat) (servers : List Nat) (t0 : Nat) (calls : List (MPCall RK))
    (hwf : ∀ mc ∈ calls, mc.op.WellFramed ccfg) :
    ∀ (i : Nat) (ob : MPObs pcfg), (runMP ccfg pcfg fcfg route (init pcfg servers t0) 0 calls).2[i]? = some ob →
      ∀ st ∈ stepsOf ob, ∀ te ∈ st.consumed, ∀ b, te.2 = .data b → te.1 = i := by
  intro i ob hi st hst te hte b hb
  rcases (C01_hashpooled_many_own_bytes_only ccfg pcfg fcfg route servers t0 calls hwf i ob hi st hst).2.2.2.2 te hte with h | h
  · exact h
  · rw [hb] at h; cases h

/-- C01 (`HashClient(use_pooling=True)` with multi-key calls, sequences, broken connections): if what arrives on every
connection during each call is fault-framed (`MOp.FaultFramed`: the owed reply, or a strict prefix of it cut at any byte
by end-of-stream or an exception), then after every call no byte is readable, before a fault, from the pipe of any idle
inner client with an open socket of any registered pool. -/
theorem C01_hashpooled_many_sequence_clean_faults (ccfg : Cfg) (pcfg : Pooled.Cfg) (fcfg : Failover.Cfg)
    (route : List Nat → RK → Option Nat) (servers : List Nat) (t0 : Nat) (calls : List (MPCall RK))
    (hff : ∀ mc ∈ calls, mc.op.FaultFramed ccfg) (n : Nat) :
    ∀ p ∈ pools (runMP ccfg pcfg fcfg route (init pcfg servers t0) 0 (calls.take n)).1,
      ∀ cl ∈ p.2.2.free, cl.sockOpen = true → quiet (cl.pipe.map (·.2)) := by
  intro p hp
  obtain ⟨x, hx, hpx⟩ := mem_pools hp
  rw [hpx]
  exact (runMP_quiet ccfg fcfg route (init pcfg servers t0) 0 (calls.take n) (pipesQuiet_init servers t0)
    (fun mc h => hff mc (List.mem_of_mem_take h))).1 x hx

/-- C01 (`HashClient(use_pooling=True)` with multi-key calls, own bytes only, broken connections): everything an inner
call of public call `i` can possibly receive — the pipe content of the inner client it runs on, up to the first fault —
carries tag `i` or is an interrupted attempt without bytes; and an inner call whose inner client keeps its socket has
consumed only such events. -/
theorem C01_hashpooled_many_own_bytes_only_faults (ccfg : Cfg) (pcfg : Pooled.Cfg) (fcfg : Failover.Cfg)
    (route : List Nat → RK → Option Nat) (servers : List Nat) (t0 : Nat) (calls : List (MPCall RK))
    (hff : ∀ mc ∈ calls, mc.op.FaultFramed ccfg) :
    ∀ (i : Nat) (ob : MPObs pcfg), (runMP ccfg pcfg fcfg route (init pcfg servers t0) 0 calls).2[i]? = some ob →
      ∀ st ∈ stepsOf ob,
        st.idx = i ∧
        st.consumed ++ st.leftover = st.avail ∧
        st.leftover.map (·.2) = st.out.unread ∧
        (∀ te ∈ readable st.avail, te.1 = i ∨ te.2 = .eintr) ∧
        (st.out.sockOpen = true → ∀ te ∈ st.consumed, te.1 = i ∨ te.2 = .eintr) := by
  intro i ob hi st hst
  obtain ⟨hidx, h⟩ := (runMP_quiet ccfg fcfg route (init pcfg servers t0) 0 calls (pipesQuiet_init servers t0) hff).2 i ob hi st hst
  rw [Nat.zero_add] at hidx
  have hown : ∀ te ∈ readable st.avail, te.1 = i ∨ te.2 = .eintr := fun te hte => hidx ▸ h.own te hte
  exact ⟨hidx, h.split, h.left, hown, fun ho te hte => hown te (h.taken ho te hte)⟩

/-- the fault hypothesis is satisfiable with pooled `set_many`: in `HashPooledCallExamples.cutCalls` the connection of
server 1 breaks after `STOR` in the middle of a `set_many` reply — `MemcacheUnexpectedCloseError` escapes, the pool of
server 1 destroys its inner client 0 and closes connection 0; the next `get_many` is served by inner client 1 over
connection 1 and sees nothing of the cut reply -/
example :
    (∀ mc ∈ HashPooledCallExamples.cutCalls, mc.op.FaultFramed {}) ∧
    HashPooledCallExamples.manySummaryP (runMP {} HashPooledCallExamples.pool1 HashCallExamples.cfgStrict Failover.prefRoute
        (init HashPooledCallExamples.pool1 [0, 1] 0) 0 HashPooledCallExamples.cutCalls) =
      [(.raised 1 (.inner .unexpectedClose), [⟨0, some 0, some 0, some 0, true⟩, ⟨1, some 1, some 0, some 0, false⟩]),
       (.value (.dict [(.bytes [107], [120])]), [⟨0, some 0, some 0, some 0, true⟩, ⟨1, some 1, some 1, some 1, true⟩])] ∧
    HashPooledCallExamples.manyTagsP (runMP {} HashPooledCallExamples.pool1 HashCallExamples.cfgStrict Failover.prefRoute
        (init HashPooledCallExamples.pool1 [0, 1] 0) 0 HashPooledCallExamples.cutCalls) = [[[0], [0, 0]], [[1], [1]]] ∧
    HashPooledCallExamples.manyStateP (runMP {} HashPooledCallExamples.pool1 HashCallExamples.cfgStrict Failover.prefRoute
        (init HashPooledCallExamples.pool1 [0, 1] 0) 0 HashPooledCallExamples.cutCalls) =
      ({ nodes := [0, 1], failed := [], dead := [], lastDeadCheck := 0 },
       [⟨0, 0, [(0, some 0, true, 0)], [], 0⟩, ⟨1, 1, [(1, some 1, true, 0)], [0], 0⟩]) :=
  ⟨HashPooledCallExamples.cutCalls_ff, HashPooledCallExamples.demo_cut_pooled.1, HashPooledCallExamples.demo_cut_pooled.2.1,
    HashPooledCallExamples.demo_cut_pooled.2.2⟩

/-- C01 (`HashClient(use_pooling=True)`, sections 12 and 13 agree): on a history of single-key calls the general run
`runMP` is the run `runHP` of section 12 — same final state, same results, same pooled calls. -/
theorem C01_hashpooled_many_extends_single (ccfg : Cfg) (pcfg : Pooled.Cfg) (fcfg : Failover.Cfg)
    (route : List Nat → RK → Option Nat) (servers : List Nat) (t0 : Nat) (calls : List (HPCall RK)) :
    (runMP ccfg pcfg fcfg route (init pcfg servers t0) 0 (calls.map HashInner.GCall.toGM)).1 =
      (runHP ccfg pcfg fcfg route (init pcfg servers t0) 0 calls).1 ∧
    (runMP ccfg pcfg fcfg route (init pcfg servers t0) 0 (calls.map HashInner.GCall.toGM)).2.map (·.res) =
      (runHP ccfg pcfg fcfg route (init pcfg servers t0) 0 calls).2.map (·.res) ∧
    (runMP ccfg pcfg fcfg route (init pcfg servers t0) 0 (calls.map HashInner.GCall.toGM)).2.map pobsOf =
      (runHP ccfg pcfg fcfg route (init pcfg servers t0) 0 calls).2.map (fun ob => ob.inner.toList) :=
  HashInner.runGM_cmds (I := pooled pcfg) ccfg fcfg route (init pcfg servers t0) 0 calls

/-- C01 (the generic multi-key model instantiated with one `Client` per server is the model of section 11): the
development behind this section is `Pymc/Model/HashInnerMany.lean` — `get_many` / `set_many` / `delete_many` of `HashClient` with
"what a contact does" as a parameter — instantiated with the pool bracket (`HashPooledCall.pooled`).  Instantiated instead
with a single `Client` per server (`HashInner.plain`, a contact being one `PooledCall.stepTagged`), it goes through the same
states and makes the same observations as `HashCall.runM` on every general history (translations `HashInner.toG`,
`HashInner.ofMCall`, `HashInner.mobsMap`): sections 11 and 13 are about the same multi-key code of `HashClient`, with
`use_pooling=False` and `use_pooling=True`. -/
theorem C01_hashpooled_many_model_is_generic (ccfg : Cfg) (fcfg : Failover.Cfg) (route : List Nat → RK → Option Nat)
    (servers : List Nat) (t0 : Nat) (calls : List (HashCall.MCall RK)) :
    HashInner.runGM ccfg fcfg route (HashInner.init HashInner.plain servers t0) 0 (calls.map HashInner.ofMCall) =
      (HashInner.toG (HashCall.runM ccfg fcfg route (HashCall.init servers t0) 0 calls).1,
       (HashCall.runM ccfg fcfg route (HashCall.init servers t0) 0 calls).2.map HashInner.mobsMap) := by
  rw [← HashInner.init_plain]
  exact HashInner.runGM_plain ccfg fcfg route (HashCall.init servers t0) 0 calls

/-- non-vacuity: the pooled example histories of this section are the translations `HashInner.ofMCall` of the histories of
section 11 (`HashCallExamples.manyCalls`, `HashCallExamples.setCalls`): the same calls run through the plain instance give the
runs of section 11, through the pooled instance the runs shown above -/
example :
    HashPooledCallExamples.manyCalls = HashCallExamples.manyCalls.map HashInner.ofMCall ∧
    HashPooledCallExamples.setCalls = HashCallExamples.setCalls.map HashInner.ofMCall ∧
    (HashInner.runGM {} HashCallExamples.cfgStrict Failover.prefRoute (HashInner.init HashInner.plain [0, 1] 0) 0
        (HashCallExamples.setCalls.map HashInner.ofMCall)).2.map (fun ob => ob.batches.map fun b => (b.server, b.obj, b.served)) =
      [[(0, some 0, true), (1, some 1, true)], [(0, some 0, false)], [(0, none, false), (1, some 1, true)], [(0, some 0, false)],
       [(0, some 0, false)], [(1, some 1, true)], [(0, some 2, true), (1, some 1, true)]] := by
  refine ⟨rfl, rfl, by decide +kernel⟩

end hashpooledmany

/-! ## 15. `HashClient`: what `close()` / `disconnect_all()` leaves open, in histories that mix key-addressed calls and broadcasts

`C01_hash_broadcast_quit_close_leave_no_socket` says that the clients `client.close()` *was called on* have no socket.  It is
not called on every registered client: `_safely_run_func(client, client.close, False)` returns `default_val` without calling
the function for a client whose server has a failure record inside its retry window, and a `remove_server` that raises the
`ValueError` of `hasher.remove_node` (`C13_hash_broadcast_bookkeeping_error_iff`) keeps the function from being called — on
that client when `ignore_exc` swallows it, on that client *and all the clients after it* when it escapes.

So "after `close()` no registered client holds a socket" is **false** as it stands (`…_closes_all_witness`: with
`ignore_exc=False` the `ValueError` escapes and a healthy client keeps its socket; replayed on the real `HashClient`,
`harness/hashbroadcast_close_replay.py`).  What is true (`…_closes_all_partial`): in every history whose clock never goes
back, a `close()` that runs to its end — it always does with `ignore_exc=True` — leaves no registered client with a socket.
The clients it skips are harmless because of an invariant of all such histories (`HashCall.OpenRetry`,
`Pymc/Proofs/HashBroadcastClose.lean`): a registered client that holds a socket while its server has a failure record got that
socket from a retry, made when the retry window had elapsed — a later `OSError` would have closed it
(`PooledCall.stepTagged_oserror_closes`, `Pymc/Proofs/ClientOSErrorCloses.lean`), and the exceptions that leave it open (a
`BaseException`, the `ValueError` of `incr`) leave the record alone — so with a monotone clock the window has still elapsed
when `close()` comes and `client.close()` *is* called.  The hypothesis on the clock is needed (`…_clock_witness`). -/
section hashbroadcastclose
open HashCall

variable {RK : Type}

/-- C01 (`HashClient`, `close()` closes every registered client: **witness against the unrestricted statement**).
`retry_attempts = 1`, `retry_timeout = 1`, `dead_timeout = 5`, `ignore_exc = False`, servers 0 and 1, server 0 down, a clock
that never goes back (`HashBroadcastExamples.closeEscCalls`): `get k` → server 1 (client 1 holds a socket); four `flush_all()` at
t = 0, 2, 4, 6 — server 0 is marked, retried, evicted and, out of rotation, marked and retried again, the `OSError` escaping
each time; `close()` at t = 8: the attempts of server 0 are used up, `remove_server(0)` pops the record, sets the dead time
and raises `ValueError` in `hasher.remove_node`; `except Exception` re-raises; `client.close()` is never called on client 1,
which still holds its socket after `close()`.  With `ignore_exc = True` the same history ends with every socket closed. -/
theorem C01_hash_broadcast_close_closes_all_witness :
    let calls := HashBroadcastExamples.closeEscCalls
    let r := runB {} HashCallExamples.cfgStrict Failover.prefRoute (init [0, 1] 0) 0 calls
    ChronoB 0 calls ∧ calls[5]? = some (.broadcast .close HashBroadcastExamples.silent 8) ∧
    (HashBroadcastExamples.xSummary r)[5]? = some (.inr (.bookkeeping 0 .valueError), [(0, none)]) ∧
    HashBroadcastExamples.xState r =
      ({ nodes := [1], failed := [], dead := [(0, 8)], lastDeadCheck := 0 }, [(0, 0, false, 0), (1, 1, true, 0)]) ∧
    ¬ (∀ x ∈ r.1.clients, x.2.sockOpen = false) ∧
    ∀ x ∈ (runB {} HashCallExamples.cfgIgnore Failover.prefRoute (init [0, 1] 0) 0 calls).1.clients, x.2.sockOpen = false := by
  refine ⟨HashBroadcastExamples.chrono_closeEsc, rfl, by decide +kernel, by decide +kernel, by decide +kernel,
    by decide +kernel⟩

/-- C01 (`HashClient`, `close()` closes every registered client, **partial**: the clock never goes back, the loop of `close()`
runs to its end).  Run any history of key-addressed calls and broadcasts on a fresh `HashClient`, the call times
non-decreasing from the time of construction on (`HashCall.ChronoB`; no hypothesis on what arrives on the connections).  Let
call `i` be a `close()` / `disconnect_all()`, made in the state `st` the first `i` calls lead to.  Then:
1. the state after the first `i + 1` calls is the state this broadcast leaves;
2. with `ignore_exc=True` the broadcast returns normally;
3. it ends either normally or — `ignore_exc=False` — in the `ValueError` of `hasher.remove_node` raised for some server;
4. **if `ignore_exc=True`, or the broadcast returned normally, then afterwards no client object registered in `self.clients`
   holds a socket** — whether or not its server is in rotation, has a failure record, or was skipped by `_safely_run_func`.
The excluded situation is exactly alternative 3 (decidable on the observation: `res ≠ .done`), the witness above. -/
theorem C01_hash_broadcast_close_closes_all_partial (ccfg : Cfg) (fcfg : Failover.Cfg) (route : List Nat → RK → Option Nat)
    (servers : List Nat) (t0 : Nat) (calls : List (BCall RK)) (hch : ChronoB t0 calls)
    (i : Nat) (scripts : Nat → Script) (now : Nat) (hi : calls[i]? = some (.broadcast .close scripts now)) :
    let st := (runB ccfg fcfg route (init servers t0) 0 (calls.take i)).1
    let r := broadcastH ccfg fcfg st i now .close scripts
    (runB ccfg fcfg route (init servers t0) 0 (calls.take (i + 1))).1 = r.1 ∧
    (fcfg.ignoreExc = true → r.2.res = .done) ∧
    (r.2.res = .done ∨ ((∃ s, r.2.res = .bookkeeping s .valueError) ∧ fcfg.ignoreExc = false)) ∧
    ((fcfg.ignoreExc = true ∨ r.2.res = .done) → ∀ x ∈ r.1.clients, x.2.sockOpen = false) := by
  intro st r
  obtain ⟨T, hT, hor⟩ := runB_or_prefix ccfg route (init servers t0) 0 calls t0 (openRetry_init fcfg t0 servers t0) hch i _ hi
  refine ⟨?_, fun hie => bloop_close_done ccfg i now scripts st st.servers hie,
    bloop_close_res ccfg i now scripts st st.servers,
    fun hd => broadcastH_close_all ccfg st i now scripts (openRetry_mono hT hor) hd⟩
  have := runB_take_succ ccfg fcfg route (init servers t0) 0 calls i _ hi
  rw [Nat.zero_add] at this
  exact this

/-- non-vacuity: `HashBroadcastExamples.lateCalls 2` (`ignore_exc=True`, the clock never goes back) — before the `close()` (call 2)
client 0 holds a socket *and* server 0 has a failure record (the retry at t=2 connected, then `incr` raised the `ValueError`
of `int()` after its exchange); the `close()` at t=2 finds the retry window elapsed, calls `client.close()` and leaves no
socket.  And `closeEscCalls` with `ignore_exc=True`: the `ValueError` of `remove_node` is swallowed, `client.close()` is not
called on client 0 (visited, not invoked), and still no socket is left -/
example :
    ChronoB 0 (HashBroadcastExamples.lateCalls 2) ∧
    (HashBroadcastExamples.lateCalls 2)[2]? = some (.broadcast .close HashBroadcastExamples.silent 2) ∧
    HashCallExamples.cfgIgnore.ignoreExc = true ∧
    HashBroadcastExamples.xState
        (runB {} HashCallExamples.cfgIgnore Failover.prefRoute (init [0, 1] 0) 0 ((HashBroadcastExamples.lateCalls 2).take 2)) =
      ({ nodes := [0, 1], failed := [(0, 0, 0)], dead := [], lastDeadCheck := 0 }, [(0, 0, true, 0), (1, 1, false, 0)]) ∧
    HashBroadcastExamples.xState
        (runB {} HashCallExamples.cfgIgnore Failover.prefRoute (init [0, 1] 0) 0 (HashBroadcastExamples.lateCalls 2)) =
      ({ nodes := [0, 1], failed := [], dead := [], lastDeadCheck := 0 }, [(0, 0, false, 0), (1, 1, false, 0)]) ∧
    (HashBroadcastExamples.xSummary
        (runB {} HashCallExamples.cfgIgnore Failover.prefRoute (init [0, 1] 0) 0 HashBroadcastExamples.closeEscCalls))[5]? =
      some (.inr .done, [(0, none), (1, some 1)]) :=
  ⟨HashBroadcastExamples.chrono_late, rfl, rfl, HashBroadcastExamples.demo_late.1, HashBroadcastExamples.demo_late.2.2.1,
    by decide +kernel⟩

/-- C01 (`HashClient`, `close()` closes every registered client: **the hypothesis on the clock is needed**).  `ignore_exc=True`
(so no exception escapes `close()`): `get k` at t=0 → server 0, refused: marked; `incr k` at t=2 → server 0, the retry:
connected, the reply line `x` makes `int()` raise `ValueError` after the exchange — the socket stays open, the failure record
(failed at 0) stays; `close()` *at t=1* — the clock went back: `1 - 0 > retry_timeout` is false, `_safely_run_func` returns
`False` without calling `client.close()`: `close()` returns normally and client 0 still holds its socket.  (Made at t=2 the
same `close()` closes it: the example above.) -/
theorem C01_hash_broadcast_close_closes_all_clock_witness :
    let calls := HashBroadcastExamples.lateCalls 1
    let r := runB {} HashCallExamples.cfgIgnore Failover.prefRoute (init [0, 1] 0) 0 calls
    ¬ ChronoB 0 calls ∧ HashCallExamples.cfgIgnore.ignoreExc = true ∧
    (HashBroadcastExamples.xSummary r)[2]? = some (.inr .done, [(0, none), (1, some 1)]) ∧
    HashBroadcastExamples.xState r =
      ({ nodes := [0, 1], failed := [(0, 0, 0)], dead := [], lastDeadCheck := 0 }, [(0, 0, true, 0), (1, 1, false, 0)]) ∧
    ¬ (∀ x ∈ r.1.clients, x.2.sockOpen = false) := by
  refine ⟨HashBroadcastExamples.not_chrono_late, rfl, by decide +kernel, HashBroadcastExamples.demo_late.2.2.2.2,
    by decide +kernel⟩

/-- C01 (`HashClient`, the invariant behind the partial statement).  In every history of key-addressed calls and broadcasts on
a fresh `HashClient` whose clock never goes back, before every call (number `i`, made at `bc.now`): a registered client
object that holds a socket while its server has a failure record `(attempts, failed_time)` has attempts left and its retry
window has elapsed (`attempts < retry_attempts` and `bc.now - failed_time > retry_timeout`) — so the next
`_safely_run_func` on it does call the function.  Consequently a client whose server is inside its retry window, or has
used up its attempts, holds no socket. -/
theorem C01_hash_broadcast_failed_client_socket (ccfg : Cfg) (fcfg : Failover.Cfg) (route : List Nat → RK → Option Nat)
    (servers : List Nat) (t0 : Nat) (calls : List (BCall RK)) (hch : ChronoB t0 calls) (i : Nat) (bc : BCall RK)
    (hi : calls[i]? = some bc) :
    ∀ x ∈ (runB ccfg fcfg route (init servers t0) 0 (calls.take i)).1.clients, x.2.sockOpen = true →
      ∀ a ft, Failover.alookup x.1 (runB ccfg fcfg route (init servers t0) 0 (calls.take i)).1.fo.failed = some (a, ft) →
        a < fcfg.ra ∧ bc.now - ft > fcfg.rt := by
  obtain ⟨T, hT, hor⟩ := runB_or_prefix ccfg route (init servers t0) 0 calls t0 (openRetry_init fcfg t0 servers t0) hch i bc hi
  exact openRetry_mono hT hor

/-- non-vacuity: before call 2 of `lateCalls 2` client 0 holds a socket and server 0 has the failure record `(0, 0)`:
`0 < retry_attempts = 1` and `2 - 0 > retry_timeout = 1` -/
example :
    HashBroadcastExamples.xState
        (runB {} HashCallExamples.cfgIgnore Failover.prefRoute (init [0, 1] 0) 0 ((HashBroadcastExamples.lateCalls 2).take 2)) =
      ({ nodes := [0, 1], failed := [(0, 0, 0)], dead := [], lastDeadCheck := 0 }, [(0, 0, true, 0), (1, 1, false, 0)]) ∧
    (0 < HashCallExamples.cfgIgnore.ra ∧ 2 - 0 > HashCallExamples.cfgIgnore.rt) :=
  ⟨HashBroadcastExamples.demo_late.1, by decide⟩

end hashbroadcastclose

end C01
