import Pymc.Proofs.FailoverDt
import Pymc.Proofs.FailoverDemo
import Pymc.Proofs.HashCallExamples
import Pymc.Proofs.HashCallSetExamples
import Pymc.Proofs.HashPooledCallExamples
import Pymc.Proofs.HashPooledCallManyExamples
import Pymc.Proofs.HashBroadcastExamples
import Pymc.Proofs.HashBroadcastMixedExamples
/-!
# C13 — failover: bounded probing, eviction, rerouting, recovery

Model: `Pymc/Model/Failover.lean` (a literal transliteration of `pymemcache/client/hash.py`; its
abstractions are listed in the header of that file).  A *history* is a list of events
`(now, env, op)` — one public key-addressed call each — run from `init servers t0` (all servers in
rotation) by `run`; `Chrono t0 evs` says that the clock never goes back.  `route` is any router satisfying
`RouteLaw` (`hasher.get_node` over the nodes currently in rotation).  All theorems are for *all*
histories.  "Failing" means raising `OSError`: other exceptions never touch the bookkeeping.

Proof route: `Pymc/Proofs/FailoverSim.lean` shows that the full machine projected on one server is the
single-server machine of `Pymc/Proofs/FailoverProj.lean` (`sim_stepOp`, `sim_run`), on which the two
spacing properties are inductive invariants.

Known defect (pinned by the repo test `test_ignore_exec_set_many`): with `ignore_exc=True`, `_set_many`
swallows the exception, `_safely_run_set_many` then *clears* the failure record.  The window bounds
therefore carry the hypothesis `NoSetManyUnderIgnoreExc`, and `C13_setmany_ignoreexc_counterexample`
shows they fail without it.
-/
namespace Failover

variable {Key : Type}

/-- C13 (`retry_timeout` window).  In every history without `set_many`-under-`ignore_exc`, for every
server `s`: among the contacts to `s` that failed with OSError (times `F`, chronological), the `i`-th and
the `(i+2)`-th are more than `retry_timeout` apart; hence any window `[t, t + retry_timeout]` contains at
most two of them.  (Successful contacts and contacts raising a non-OSError exception are not bounded:
they do not mark the server.) -/
theorem C13_le_two_per_rt_window (c : Cfg) (route : List Srv → Key → Option Srv) (hlaw : RouteLaw route)
    (hlt : c.rt < c.dt) (servers : List Srv) (t0 : Time) (evs : List (Event Key)) (hch : Chrono t0 evs)
    (hns : NoSetManyUnderIgnoreExc c evs) (s : Srv) :
    let F := oserrTimes s (contactsOf (run c route (init servers t0) evs).2)
    (∀ (i a b : Nat), F[i]? = some a → F[i + 2]? = some b → b - a > c.rt) ∧
    (∀ t : Time, countIn t c.rt F ≤ 2) := by
  intro F
  by_cases hs : s ∈ servers
  · obtain ⟨P, hsim, _, _, _, _, hinv⟩ := proj_run hlt hlaw servers t0 evs hch s hs
    obtain ⟨hI, _⟩ := hinv (noSwallow_of hns)
    have hF : P.hist = F.reverse := by rw [hsim.hist, histOf_eq]
    exact window_of hF (sparse2_sparseK hI.sparse) hI.sorted
  · obtain ⟨_, _, h, _⟩ := proj_run_absent hlt hlaw servers t0 evs hch s hs
    have hF : F = [] := by
      have := histOf_eq s (contactsOf (run c route (init servers t0) evs).2)
      rw [h] at this
      simpa using this.symm
    simp [hF, countIn]

/-- non-vacuity: the demo history (server 0 down from the start, `ra=2, rt=10, dt=60`) satisfies the
hypotheses, and the failed contacts to server 0 happen at 0, 11, 22, 22 and — after revival — 90, 200:
the bound is tight (two contacts at tick 22: the last retry and the final probe). -/
example : RouteLaw prefRoute ∧ demoCfg.rt < demoCfg.dt ∧ Chrono 0 demoHistory ∧
    NoSetManyUnderIgnoreExc demoCfg demoHistory ∧
    oserrTimes 0 (demoLog demoCfg demoHistory) = [0, 11, 22, 22, 90, 200] :=
  ⟨prefRoute_law, by decide, by simp [demoHistory, Chrono, getDown],
    by unfold NoSetManyUnderIgnoreExc; intro h; simp [demoCfg] at h, by decide⟩

/-- C13 (`dead_timeout` window).  In every history without `set_many`-under-`ignore_exc`, for every
server `s`: among the OSError contacts to `s` made since its last successful contact (times `F`), the
`i`-th and the `(i + retry_attempts + 2)`-th are more than `dead_timeout` apart; hence any window
`[t, t + dead_timeout]` contains at most `retry_attempts + 2` of them.  As this holds after every history
(so after every prefix), it bounds every stretch in which all contacts to the server fail. -/
theorem C13_le_ra_plus_two_per_dt_window (c : Cfg) (route : List Srv → Key → Option Srv)
    (hlaw : RouteLaw route) (hlt : c.rt < c.dt) (servers : List Srv) (t0 : Time) (evs : List (Event Key))
    (hch : Chrono t0 evs) (hns : NoSetManyUnderIgnoreExc c evs) (s : Srv) :
    let L := contactsOf (run c route (init servers t0) evs).2
    let F := oserrTimes s (sinceLastOk s L)
    (∀ (i a b : Nat), F[i]? = some a → F[i + (c.ra + 2)]? = some b → b - a > c.dt) ∧
    (∀ t : Time, countIn t c.dt F ≤ c.ra + 2) := by
  intro L F
  by_cases hs : s ∈ servers
  · obtain ⟨P, hsim, _, _, _, h3, hinv⟩ := proj_run hlt hlaw servers t0 evs hch s hs
    obtain ⟨_, hI2⟩ := hinv (noSwallow_of hns)
    have hF : P.streak = F.reverse := by rw [hsim.streak, streakOf_eq]
    exact window_of hF hI2.sparse h3.sorted
  · obtain ⟨_, _, _, h⟩ := proj_run_absent hlt hlaw servers t0 evs hch s hs
    have hF : F = [] := by
      have := streakOf_eq s L
      rw [h] at this
      simpa using this.symm
    simp [hF, countIn]

/-- non-vacuity and tightness: in the demo history the window `[0, 60]` holds exactly
`retry_attempts + 2 = 4` failed contacts to server 0. -/
example : countIn 0 demoCfg.dt (oserrTimes 0 (sinceLastOk 0 (demoLog demoCfg demoHistory))) = 4 := by decide

/-- C13 (`dead_timeout` window, sliding form).  In every history without `set_many`-under-`ignore_exc`, for
every server `s` and every window `[t, t + dead_timeout]` during which no contact to `s` succeeds (the server
keeps failing), at most `retry_attempts + 2` contacts to `s` fail with OSError in that window — counted over
the whole log, wherever the window lies. -/
theorem C13_le_ra_plus_two_per_failing_dt_window (c : Cfg) (route : List Srv → Key → Option Srv)
    (hlaw : RouteLaw route) (hlt : c.rt < c.dt) (servers : List Srv) (t0 : Time) (evs : List (Event Key))
    (hch : Chrono t0 evs) (hns : NoSetManyUnderIgnoreExc c evs) (s : Srv) (t : Time)
    (hfail : ∀ x ∈ contactsOf (run c route (init servers t0) evs).2, x.1 = s → x.2.2 = .ok →
      ¬ (t ≤ x.2.1 ∧ x.2.1 ≤ t + c.dt)) :
    countIn t c.dt (oserrTimes s (contactsOf (run c route (init servers t0) evs).2)) ≤ c.ra + 2 :=
  dt_failing_window hlt hlaw servers t0 s t evs.length evs rfl hch hns hfail

/-- non-vacuity and tightness: server 0 never succeeds in the demo history, so every window qualifies; the
window `[0, 60]` holds exactly 4 failed contacts, the window `[30, 90]` (server out of rotation until the
revival probe at 90) exactly one. -/
example : (∀ x ∈ demoLog demoCfg demoHistory, x.1 = 0 → x.2.2 = .ok → ¬ (0 ≤ x.2.1 ∧ x.2.1 ≤ 0 + demoCfg.dt)) ∧
    countIn 0 demoCfg.dt (oserrTimes 0 (demoLog demoCfg demoHistory)) = 4 ∧
    countIn 30 demoCfg.dt (oserrTimes 0 (demoLog demoCfg demoHistory)) = 1 := by decide

/-- C13 (known defect, counterexample to the window bounds without `NoSetManyUnderIgnoreExc`): with
`ignore_exc=True`, five `set_many` calls at the same tick to a server that is down contact it five times
(more than 2 per `retry_timeout`, more than `retry_attempts + 2 = 4` per `dead_timeout`); it is never
marked failed nor evicted, and no key is reported as failed. -/
theorem C13_setmany_ignoreexc_counterexample :
    let evs := [0, 0, 0, 0, 0].map setManyDown
    Chrono 0 evs ∧
    oserrTimes 0 (demoLog demoCfgIgnore evs) = [0, 0, 0, 0, 0] ∧
    countIn 0 demoCfgIgnore.rt (oserrTimes 0 (demoLog demoCfgIgnore evs)) = 5 ∧
    countIn 0 demoCfgIgnore.dt (oserrTimes 0 (sinceLastOk 0 (demoLog demoCfgIgnore evs))) = 5 ∧
    demoState demoCfgIgnore evs = { nodes := [0, 1], failed := [], dead := [], lastDeadCheck := 0 } ∧
    (∀ o ∈ (run demoCfgIgnore prefRoute (init [0, 1] 0) evs).2, o.1 = .multi [true]) := by
  refine ⟨by simp [Chrono, setManyDown], by decide, by decide, by decide, by decide, by decide⟩

/-- C13 (a single failure does not evict when retries are configured).  With `retry_attempts > 0`, in
every history (no restriction on `set_many`) a configured server with at most one failed (OSError)
contact so far is still in rotation and not marked dead. -/
theorem C13_single_failure_keeps_rotation (c : Cfg) (route : List Srv → Key → Option Srv)
    (hlaw : RouteLaw route) (hlt : c.rt < c.dt) (hra : c.ra > 0) (servers : List Srv) (t0 : Time)
    (evs : List (Event Key)) (hch : Chrono t0 evs) (s : Srv) (hs : s ∈ servers)
    (h1 : (oserrTimes s (contactsOf (run c route (init servers t0) evs).2)).length ≤ 1) :
    s ∈ (run c route (init servers t0) evs).1.nodes ∧
    alookup s (run c route (init servers t0) evs).1.dead = none := by
  obtain ⟨P, hsim, hsm, _, _, _, _⟩ := proj_run hlt hlaw servers t0 evs hch s hs
  have hlen : P.hist.length ≤ 1 := by rw [hsim.hist, histOf_eq]; simpa using h1
  obtain ⟨a, b, _⟩ := hsm.h1 hra hlen
  have hv := hsim.view
  simp only [view, Prod.mk.injEq] at hv
  exact ⟨by simpa [a] using hv.1, by rw [← hv.2.2, b]⟩

/-- non-vacuity: one failed contact, the server stays (and is remembered as failing); the contrast with
`retry_attempts = 0`, where the same single failure evicts at once. -/
example : (oserrTimes 0 (demoLog demoCfg [getDown 0])).length = 1 ∧
    demoState demoCfg [getDown 0] = { nodes := [0, 1], failed := [(0, 0, 0)], dead := [], lastDeadCheck := 0 } ∧
    demoState demoCfgNoRetry [getDown 0] = { nodes := [1], failed := [], dead := [(0, 0)], lastDeadCheck := 0 } := by
  decide

/-- C13 (a single failure does not evict, step form).  With `retry_attempts > 0`, for every history and
every next call: a server that is in rotation and has no failure record before the call (a healthy server,
possibly after earlier failures and recoveries) is still in rotation after the call — whatever happens
during the call, in particular when the call's contact to that server fails. -/
theorem C13_single_failure_keeps_rotation_step (c : Cfg) (route : List Srv → Key → Option Srv)
    (hlaw : RouteLaw route) (hra : c.ra > 0) (servers : List Srv) (t0 : Time) (evs : List (Event Key))
    (e : Event Key) (s : Srv) :
    let st := (run c route (init servers t0) evs).1
    s ∈ st.nodes → alookup s st.failed = none → s ∈ (stepOp c route st e).1.nodes := by
  intro st hin hf
  exact keeps_rotation_step hra hlaw (run_wf hlaw evs _ (wf_init c servers t0)) e s hin hf

/-- non-vacuity: server 0 failed at 0 and recovered at 11 (record cleared); its next failure at 12 marks it
again without evicting it. -/
example :
    let st := demoState demoCfg [getDown 0, getUp 11]
    (0 ∈ st.nodes ∧ alookup 0 st.failed = none) ∧
    stepOp demoCfg prefRoute st (getDown 12) =
      ({ nodes := [0, 1], failed := [(0, 0, 12)], dead := [], lastDeadCheck := 0 },
        .raisedServerError 0 .oserror, [(0, 12, .oserror)]) := by decide

/-- C13 (no internal bookkeeping error).  In every history no call ends in `internalError`: every dict
`pop` / `del` / lookup and every `remove_node` of the failover code finds its key.  (No assumption on
time or configuration.) -/
theorem C13_no_internal_error (c : Cfg) (route : List Srv → Key → Option Srv) (hlaw : RouteLaw route)
    (servers : List Srv) (t0 : Time) (evs : List (Event Key)) :
    ∀ o ∈ (run c route (init servers t0) evs).2, o.1 ≠ .internalError := by
  intro o ho
  obtain ⟨pre, e, post, _, h2⟩ := run_out_mem hlaw evs _ (wf_init c servers t0) o ho
  have hwf := run_wf hlaw pre _ (wf_init c servers t0)
  have := stepOp_res hlaw e hwf
  rw [h2]
  rcases this with h | h | ⟨l, h⟩ | ⟨_, b, h, _⟩ | ⟨_, h, _⟩ <;> rw [h] <;> simp

/-- the `internalError` branch is real in the model: from a state that violates the invariant (a failure
record although `retry_attempts = 0`) the second `remove_server` raises — so the theorem above is about
reachability, not about a branch that cannot fire. -/
example : (stepOp demoCfgNoRetry prefRoute
    { nodes := [0, 1], failed := [(0, 5, 0)], dead := [], lastDeadCheck := 0 } (getDown 20)).2.1 = .internalError := by
  decide

/-- C13 (a server that did not fail is never bypassed).  In every history a configured server without any
failed (OSError) contact so far is in rotation, and has neither a failure record nor a dead record. -/
theorem C13_healthy_never_bypassed (c : Cfg) (route : List Srv → Key → Option Srv) (hlaw : RouteLaw route)
    (hlt : c.rt < c.dt) (servers : List Srv) (t0 : Time) (evs : List (Event Key)) (hch : Chrono t0 evs)
    (s : Srv) (hs : s ∈ servers)
    (h0 : oserrTimes s (contactsOf (run c route (init servers t0) evs).2) = []) :
    s ∈ (run c route (init servers t0) evs).1.nodes ∧
    alookup s (run c route (init servers t0) evs).1.failed = none ∧
    alookup s (run c route (init servers t0) evs).1.dead = none := by
  obtain ⟨P, hsim, hsm, _, _, _, _⟩ := proj_run hlt hlaw servers t0 evs hch s hs
  have hnil : P.hist = [] := by rw [hsim.hist, histOf_eq, h0]; rfl
  obtain ⟨a, b, d⟩ := hsm.h0 hnil
  have hv := hsim.view
  simp only [view, Prod.mk.injEq] at hv
  exact ⟨by simpa [a] using hv.1, by rw [← hv.2.1, b], by rw [← hv.2.2, d]⟩

/-- non-vacuity: in the demo history server 1 never fails (and serves the keys of server 0 while it is out). -/
example : oserrTimes 1 (demoLog demoCfg demoHistory) = [] ∧
    (1, 30, Outcome.ok) ∈ demoLog demoCfg demoHistory := by decide

/-- C13 (rerouting).  For every history `evs` and next call `e`: every contact the call makes goes to the
server that the router picks for one of the call's keys *among the nodes in rotation* when the keys are
routed (`st1` = the state after `_get_client`'s `_retry_dead` check); that server is in rotation and not
in `_dead_clients` at that moment, it is contacted at the call's time and does what the environment says.
So while a server is out, its keys are served by the router's choice among the remaining servers, and a
server out of rotation is never contacted — the only contact to a server no longer in rotation is the
"final probe" made by the very call that evicts it. -/
theorem C13_rerouted_while_out (c : Cfg) (route : List Srv → Key → Option Srv) (hlaw : RouteLaw route)
    (servers : List Srv) (t0 : Time) (evs : List (Event Key)) (e : Event Key) :
    let st := (run c route (init servers t0) evs).1
    ∀ x ∈ (stepOp c route st e).2.2, ∃ st1, retryIfDead c e.now st = some st1 ∧
      (∃ k ∈ e.op.keys, route st1.nodes k = some x.1) ∧ x.1 ∈ st1.nodes ∧ alookup x.1 st1.dead = none ∧
      x.2.1 = e.now ∧ x.2.2 = e.env x.1 := by
  intro st
  have hwf : WF c st := run_wf hlaw evs _ (wf_init c servers t0)
  have h := (stepOp_ind hlaw e hwf
    (fun _ cs => ∀ x ∈ cs, (∃ k ∈ e.op.keys, route (pre c e.now st e.op.keys).nodes k = some x.1) ∧
      x.2.1 = e.now ∧ x.2.2 = e.env x.1) ?_ (by simp)).1
  · intro x hx
    obtain ⟨⟨k, hk, hr⟩, h2, h3⟩ := h x hx
    have hp : pre c e.now st e.op.keys = afterRetry c e.now st := by
      unfold pre
      cases hks : e.op.keys with
      | nil => rw [hks] at hk; simp at hk
      | cons _ _ => rfl
    rw [hp] at hr
    have hin := hlaw.mem _ _ _ hr
    refine ⟨afterRetry c e.now st, retryIfDead_eq c e.now st hwf.deadNodup, ⟨k, hk, hr⟩, hin, ?_, h2, h3⟩
    cases hd : alookup x.1 (afterRetry c e.now st).dead with
    | none => rfl
    | some td => exact absurd hin ((wf_afterRetry hwf).deadOut _ td hd)
  · intro st' b cs0 hb hwf' hin' hq x hx
    have hok := stepOK_runOneOf (c := c) (now := e.now) (env := e.env) e.op hwf' hin'
    rw [List.mem_append] at hx
    rcases hx with hx | hx
    · exact hq x hx
    · rcases hok.contacts with h | h <;> rw [h] at hx <;> simp at hx
      subst hx
      exact ⟨hb, rfl, rfl⟩

/-- non-vacuity: while server 0 is out (evicted at 22) the call at 30 for a key that prefers server 0 is
served by server 1; the call at 22 that evicts server 0 still probes it once. -/
example : (stepOp demoCfg prefRoute (demoState demoCfg ([0, 11, 22, 22].map getDown)) (getDown 30)).2.2 =
      [(1, 30, .ok)] ∧
    (stepOp demoCfg prefRoute (demoState demoCfg ([0, 11, 22].map getDown)) (getDown 22)) =
      ({ nodes := [1], failed := [(0, 0, 22)], dead := [(0, 22)], lastDeadCheck := 0 },
        .raisedServerError 0 .oserror, [(0, 22, .oserror)]) := by decide

/-- C13 (what can escape).  For every history and next call, the call either returns normally (`value`,
`default`, `multi`) or — only without `ignore_exc` — raises the very exception that a server it contacted
during this call raised (`e.env b ≠ ok`, and the contact is in the call's log), or "all servers down", and
the latter only if no node is in rotation when the key is routed.  In particular never `internalError`. -/
theorem C13_only_server_error_or_all_down_escapes (c : Cfg) (route : List Srv → Key → Option Srv)
    (hlaw : RouteLaw route) (servers : List Srv) (t0 : Time) (evs : List (Event Key)) (e : Event Key) :
    let st := (run c route (init servers t0) evs).1
    let out := stepOp c route st e
    out.2.1 = .value ∨ out.2.1 = .default ∨ (∃ l, out.2.1 = .multi l) ∨
    (c.ignoreExc = false ∧ ∃ b, out.2.1 = .raisedServerError b (e.env b) ∧ e.env b ≠ .ok ∧
      (b, e.now, e.env b) ∈ out.2.2) ∨
    (c.ignoreExc = false ∧ out.2.1 = .raisedAllDown ∧
      ∃ st1, retryIfDead c e.now st = some st1 ∧ st1.nodes = []) := by
  intro st out
  have hwf : WF c st := run_wf hlaw evs _ (wf_init c servers t0)
  rcases stepOp_res hlaw e hwf with h | h | h | h | ⟨h1, h2, h3⟩
  · exact Or.inl h
  · exact Or.inr (Or.inl h)
  · exact Or.inr (Or.inr (Or.inl h))
  · exact Or.inr (Or.inr (Or.inr (Or.inl h)))
  · exact Or.inr (Or.inr (Or.inr (Or.inr ⟨h1, h2, _, retryIfDead_eq c e.now st hwf.deadNodup, h3⟩)))

/-- both kinds of escape happen: the server's own OSError, and "all servers down" once the only server
has been evicted. -/
example : (stepOp demoCfg prefRoute (init [0, 1] 0) (getDown 0)).2.1 = .raisedServerError 0 .oserror ∧
    (stepOp demoCfgNoRetry prefRoute (demoState demoCfgNoRetry [getDown 0, { getDown 0 with env := fun _ => .oserror }])
      (getDown 1)).2.1 = .raisedAllDown := by decide

/-- C13 (nothing escapes with `ignore_exc`).  With `ignore_exc=True` every call of every history returns
normally. -/
theorem C13_nothing_escapes_with_ignore_exc (c : Cfg) (route : List Srv → Key → Option Srv)
    (hlaw : RouteLaw route) (hi : c.ignoreExc = true) (servers : List Srv) (t0 : Time)
    (evs : List (Event Key)) :
    ∀ o ∈ (run c route (init servers t0) evs).2, o.1 = .value ∨ o.1 = .default ∨ ∃ l, o.1 = .multi l := by
  intro o ho
  obtain ⟨pre, e, post, _, h2⟩ := run_out_mem hlaw evs _ (wf_init c servers t0) o ho
  have hwf := run_wf hlaw pre _ (wf_init c servers t0)
  rw [h2]
  rcases stepOp_res hlaw e hwf with h | h | h | ⟨h, _⟩ | ⟨h, _⟩
  · exact Or.inl h
  · exact Or.inr (Or.inl h)
  · exact Or.inr (Or.inr h)
  · rw [hi] at h; cases h
  · rw [hi] at h; cases h

/-- non-vacuity: under `ignore_exc` the failing calls of the demo history return the default. -/
example : ∀ o ∈ (run demoCfgIgnore prefRoute (init [0] 0) demoHistory).2, o.1 = .default := by decide

/-- C13 (recovery).  After every history: (1) every record `(s, td)` of `_dead_clients` satisfies
`_last_dead_check_time ≤ td + dead_timeout`; hence (2) any `_get_client` at a time
`now > td + 2·dead_timeout` — whatever the key — puts `s` back into rotation before routing. -/
theorem C13_recovery (c : Cfg) (route : List Srv → Key → Option Srv) (hlaw : RouteLaw route)
    (servers : List Srv) (t0 : Time) (evs : List (Event Key)) (hch : Chrono t0 evs) :
    let st := (run c route (init servers t0) evs).1
    (∀ s td, alookup s st.dead = some td → st.lastDeadCheck ≤ td + c.dt) ∧
    (∀ s td now, alookup s st.dead = some td → now > td + 2 * c.dt →
      ∀ k : Key, s ∈ (getClient c route now st k).1.nodes ∧ alookup s (getClient c route now st k).1.dead = none) := by
  intro st
  have hwf : WF c st := run_wf hlaw evs _ (wf_init c servers t0)
  have hT := timed_run hlaw evs _ t0 (wf_init c servers t0) (timed_init c servers t0) hch
  refine ⟨hT.dead, ?_⟩
  intro s td now hs hnow k
  rw [getClient_eq route now k hwf]
  exact recovered hwf hT hs hnow

/-- non-vacuity and tightness of the factor two: server 0 is dead since 22 (`dt = 60`); a check at 82 fires
without reviving it (`82 - 22 = 60` is not `> 60`) and moves `_last_dead_check_time` to 82, so the call at
142 (`= 22 + 2·60`) still finds it out of rotation; the call at 143 brings it back. -/
example :
    let st := demoState demoCfg ([0, 11, 22, 22].map getDown ++ [getUp 82])
    alookup 0 st.dead = some 22 ∧ st.lastDeadCheck = 82 ∧
    (getClient demoCfg prefRoute 142 st [0, 1]).1.nodes = [1] ∧
    (getClient demoCfg prefRoute 143 st [0, 1]).1.nodes = [1, 0] := by decide

/-- C13 (placement returns to the original).  After every history, if every record of `_dead_clients` is
older than two `dead_timeout`s at the time of the next `_get_client`, that call leaves `_dead_clients`
empty and the nodes in rotation are exactly the configured servers again (as a set; rendezvous hashing
does not depend on the order of the nodes). -/
theorem C13_recovery_placement (c : Cfg) (route : List Srv → Key → Option Srv) (hlaw : RouteLaw route)
    (hlt : c.rt < c.dt) (servers : List Srv) (t0 : Time) (evs : List (Event Key)) (hch : Chrono t0 evs)
    (now : Time) (k : Key)
    (hall : ∀ s td, alookup s (run c route (init servers t0) evs).1.dead = some td → now > td + 2 * c.dt) :
    let st1 := (getClient c route now (run c route (init servers t0) evs).1 k).1
    st1.dead = [] ∧ st1.nodes.Perm (init servers t0).nodes := by
  intro st1
  have hwf : WF c (run c route (init servers t0) evs).1 := run_wf hlaw evs _ (wf_init c servers t0)
  have hT := timed_run hlaw evs _ t0 (wf_init c servers t0) (timed_init c servers t0) hch
  have e : st1 = afterRetry c now (run c route (init servers t0) evs).1 := by
    simp only [st1, getClient_eq route now k hwf]
  obtain ⟨h1, h2⟩ := afterRetry_all hwf hT hall
  rw [e]
  refine ⟨h1, ?_⟩
  show (afterRetry c now (run c route (init servers t0) evs).1).nodes.Perm (dedup servers)
  rw [List.perm_ext_iff_of_nodup (wf_afterRetry hwf).nodesNodup (dedup_nodup servers)]
  intro x
  rw [h2, dedup_mem]
  constructor
  · intro hx
    by_cases hs : x ∈ servers
    · exact hs
    · obtain ⟨a, b, _⟩ := proj_run_absent hlt hlaw servers t0 evs hch x hs
      rcases hx with hx | ⟨td, hx⟩
      · exact absurd hx a
      · rw [b] at hx; cases hx
  · intro hs
    obtain ⟨P, hsim, _, hal, _, _, _⟩ := proj_run hlt hlaw servers t0 evs hch x hs
    have hv := hsim.view
    simp only [view, Prod.mk.injEq] at hv
    rcases hal with h | h
    · left; simpa [h] using hv.1
    · right
      rw [hv.2.2] at h
      exact Option.isSome_iff_exists.1 h

/-- non-vacuity: after the demo prefix server 0 is dead since 22; at 143 the hypothesis holds and the
rotation is `[1, 0]`, a permutation of the original `[0, 1]`. -/
example :
    let st := demoState demoCfg ([0, 11, 22, 22].map getDown)
    (∀ s td, alookup s st.dead = some td → 143 > td + 2 * demoCfg.dt) ∧
    (getClient demoCfg prefRoute 143 st [0, 1]).1.nodes = [1, 0] := by
  refine ⟨?_, by decide⟩
  intro s td h
  have : demoState demoCfg ([0, 11, 22, 22].map getDown) =
      { nodes := [1], failed := [(0, 0, 22)], dead := [(0, 22)], lastDeadCheck := 0 } := by decide
  rw [this] at h
  simp only [alookup] at h
  split at h
  · cases h; decide
  · cases h

/-! ## `HashClient ∘ Client`: the inner client is a real `Client`

Model: `Pymc/Model/HashCall.lean` — the bookkeeping of this file composed with `Client.call`: a history is a list of
single-key calls `(routing key, operation, script of the contacted server's connection, time)`; the state is the
bookkeeping state plus `self.clients` (per server the client object registered for it, with its socket and pipe);
every contact is a real `Client.call` on that object, and what it returns or raises determines the `Outcome`
(`HashCall.outcomeOf`: returned → `ok`; `OSError` → `oserror`; any other exception → `othererror`; a
`BaseException` escapes through both handlers whatever `ignore_exc` says — for the bookkeeping it is an `othererror`).
The theorems below say that forgetting the inner clients (`HashCall.St.proj`) turns a composed run into a run of the
abstract model — so everything proved above about `run` holds for the composed model, with the environment no longer
an input but computed from the connection scripts. -/
section hash

/-- C13 (`HashClient ∘ Client`, one call).  After any composed history, for the next call: if `check_key_helper`
rejects its key, the call raises `MemcacheIllegalInputError` and leaves the whole state alone; otherwise forgetting
the inner clients commutes with the step — the bookkeeping state after the composed call, its result (in the
vocabulary of the abstract model, `HashCall.absRes`) and its contact log are those of the abstract `stepOp` for the
event `_run_cmd(rk)` at the same time, in the environment in which the server does what the inner `Client.call`
did (at most one server is contacted, so a constant environment suffices). -/
theorem C13_hash_step_projection (ccfg : Wire.Cfg) (c : Cfg) (route : List Srv → Key → Option Srv) (hlaw : RouteLaw route)
    (servers : List Srv) (t0 : Time) (calls : List (HashCall.HCall Key)) (hc : HashCall.HCall Key) :
    let st := (HashCall.runH ccfg c route (HashCall.init servers t0) 0 calls).1
    let out := HashCall.callH ccfg c route st calls.length hc.now hc.rk hc.call hc.sc
    (HashCall.keyOk ccfg hc.call = false → out = (st, { res := .illegalKey })) ∧
    (HashCall.keyOk ccfg hc.call = true →
      stepOp c route st.proj { now := hc.now, env := fun _ => HashCall.outcomeOfObs out.2, op := .runCmd hc.rk } =
        (out.1.proj, HashCall.absRes c out.2.res, HashCall.contactsOfObs hc.now out.2)) := by
  intro st out
  have hcov := (HashCall.runH_proj ccfg c route hlaw (HashCall.init servers t0) 0 calls (HashCall.cover_init servers t0)).2
  exact HashCall.callH_proj ccfg c route hlaw st calls.length hc.now hc.rk hc.call hc.sc hcov

/-- C13 (`HashClient ∘ Client`, runs).  A composed run from a fresh `HashClient` is a run of the abstract model from
`init`: the events are the calls whose key passes `check_key_helper` (`HashCall.eventsOf`: same times, same routing
keys, `_run_cmd`, the environment of each being the outcome of its inner `Client.call`); the bookkeeping state at the
end is the projection of the composed state, and the per-event results and contact logs are those of the composed
observations (`HashCall.absOuts`). -/
theorem C13_hash_projection (ccfg : Wire.Cfg) (c : Cfg) (route : List Srv → Key → Option Srv) (hlaw : RouteLaw route)
    (servers : List Srv) (t0 : Time) (calls : List (HashCall.HCall Key)) :
    let r := HashCall.runH ccfg c route (HashCall.init servers t0) 0 calls
    run c route (init servers t0) (HashCall.eventsOf calls r.2) = (r.1.proj, HashCall.absOuts c calls r.2) := by
  intro r
  have h := (HashCall.runH_proj ccfg c route hlaw (HashCall.init servers t0) 0 calls (HashCall.cover_init servers t0)).1
  rw [HashCall.init_proj] at h
  exact h

/-- non-vacuity: the six-call history `HashCallExamples.demoCalls` (server 0 serves, fails with `EPIPE`, refuses the
retry and the final probe, is evicted; the key is rerouted to server 1; server 0 is brought back) gives rise to six
abstract events whose environments are `ok / oserror / oserror / oserror / ok / ok`, and `Failover.run` on them ends
in the same bookkeeping state with the same contact log. -/
example :
    (HashCall.eventsOf HashCallExamples.demoCalls
        (HashCall.runH {} HashCallExamples.cfgStrict prefRoute (HashCall.init [0, 1] 0) 0 HashCallExamples.demoCalls).2).map
        (fun e => (e.now, e.env 0, e.env 1)) =
      [(0, .ok, .ok), (1, .oserror, .oserror), (3, .oserror, .oserror), (5, .oserror, .oserror), (6, .ok, .ok), (12, .ok, .ok)] ∧
    run HashCallExamples.cfgStrict prefRoute (init [0, 1] 0)
        (HashCall.eventsOf HashCallExamples.demoCalls
          (HashCall.runH {} HashCallExamples.cfgStrict prefRoute (HashCall.init [0, 1] 0) 0 HashCallExamples.demoCalls).2) =
      ({ nodes := [1, 0], failed := [], dead := [], lastDeadCheck := 12 },
       [(.value, [(0, 0, .ok)]), (.raisedServerError 0 .oserror, [(0, 1, .oserror)]),
        (.raisedServerError 0 .oserror, [(0, 3, .oserror)]), (.raisedServerError 0 .oserror, [(0, 5, .oserror)]),
        (.value, [(1, 6, .ok)]), (.value, [(0, 12, .ok)])]) :=
  HashCallExamples.demo_projection

/-- C13 (`HashClient ∘ Client`, no internal bookkeeping error).  In every composed history no call ends in
`internalError`: every dict `pop` / `del` / lookup of the failover code — including `self.clients[server]` — and every
`remove_node` finds its key. -/
theorem C13_hash_no_internal_error (ccfg : Wire.Cfg) (c : Cfg) (route : List Srv → Key → Option Srv) (hlaw : RouteLaw route)
    (servers : List Srv) (t0 : Time) (calls : List (HashCall.HCall Key)) :
    ∀ ob ∈ (HashCall.runH ccfg c route (HashCall.init servers t0) 0 calls).2, ob.res ≠ .internalError := by
  intro ob hob hres
  obtain ⟨i, hi⟩ := List.getElem?_of_mem hob
  have hlen := HashCall.runH_length ccfg c route (HashCall.init servers t0) 0 calls
  have hlt : i < calls.length := by
    rw [← hlen]
    exact (List.getElem?_eq_some_iff.mp hi).1
  have hproj := C13_hash_projection ccfg c route hlaw servers t0 calls
  have hmem := HashCall.mem_absOuts c calls _ i calls[i] ob (List.getElem?_eq_getElem hlt) hi (by rw [hres]; rfl)
  simp only at hproj
  have hout : (HashCall.absRes c ob.res, HashCall.contactsOfObs calls[i].now ob) ∈
      (run c route (init servers t0) (HashCall.eventsOf calls
        (HashCall.runH ccfg c route (HashCall.init servers t0) 0 calls).2)).2 := by
    rw [hproj]; exact hmem
  have := C13_no_internal_error c route hlaw servers t0 _ _ hout
  rw [hres] at this
  exact this rfl

/-- C13 (`HashClient ∘ Client`, both window bounds).  In every composed history whose clock never goes back, for every
server `s`: among the contacts to `s` during which the inner `Client.call` raised an `OSError` (times `F`,
chronological — `HashCall.contactLog` is the list of all contacts with the outcomes of the real inner calls), any
window `[t, t + retry_timeout]` contains at most two; and among those made since the last contact to `s` that
returned normally, any window `[t, t + dead_timeout]` contains at most `retry_attempts + 2`.  (A composed history has
no `set_many`, so no extra hypothesis.) -/
theorem C13_hash_probing_windows (ccfg : Wire.Cfg) (c : Cfg) (route : List Srv → Key → Option Srv) (hlaw : RouteLaw route)
    (hlt : c.rt < c.dt) (servers : List Srv) (t0 : Time) (calls : List (HashCall.HCall Key))
    (hch : HashCall.ChronoCalls t0 calls) (s : Srv) :
    let L := HashCall.contactLog calls (HashCall.runH ccfg c route (HashCall.init servers t0) 0 calls).2
    (∀ t : Time, countIn t c.rt (oserrTimes s L) ≤ 2) ∧
    (∀ t : Time, countIn t c.dt (oserrTimes s (sinceLastOk s L)) ≤ c.ra + 2) := by
  intro L
  have hproj := C13_hash_projection ccfg c route hlaw servers t0 calls
  simp only at hproj
  have hL : L = contactsOf (run c route (init servers t0) (HashCall.eventsOf calls
      (HashCall.runH ccfg c route (HashCall.init servers t0) 0 calls).2)).2 := by
    rw [hproj]
    exact (HashCall.runH_contactLog ccfg c route (HashCall.init servers t0) 0 calls).symm
  have hchr := HashCall.chrono_eventsOf t0 calls (HashCall.runH ccfg c route (HashCall.init servers t0) 0 calls).2 hch
  have hns : NoSetManyUnderIgnoreExc c (HashCall.eventsOf calls
      (HashCall.runH ccfg c route (HashCall.init servers t0) 0 calls).2) :=
    fun _ e he => HashCall.eventsOf_runCmd calls _ e he
  rw [hL]
  exact ⟨(C13_le_two_per_rt_window c route hlaw hlt servers t0 _ hchr hns s).2,
    (C13_le_ra_plus_two_per_dt_window c route hlaw hlt servers t0 _ hchr hns s).2⟩

/-- non-vacuity: the demo history is chronological, `prefRoute` is a lawful router, and the `OSError` contacts to
server 0 happen at 1, 3, 5. -/
example : HashCall.ChronoCalls 0 HashCallExamples.demoCalls ∧ RouteLaw prefRoute ∧
    HashCallExamples.cfgStrict.rt < HashCallExamples.cfgStrict.dt ∧
    oserrTimes 0 (HashCall.contactLog HashCallExamples.demoCalls
      (HashCall.runH {} HashCallExamples.cfgStrict prefRoute (HashCall.init [0, 1] 0) 0 HashCallExamples.demoCalls).2) = [1, 3, 5] :=
  ⟨by simp [HashCall.ChronoCalls, HashCallExamples.demoCalls], prefRoute_law, by decide, by decide +kernel⟩

end hash

/-! ## `HashClient ∘ Client`: the multi-key paths (`get_many` / `gets_many`, `set_many`, `delete_many`)

Model: `Pymc/Model/HashCallMany.lean` — a history is a list of general calls (`HashCall.MCall`: a single-key
operation, `get_many` / `gets_many`, `set_many`, or `delete_many`), run by `HashCall.runM`; every contact is a real
`Client.call` (`.getMany batch` / `.setMany batch …` / `.delete key …`) on the client object registered for the
server.  What a call is for the abstract model is `HashCall.absOfCall`: a single-key call is a `_run_cmd` event (none
when `check_key_helper` rejected the key); `get_many` / `set_many` are ONE `.getMany` / `.setMany` event over the
routing keys, in the environment `HashCall.envOfBatches` read off the observation (every server does what the inner
`Client.call` made on it did; a server is handed at most one batch); `delete_many` — in the code a loop of
`_run_cmd("delete", …)` — is the sequence of `_run_cmd` events of the `delete`s it got round to.

**Hypothesis** (`HashCall.projOK c mc ob`, a decidable predicate on the call and its observation; `HashCall.allProjOK`
for a run): nothing for a single-key call or a `delete_many`; a `get_many` / `set_many` must not have been ended

* by `check_key_helper` (`isIllegalKey ob.res = false`): the abstract model does not validate keys, and the real
  first loop has by then run `_retry_dead` for the keys in front of the illegal one
  (`HashCallExamples.demo_illegalKey_needed`);
* under `ignore_exc=True` only: by a `BaseException` of an inner call (`Exc.sock code`, `code ≥ 100`;
  `HashCall.escapedBase ob.res = false` — a `BaseException` always ends the call, so this is the same as "no inner call
  of the public call raised one"): it escapes at once, while the abstract model, which has no `BaseException`, sees a
  failure that `ignore_exc` swallows and carries on with the remaining batches — and its `_set_many` even counts the
  batch as served (`HashCallExamples.demo_baseExc_needed`).  Without `ignore_exc` both models stop there, and no
  hypothesis is needed (`HashCallExamples.demo_baseExc_strict`). -/
section hashmany

variable {RK : Type}

/-- C13 (`HashClient ∘ Client`, one multi-key call).  After any general composed history, for the next call at time
`now`, if it satisfies `HashCall.projOK`:

* a `get_many` / `gets_many` is the abstract `stepOp` for the event `.getMany` over the routing keys, in the environment
  read off the observation: same bookkeeping state afterwards, same result (`HashCall.absResMany`: an escaping exception
  as in the single-key case; when the method returned, per key whether its batch was served — the assignment of keys to
  servers being that of the abstract model on the state before the call), same contact log;
* a `set_many` likewise is the abstract `stepOp` for the event `.setMany`;
* any call (this covers `delete_many`, a sequence of `_run_cmd` events, and the single-key calls) is the abstract `run`
  over `HashCall.absOfCall`. -/
theorem C13_hash_many_step_projection (ccfg : Wire.Cfg) (c : Cfg) (route : List Srv → RK → Option Srv) (hlaw : RouteLaw route)
    (servers : List Srv) (t0 : Time) (calls : List (HashCall.MCall RK)) (now : Time) :
    let st := (HashCall.runM ccfg c route (HashCall.init servers t0) 0 calls).1
    (∀ (gets : Bool) (keys : List (RK × _root_.Key.K)) (scripts : Srv → Exchange.Script),
      let mc : HashCall.MCall RK := { op := .getMany gets keys scripts, now := now }
      let out := HashCall.callM ccfg c route st calls.length mc
      HashCall.projOK c mc out.2 = true →
        stepOp c route st.proj
            { now := now, env := HashCall.envOfBatches out.2.batches, op := .getMany (keys.map (·.1)) } =
          (out.1.proj, HashCall.absResMany c (HashCall.assignedOf c route now st.fo (keys.map (·.1))) out.2,
            HashCall.contactsOfBatches now out.2.batches)) ∧
    (∀ (items : List (RK × _root_.Key.K × Wire.Val)) (expire : Wire.IntArg) (noreply : Option Bool) (flags : Option Int)
        (scripts : Srv → List (_root_.Key.K × Wire.Val) → Exchange.Script),
      let mc : HashCall.MCall RK := { op := .setMany items expire noreply flags scripts, now := now }
      let out := HashCall.callM ccfg c route st calls.length mc
      HashCall.projOK c mc out.2 = true →
        stepOp c route st.proj
            { now := now, env := HashCall.envOfBatches out.2.batches, op := .setMany (items.map (·.1)) } =
          (out.1.proj, HashCall.absResMany c (HashCall.assignedOf c route now st.fo (items.map (·.1))) out.2,
            HashCall.contactsOfBatches now out.2.batches)) ∧
    (∀ mc : HashCall.MCall RK,
      let out := HashCall.callM ccfg c route st calls.length mc
      HashCall.projOK c mc out.2 = true →
        run c route st.proj (HashCall.absOfCall ccfg c route st calls.length mc).1 =
          (out.1.proj, (HashCall.absOfCall ccfg c route st calls.length mc).2)) := by
  intro st
  have hcov : HashCall.Cover st :=
    HashCall.cover_runM ccfg c route hlaw (HashCall.init servers t0) 0 calls (HashCall.cover_init servers t0)
  refine ⟨?_, ?_, ?_⟩
  · intro gets keys scripts mc out hok
    obtain ⟨hill, hb⟩ := HashCall.projOK_many (r := out.2.res) hok
    exact HashCall.getManyH_proj ccfg c route hlaw st calls.length now gets keys scripts hcov hill hb
  · intro items expire noreply flags scripts mc out hok
    obtain ⟨hill, hb⟩ := HashCall.projOK_many (r := out.2.res) hok
    exact HashCall.setManyH_proj ccfg c route hlaw st calls.length now items expire noreply flags scripts hcov hill hb
  · intro mc out hok
    exact HashCall.callM_proj ccfg c route hlaw st calls.length mc hcov hok

/-- C13 (`HashClient ∘ Client`, general runs).  A general composed run from a fresh `HashClient` in which every call
satisfies `HashCall.projOK` is a run of the abstract model from `init` over the abstract history `HashCall.absOfRun`
(per call the events of `HashCall.absOfCall`): the bookkeeping state at the end is the projection of the composed
state, and the per-event results and contact logs are those read off the composed observations. -/
theorem C13_hash_many_projection (ccfg : Wire.Cfg) (c : Cfg) (route : List Srv → RK → Option Srv) (hlaw : RouteLaw route)
    (servers : List Srv) (t0 : Time) (calls : List (HashCall.MCall RK)) :
    let r := HashCall.runM ccfg c route (HashCall.init servers t0) 0 calls
    HashCall.allProjOK c calls r.2 = true →
      run c route (init servers t0) (HashCall.absOfRun ccfg c route (HashCall.init servers t0) 0 calls).1 =
        (r.1.proj, (HashCall.absOfRun ccfg c route (HashCall.init servers t0) 0 calls).2) := by
  intro r hok
  have h := HashCall.runM_proj ccfg c route hlaw (HashCall.init servers t0) 0 calls (HashCall.cover_init servers t0) hok
  rw [HashCall.init_proj] at h
  exact h

/-- non-vacuity: the seven-call history `HashCallExamples.setCalls` (`set_many` over two servers with `noreply=False`;
server 0 fails, is skipped inside its retry window — its keys are reported —, refuses the retry made by a `delete_many`,
is evicted by a `set_many`, both items go to server 1, server 0 comes back) satisfies the hypothesis; it gives rise to
eight abstract events (`(time, (kind, keys), env 0, env 1)`; kind 2 = `set_many`, 0 = `_run_cmd`: one for the
`delete_many` that raised at its first key, two for the one that completed), and `Failover.run` on them ends in the same
bookkeeping state with the results and contact logs read off the composed run.  The `get_many` history
`HashCallExamples.manyCalls` under `ignore_exc=True` satisfies the hypothesis as well. -/
example :
    HashCall.allProjOK HashCallExamples.cfgStrict HashCallExamples.setCalls
      (HashCall.runM {} HashCallExamples.cfgStrict prefRoute (HashCall.init [0, 1] 0) 0 HashCallExamples.setCalls).2 = true ∧
    (HashCall.absOfRun {} HashCallExamples.cfgStrict prefRoute (HashCall.init [0, 1] 0) 0 HashCallExamples.setCalls).1.map
        (fun e => (e.now, HashCallExamples.opTag e.op, e.env 0, e.env 1)) =
      [(0, (2, 2), .ok, .ok), (1, (2, 2), .oserror, .ok), (2, (2, 2), .ok, .ok), (3, (0, 1), .oserror, .oserror),
       (5, (2, 2), .oserror, .ok), (6, (2, 2), .ok, .ok), (12, (0, 1), .ok, .ok), (12, (0, 1), .ok, .ok)] ∧
    (HashCall.absOfRun {} HashCallExamples.cfgStrict prefRoute (HashCall.init [0, 1] 0) 0 HashCallExamples.setCalls).2 =
      [(.multi [true, true], [(0, 0, .ok), (1, 0, .ok)]),
       (.raisedServerError 0 .oserror, [(0, 1, .oserror)]),
       (.multi [false, true], [(1, 2, .ok)]),
       (.raisedServerError 0 .oserror, [(0, 3, .oserror)]),
       (.raisedServerError 0 .oserror, [(0, 5, .oserror)]),
       (.multi [true, true], [(1, 6, .ok)]),
       (.value, [(0, 12, .ok)]),
       (.value, [(1, 12, .ok)])] ∧
    run HashCallExamples.cfgStrict prefRoute (init [0, 1] 0)
        (HashCall.absOfRun {} HashCallExamples.cfgStrict prefRoute (HashCall.init [0, 1] 0) 0 HashCallExamples.setCalls).1 =
      ({ nodes := [1, 0], failed := [], dead := [], lastDeadCheck := 12 },
       (HashCall.absOfRun {} HashCallExamples.cfgStrict prefRoute (HashCall.init [0, 1] 0) 0 HashCallExamples.setCalls).2) ∧
    HashCall.allProjOK HashCallExamples.cfgIgnore HashCallExamples.manyCalls
      (HashCall.runM {} HashCallExamples.cfgIgnore prefRoute (HashCall.init [0, 1] 0) 0 HashCallExamples.manyCalls).2 = true :=
  ⟨HashCallExamples.demo_set_projection.1, HashCallExamples.demo_set_projection.2.1,
    HashCallExamples.demo_set_projection.2.2.1, HashCallExamples.demo_set_projection.2.2.2, HashCallExamples.demo_many_projOK⟩

/-- the hypothesis is needed, 1 (`BaseException` under `ignore_exc`): `get_many([k, z])` on a fresh
`HashClient(ignore_exc=True)` over servers 0 and 1, a `KeyboardInterrupt` while connecting to server 0.  The real call is
over at once (server 1 is never contacted); the abstract `get_many` in the environment of the observation swallows the
failure of server 0 and contacts server 1. -/
example :
    HashCall.projOK HashCallExamples.cfgIgnore HashCallExamples.getInterrupted
      (HashCall.callM {} HashCallExamples.cfgIgnore prefRoute (HashCall.init [0, 1] 0) 0 HashCallExamples.getInterrupted).2 = false ∧
    (HashCall.callM {} HashCallExamples.cfgIgnore prefRoute (HashCall.init [0, 1] 0) 0 HashCallExamples.getInterrupted).2.res =
      .raised 0 (.sock 130) ∧
    (HashCall.absOfCall {} HashCallExamples.cfgIgnore prefRoute (HashCall.init [0, 1] 0) 0 HashCallExamples.getInterrupted).2 =
      [(.default, [(0, 0, .othererror)])] ∧
    (run HashCallExamples.cfgIgnore prefRoute (HashCall.init [0, 1] 0).proj
        (HashCall.absOfCall {} HashCallExamples.cfgIgnore prefRoute (HashCall.init [0, 1] 0) 0 HashCallExamples.getInterrupted).1).2 =
      [(.multi [false, true], [(0, 0, .othererror), (1, 0, .ok)])] := by
  refine ⟨by decide +kernel, by decide +kernel, by decide +kernel, by decide +kernel⟩

/-- the hypothesis is needed, 2 (`set_many`, `BaseException` under `ignore_exc`): the abstract `_set_many` swallows it,
reports the batch of server 0 as served and goes on to server 1. -/
example :
    HashCall.projOK HashCallExamples.cfgIgnore HashCallExamples.setInterrupted
      (HashCall.callM {} HashCallExamples.cfgIgnore prefRoute (HashCall.init [0, 1] 0) 0 HashCallExamples.setInterrupted).2 = false ∧
    (HashCall.callM {} HashCallExamples.cfgIgnore prefRoute (HashCall.init [0, 1] 0) 0 HashCallExamples.setInterrupted).2.res =
      .raised 0 (.sock 130) ∧
    (run HashCallExamples.cfgIgnore prefRoute (HashCall.init [0, 1] 0).proj
        (HashCall.absOfCall {} HashCallExamples.cfgIgnore prefRoute (HashCall.init [0, 1] 0) 0 HashCallExamples.setInterrupted).1).2 =
      [(.multi [true, true], [(0, 0, .othererror), (1, 0, .ok)])] := by
  refine ⟨by decide +kernel, by decide +kernel, by decide +kernel⟩

/-- the hypothesis is needed, 3 (`check_key_helper` in the middle of the first loop): server 0 was evicted at t=0
(`retry_attempts=0`); `get_many([k, " "])` at t=10 brings it back while routing `k`, then raises
`MemcacheIllegalInputError` on the second key without contacting anybody; the abstract `get_many` over the same routing
keys contacts server 0. -/
example :
    let st := (HashCall.runM {} HashCallExamples.cfgNoRetry prefRoute (HashCall.init [0, 1] 0) 0 HashCallExamples.evictZero).1
    st.fo = { nodes := [1], failed := [], dead := [(0, 0)], lastDeadCheck := 0 } ∧
    HashCall.projOK HashCallExamples.cfgNoRetry HashCallExamples.getIllegal
      (HashCall.callM {} HashCallExamples.cfgNoRetry prefRoute st 1 HashCallExamples.getIllegal).2 = false ∧
    (HashCall.callM {} HashCallExamples.cfgNoRetry prefRoute st 1 HashCallExamples.getIllegal).2.res = .illegalKey ∧
    (HashCall.callM {} HashCallExamples.cfgNoRetry prefRoute st 1 HashCallExamples.getIllegal).2.batches.length = 0 ∧
    (HashCall.callM {} HashCallExamples.cfgNoRetry prefRoute st 1 HashCallExamples.getIllegal).1.fo =
      { nodes := [1, 0], failed := [], dead := [], lastDeadCheck := 10 } ∧
    (run HashCallExamples.cfgNoRetry prefRoute st.proj
        (HashCall.absOfCall {} HashCallExamples.cfgNoRetry prefRoute st 1 HashCallExamples.getIllegal).1).2 =
      [(.multi [true, true], [(0, 10, .ok)])] :=
  HashCallExamples.demo_illegalKey_needed

/-- C13 (`HashClient ∘ Client`, general histories, both window bounds).  In every general composed history (single-key
calls, `get_many` / `gets_many`, `set_many`, `delete_many`) whose clock never goes back, in which every call satisfies
`HashCall.projOK`, and which contains no `set_many` if `ignore_exc` is on (the known defect, see
`C13_hash_setmany_ignoreexc_counterexample`), for every server `s`: among the contacts to `s` during which the inner
`Client.call` raised an `OSError` (`HashCall.contactLogM`: all contacts of the run with the outcomes of the real inner
calls), any window `[t, t + retry_timeout]` contains at most two; and among those made since the last contact to `s` that
returned normally, any window `[t, t + dead_timeout]` contains at most `retry_attempts + 2`. -/
theorem C13_hash_many_probing_windows (ccfg : Wire.Cfg) (c : Cfg) (route : List Srv → RK → Option Srv) (hlaw : RouteLaw route)
    (hlt : c.rt < c.dt) (servers : List Srv) (t0 : Time) (calls : List (HashCall.MCall RK))
    (hch : HashCall.ChronoM t0 calls)
    (hok : HashCall.allProjOK c calls (HashCall.runM ccfg c route (HashCall.init servers t0) 0 calls).2 = true)
    (hns : c.ignoreExc = true → ∀ mc ∈ calls, mc.op.isSetMany = false) (s : Srv) :
    let L := HashCall.contactLogM calls (HashCall.runM ccfg c route (HashCall.init servers t0) 0 calls).2
    (∀ t : Time, countIn t c.rt (oserrTimes s L) ≤ 2) ∧
    (∀ t : Time, countIn t c.dt (oserrTimes s (sinceLastOk s L)) ≤ c.ra + 2) := by
  intro L
  have hproj := C13_hash_many_projection ccfg c route hlaw servers t0 calls
  simp only at hproj
  have hL : L = contactsOf (run c route (init servers t0)
      (HashCall.absOfRun ccfg c route (HashCall.init servers t0) 0 calls).1).2 := by
    rw [hproj hok]
    exact (HashCall.contactsOf_absOfRun ccfg c route (HashCall.init servers t0) 0 calls).symm
  have hchr := HashCall.chrono_absOfRun ccfg c route (HashCall.init servers t0) 0 t0 calls hch
  have hns' : NoSetManyUnderIgnoreExc c (HashCall.absOfRun ccfg c route (HashCall.init servers t0) 0 calls).1 :=
    fun hi e he => HashCall.absOfRun_noSetMany ccfg c route (HashCall.init servers t0) 0 calls (hns hi) e he
  rw [hL]
  exact ⟨(C13_le_two_per_rt_window c route hlaw hlt servers t0 _ hchr hns' s).2,
    (C13_le_ra_plus_two_per_dt_window c route hlaw hlt servers t0 _ hchr hns' s).2⟩

/-- non-vacuity: `HashCallExamples.setCalls` (four `set_many`, two `delete_many`, `ignore_exc=False`) is chronological and
satisfies `projOK`; the `OSError` contacts to server 0 happen at 1 (`set_many`), 3 (`delete_many`) and 5 (`set_many`, the
final probe after the eviction). -/
example : HashCall.ChronoM 0 HashCallExamples.setCalls ∧ RouteLaw prefRoute ∧
    HashCallExamples.cfgStrict.rt < HashCallExamples.cfgStrict.dt ∧
    HashCall.allProjOK HashCallExamples.cfgStrict HashCallExamples.setCalls
      (HashCall.runM {} HashCallExamples.cfgStrict prefRoute (HashCall.init [0, 1] 0) 0 HashCallExamples.setCalls).2 = true ∧
    (HashCallExamples.cfgStrict.ignoreExc = true → ∀ mc ∈ HashCallExamples.setCalls, mc.op.isSetMany = false) ∧
    oserrTimes 0 (HashCall.contactLogM HashCallExamples.setCalls
      (HashCall.runM {} HashCallExamples.cfgStrict prefRoute (HashCall.init [0, 1] 0) 0 HashCallExamples.setCalls).2) = [1, 3, 5] :=
  ⟨by simp [HashCall.ChronoM, HashCallExamples.setCalls], prefRoute_law, by decide, HashCallExamples.demo_set_projection.1,
    (fun h => by cases h), by decide +kernel⟩

/-- C13 (known defect `C13-setmany-ignoreexc`, at the level of `HashClient ∘ Client`).  A `HashClient(ignore_exc=True,
retry_attempts=1, retry_timeout=1, dead_timeout=5)` over servers 0 and 1; server 0 is down: every inner
`Client.call … (.setMany …)` on its client object fails with a socket error (`ECONNREFUSED`).

1. Five `set_many({k: v})` at the same tick: server 0 is contacted by every one of them (five `OSError` contacts within
   one `retry_timeout` — the bound is 2 — and within one `dead_timeout` since the last success — the bound is
   `retry_attempts + 2 = 3`), it is never marked failed nor evicted, and every call returns `[]`: no key is reported.
   The history satisfies `projOK`, so this is the abstract counterexample `C13_setmany_ignoreexc_counterexample` with the
   environment computed from real inner calls.
2. A failing `get` at t=0 marks server 0; a failing `set_many` at t=2 (retry window open) *clears* the failure record. -/
theorem C13_hash_setmany_ignoreexc_counterexample :
    let calls := HashCallExamples.setDownCalls
    let r := HashCall.runM {} HashCallExamples.cfgIgnore prefRoute (HashCall.init [0, 1] 0) 0 calls
    let L := HashCall.contactLogM calls r.2
    HashCall.ChronoM 0 calls ∧
    HashCall.allProjOK HashCallExamples.cfgIgnore calls r.2 = true ∧
    L = [(0, 0, .oserror), (0, 0, .oserror), (0, 0, .oserror), (0, 0, .oserror), (0, 0, .oserror)] ∧
    countIn 0 HashCallExamples.cfgIgnore.rt (oserrTimes 0 L) = 5 ∧
    countIn 0 HashCallExamples.cfgIgnore.dt (oserrTimes 0 (sinceLastOk 0 L)) = 5 ∧
    r.1.fo = { nodes := [0, 1], failed := [], dead := [], lastDeadCheck := 0 } ∧
    (∀ ob ∈ r.2, ob.res = .value (.keys [])) ∧
    (HashCall.runM {} HashCallExamples.cfgIgnore prefRoute (HashCall.init [0, 1] 0) 0
        (HashCallExamples.setClearsCalls.take 1)).1.fo =
      { nodes := [0, 1], failed := [(0, 0, 0)], dead := [], lastDeadCheck := 0 } ∧
    (HashCall.runM {} HashCallExamples.cfgIgnore prefRoute (HashCall.init [0, 1] 0) 0 HashCallExamples.setClearsCalls).1.fo =
      { nodes := [0, 1], failed := [], dead := [], lastDeadCheck := 0 } ∧
    HashCall.contactLogM HashCallExamples.setClearsCalls
        (HashCall.runM {} HashCallExamples.cfgIgnore prefRoute (HashCall.init [0, 1] 0) 0 HashCallExamples.setClearsCalls).2 =
      [(0, 0, .oserror), (0, 2, .oserror)] := by
  refine ⟨by simp [HashCall.ChronoM, HashCallExamples.setDownCalls, HashCallExamples.setDownAt],
    by decide +kernel, by decide +kernel, by decide +kernel, by decide +kernel, by decide +kernel, by decide +kernel,
    by decide +kernel, by decide +kernel, by decide +kernel⟩

end hashmany

/-! ## `HashClient ∘ PooledClient ∘ Client`: `use_pooling=True`

Model: `Pymc/Model/HashPooledCall.lean` — the bookkeeping of this file composed with the pool bracket composed with
`Client.call` (`Pymc/Model/HashInner.lean` is the failover code of `HashCall.lean` with the object registered in
`self.clients` as a parameter; here it is a `PooledClient`, its state the pool `PooledCall.St`, a contact one
`PooledCall.callP` without `ignore_exc`).  A history is a list of single-key calls `(routing key, operation, script, time,
release time of the pool)`.  What the `PooledClient` method returns or raises determines the `Outcome` exactly as for the
plain client (`HashPooledCall.outcomeOfP` = `HashCall.outcomeOf` of the result of the pooled call; the pool's own
`RuntimeError("Too many objects")` — unreachable in sequential use with `max_pool_size ≥ 1`,
`C09_hashpooled_never_too_many` — is an `Exception` that is not an `OSError`: `othererror`).  Forgetting the pools
(`HashInner.St.proj`) turns a composed run into a run of the abstract model — so everything proved above about `run`
holds for the pooling `HashClient`, with the environment computed from the connection scripts. -/
section hashpooled

/-- C13 (`use_pooling=True`, the environment): the outcome the abstract model is given for a call is `HashCall.outcomeOf`
of what the `PooledClient` method returned or raised (`othererror` for the pool's `RuntimeError`), `ok` when nothing was
invoked. -/
theorem C13_hashpooled_outcome (pcfg : Pooled.Cfg) (ob : HashPooledCall.HPObs pcfg) :
    HashInner.outcomeOfObs ob =
      match (ob.inner : Option PooledCall.PObs) with
      | some po => HashPooledCall.outcomeOfP po.res
      | none => .ok := by
  unfold HashInner.outcomeOfObs
  cases ob.inner with
  | none => rfl
  | some po => exact HashPooledCall.outcomeOf_pooled po

/-- C13 (`use_pooling=True`, one call).  After any composed history, for the next call: if `check_key_helper` rejects its
key, the call raises `MemcacheIllegalInputError` and leaves the whole state alone; otherwise forgetting the pools
commutes with the step — the bookkeeping state after the composed call, its result (`HashInner.absRes`) and its contact
log are those of the abstract `stepOp` for the event `_run_cmd(rk)` at the same time, in the environment in which the
server does what the pooled call did. -/
theorem C13_hashpooled_step_projection (ccfg : Wire.Cfg) (pcfg : Pooled.Cfg) (c : Cfg) (route : List Srv → Key → Option Srv)
    (hlaw : RouteLaw route) (servers : List Srv) (t0 : Time) (calls : List (HashPooledCall.HPCall Key))
    (hc : HashPooledCall.HPCall Key) :
    let st := (HashPooledCall.runHP ccfg pcfg c route (HashPooledCall.init pcfg servers t0) 0 calls).1
    let out := HashPooledCall.callHP ccfg pcfg c route st calls.length hc.now hc.fin hc.rk hc.call hc.sc
    (HashCall.keyOk ccfg hc.call = false → out = (st, { res := .illegalKey })) ∧
    (HashCall.keyOk ccfg hc.call = true →
      stepOp c route st.proj { now := hc.now, env := fun _ => HashInner.outcomeOfObs out.2, op := .runCmd hc.rk } =
        (out.1.proj, HashInner.absRes (HashPooledCall.pooled pcfg) c out.2.res, HashInner.contactsOfObs hc.now out.2)) := by
  intro st out
  have hcov := (HashInner.runG_proj (I := HashPooledCall.pooled pcfg) ccfg c route hlaw (HashPooledCall.init pcfg servers t0) 0 calls
    (HashInner.cover_init _ servers t0)).2
  exact HashInner.callG_proj ccfg c route hlaw st calls.length hc.now hc.fin hc.rk hc.call hc.sc hcov

/-- C13 (`use_pooling=True`, runs).  A composed run from a fresh pooling `HashClient` is a run of the abstract model from
`init`: the events are the calls whose key passes `check_key_helper` (`HashInner.eventsOf`: same times, same routing
keys, `_run_cmd`, the environment of each being the outcome of its pooled call, `C13_hashpooled_outcome`); the
bookkeeping state at the end is the projection of the composed state, and the per-event results and contact logs are
those of the composed observations (`HashInner.absOuts`). -/
theorem C13_hashpooled_projection (ccfg : Wire.Cfg) (pcfg : Pooled.Cfg) (c : Cfg) (route : List Srv → Key → Option Srv)
    (hlaw : RouteLaw route) (servers : List Srv) (t0 : Time) (calls : List (HashPooledCall.HPCall Key)) :
    let r := HashPooledCall.runHP ccfg pcfg c route (HashPooledCall.init pcfg servers t0) 0 calls
    run c route (init servers t0) (HashInner.eventsOf calls r.2) = (r.1.proj, HashInner.absOuts c calls r.2) := by
  intro r
  have h := (HashInner.runG_proj (I := HashPooledCall.pooled pcfg) ccfg c route hlaw (HashPooledCall.init pcfg servers t0) 0 calls
    (HashInner.cover_init _ servers t0)).1
  rw [HashInner.init_proj] at h
  exact h

/-- non-vacuity: the six-call history `HashPooledCallExamples.demoCalls` (server 0 serves, fails with `EPIPE` — the inner
client is destroyed —, refuses the retry and the final probe, is evicted; the key is rerouted to server 1; server 0 is
brought back with a fresh `PooledClient`) gives rise to six abstract events whose environments are
`ok / oserror / oserror / oserror / ok / ok`, and `Failover.run` on them ends in the same bookkeeping state with the
same contact log. -/
example :
    (HashInner.eventsOf HashPooledCallExamples.demoCalls
        (HashPooledCall.runHP {} HashPooledCallExamples.pool1 HashCallExamples.cfgStrict prefRoute
          (HashPooledCall.init HashPooledCallExamples.pool1 [0, 1] 0) 0 HashPooledCallExamples.demoCalls).2).map
        (fun e => (e.now, e.env 0, e.env 1)) =
      [(0, .ok, .ok), (1, .oserror, .oserror), (3, .oserror, .oserror), (5, .oserror, .oserror), (6, .ok, .ok), (12, .ok, .ok)] ∧
    run HashCallExamples.cfgStrict prefRoute (init [0, 1] 0)
        (HashInner.eventsOf HashPooledCallExamples.demoCalls
          (HashPooledCall.runHP {} HashPooledCallExamples.pool1 HashCallExamples.cfgStrict prefRoute
            (HashPooledCall.init HashPooledCallExamples.pool1 [0, 1] 0) 0 HashPooledCallExamples.demoCalls).2) =
      ({ nodes := [1, 0], failed := [], dead := [], lastDeadCheck := 12 },
       [(.value, [(0, 0, .ok)]), (.raisedServerError 0 .oserror, [(0, 1, .oserror)]),
        (.raisedServerError 0 .oserror, [(0, 3, .oserror)]), (.raisedServerError 0 .oserror, [(0, 5, .oserror)]),
        (.value, [(1, 6, .ok)]), (.value, [(0, 12, .ok)])]) :=
  HashPooledCallExamples.demo_projection

/-- C13 (`use_pooling=True`, no internal bookkeeping error).  In every composed history no call ends in `internalError`:
every dict `pop` / `del` / lookup of the failover code — including `self.clients[server]` — and every `remove_node` finds
its key. -/
theorem C13_hashpooled_no_internal_error (ccfg : Wire.Cfg) (pcfg : Pooled.Cfg) (c : Cfg) (route : List Srv → Key → Option Srv)
    (hlaw : RouteLaw route) (servers : List Srv) (t0 : Time) (calls : List (HashPooledCall.HPCall Key)) :
    ∀ ob ∈ (HashPooledCall.runHP ccfg pcfg c route (HashPooledCall.init pcfg servers t0) 0 calls).2,
      HashInner.isInternalError ob.res = false := by
  intro ob hob
  cases hres : HashInner.isInternalError ob.res
  · rfl
  · exfalso
    have hres' : ob.res = .internalError := by
      cases h : ob.res <;> simp [h, HashInner.isInternalError] at hres ⊢
    obtain ⟨i, hi⟩ := List.getElem?_of_mem hob
    have hlen := HashInner.runG_length (I := HashPooledCall.pooled pcfg) ccfg c route (HashPooledCall.init pcfg servers t0) 0 calls
    have hlt : i < calls.length := by
      rw [← hlen]
      exact (List.getElem?_eq_some_iff.mp hi).1
    have hproj := C13_hashpooled_projection ccfg pcfg c route hlaw servers t0 calls
    have hmem := HashInner.mem_absOuts c calls _ i calls[i] ob (List.getElem?_eq_getElem hlt) hi (by rw [hres']; rfl)
    simp only at hproj
    have hout : (HashInner.absRes (HashPooledCall.pooled pcfg) c ob.res, HashInner.contactsOfObs calls[i].now ob) ∈
        (run c route (init servers t0) (HashInner.eventsOf calls
          (HashPooledCall.runHP ccfg pcfg c route (HashPooledCall.init pcfg servers t0) 0 calls).2)).2 := by
      rw [hproj]; exact hmem
    have := C13_no_internal_error c route hlaw servers t0 _ _ hout
    rw [hres'] at this
    exact this rfl

/-- C13 (`use_pooling=True`, both window bounds).  In every composed history whose clock never goes back, for every server
`s`: among the contacts to `s` during which the pooled call raised an `OSError` (times `F`, chronological —
`HashInner.contactLog` is the list of all contacts with the outcomes of the real pooled calls), any window
`[t, t + retry_timeout]` contains at most two; and among those made since the last contact to `s` that returned
normally, any window `[t, t + dead_timeout]` contains at most `retry_attempts + 2`. -/
theorem C13_hashpooled_probing_windows (ccfg : Wire.Cfg) (pcfg : Pooled.Cfg) (c : Cfg) (route : List Srv → Key → Option Srv)
    (hlaw : RouteLaw route) (hlt : c.rt < c.dt) (servers : List Srv) (t0 : Time) (calls : List (HashPooledCall.HPCall Key))
    (hch : HashInner.ChronoCalls t0 calls) (s : Srv) :
    let L := HashInner.contactLog calls (HashPooledCall.runHP ccfg pcfg c route (HashPooledCall.init pcfg servers t0) 0 calls).2
    (∀ t : Time, countIn t c.rt (oserrTimes s L) ≤ 2) ∧
    (∀ t : Time, countIn t c.dt (oserrTimes s (sinceLastOk s L)) ≤ c.ra + 2) := by
  intro L
  have hproj := C13_hashpooled_projection ccfg pcfg c route hlaw servers t0 calls
  simp only at hproj
  have hL : L = contactsOf (run c route (init servers t0) (HashInner.eventsOf calls
      (HashPooledCall.runHP ccfg pcfg c route (HashPooledCall.init pcfg servers t0) 0 calls).2)).2 := by
    rw [hproj]
    exact (HashInner.runG_contactLog (I := HashPooledCall.pooled pcfg) ccfg c route (HashPooledCall.init pcfg servers t0) 0 calls).symm
  have hchr := HashInner.chrono_eventsOf t0 calls
    (HashPooledCall.runHP ccfg pcfg c route (HashPooledCall.init pcfg servers t0) 0 calls).2 hch
  have hns : NoSetManyUnderIgnoreExc c (HashInner.eventsOf calls
      (HashPooledCall.runHP ccfg pcfg c route (HashPooledCall.init pcfg servers t0) 0 calls).2) :=
    fun _ e he => HashInner.eventsOf_runCmd calls _ e he
  rw [hL]
  exact ⟨(C13_le_two_per_rt_window c route hlaw hlt servers t0 _ hchr hns s).2,
    (C13_le_ra_plus_two_per_dt_window c route hlaw hlt servers t0 _ hchr hns s).2⟩

/-- non-vacuity: the demo history is chronological, and the `OSError` contacts to server 0 happen at 1, 3, 5. -/
example : HashInner.ChronoCalls 0 HashPooledCallExamples.demoCalls ∧ RouteLaw prefRoute ∧
    HashCallExamples.cfgStrict.rt < HashCallExamples.cfgStrict.dt ∧
    oserrTimes 0 (HashInner.contactLog HashPooledCallExamples.demoCalls
      (HashPooledCall.runHP {} HashPooledCallExamples.pool1 HashCallExamples.cfgStrict prefRoute
        (HashPooledCall.init HashPooledCallExamples.pool1 [0, 1] 0) 0 HashPooledCallExamples.demoCalls).2) = [1, 3, 5] :=
  ⟨by simp [HashInner.ChronoCalls, HashPooledCallExamples.demoCalls, HashCallExamples.demoCalls, HashPooledCallExamples.toG],
    prefRoute_law, by decide, by decide +kernel⟩

end hashpooled

/-! ## `HashClient ∘ Client`: the broadcast operations `flush_all`, `quit`, `close` / `disconnect_all`

Model: `Pymc/Model/HashBroadcast.lean`.  `for client in self.clients.values(): self._safely_run_func(client,
client.<op>, False, …)`: no `_get_client`, so no key check, no `_retry_dead`, no routing — every client object registered
in `self.clients` is handed to `_safely_run_func`, in registration order, *including those of servers that are out of
rotation* (`remove_server` never deletes from `self.clients`), until an exception escapes.  On the key-addressed paths the
`KeyError` / `ValueError` branches of the bookkeeping are unreachable (`C13_no_internal_error`) and the abstract model
reports them as `internalError` without saying what the failing helper had already done.  A broadcast does reach
`hasher.remove_node` for a node that is not in rotation, so `Pymc/Model/HashBroadcast.lean` transliterates `remove_server`,
`_mark_failed_server` and `_safely_run_func` once more, statement by statement (`removeServerX`, `markFailedX`,
`safelyRunFuncX`): `_failed_clients.pop(server)` and `_dead_clients[server] = time.time()` have happened when `remove_node`
raises; a `ValueError` raised inside the `try` goes to `except Exception` (swallowed under `ignore_exc`), one raised inside
the `except OSError` handler escapes whatever `ignore_exc` says.  `HashCall.runB` runs histories that mix key-addressed calls
(`.keyed`, the calls of the previous section) and broadcasts. -/
section hashbroadcast

variable {RK : Type}

/-- C13 (`HashClient ∘ Client`, broadcasts: who is visited).  In every history of key-addressed calls and broadcasts on a
fresh `HashClient`, for every broadcast (call number `i`, made in the state `st` the first `i` calls lead to):
`self.clients` holds every server once; the servers handed to `_safely_run_func` are an initial segment of the
registration order `st.servers` — each registered client at most once, in registration order, whether or not its server is
in rotation; no visit but the last ends in an escaping exception; the broadcast returns iff no visit does, and then every
registered client was visited; otherwise its exception is that of the last visit and nothing after it was contacted. -/
theorem C13_hash_broadcast_registration_order (ccfg : Wire.Cfg) (c : Cfg) (route : List Srv → RK → Option Srv)
    (servers : List Srv) (t0 : Time) (calls : List (HashCall.BCall RK)) :
    ∀ (i : Nat) (ob : HashCall.BcObs),
      (HashCall.runB ccfg c route (HashCall.init servers t0) 0 calls).2[i]? = some (.broadcast ob) →
      let st := (HashCall.runB ccfg c route (HashCall.init servers t0) 0 (calls.take i)).1
      st.servers.Nodup ∧
      ob.visits.map (·.server) = st.servers.take ob.visits.length ∧
      (ob.visits.map (·.server)).Nodup ∧
      (∀ v ∈ ob.visits.dropLast, v.out.escapes = false) ∧
      (ob.res = .done → ob.visits.length = st.servers.length ∧ ∀ v ∈ ob.visits, v.out.escapes = false) ∧
      (ob.res ≠ .done →
        ∃ v, ob.visits.getLast? = some v ∧ v.out.escapes = true ∧ ob.res = HashCall.BRes.ofOut v.server v.out) := by
  intro i ob hi st
  have hn : HashCall.NodupServers st :=
    HashCall.runB_nodup ccfg c route (HashCall.init servers t0) 0 (calls.take i) (HashCall.nodup_init servers t0)
  obtain ⟨bc, -, hob⟩ := HashCall.runB_getElem ccfg c route (HashCall.init servers t0) 0 calls i _ hi
  cases bc with
  | keyed mc => cases hob
  | broadcast op scripts now =>
    have hob' : ob = (HashCall.broadcastH ccfg c st (0 + i) now op scripts).2 := by
      simp only [HashCall.callB] at hob
      exact HashCall.XObs.broadcast.inj hob
    obtain ⟨n, hnle, h1, h2, h3, h4⟩ :=
      HashCall.bloop_visits ccfg c (0 + i) now op scripts st st.servers (fun s h => h)
    have hv : ob.visits = (HashCall.bloop ccfg c (0 + i) now op scripts st st.servers).2.2 := by rw [hob']; rfl
    have hr : ob.res = (HashCall.bloop ccfg c (0 + i) now op scripts st st.servers).2.1 := by rw [hob']; rfl
    rw [← hv] at h1 h2 h3 h4
    rw [← hr] at h3 h4
    have hlen : ob.visits.length = n := by
      have := congrArg List.length h1
      simp only [List.length_map, List.length_take] at this
      omega
    refine ⟨hn, by rw [hlen]; exact h1, ?_, h2, fun hd => ?_, h4⟩
    · rw [h1]; exact (List.take_sublist n _).nodup hn
    · obtain ⟨ha, hb⟩ := h3 hd
      exact ⟨by rw [hlen]; exact ha, hb⟩

/-- non-vacuity: in `HashBroadcastExamples.bkCalls` (below) the broadcast is call 1; it visits server 0 only — of the two
registered — because that visit ends in an exception -/
example :
    ∃ ob, (HashCall.runB {} HashBroadcastExamples.cfgZero prefRoute (HashCall.init [0, 1] 0) 0 HashBroadcastExamples.bkCalls).2[1]? =
        some (.broadcast ob) ∧ ob.visits.map (·.server) = [0] ∧ ob.res = .bookkeeping 0 .valueError ∧
      (HashCall.runB {} HashBroadcastExamples.cfgZero prefRoute (HashCall.init [0, 1] 0) 0
        (HashBroadcastExamples.bkCalls.take 1)).1.servers = [0, 1] :=
  ⟨_, rfl, by decide +kernel, by decide +kernel, by decide +kernel⟩

/-- C13 (`HashClient ∘ Client`, broadcasts: the rotation).  From any state whatsoever (so: after any history) a broadcast
brings no server into rotation and does not touch `_last_dead_check_time` (it never runs `_retry_dead`); and a *healthy*
server — no failure record when the broadcast starts, and no visit to it during the broadcast raises an `OSError` — is
still in rotation afterwards if it was before, still has no failure record, and its dead time, if it has one, is
untouched.  (A server that has a failure record with its retries used up is evicted by the next `_safely_run_func` that
sees it, here as on the key-addressed paths — before the function is even called.) -/
theorem C13_hash_broadcast_rotation (ccfg : Wire.Cfg) (c : Cfg) (st : HashCall.St) (idx : Nat) (now : Time)
    (op : HashCall.BOp) (scripts : Srv → Exchange.Script) :
    let r := HashCall.broadcastH ccfg c st idx now op scripts
    (∀ x, x ∈ r.1.fo.nodes → x ∈ st.fo.nodes) ∧
    r.1.fo.lastDeadCheck = st.fo.lastDeadCheck ∧
    (∀ x, amem x st.fo.failed = false → (∀ v ∈ r.2.visits, v.server = x → v.oserror = false) →
      (x ∈ st.fo.nodes → x ∈ r.1.fo.nodes) ∧ amem x r.1.fo.failed = false ∧
      alookup x r.1.fo.dead = alookup x st.fo.dead) := by
  intro r
  obtain ⟨h1, h2, -⟩ := HashCall.bloop_onlyNodes ccfg c idx now op scripts st st.servers
  exact ⟨h1, h2, fun x hf hok => HashCall.bloop_healthy ccfg c idx now op scripts st st.servers x hf hok⟩

/-- non-vacuity: in `HashBroadcastExamples.siegeCalls` server 1 is healthy throughout (its `flush_all` is answered `OK`)
and stays in rotation, while server 0, down, goes out at the third broadcast -/
example :
    (HashCall.runB {} HashCallExamples.cfgIgnore prefRoute (HashCall.init [0, 1] 0) 0 HashBroadcastExamples.siegeCalls).1.fo =
      { nodes := [1], failed := [], dead := [(0, 8)], lastDeadCheck := 0 } := by
  decide +kernel

/-- C13 (`HashClient ∘ Client`, broadcasts: **the bookkeeping error**, witness).  `retry_attempts = 0`, `ignore_exc = True`,
servers 0 and 1, server 0 refuses connections.  Call 0, `get k` at t=0, is routed to server 0; the `OSError` evicts it at
once (rotation `[1]`, dead since 0) and is swallowed.  Call 1, `flush_all()` at t=1, starts with the client of server 0 —
still registered although out of rotation —; the connection is refused; `except OSError` → `_mark_failed_server` →
`remove_server`: the failure record just created is popped, the dead time is reset to 1, and `hasher.remove_node` raises
`ValueError("No such node …")` *inside the handler*: the broadcast escapes with the internal `ValueError` although
`ignore_exc` is on, and server 1 — healthy, in rotation — is never flushed. -/
theorem C13_hash_broadcast_bookkeeping_error_witness :
    let calls := HashBroadcastExamples.bkCalls
    let cfg := HashBroadcastExamples.cfgZero
    let r := HashCall.runB {} cfg prefRoute (HashCall.init [0, 1] 0) 0 calls
    cfg.ra = 0 ∧ cfg.ignoreExc = true ∧
    (HashCall.runB {} cfg prefRoute (HashCall.init [0, 1] 0) 0 (calls.take 1)).1.fo =
      { nodes := [1], failed := [], dead := [(0, 0)], lastDeadCheck := 0 } ∧
    HashBroadcastExamples.xSummary r =
      [(.inl .default, [(0, some 0)]),
       (.inr (.bookkeeping 0 .valueError), [(0, some 0)])] ∧
    r.1.fo = { nodes := [1], failed := [], dead := [(0, 1)], lastDeadCheck := 0 } := by
  refine ⟨rfl, rfl, by decide +kernel, by decide +kernel, by decide +kernel⟩

/-- C13 (`HashClient ∘ Client`, broadcasts: the bookkeeping error inside the `try`, witness).  `retry_attempts = 1`, server
0 down, five `flush_all()` two ticks apart (`HashBroadcastExamples.siegeCalls`): marked, retried, evicted (final probe
refused: a new failure record for a server that is now out of rotation), retried, and at the fifth broadcast the attempts
are used up again: `remove_server(0)` *inside the `try`* pops the record, resets the dead time to 8 and raises the
`ValueError`.  With `ignore_exc=True` `except Exception` swallows it: `flush_all` is not sent to server 0, the loop goes on
to server 1 and returns `None`; with `ignore_exc=False` the broadcast escapes with the internal `ValueError` (the first four
with the `OSError` of server 0). -/
theorem C13_hash_broadcast_bookkeeping_error_in_try_witness :
    HashBroadcastExamples.xSummary
        (HashCall.runB {} HashCallExamples.cfgIgnore prefRoute (HashCall.init [0, 1] 0) 0 HashBroadcastExamples.siegeCalls) =
      [(.inr .done, [(0, some 0), (1, some 1)]), (.inr .done, [(0, some 0), (1, some 1)]),
       (.inr .done, [(0, some 0), (1, some 1)]), (.inr .done, [(0, some 0), (1, some 1)]),
       (.inr .done, [(0, none), (1, some 1)])] ∧
    (HashCall.runB {} HashCallExamples.cfgIgnore prefRoute (HashCall.init [0, 1] 0) 0 (HashBroadcastExamples.siegeCalls.take 4)).1.fo =
      { nodes := [1], failed := [(0, 1, 6)], dead := [(0, 4)], lastDeadCheck := 0 } ∧
    (HashCall.runB {} HashCallExamples.cfgIgnore prefRoute (HashCall.init [0, 1] 0) 0 HashBroadcastExamples.siegeCalls).1.fo =
      { nodes := [1], failed := [], dead := [(0, 8)], lastDeadCheck := 0 } ∧
    HashBroadcastExamples.xSummary
        (HashCall.runB {} HashCallExamples.cfgStrict prefRoute (HashCall.init [0, 1] 0) 0 HashBroadcastExamples.siegeCalls) =
      [(.inr (.raised 0 (.sock 61)), [(0, some 0)]), (.inr (.raised 0 (.sock 61)), [(0, some 0)]),
       (.inr (.raised 0 (.sock 61)), [(0, some 0)]), (.inr (.raised 0 (.sock 61)), [(0, some 0)]),
       (.inr (.bookkeeping 0 .valueError), [(0, none)])] := by
  refine ⟨by decide +kernel, by decide +kernel, by decide +kernel, by decide +kernel⟩

/-- C13 (`HashClient ∘ Client`, broadcasts: **exactly when** the bookkeeping raises `ValueError`).  From any state, the
`_safely_run_func` a broadcast runs for the client `cl` of server `s` ends in the `ValueError` of
`hasher.remove_node` iff one of:
1. `s` has no failure record, `retry_attempts = 0`, `s` is out of rotation and the function called on the client raises an
   `OSError` (`HashCall.FuncOSError`): raised inside the `except OSError` handler — it escapes whatever `ignore_exc` says
   (the witness above);
2. `s` has a failure record with its attempts used up, `s` is out of rotation, and `ignore_exc` is off: raised by the
   `remove_server` inside the `try`, re-raised by `except Exception` (with `ignore_exc` on it is swallowed, second witness);
3. `s` has a failure record with its attempts used up and is in rotation exactly once, `retry_attempts = 0`, and the
   function raises an `OSError`: the `remove_server` inside the `try` takes `s` out, the one in the handler no longer finds
   it (a state with a failure record under `retry_attempts = 0` does not arise from `init`: `_mark_failed_server` pops the
   record at once).
In every case the failure record of `s` is gone and its dead time is `now` (`HashCall.removeServerX`). -/
theorem C13_hash_broadcast_bookkeeping_error_iff (ccfg : Wire.Cfg) (c : Cfg) (idx : Nat) (now : Time) (st : HashCall.St)
    (s : Srv) (cl : HashCall.IClient) (op : HashCall.BOp) (sc : Exchange.Script) :
    (HashCall.safelyRunFuncX ccfg c idx now st s cl op sc).2.1 = .bookkeeping .valueError ↔
      (alookup s st.fo.failed = none ∧ c.ra = 0 ∧ s ∉ st.fo.nodes ∧ HashCall.FuncOSError ccfg idx st s cl op sc) ∨
      (∃ a t, alookup s st.fo.failed = some (a, t) ∧ ¬ a < c.ra ∧ s ∉ st.fo.nodes ∧ c.ignoreExc = false) ∨
      (∃ a t, alookup s st.fo.failed = some (a, t) ∧ ¬ a < c.ra ∧ s ∈ st.fo.nodes ∧ c.ra = 0 ∧
        s ∉ st.fo.nodes.erase s ∧ HashCall.FuncOSError ccfg idx st s cl op sc) :=
  HashCall.safelyRunFuncX_valueError_iff ccfg c idx now st s cl op sc

/-- non-vacuity: situation 1 in the state after call 0 of the witness history -/
example :
    let st := (HashCall.runB {} HashBroadcastExamples.cfgZero prefRoute (HashCall.init [0, 1] 0) 0
      (HashBroadcastExamples.bkCalls.take 1)).1
    (HashCall.safelyRunFuncX {} HashBroadcastExamples.cfgZero 1 1 st 0 { id := 0 } HashBroadcastExamples.flushOp
      HashBroadcastExamples.down).2.1 = .bookkeeping .valueError := by
  decide +kernel

/-- C13 (`HashClient ∘ Client`, broadcasts: no `KeyError`).  From any state, the bookkeeping of a broadcast never raises
`KeyError`: every `dict.pop` / `dict[...]` of `_safely_run_func`, `_mark_failed_server` and `remove_server` finds its key —
for one `_safely_run_func`, for every visit of a broadcast, and for the broadcast as a whole: the only internal error a
broadcast can end in is the `ValueError` of `remove_node`. -/
theorem C13_hash_broadcast_no_key_error (ccfg : Wire.Cfg) (c : Cfg) (idx : Nat) (now : Time) (st : HashCall.St)
    (op : HashCall.BOp) :
    (∀ (s : Srv) (cl : HashCall.IClient) (sc : Exchange.Script),
      (HashCall.safelyRunFuncX ccfg c idx now st s cl op sc).2.1 ≠ .bookkeeping .keyError) ∧
    (∀ scripts : Srv → Exchange.Script,
      (∀ v ∈ (HashCall.broadcastH ccfg c st idx now op scripts).2.visits, v.out ≠ .bookkeeping .keyError) ∧
      ∀ s, (HashCall.broadcastH ccfg c st idx now op scripts).2.res ≠ .bookkeeping s .keyError) :=
  ⟨fun s cl sc => HashCall.safelyRunFuncX_no_keyError ccfg c idx now st s cl op sc,
    fun scripts => HashCall.bloop_no_keyError ccfg c idx now op scripts st st.servers⟩

/-- non-vacuity: the broadcast of the witness history does end in an internal error — the `ValueError` -/
example :
    (HashCall.broadcastH {} HashBroadcastExamples.cfgZero
      (HashCall.runB {} HashBroadcastExamples.cfgZero prefRoute (HashCall.init [0, 1] 0) 0
        (HashBroadcastExamples.bkCalls.take 1)).1 1 1 HashBroadcastExamples.flushOp HashBroadcastExamples.srv0Down).2.res =
      .bookkeeping 0 .valueError := by
  decide +kernel

/-- C13 (`HashClient ∘ Client`, broadcasts: the statement-by-statement model extends the key-addressed one).  For
`flush_all` / `quit` (the operations that are a `Client.call`): whenever the key-addressed model of `_safely_run_func`
(`HashCall.safelyRunFunc`, the one all theorems of the previous sections are about) does not answer `internalError`, the
model used for broadcasts gives the same state, the same result (`HashCall.toBOut`) and the same inner call — the two
differ only where the key-addressed one gives up. -/
theorem C13_hash_broadcast_extends_keyed_model (ccfg : Wire.Cfg) (c : Cfg) (idx : Nat) (now : Time) (st : HashCall.St)
    (s : Srv) (cl : HashCall.IClient) (op : HashCall.BOp) (call : Client.Call) (sc : Exchange.Script)
    (hc : op.call? = some call)
    (h : (HashCall.safelyRunFunc ccfg c idx now st s cl call sc).2.1 ≠ .internalError) :
    HashCall.safelyRunFuncX ccfg c idx now st s cl op sc =
      ((HashCall.safelyRunFunc ccfg c idx now st s cl call sc).1,
        HashCall.toBOut (HashCall.safelyRunFunc ccfg c idx now st s cl call sc).2.1,
        (HashCall.safelyRunFunc ccfg c idx now st s cl call sc).2.2,
        (HashCall.safelyRunFunc ccfg c idx now st s cl call sc).2.2.isSome) :=
  HashCall.safelyRunFuncX_agrees ccfg c idx now st s cl op call sc hc h

/-- non-vacuity: on a fresh `HashClient` the key-addressed model answers `value`, not `internalError`; and in the state of
the witness it does answer `internalError` — that is where the two models part -/
example :
    (HashCall.safelyRunFunc {} HashCallExamples.cfgStrict 0 0 (HashCall.init [0, 1] 0) 0 { id := 0 }
      HashBroadcastExamples.flushCall HashBroadcastExamples.up).2.1 = .value (.bool true) ∧
    (HashCall.safelyRunFunc {} HashBroadcastExamples.cfgZero 1 1
      (HashCall.runB {} HashBroadcastExamples.cfgZero prefRoute (HashCall.init [0, 1] 0) 0
        (HashBroadcastExamples.bkCalls.take 1)).1 0 { id := 0 }
      HashBroadcastExamples.flushCall HashBroadcastExamples.down).2.1 = .internalError := by
  refine ⟨by decide +kernel, by decide +kernel⟩

end hashbroadcast

/-! ## `HashClient ∘ PooledClient ∘ Client`: `get_many` / `gets_many`, `set_many`, `delete_many` with `use_pooling=True`

Model: `Pymc/Model/HashPooledCallMany.lean` (= `Pymc/Model/HashInnerMany.lean`, the multi-key code of `HashCallMany.lean`
with the registered object as a parameter, instantiated with the `PooledClient`).  A history is a list of general calls
(`HashPooledCall.MPCall`: an operation `HashCall.MOp` as in section `hashmany`, the time of the call and the release time of
the pools).  Forgetting the pools (`HashInner.St.proj`), a general pooled run is a run of the abstract model over the
abstract history `HashInner.absOfRunG` — per call the events `HashInner.absOfCallG`: a `_run_cmd` event for a single-key
call, one `.getMany` / `.setMany` event over the routing keys, the `_run_cmd` events of the `delete`s a `delete_many` got
round to; the environment of a multi-key event gives every server the outcome of the pooled call made on it
(`C13_hashpooled_many_outcome`) — under the hypothesis `HashInner.projOKG`, which is `HashCall.projOK` word for word (no
illegal key and, under `ignore_exc` only, no `BaseException` in a `get_many` / `set_many`).  So the pooled `HashClient` goes
through the same bookkeeping trajectory, contacts the same servers in the same order and returns the same results (in
the vocabulary of the abstract model) as the plain one on the same abstract history
(`C13_hashpooled_many_refines_plain`), and everything proved about `run` holds for it. -/
section hashpooledmany

variable {RK : Type}

/-- C13 (`use_pooling=True`, the environment of a multi-key call): the outcome the abstract model is given for the server
of a batch is `HashCall.outcomeOf` of what the `PooledClient` method returned or raised (`othererror` for the pool's
`RuntimeError`), `ok` when the server was not contacted (its batch was skipped inside the retry window). -/
theorem C13_hashpooled_many_outcome (pcfg : Pooled.Cfg) (bo : HashPooledCall.BPObs pcfg) :
    bo.outcome =
      match (bo.inner : Option PooledCall.PObs) with
      | some po => HashPooledCall.outcomeOfP po.res
      | none => .ok :=
  HashPooledCall.bobs_outcome bo

/-- C13 (`use_pooling=True`, one multi-key call).  After any general pooled history, for the next call at time `now`
(pools released at `fin`), if it satisfies `HashInner.projOKG`:

* a `get_many` / `gets_many` is the abstract `stepOp` for the event `.getMany` over the routing keys, in the environment
  read off the observation: same bookkeeping state afterwards, same result (`HashInner.absResManyG`), same contact log;
* a `set_many` likewise is the abstract `stepOp` for the event `.setMany`;
* any call (this covers `delete_many` and the single-key calls) is the abstract `run` over `HashInner.absOfCallG`. -/
theorem C13_hashpooled_many_step_projection (ccfg : Wire.Cfg) (pcfg : Pooled.Cfg) (c : Cfg) (route : List Srv → RK → Option Srv)
    (hlaw : RouteLaw route) (servers : List Srv) (t0 : Time) (calls : List (HashPooledCall.MPCall RK)) (now fin : Time) :
    let st := (HashPooledCall.runMP ccfg pcfg c route (HashPooledCall.init pcfg servers t0) 0 calls).1
    (∀ (gets : Bool) (keys : List (RK × _root_.Key.K)) (scripts : Srv → Exchange.Script),
      let mc : HashPooledCall.MPCall RK := { op := .getMany gets keys scripts, now := now, fin := fin }
      let out := HashPooledCall.callMP ccfg pcfg c route st calls.length mc
      HashInner.projOKG c mc out.2 = true →
        stepOp c route st.proj
            { now := now, env := HashInner.envOfBatchesG out.2.batches, op := .getMany (keys.map (·.1)) } =
          (out.1.proj, HashInner.absResManyG c (HashCall.assignedOf c route now st.fo (keys.map (·.1))) out.2,
            HashInner.contactsOfBatchesG now out.2.batches)) ∧
    (∀ (items : List (RK × _root_.Key.K × Wire.Val)) (expire : Wire.IntArg) (noreply : Option Bool) (flags : Option Int)
        (scripts : Srv → List (_root_.Key.K × Wire.Val) → Exchange.Script),
      let mc : HashPooledCall.MPCall RK := { op := .setMany items expire noreply flags scripts, now := now, fin := fin }
      let out := HashPooledCall.callMP ccfg pcfg c route st calls.length mc
      HashInner.projOKG c mc out.2 = true →
        stepOp c route st.proj
            { now := now, env := HashInner.envOfBatchesG out.2.batches, op := .setMany (items.map (·.1)) } =
          (out.1.proj, HashInner.absResManyG c (HashCall.assignedOf c route now st.fo (items.map (·.1))) out.2,
            HashInner.contactsOfBatchesG now out.2.batches)) ∧
    (∀ mc : HashPooledCall.MPCall RK,
      let out := HashPooledCall.callMP ccfg pcfg c route st calls.length mc
      HashInner.projOKG c mc out.2 = true →
        run c route st.proj (HashInner.absOfCallG ccfg c route st calls.length mc).1 =
          (out.1.proj, (HashInner.absOfCallG ccfg c route st calls.length mc).2)) := by
  intro st
  have hcov : HashInner.Cover st :=
    HashInner.cover_runGM (I := HashPooledCall.pooled pcfg) ccfg c route hlaw (HashPooledCall.init pcfg servers t0) 0 calls
      (HashInner.cover_init _ servers t0)
  refine ⟨?_, ?_, ?_⟩
  · intro gets keys scripts mc out hok
    obtain ⟨hill, hb⟩ := HashInner.projOK_manyG (r := out.2.res) hok
    exact HashInner.getManyG_proj ccfg c route hlaw st calls.length now fin gets keys scripts hcov hill hb
  · intro items expire noreply flags scripts mc out hok
    obtain ⟨hill, hb⟩ := HashInner.projOK_manyG (r := out.2.res) hok
    exact HashInner.setManyG_proj ccfg c route hlaw st calls.length now fin items expire noreply flags scripts hcov hill hb
  · intro mc out hok
    exact HashInner.callGM_proj ccfg c route hlaw st calls.length mc hcov hok

/-- C13 (`use_pooling=True`, general runs).  A general pooled run from a fresh `HashClient(use_pooling=True)` in which
every call satisfies `HashInner.projOKG` is a run of the abstract model from `init` over the abstract history
`HashInner.absOfRunG`: the bookkeeping state at the end is the projection of the composed state, and the per-event
results and contact logs are those read off the composed observations. -/
theorem C13_hashpooled_many_projection (ccfg : Wire.Cfg) (pcfg : Pooled.Cfg) (c : Cfg) (route : List Srv → RK → Option Srv)
    (hlaw : RouteLaw route) (servers : List Srv) (t0 : Time) (calls : List (HashPooledCall.MPCall RK)) :
    let r := HashPooledCall.runMP ccfg pcfg c route (HashPooledCall.init pcfg servers t0) 0 calls
    HashInner.allProjOKG c calls r.2 = true →
      run c route (init servers t0) (HashInner.absOfRunG ccfg c route (HashPooledCall.init pcfg servers t0) 0 calls).1 =
        (r.1.proj, (HashInner.absOfRunG ccfg c route (HashPooledCall.init pcfg servers t0) 0 calls).2) := by
  intro r hok
  have h := HashInner.runGM_proj (I := HashPooledCall.pooled pcfg) ccfg c route hlaw (HashPooledCall.init pcfg servers t0) 0 calls
    (HashInner.cover_init _ servers t0) hok
  rw [HashInner.init_proj] at h
  exact h

/-- non-vacuity: the seven-call history `HashPooledCallExamples.setCalls` (`HashCallExamples.setCalls` with pooling) satisfies
the hypothesis; it gives rise to the same eight abstract events as without pooling (`(time, (kind, keys), env 0, env 1)`;
kind 2 = `set_many`, 0 = `_run_cmd`), the environments being the outcomes of the pooled calls, and `Failover.run` on them
ends in the same bookkeeping state with the results and contact logs read off the pooled run.  The `get_many` history
`HashPooledCallExamples.manyCalls` under `ignore_exc=True` and `HashPooledCallExamples.idleCalls` satisfy the hypothesis too. -/
example :
    HashInner.allProjOKG HashCallExamples.cfgStrict HashPooledCallExamples.setCalls
      (HashPooledCall.runMP {} HashPooledCallExamples.pool1 HashCallExamples.cfgStrict prefRoute
        (HashPooledCall.init HashPooledCallExamples.pool1 [0, 1] 0) 0 HashPooledCallExamples.setCalls).2 = true ∧
    (HashInner.absOfRunG {} HashCallExamples.cfgStrict prefRoute (HashPooledCall.init HashPooledCallExamples.pool1 [0, 1] 0) 0
        HashPooledCallExamples.setCalls).1.map (fun e => (e.now, HashCallExamples.opTag e.op, e.env 0, e.env 1)) =
      [(0, (2, 2), .ok, .ok), (1, (2, 2), .oserror, .ok), (2, (2, 2), .ok, .ok), (3, (0, 1), .oserror, .oserror),
       (5, (2, 2), .oserror, .ok), (6, (2, 2), .ok, .ok), (12, (0, 1), .ok, .ok), (12, (0, 1), .ok, .ok)] ∧
    (HashInner.absOfRunG {} HashCallExamples.cfgStrict prefRoute (HashPooledCall.init HashPooledCallExamples.pool1 [0, 1] 0) 0
        HashPooledCallExamples.setCalls).2 =
      [(.multi [true, true], [(0, 0, .ok), (1, 0, .ok)]),
       (.raisedServerError 0 .oserror, [(0, 1, .oserror)]),
       (.multi [false, true], [(1, 2, .ok)]),
       (.raisedServerError 0 .oserror, [(0, 3, .oserror)]),
       (.raisedServerError 0 .oserror, [(0, 5, .oserror)]),
       (.multi [true, true], [(1, 6, .ok)]),
       (.value, [(0, 12, .ok)]),
       (.value, [(1, 12, .ok)])] ∧
    run HashCallExamples.cfgStrict prefRoute (init [0, 1] 0)
        (HashInner.absOfRunG {} HashCallExamples.cfgStrict prefRoute (HashPooledCall.init HashPooledCallExamples.pool1 [0, 1] 0) 0
          HashPooledCallExamples.setCalls).1 =
      ({ nodes := [1, 0], failed := [], dead := [], lastDeadCheck := 12 },
       (HashInner.absOfRunG {} HashCallExamples.cfgStrict prefRoute (HashPooledCall.init HashPooledCallExamples.pool1 [0, 1] 0) 0
          HashPooledCallExamples.setCalls).2) ∧
    HashInner.allProjOKG HashCallExamples.cfgIgnore HashPooledCallExamples.manyCalls
      (HashPooledCall.runMP {} HashPooledCallExamples.pool1 HashCallExamples.cfgIgnore prefRoute
        (HashPooledCall.init HashPooledCallExamples.pool1 [0, 1] 0) 0 HashPooledCallExamples.manyCalls).2 = true ∧
    HashInner.allProjOKG HashCallExamples.cfgStrict HashPooledCallExamples.idleCalls
      (HashPooledCall.runMP {} HashPooledCallExamples.poolIdle HashCallExamples.cfgStrict prefRoute
        (HashPooledCall.init HashPooledCallExamples.poolIdle [0, 1] 0) 0 HashPooledCallExamples.idleCalls).2 = true :=
  HashPooledCallExamples.demo_set_projection_pooled

/-- C13 (`use_pooling=True` refines `use_pooling=False` on the failover bookkeeping).  Take a general pooled run and a general
run of the plain model (`HashCall.runM`, section `hashmany`; possibly other inner-client configuration, other scripts —
the inner clients and pools behave differently —) that both satisfy the hypothesis of the projection and give rise to the
same abstract history: the same events at the same times on the same routing keys, every contacted server doing
(`ok` / `OSError` / other error) the same in both.  Then forgetting the pools resp. the inner clients, both end in the same
bookkeeping state (rotation, `_failed_clients`, `_dead_clients`, `_last_dead_check_time`), and per event they return the
same result and contact the same servers in the same order with the same outcomes. -/
theorem C13_hashpooled_many_refines_plain (ccfg ccfg' : Wire.Cfg) (pcfg : Pooled.Cfg) (c : Cfg)
    (route : List Srv → RK → Option Srv) (hlaw : RouteLaw route) (servers : List Srv) (t0 : Time)
    (calls : List (HashPooledCall.MPCall RK)) (calls' : List (HashCall.MCall RK))
    (hok : HashInner.allProjOKG c calls
      (HashPooledCall.runMP ccfg pcfg c route (HashPooledCall.init pcfg servers t0) 0 calls).2 = true)
    (hok' : HashCall.allProjOK c calls' (HashCall.runM ccfg' c route (HashCall.init servers t0) 0 calls').2 = true)
    (hev : (HashInner.absOfRunG ccfg c route (HashPooledCall.init pcfg servers t0) 0 calls).1 =
      (HashCall.absOfRun ccfg' c route (HashCall.init servers t0) 0 calls').1) :
    (HashPooledCall.runMP ccfg pcfg c route (HashPooledCall.init pcfg servers t0) 0 calls).1.proj =
      (HashCall.runM ccfg' c route (HashCall.init servers t0) 0 calls').1.proj ∧
    (HashInner.absOfRunG ccfg c route (HashPooledCall.init pcfg servers t0) 0 calls).2 =
      (HashCall.absOfRun ccfg' c route (HashCall.init servers t0) 0 calls').2 := by
  have h1 := C13_hashpooled_many_projection ccfg pcfg c route hlaw servers t0 calls
  have h2 := C13_hash_many_projection ccfg' c route hlaw servers t0 calls'
  simp only at h1 h2
  have h1' := h1 hok
  have h2' := h2 hok'
  rw [hev, h2'] at h1'
  exact ⟨(Prod.mk.inj h1').1.symm, (Prod.mk.inj h1').2.symm⟩

/-- non-vacuity of the conclusion: on `setCalls` the pooled run (`max_pool_size=1`) and the plain run end in the same
bookkeeping state and produce the same abstract outputs (their abstract events agree at every server of the history, see
the example above and the one after `C13_hash_many_projection`) -/
example :
    (HashPooledCall.runMP {} HashPooledCallExamples.pool1 HashCallExamples.cfgStrict prefRoute
        (HashPooledCall.init HashPooledCallExamples.pool1 [0, 1] 0) 0 HashPooledCallExamples.setCalls).1.proj =
      (HashCall.runM {} HashCallExamples.cfgStrict prefRoute (HashCall.init [0, 1] 0) 0 HashCallExamples.setCalls).1.proj ∧
    (HashInner.absOfRunG {} HashCallExamples.cfgStrict prefRoute (HashPooledCall.init HashPooledCallExamples.pool1 [0, 1] 0) 0
        HashPooledCallExamples.setCalls).2 =
      (HashCall.absOfRun {} HashCallExamples.cfgStrict prefRoute (HashCall.init [0, 1] 0) 0 HashCallExamples.setCalls).2 := by
  refine ⟨?_, ?_⟩
  · have h1 := HashPooledCallExamples.demo_set_pooled.2.2
    have h2 := HashCallExamples.demo_set.2.2
    simp only [HashPooledCallExamples.manyStateP, HashCallExamples.manyState, Prod.mk.injEq] at h1 h2
    exact h1.1.trans h2.1.symm
  · rw [HashPooledCallExamples.demo_set_projection_pooled.2.2.1, HashCallExamples.demo_set_projection.2.2.1]

/-- C13 (`use_pooling=True`, general histories, both window bounds).  In every general pooled history (single-key calls,
`get_many` / `gets_many`, `set_many`, `delete_many`) whose clock never goes back, in which every call satisfies
`HashInner.projOKG`, and which contains no `set_many` if `ignore_exc` is on (the known defect, see
`C13_hashpooled_many_setmany_ignoreexc_counterexample`), for every server `s`: among the contacts to `s` during which the
pooled call raised an `OSError` (`HashInner.contactLogGM`: all contacts of the run with the outcomes of the real pooled
calls), any window `[t, t + retry_timeout]` contains at most two; and among those made since the last contact to `s` that
returned normally, any window `[t, t + dead_timeout]` contains at most `retry_attempts + 2`. -/
theorem C13_hashpooled_many_probing_windows (ccfg : Wire.Cfg) (pcfg : Pooled.Cfg) (c : Cfg) (route : List Srv → RK → Option Srv)
    (hlaw : RouteLaw route) (hlt : c.rt < c.dt) (servers : List Srv) (t0 : Time) (calls : List (HashPooledCall.MPCall RK))
    (hch : HashInner.ChronoGM t0 calls)
    (hok : HashInner.allProjOKG c calls
      (HashPooledCall.runMP ccfg pcfg c route (HashPooledCall.init pcfg servers t0) 0 calls).2 = true)
    (hns : c.ignoreExc = true → ∀ mc ∈ calls, mc.op.isSetMany = false) (s : Srv) :
    let L := HashInner.contactLogGM calls (HashPooledCall.runMP ccfg pcfg c route (HashPooledCall.init pcfg servers t0) 0 calls).2
    (∀ t : Time, countIn t c.rt (oserrTimes s L) ≤ 2) ∧
    (∀ t : Time, countIn t c.dt (oserrTimes s (sinceLastOk s L)) ≤ c.ra + 2) := by
  intro L
  have hproj := C13_hashpooled_many_projection ccfg pcfg c route hlaw servers t0 calls
  simp only at hproj
  have hL : L = contactsOf (run c route (init servers t0)
      (HashInner.absOfRunG ccfg c route (HashPooledCall.init pcfg servers t0) 0 calls).1).2 := by
    rw [hproj hok]
    exact (HashInner.contactsOf_absOfRunG (I := HashPooledCall.pooled pcfg) ccfg c route (HashPooledCall.init pcfg servers t0) 0 calls).symm
  have hchr := HashInner.chrono_absOfRunG (I := HashPooledCall.pooled pcfg) ccfg c route (HashPooledCall.init pcfg servers t0) 0 t0 calls hch
  have hns' : NoSetManyUnderIgnoreExc c (HashInner.absOfRunG ccfg c route (HashPooledCall.init pcfg servers t0) 0 calls).1 :=
    fun hi e he => HashInner.absOfRunG_noSetMany (I := HashPooledCall.pooled pcfg) ccfg c route (HashPooledCall.init pcfg servers t0) 0
      calls (hns hi) e he
  rw [hL]
  exact ⟨(C13_le_two_per_rt_window c route hlaw hlt servers t0 _ hchr hns' s).2,
    (C13_le_ra_plus_two_per_dt_window c route hlaw hlt servers t0 _ hchr hns' s).2⟩

/-- non-vacuity: `HashPooledCallExamples.setCalls` (four `set_many`, two `delete_many`, `ignore_exc=False`, pooling) is
chronological and satisfies `projOKG`; the `OSError` contacts to server 0 happen at 1 (`set_many`), 3 (`delete_many`) and 5
(`set_many`, the final probe after the eviction). -/
example : HashInner.ChronoGM 0 HashPooledCallExamples.setCalls ∧ RouteLaw prefRoute ∧
    HashCallExamples.cfgStrict.rt < HashCallExamples.cfgStrict.dt ∧
    HashInner.allProjOKG HashCallExamples.cfgStrict HashPooledCallExamples.setCalls
      (HashPooledCall.runMP {} HashPooledCallExamples.pool1 HashCallExamples.cfgStrict prefRoute
        (HashPooledCall.init HashPooledCallExamples.pool1 [0, 1] 0) 0 HashPooledCallExamples.setCalls).2 = true ∧
    (HashCallExamples.cfgStrict.ignoreExc = true → ∀ mc ∈ HashPooledCallExamples.setCalls, mc.op.isSetMany = false) ∧
    oserrTimes 0 (HashInner.contactLogGM HashPooledCallExamples.setCalls
      (HashPooledCall.runMP {} HashPooledCallExamples.pool1 HashCallExamples.cfgStrict prefRoute
        (HashPooledCall.init HashPooledCallExamples.pool1 [0, 1] 0) 0 HashPooledCallExamples.setCalls).2) = [1, 3, 5] :=
  ⟨by simp [HashInner.ChronoGM, HashPooledCallExamples.setCalls, HashCallExamples.setCalls, HashPooledCallExamples.toGM,
      HashInner.ofMCall],
    prefRoute_law, by decide, HashPooledCallExamples.demo_set_projection_pooled.1, (fun h => by cases h), by decide +kernel⟩

/-- C13 (known defect `C13-setmany-ignoreexc`, with `use_pooling=True`).  A `HashClient(use_pooling=True, ignore_exc=True,
retry_attempts=1, retry_timeout=1, dead_timeout=5, max_pool_size=1)` over servers 0 and 1; server 0 is down: every pooled
`set_many` on it fails with a socket error (`ECONNREFUSED`).

1. Five `set_many({k: v})` at the same tick: server 0 is contacted by every one of them (five `OSError` contacts within one
   `retry_timeout` — the bound is 2 — and within one `dead_timeout` since the last success — the bound is 3); every time the
   pool of server 0 destroys the inner client whose call failed (inner clients 0 … 4) — the pool layer does its part —,
   but `_set_many` swallows the exception: the server is never marked failed nor evicted, and every call returns `[]`.  The
   history satisfies `projOKG`.
2. A failing `get` at t=0 marks server 0; a failing `set_many` at t=2 (retry window open) *clears* the failure record. -/
theorem C13_hashpooled_many_setmany_ignoreexc_counterexample :
    let calls := HashPooledCallExamples.setDownCalls
    let r := HashPooledCall.runMP {} HashPooledCallExamples.pool1 HashCallExamples.cfgIgnore prefRoute
      (HashPooledCall.init HashPooledCallExamples.pool1 [0, 1] 0) 0 calls
    let L := HashInner.contactLogGM calls r.2
    HashInner.ChronoGM 0 calls ∧
    HashInner.allProjOKG HashCallExamples.cfgIgnore calls r.2 = true ∧
    L = [(0, 0, .oserror), (0, 0, .oserror), (0, 0, .oserror), (0, 0, .oserror), (0, 0, .oserror)] ∧
    countIn 0 HashCallExamples.cfgIgnore.rt (oserrTimes 0 L) = 5 ∧
    countIn 0 HashCallExamples.cfgIgnore.dt (oserrTimes 0 (sinceLastOk 0 L)) = 5 ∧
    r.1.fo = { nodes := [0, 1], failed := [], dead := [], lastDeadCheck := 0 } ∧
    r.2.map (fun ob => (ob.res : HashInner.HRes HashPooledCall.PExc)) =
      [.value (.keys []), .value (.keys []), .value (.keys []), .value (.keys []), .value (.keys [])] ∧
    r.2.map (fun ob => (HashPooledCall.pobsOf ob).map (·.client)) = [[some 0], [some 1], [some 2], [some 3], [some 4]] ∧
    (HashPooledCall.runMP {} HashPooledCallExamples.pool1 HashCallExamples.cfgIgnore prefRoute
        (HashPooledCall.init HashPooledCallExamples.pool1 [0, 1] 0) 0 (HashPooledCallExamples.setClearsCalls.take 1)).1.fo =
      { nodes := [0, 1], failed := [(0, 0, 0)], dead := [], lastDeadCheck := 0 } ∧
    (HashPooledCall.runMP {} HashPooledCallExamples.pool1 HashCallExamples.cfgIgnore prefRoute
        (HashPooledCall.init HashPooledCallExamples.pool1 [0, 1] 0) 0 HashPooledCallExamples.setClearsCalls).1.fo =
      { nodes := [0, 1], failed := [], dead := [], lastDeadCheck := 0 } ∧
    HashInner.contactLogGM HashPooledCallExamples.setClearsCalls
        (HashPooledCall.runMP {} HashPooledCallExamples.pool1 HashCallExamples.cfgIgnore prefRoute
          (HashPooledCall.init HashPooledCallExamples.pool1 [0, 1] 0) 0 HashPooledCallExamples.setClearsCalls).2 =
      [(0, 0, .oserror), (0, 2, .oserror)] := by
  refine ⟨by simp [HashInner.ChronoGM, HashPooledCallExamples.setDownCalls, HashCallExamples.setDownCalls,
      HashCallExamples.setDownAt, HashPooledCallExamples.toGM, HashInner.ofMCall],
    by decide +kernel, by decide +kernel, by decide +kernel, by decide +kernel, by decide +kernel, by decide +kernel,
    by decide +kernel, by decide +kernel, by decide +kernel, by decide +kernel⟩

/-- C13 (`use_pooling=True`, general histories, no internal bookkeeping error).  In every general pooled history every call of
which satisfies `HashInner.projOKG`, no call — single-key, `get_many` / `gets_many`, `set_many`, `delete_many` — ends in
`internalError`: every dict `pop` / `del` / lookup of the failover code — including `self.clients[server]` in the second
loop of a multi-key call, after the `_retry_dead`s of the first loop have replaced `PooledClient`s, and the `pop` of the
failure record in the retry branch of `_safely_run_set_many` — and every `remove_node` finds its key. -/
theorem C13_hashpooled_many_no_internal_error (ccfg : Wire.Cfg) (pcfg : Pooled.Cfg) (c : Cfg) (route : List Srv → RK → Option Srv)
    (hlaw : RouteLaw route) (servers : List Srv) (t0 : Time) (calls : List (HashPooledCall.MPCall RK))
    (hok : HashInner.allProjOKG c calls
      (HashPooledCall.runMP ccfg pcfg c route (HashPooledCall.init pcfg servers t0) 0 calls).2 = true) :
    ∀ ob ∈ (HashPooledCall.runMP ccfg pcfg c route (HashPooledCall.init pcfg servers t0) 0 calls).2,
      HashInner.isInternalError ob.res = false := by
  intro ob hob
  cases hres : HashInner.isInternalError ob.res
  · rfl
  · exfalso
    have hres' : ob.res = .internalError := by
      cases h : ob.res <;> simp [h, HashInner.isInternalError] at hres ⊢
    obtain ⟨i, hi⟩ := List.getElem?_of_mem hob
    have hlen := HashInner.runGM_length (I := HashPooledCall.pooled pcfg) ccfg c route (HashPooledCall.init pcfg servers t0) 0 calls
    have hlt : i < calls.length := by
      rw [← hlen]
      exact (List.getElem?_eq_some_iff.mp hi).1
    have hmc : calls[i]? = some calls[i] := List.getElem?_eq_getElem hlt
    obtain ⟨-, h2⟩ := HashInner.runGM_split (I := HashPooledCall.pooled pcfg) ccfg c route (HashPooledCall.init pcfg servers t0) 0 calls
      i calls[i] hmc
    rw [Nat.zero_add] at h2
    have hob' : ob = (HashInner.callGM ccfg c route
        (HashInner.runGM ccfg c route (HashPooledCall.init pcfg servers t0) 0 (calls.take i)).1 i calls[i]).2 := by
      have h : (HashInner.runGM ccfg c route (HashPooledCall.init pcfg servers t0) 0 calls).2[i]? = some ob := hi
      rw [h2] at h
      exact (Option.some.inj h).symm
    rw [hob'] at hres'
    obtain ⟨cs, hmem⟩ := HashInner.callGM_internal_mem (I := HashPooledCall.pooled pcfg) ccfg c route _ i calls[i] hres'
    have hrun := HashInner.absOfCallG_mem_run (I := HashPooledCall.pooled pcfg) ccfg c route hlaw (HashPooledCall.init pcfg servers t0)
      calls (HashInner.cover_init _ servers t0) hok i calls[i] hmc _ hmem
    rw [HashInner.init_proj] at hrun
    exact C13_no_internal_error c route hlaw servers t0 _ _ hrun rfl

/-- non-vacuity: the hypothesis holds of `HashPooledCallExamples.setCalls` and `HashPooledCallExamples.idleCalls` (see the example
after `C13_hashpooled_many_projection`), whose calls end in values and in server errors — results per call -/
example :
    (HashPooledCall.runMP {} HashPooledCallExamples.poolIdle HashCallExamples.cfgStrict prefRoute
        (HashPooledCall.init HashPooledCallExamples.poolIdle [0, 1] 0) 0 HashPooledCallExamples.idleCalls).2.map
        (fun ob => (ob.res : HashInner.HRes HashPooledCall.PExc)) =
      [.value (.dict [(.bytes [107], [120])]), .raised 0 (.inner (.sock 32)), .value (.keys []), .raised 0 (.inner (.sock 32))] := by
  decide +kernel

end hashpooledmany

/-! ## `HashClient ∘ Client`: histories that mix key-addressed calls and broadcasts — the bookkeeping invariants

`C13_hash_no_internal_error` (and the `…_many_…` / `…_hashpooled_…` variants) speak about histories of key-addressed calls.  A
broadcast leads to bookkeeping states no key-addressed call reaches: a server that is out of rotation *and* has a failure
record (a broadcast contacted it although `hasher.get_node` would never return it), a dead time that was reset, and the
state `remove_server` leaves behind when `hasher.remove_node` raises half-way (`_failed_clients.pop(server)` and
`_dead_clients[server] = now` done, the hasher unchanged).  The theorems below carry the invariants through all of them
(`Pymc/Proofs/HashBroadcastMixed.lean`: every statement of `_safely_run_func` / `_mark_failed_server` / `remove_server` as a
broadcast runs them; `Pymc/Proofs/HashBroadcastMixedKeyed.lean`: every key-addressed call from a state with the invariants),
by induction over the history — no hypothesis on the clock, on the configuration, or on how the calls end (in particular no
`projOK`: the invariants survive an illegal key in the middle of a `get_many` and a `BaseException` under `ignore_exc`, which
the projection onto the abstract model does not). -/
section hashbroadcastmixed

variable {RK : Type}

/-- C13 (`HashClient ∘ Client`, mixed histories: the bookkeeping invariants).  After every history of key-addressed calls and
broadcasts on a fresh `HashClient`: the rotation, `_dead_clients` and `self.clients` hold every server at most once; with
`retry_attempts = 0` there is no failure record; a server with a dead time is out of rotation; and every server in rotation
has a client object registered in `self.clients` (rotation ⊆ registered). -/
theorem C13_hash_broadcast_mixed_bookkeeping_invariants (ccfg : Wire.Cfg) (c : Cfg) (route : List Srv → RK → Option Srv)
    (hlaw : RouteLaw route) (servers : List Srv) (t0 : Time) (calls : List (HashCall.BCall RK)) :
    let st := (HashCall.runB ccfg c route (HashCall.init servers t0) 0 calls).1
    st.fo.nodes.Nodup ∧ (keys st.fo.dead).Nodup ∧ st.servers.Nodup ∧
    (c.ra = 0 → st.fo.failed = []) ∧
    (∀ s td, alookup s st.fo.dead = some td → s ∉ st.fo.nodes) ∧
    (∀ s ∈ st.fo.nodes, ∃ cl, alookup s st.clients = some cl) := by
  intro st
  have hb := (HashCall.runB_book ccfg route hlaw (HashCall.init servers t0) 0 calls (HashCall.book_init c servers t0)).1
  have hn := HashCall.runB_nodup ccfg c route (HashCall.init servers t0) 0 calls (HashCall.nodup_init servers t0)
  exact ⟨hb.wf.nodesNodup, hb.wf.deadNodup, hn, hb.wf.raZero, hb.wf.deadOut, hb.cover⟩

/-- non-vacuity: the state after call 6 of `HashBroadcastExamples.mixedCalls` — a `flush_all()` whose `remove_server(0)` raised
half-way: server 0 has no failure record any more, a fresh dead time, and was not in rotation to begin with -/
example :
    (HashCall.runB {} HashCallExamples.cfgIgnore prefRoute (HashCall.init [0, 1] 0) 0 (HashBroadcastExamples.mixedCalls.take 7)).1.fo =
      { nodes := [1], failed := [], dead := [(0, 14)], lastDeadCheck := 10 } ∧
    (HashCall.runB {} HashCallExamples.cfgIgnore prefRoute (HashCall.init [0, 1] 0) 0 (HashBroadcastExamples.mixedCalls.take 4)).1.fo =
      { nodes := [1], failed := [(0, 1, 6)], dead := [(0, 4)], lastDeadCheck := 0 } := by
  refine ⟨by decide +kernel, by decide +kernel⟩

/-- C13 (`HashClient ∘ Client`, mixed histories: **no internal bookkeeping error on the key-addressed paths**).  In every
history of key-addressed calls and broadcasts on a fresh `HashClient`, no key-addressed call — single-key, `get_many` /
`gets_many`, `set_many`, `delete_many` — ends in `internalError`: every dict `pop` / `del` / lookup of `_get_client`,
`_retry_dead`, `_safely_run_func`, `_safely_run_set_many`, `_mark_failed_server`, `remove_server` — including
`self.clients[server]` — and every `hasher.remove_node` on those paths finds its key, also in the states broadcasts leave
behind.  (`C13_hash_no_internal_error` for histories with broadcasts; the internal `ValueError` a *broadcast* can raise is
`C13_hash_broadcast_bookkeeping_error_iff`.) -/
theorem C13_hash_broadcast_mixed_no_internal_error (ccfg : Wire.Cfg) (c : Cfg) (route : List Srv → RK → Option Srv)
    (hlaw : RouteLaw route) (servers : List Srv) (t0 : Time) (calls : List (HashCall.BCall RK)) :
    ∀ (i : Nat) (ob : HashCall.MObs),
      (HashCall.runB ccfg c route (HashCall.init servers t0) 0 calls).2[i]? = some (.keyed ob) →
      ob.res ≠ .internalError :=
  (HashCall.runB_book ccfg route hlaw (HashCall.init servers t0) 0 calls (HashCall.book_init c servers t0)).2

/-- non-vacuity: `HashBroadcastExamples.mixedCalls` — call 4, a `get`, finds server 0 revived *with a used-up failure record* (a
state only broadcasts produce): `remove_server` goes through, the probe is refused, the default comes back; call 7, a `get`
made after a `flush_all()` whose `remove_server` raised half-way, is served by the revived server — and the `internalError`
branch is real: from a state that violates the invariants (server 0 in rotation, no client object registered for it) the
same call does end in it -/
example :
    HashBroadcastExamples.xSummary
        (HashCall.runB {} HashCallExamples.cfgIgnore prefRoute (HashCall.init [0, 1] 0) 0 HashBroadcastExamples.mixedCalls) =
      [(.inr .done, [(0, some 0), (1, some 1)]), (.inr .done, [(0, some 0), (1, some 1)]),
       (.inr .done, [(0, some 0), (1, some 1)]), (.inr .done, [(0, some 0), (1, some 1)]),
       (.inl .default, [(0, some 2)]),
       (.inr .done, [(0, some 2), (1, some 1)]),
       (.inr .done, [(0, none), (1, some 1)]),
       (.inl (.value (.bytes [120])), [(0, some 3)])] ∧
    (HashCall.callH {} HashCallExamples.cfgIgnore prefRoute
        { fo := { nodes := [0, 1], failed := [], dead := [], lastDeadCheck := 0 }, clients := [(1, { id := 1 })],
          nextClient := 2 } 0 10 [0, 1] HashCallExamples.getK {}).2.res = .internalError :=
  ⟨HashBroadcastExamples.demo_mixed.1, by decide +kernel⟩

end hashbroadcastmixed

end Failover
