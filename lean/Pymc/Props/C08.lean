import Pymc.Proofs.PoolConcExamples
/-!
# C08 — pooled connections are never shared between threads

Property text: "For every interleaving of threads using one PooledClient (or the object pool beneath it),
a pooled connection is held by at most one thread from checkout to release, the pool never contains more
than max_pool_size connections nor lists one twice, no checkout, release or destroy fails with an
internal error, no schedule deadlocks, and when all threads are done every connection ever created is
either idle in the pool or was closed exactly once."

Model: `Pymc/Model/PoolConc.lean` — micro-step interleaving semantics of `pymemcache/pool.py` (one step
per point where another thread may be scheduled) under the `get_and_release(destroy_on_fail=True)`
bracket of `PooledClient`, `PooledClient.quit` (extra `destroy`) and `PooledClient.close` (= `clear`).
`Reachable programs maxSize s`: `s` is reached from the initial state by finitely many enabled micro-steps,
for ANY number of threads (`programs : List Program`, thread `i` runs `programs[i]`), ANY programs over
`useOk | useFail | quitOk | quitFail | clear`, ANY interleaving and ANY outcome of the idle test.
All theorems hold for every `maxSize` (Python's effective `max_size` is always ≥ 1).

The inductive invariant is `PoolConc.Inv` (Pymc/Proofs/PoolConcInv.lean, 18 conjuncts), proved preserved
by every micro-step in Pymc/Proofs/PoolConcStep1–4.lean.

## What is *not* true of the code as written (finding 11)

The property text taken with sockets ("…or was closed exactly once" meaning: no connection stays open
outside the pool) fails when `clear()` (= `PooledClient.close()`) runs while another thread has a
connection checked out: `clear` closes the checked-out client, the holder's next command reconnects it
lazily, the holder's `release` is a silent no-op because the client is no longer in `_used_objs`, and the
reconnected socket is never closed.  In the model the ghost `reopened o` records a `work` step on an
already closed connection.  Full statement (FALSE, kept for the record):

    theorem C08_no_socket_leak (h : Reachable programs maxSize s) : ∀ o, s.reopened o = false

Proved instead: `C08_no_socket_leak_partial` (hypothesis: the critical section of `clear` never runs while
a connection is checked out), its corollary for `clear`-free programs, and the negation of the full
statement on a concrete schedule, `C08_clear_vs_holder_counterexample`.  The count-based accounting
(`C08_quiescent_accounting`, `C08_closed_at_most_once`) holds unconditionally.
-/
namespace PoolConc

variable {programs : List Program} {maxSize : Nat} {s : State}

/-- C08 (mutual exclusion).  A thread whose program counter is strictly inside a `with self._lock` block
owns the lock, and at most one thread is inside such a block. -/
theorem C08_mutex (h : Reachable programs maxSize s) :
    (∀ t, (s.th t).pc.inCS = true → s.lock = some t) ∧
    (∀ t u, (s.th t).pc.inCS = true → (s.th u).pc.inCS = true → t = u) := by
  have hI := inv_reachable h
  refine ⟨fun t ht => (hI.mutex t).mp ht, fun t u ht hu => ?_⟩
  have h1 := (hI.mutex t).mp ht
  have h2 := (hI.mutex u).mp hu
  rw [h1] at h2
  exact Option.some.inj h2

/-- non-vacuity of `C08_mutex`: a reachable state with thread 1 inside the critical section of `get`
(lock owned by 1) while thread 0 waits. -/
example : ∃ s, Reachable [[.useOk], [.useOk]] 2 s ∧ (s.th 1).pc.inCS = true ∧ s.lock = some 1 := by
  obtain ⟨s, hr, hp⟩ := runCheck_reachable (maxSize := 2) (programs := [[.useOk], [.useOk]])
    (sched := taus 1 3) (p := fun s => (s.th 1).pc.inCS && decide (s.lock = some 1)) (by decide)
  exact ⟨s, hr, by simpa using hp⟩

/-- C08 (exclusive holding).  The holding map is injective — no connection is held by two threads between
checkout and the end of the bracket — and a connection that is idle in the pool is held by nobody. -/
theorem C08_held_by_at_most_one (h : Reachable programs maxSize s) :
    (∀ t u o, (s.th t).pc.holds = some o → (s.th u).pc.holds = some o → t = u) ∧
    (∀ o, o ∈ s.free → ∀ t, (s.th t).pc.holds ≠ some o) := by
  have hI := inv_reachable h
  exact ⟨hI.holdExcl, fun o ho t ht => (hI.holdOk t o ht).2 ho⟩

/-- non-vacuity of `C08_held_by_at_most_one`: two threads hold two different connections at once. -/
example : ∃ s, Reachable [[.useOk], [.useOk]] 2 s ∧
    (s.th 0).pc.holds = some 0 ∧ (s.th 1).pc.holds = some 1 := by
  obtain ⟨s, hr, hp⟩ := runCheck_reachable (maxSize := 2) (programs := [[.useOk], [.useOk]])
    (sched := taus 0 6 ++ taus 1 6)
    (p := fun s => decide ((s.th 0).pc.holds = some 0) && decide ((s.th 1).pc.holds = some 1)) (by decide)
  exact ⟨s, hr, by simpa using hp⟩

/-- C08 (no duplicates, capacity).  At every reachable state the pool lists no connection twice (neither
within nor across `_used_objs` / `_free_objs`) and holds at most `max_size` connections. -/
theorem C08_no_duplicates_and_capacity (h : Reachable programs maxSize s) :
    (s.used ++ s.free).Nodup ∧ s.used.length + s.free.length ≤ maxSize := by
  have hI := inv_reachable h
  refine ⟨hI.nodup, ?_⟩
  have := hI.cap 0
  rw [maxSize_const h] at this
  omega

/-- non-vacuity of `C08_no_duplicates_and_capacity`: the bound is attained (`max_size = 1`, one
connection in use) and the second thread's `get` then fails with the documented capacity error. -/
example : ∃ s, Reachable [[.useOk], [.useOk]] 1 s ∧ s.used.length + s.free.length = 1 ∧
    (s.th 1).pc = .getRaised := by
  obtain ⟨s, hr, hp⟩ := runCheck_reachable (maxSize := 1) (programs := [[.useOk], [.useOk]])
    (sched := taus 0 6 ++ taus 1 3)
    (p := fun s => decide (s.used.length + s.free.length = 1) && decide ((s.th 1).pc = .getRaised)) (by decide)
  exact ⟨s, hr, by simpa using hp⟩

/-- C08 (no internal error).  No thread ever reaches the internal-error program counter: `popleft` is
only executed on a non-empty `_free_objs` (no IndexError), every `with self._lock` exit releases a lock
the thread owns, and the `ValueError` of `_used_objs.remove` only occurs on the handled `silent` path
(which is an ordinary step of the model, event `silent-miss`).  Consequently no enabled step emits an
`internal-error` event.  ("Too many objects" is the documented capacity error, event `raise-too-many`.) -/
theorem C08_no_internal_error (h : Reachable programs maxSize s) :
    (∀ t, (s.th t).pc ≠ .internalError) ∧
    (∀ t f, (s.th t).pc = .getPop f → s.free ≠ []) ∧
    (∀ t l s' evs, stepE s t l = some (s', evs) → Event.internalError ∉ evs) := by
  have hI := inv_reachable h
  refine ⟨hI.noErr, hI.popOk, fun t l s' evs hs he => ?_⟩
  have hI' := inv_reachable (Reachable.step h (step_of_stepE hs))
  exact hI'.noErr t (internalError_event hs he)

/-- non-vacuity of `C08_no_internal_error`: the `popleft` branch and the silent-miss branch are reachable
(thread 0 returns a connection, takes it again; `quitOk`'s final `release` is a silent miss). -/
example : runSchedule 1 [[.useOk, .quitOk]] (taus 0 14 ++ [(0, .fresh)] ++ taus 0 9) =
    ["acq 0", "len-free 0", "len-used 0", "create 0", "append-used 0", "rel 0", "work 0",
     "acq 0", "remove-used 0", "append-free 0", "rel 0",
     "acq 0", "len-free 1", "popleft 0", "append-used 0", "rel 0", "work 0",
     "acq 0", "remove-used 0", "rel 0", "after_remove 0",
     "acq 0", "silent-miss 0", "rel 0"] := by decide

/-- C08 (no deadlock).  In every reachable state in which some thread has not finished its program,
some micro-step is enabled. -/
theorem C08_no_deadlock (h : Reachable programs maxSize s) (hd : ∃ t, (s.th t).done = false) :
    ∃ t l s', step s t l = some s' :=
  no_deadlock_of_inv s (inv_reachable h) hd

/-- non-vacuity of `C08_no_deadlock`: a reachable state with an unfinished thread blocked on the lock. -/
example : ∃ s, Reachable [[.useOk], [.clear]] 1 s ∧ (∃ t, (s.th t).done = false) ∧
    step s 1 .tau = none := by
  obtain ⟨s, hr, hp⟩ := runCheck_reachable (maxSize := 1) (programs := [[.useOk], [.clear]])
    (sched := taus 0 2)
    (p := fun s => !(s.th 1).done && (step s 1 .tau).isNone) (by decide)
  simp only [Bool.and_eq_true, Bool.not_eq_eq_eq_not, Bool.not_true, Option.isNone_iff_eq_none] at hp
  exact ⟨s, hr, ⟨1, hp.1⟩, hp.2⟩

/-- C08 (the lock is released on every path).  The owner of the lock is never blocked: it always has an
enabled micro-step (including after the `RuntimeError` raised inside `get`'s `with` block). -/
theorem C08_lock_owner_can_move (h : Reachable programs maxSize s) (t : Tid) (hl : s.lock = some t) :
    ∃ l s', step s t l = some s' :=
  enabled_of_inCS s t (((inv_reachable h).mutex t).mpr hl)

/-- non-vacuity of `C08_lock_owner_can_move`: the owner sitting on the in-flight RuntimeError. -/
example : ∃ s, Reachable [[.useOk], [.useOk]] 1 s ∧ s.lock = some 1 ∧ (s.th 1).pc = .getRaised := by
  obtain ⟨s, hr, hp⟩ := runCheck_reachable (maxSize := 1) (programs := [[.useOk], [.useOk]])
    (sched := taus 0 6 ++ taus 1 3)
    (p := fun s => decide (s.lock = some 1) && decide ((s.th 1).pc = .getRaised)) (by decide)
  exact ⟨s, hr, by simpa using hp⟩

/-- C08 (quiescent accounting).  When all threads are done: nothing is checked out (`_used_objs` is
empty), the lock is free, the pool only lists created connections, and every connection ever created is
either idle in the pool and has never been closed, or is not in the pool and was closed exactly once. -/
theorem C08_quiescent_accounting (h : Reachable programs maxSize s) (hd : s.allDone) :
    s.used = [] ∧ s.lock = none ∧ (∀ o, o ∈ s.free → o < s.created) ∧
    ∀ o, o < s.created → (o ∈ s.free ∧ s.closedCnt o = 0) ∨ (o ∉ s.free ∧ s.closedCnt o = 1) := by
  have hI := inv_reachable h
  obtain ⟨h1, h2, h3⟩ := quiescent_of_inv s hI hd
  exact ⟨h1, h2, fun o ho => hI.freshPool o (Or.inr ho), h3⟩

/-- non-vacuity of `C08_quiescent_accounting`: a quiescent state with one idle connection (never closed)
and one destroyed connection (closed once). -/
example : ∃ s, Reachable [[.useOk], [.useFail]] 2 s ∧ s.allDone ∧ s.created = 2 ∧ s.free = [0] ∧
    s.closedCnt 0 = 0 ∧ s.closedCnt 1 = 1 := by
  obtain ⟨s, hr, hp⟩ := runCheck_reachable (maxSize := 2) (programs := [[.useOk], [.useFail]])
    (sched := taus 0 6 ++ taus 1 11 ++ taus 0 5)
    (p := fun s => ((List.range 2).all fun t => (s.th t).done) && decide (s.created = 2) &&
      decide (s.free = [0]) && decide (s.closedCnt 0 = 0) && decide (s.closedCnt 1 = 1)) (by decide)
  simp only [Bool.and_eq_true, decide_eq_true_eq] at hp
  exact ⟨s, hr, allDone_of_prefix hr hp.1.1.1.1, hp.1.1.1.2, hp.1.1.2, hp.1.2, hp.2⟩

/-- non-vacuity of `C08_quiescent_accounting` on the failing-creator branch: the only idle connection has idled out, `get` discards
it (closing it) and then the creation of its replacement fails - the checkout fails, and at quiescence the discarded
connection has been closed exactly once (it is not forgotten because the checkout did not succeed). -/
example : runSchedule 1 [[.useOk, .useOk]] (taus 0 14 ++ [(0, .expired)] ++ taus 0 2 ++ [(0, .createFail)] ++ taus 0 1) =
    ["acq 0", "len-free 0", "len-used 0", "create 0", "append-used 0", "rel 0", "work 0",
     "acq 0", "remove-used 0", "append-free 0", "rel 0",
     "acq 0", "len-free 1", "popleft 0", "after_remove 0", "len-free 0", "len-used 0", "create-failed", "rel 0"] := by decide

example : ∃ s, Reachable [[.useOk, .useOk]] 1 s ∧ s.allDone ∧ s.created = 1 ∧ s.free = [] ∧ s.closedCnt 0 = 1 := by
  obtain ⟨s, hr, hp⟩ := runCheck_reachable (maxSize := 1) (programs := [[.useOk, .useOk]])
    (sched := taus 0 14 ++ [(0, .expired)] ++ taus 0 2 ++ [(0, .createFail)] ++ taus 0 1)
    (p := fun s => ((List.range 1).all fun t => (s.th t).done) && decide (s.created = 1) &&
      decide (s.free = []) && decide (s.closedCnt 0 = 1)) (by decide)
  simp only [Bool.and_eq_true, decide_eq_true_eq] at hp
  exact ⟨s, hr, allDone_of_prefix hr hp.1.1.1, hp.1.1.2, hp.1.2, hp.2⟩

/-- C08 (closed at most once).  `after_remove` (= `client.close()`) is never called twice on the same
connection, in any reachable state. -/
theorem C08_closed_at_most_once (h : Reachable programs maxSize s) : ∀ o, s.closedCnt o ≤ 1 :=
  closed_le_one_of_inv s (inv_reachable h)

/-- non-vacuity of `C08_closed_at_most_once`: `quit` followed by its silent second pool call leaves the
connection closed exactly once, for both endings of `quit`. -/
example : ∃ s, Reachable [[.quitOk], [.quitFail]] 2 s ∧ s.closedCnt 0 = 1 ∧ s.closedCnt 1 = 1 := by
  obtain ⟨s, hr, hp⟩ := runCheck_reachable (maxSize := 2) (programs := [[.quitOk], [.quitFail]])
    (sched := taus 0 6 ++ taus 1 6 ++ taus 0 8 ++ taus 1 8)
    (p := fun s => ((List.range 2).all fun t => (s.th t).done) &&
      decide (s.closedCnt 0 = 1) && decide (s.closedCnt 1 = 1)) (by decide)
  simp only [Bool.and_eq_true, decide_eq_true_eq] at hp
  exact ⟨s, hr, hp.1.2, hp.2⟩

/-- C08 (no socket leak) — PARTIAL: under the hypothesis that the critical section of `clear()` never
runs while a connection is checked out (`ReachableNoClearRace`), no connection is ever used after it was
closed; so (with `C08_quiescent_accounting`) at quiescence no socket is open outside the pool.
The statement without the hypothesis is false: `C08_clear_vs_holder_counterexample`. -/
theorem C08_no_socket_leak_partial (h : ReachableNoClearRace programs maxSize s) :
    ∀ o, s.reopened o = false :=
  (invQ_reachable h).noReopen

/-- C08 (no socket leak) — PARTIAL, program-level form: if no thread program contains `clear`
(`PooledClient.close()` is not called concurrently with other calls), no connection is ever used after
it was closed, in any reachable state. -/
theorem C08_no_socket_leak_without_clear_partial (hp : ∀ p ∈ programs, Op.clear ∉ p)
    (h : Reachable programs maxSize s) : ∀ o, s.reopened o = false :=
  C08_no_socket_leak_partial (noClearRace_of_noClear hp h)

/-- non-vacuity of the `_partial` theorems: `clear`-free programs exist that exercise every other Op; and
a schedule in which `clear` runs after the other thread has returned its connection satisfies
`ReachableNoClearRace` (the idle connection is closed once, nothing leaks). -/
example : (∀ p ∈ [[Op.useOk, .quitOk], [.useFail, .quitFail]], Op.clear ∉ p) ∧
    ∃ s, ReachableNoClearRace [[.useOk], [.clear]] 1 s ∧ s.free = [] ∧ s.closedCnt 0 = 1 ∧
      (s.th 0).done = true ∧ (s.th 1).done = true := by
  refine ⟨by decide, ?_⟩
  obtain ⟨s, hr, hp⟩ := runNC_reachable (m := 1) (programs := [[.useOk], [.clear]])
    (sched := taus 0 11 ++ taus 1 4)
    (p := fun s => decide (s.free = []) && decide (s.closedCnt 0 = 1) && (s.th 0).done && (s.th 1).done)
    (by decide)
  simp only [Bool.and_eq_true, decide_eq_true_eq] at hp
  exact ⟨s, hr, hp.1.1.1, hp.1.1.2, hp.1.2, hp.2⟩

/-- C08, finding 11 — the full "no socket leak" statement is FALSE for the code as written.  Witness:
`max_size = 1`, thread 0 runs one ordinary call, thread 1 runs `close()`; schedule: `get₀` (6 steps);
`clear₁` completely (4 steps: it closes the checked-out connection 0); `work₀` (the holder's command
reconnects the closed client); `release₀` (3 steps, silent miss).  All threads are done, the pool is
empty, connection 0 was closed once *before* its last use, and was used (re-opened) afterwards: its
socket is never closed. -/
theorem C08_clear_vs_holder_counterexample :
    ∃ s, Reachable [[.useOk], [.clear]] 1 s ∧ s.allDone ∧ s.used = [] ∧ s.free = [] ∧ s.created = 1 ∧
      s.closedCnt 0 = 1 ∧ s.reopened 0 = true := by
  obtain ⟨s, hr, hp⟩ := runCheck_reachable (maxSize := 1) (programs := [[.useOk], [.clear]])
    (sched := schedClearVsHolder)
    (p := fun s => ((List.range 2).all fun t => (s.th t).done) && decide (s.used = []) &&
      decide (s.free = []) && decide (s.created = 1) && decide (s.closedCnt 0 = 1) && s.reopened 0)
    (by decide)
  simp only [Bool.and_eq_true, decide_eq_true_eq] at hp
  exact ⟨s, hr, allDone_of_prefix hr hp.1.1.1.1.1, hp.1.1.1.1.2, hp.1.1.1.2, hp.1.1.2, hp.1.2, hp.2⟩

/-- the event trace of the counterexample schedule, in the canonical form diffed against the real pool -/
example : runSchedule 1 [[.useOk], [.clear]] schedClearVsHolder =
    ["acq 0", "len-free 0", "len-used 0", "create 0", "append-used 0", "rel 0",
     "acq 1", "clear-free", "clear-used", "rel 1", "after_remove 0",
     "work 0", "acq 0", "silent-miss 0", "rel 0"] := by decide

/-- the negation of the full statement, literally -/
theorem C08_no_socket_leak_is_false :
    ¬ (∀ (programs : List Program) (maxSize : Nat) (s : State),
        Reachable programs maxSize s → ∀ o, s.reopened o = false) := by
  intro hall
  obtain ⟨s, hr, _, _, _, _, _, hre⟩ := C08_clear_vs_holder_counterexample
  have := hall _ _ s hr 0
  rw [this] at hre
  exact Bool.noConfusion hre

end PoolConc
