import Pymc.Model.Fallback
import Pymc.Model.FallbackHist
/-!
# C18 — FallbackClient: reads fall through in order, writes touch only the primary

`Fallback.firstHit` transliterates the read loops; the theorems hold for any number of caches and any
assignment of answers.
-/
namespace Fallback

/-- **C18 (reads)**: if cache `i` is the first whose answer is a hit, the read returns exactly that
answer and consults exactly the caches `0..i` (`i+1` of them, in order) and none after it. -/
theorem C18_read_first_hit {α : Type} (hit : α → Bool) (answers : List α) (i : Nat) (a : α)
    (hi : answers[i]? = some a) (hhit : hit a = true)
    (hbefore : ∀ j, j < i → ∀ b, answers[j]? = some b → hit b = false) :
    firstHit hit answers = (some a, i + 1) := by
  induction answers generalizing i with
  | nil => simp at hi
  | cons x rest ih =>
    cases i with
    | zero =>
      simp at hi; subst hi
      simp [firstHit, hhit]
    | succ i =>
      have hx : hit x = false := hbefore 0 (by omega) x (by simp)
      have := ih i (by simpa using hi) (fun j hj b hb => hbefore (j + 1) (by omega) b (by simpa using hb))
      simp [firstHit, hx, this]

/-- **C18 (reads, all miss)**: if no cache has a hit, every cache is consulted once, in order, and the
fall-through value is returned (`None` for get/gets, `[]` for the multi-key reads). -/
theorem C18_read_all_miss {α : Type} (hit : α → Bool) (answers : List α)
    (hmiss : ∀ b ∈ answers, hit b = false) :
    firstHit hit answers = (none, answers.length) := by
  induction answers with
  | nil => simp [firstHit]
  | cons x rest ih =>
    have hx : hit x = false := hmiss x (by simp)
    have := ih (fun b hb => hmiss b (by simp [hb]))
    simp [firstHit, hx, this]

/-- C18: a read never consults more caches than there are, and consults at least one when there is one -/
theorem C18_consulted_bounds {α : Type} (hit : α → Bool) (answers : List α) :
    (firstHit hit answers).2 ≤ answers.length ∧ (answers ≠ [] → 1 ≤ (firstHit hit answers).2) := by
  induction answers with
  | nil => simp [firstHit]
  | cons x rest ih =>
    simp only [firstHit]
    split
    · simp
    · simp; omega

/-- C18: whatever a read returns is one of the answers and is a hit -/
theorem C18_result_is_a_hit {α : Type} (hit : α → Bool) (answers : List α) (a : α)
    (h : (firstHit hit answers).1 = some a) : a ∈ answers ∧ hit a = true := by
  induction answers with
  | nil => simp [firstHit] at h
  | cons x rest ih =>
    simp only [firstHit] at h
    split at h
    · rename_i hx; simp at h; subst h; simp [hx]
    · have := ih (by simpa using h); simp [this]

/-- **C18 (writes)**: a mutating operation produces exactly one forwarded call, on cache 0, carrying the
caller's arguments unchanged and in order. -/
theorem C18_writes_only_primary (m : String) (args : List String) :
    ∀ f ∈ write m args, f.cache = 0 ∧ f.method = m ∧ f.args = args := by
  intro f hf; simp [write] at hf; subst hf; simp

theorem C18_write_is_single_call (m : String) (args : List String) : (write m args).length = 1 := rfl

/-- non-vacuity: four caches, `None`, a falsy-but-not-None hit (0), then real hits -/
example : firstHit (fun (o : Option Nat) => o.isSome) [none, some 0, some 5, none] = (some (some 0), 2) := by
  decide
example : firstHit (fun (d : List Nat) => !d.isEmpty) [[], [], [3]] = (some [3], 3) := by decide
end Fallback

/-!
# C18 over histories — one `FallbackClient` object, any sequence of calls and reconfigurations

Model: `FallbackHist.run` (Pymc/Model/FallbackHist.lean).  Every theorem below quantifies over the initial
list of caches `s0`, the whole history `h` and a position `n` in it; the list in force at step `n` is
`lastAssigned s0 (h.take n)` — the list assigned last before step `n`, the initial one if none was.
-/
namespace FallbackHist

/-- C18 (histories): the list of caches changes only by `setCaches` — one step -/
theorem C18_hist_list_changes_only_by_setCaches (s : List Cache) (op : Op)
    (hop : ∀ l, op ≠ .setCaches l) : (step s op).1 = s := by
  cases op with
  | read k args => rfl
  | write m given =>
    simp only [step]
    split
    · rfl
    · split <;> rfl
  | close => rfl
  | quit => rfl
  | stats => rfl
  | setCaches l => exact absurd rfl (hop l)

/-- C18 (histories): `close`, `quit` and `stats` never change the list of caches -/
theorem C18_hist_nondata_keep_list (s : List Cache) :
    (step s .close).1 = s ∧ (step s .quit).1 = s ∧ (step s .stats).1 = s := ⟨rfl, rfl, rfl⟩

/-- C18 (histories): neither does any read or any mutating operation, whatever its arguments and outcome -/
theorem C18_hist_data_ops_keep_list (s : List Cache) :
    (∀ k args, (step s (.read k args)).1 = s) ∧ (∀ m given, (step s (.write m given)).1 = s) :=
  ⟨fun k args => C18_hist_list_changes_only_by_setCaches s _ (by intro l h; cases h),
   fun m given => C18_hist_list_changes_only_by_setCaches s _ (by intro l h; cases h)⟩

/-- C18 (histories): after any history the list of caches is the one assigned last, the initial one if
none was — nothing else in the history matters -/
theorem C18_hist_state_is_last_assigned (s0 : List Cache) (h : List Op) :
    (run s0 h).1 = lastAssigned s0 h := by
  induction h generalizing s0 with
  | nil => rfl
  | cons op rest ih =>
    simp only [run, lastAssigned, List.foldl_cons]
    rw [ih]
    cases op with
    | setCaches l => rfl
    | read k args => rfl
    | close => rfl
    | quit => rfl
    | stats => rfl
    | write m given =>
      rw [C18_hist_list_changes_only_by_setCaches s0 _ (by intro l h; cases h)]; rfl

/-- C18 (histories): a history without `setCaches` leaves the list as it was -/
theorem C18_hist_no_setCaches_keeps_list (s0 : List Cache) (h : List Op) (hno : NoSetCaches h) :
    (run s0 h).1 = s0 := by
  induction h generalizing s0 with
  | nil => rfl
  | cons op rest ih =>
    simp only [run]
    rw [C18_hist_list_changes_only_by_setCaches s0 op (fun l => hno op (by simp) l)]
    exact ih s0 (fun o ho => hno o (by simp [ho]))

/-- C18 (histories): after `… setCaches l …` with no later `setCaches`, the list is exactly `l`,
whatever came before and whatever data / non-data operations came after -/
theorem C18_hist_state_after_last_setCaches (s0 : List Cache) (h1 h2 : List Op) (l : List Cache)
    (hno : NoSetCaches h2) : (run s0 (h1 ++ .setCaches l :: h2)).1 = l := by
  induction h1 generalizing s0 with
  | nil => simpa [run, step] using C18_hist_no_setCaches_keeps_list l h2 hno
  | cons op rest ih => simpa [run] using ih (step s0 op).1

/-- C18 (histories): every step produces exactly one output -/
theorem C18_hist_outputs_length (s0 : List Cache) (h : List Op) : (run s0 h).2.length = h.length := by
  induction h generalizing s0 with
  | nil => rfl
  | cons op rest ih => simp [run, ih]

/-- **C18 (histories, main)**: the output of step `n` of any history is the output of that one operation on
the list of caches assigned last before it; earlier reads, writes, closes — and their outcomes — leave no trace -/
theorem C18_hist_step_output (s0 : List Cache) (h : List Op) (n : Nat) (op : Op) (hn : h[n]? = some op) :
    (run s0 h).2[n]? = some (step (lastAssigned s0 (h.take n)) op).2 := by
  induction h generalizing s0 n with
  | nil => simp at hn
  | cons o rest ih =>
    cases n with
    | zero =>
      simp at hn; subst hn
      simp [run, lastAssigned]
    | succ n =>
      have hn' : rest[n]? = some op := by simpa using hn
      have h1 := ih (step s0 o).1 n hn'
      have h2 : lastAssigned s0 (o :: rest.take n) = lastAssigned (step s0 o).1 (rest.take n) := by
        simp only [lastAssigned, List.foldl_cons]
        congr 1
        cases o with
        | setCaches l => rfl
        | read k args => rfl
        | close => rfl
        | quit => rfl
        | stats => rfl
        | write m given =>
          rw [C18_hist_list_changes_only_by_setCaches s0 _ (by intro l h; cases h)]
      simpa [run, h2] using h1

/-- C18: the hit rule per read kind — `is not None` for get/gets, truthiness for get_many/gets_many -/
theorem C18_hist_hit_rule (a : Ans) :
    (hit .get a = true ↔ a ≠ .none) ∧ (hit .gets a = true ↔ a ≠ .none) ∧
    (hit .getMany a = true ↔ ∃ v, a = .truthy v) ∧ (hit .getsMany a = true ↔ ∃ v, a = .truthy v) := by
  cases a <;> simp [hit, Ans.isNotNone, Ans.isTruthy]

/-- C18 (one read on any list): log and result when cache `i` is the first with a hit -/
theorem C18_hist_readLoop_first_hit (k : ReadKind) (args : List String) (s : List Cache) (i : Nat) (c : Cache)
    (hi : s[i]? = some c) (hhit : hit k (c.answer k args) = true)
    (hbefore : ∀ j b, j < i → s[j]? = some b → hit k (b.answer k args) = false) :
    readLoop k args s = ⟨(s.take (i + 1)).map (fun b => ⟨b.id, k.name, args⟩), .answer (c.answer k args)⟩ := by
  induction s generalizing i with
  | nil => simp at hi
  | cons x rest ih =>
    cases i with
    | zero =>
      simp at hi; subst hi
      simp [readLoop, hhit]
    | succ i =>
      have hx : hit k (x.answer k args) = false := hbefore 0 x (by omega) (by simp)
      have := ih i (by simpa using hi) (fun j b hj hb => hbefore (j + 1) b (by omega) (by simpa using hb))
      simp [readLoop, hx, this]

/-- C18 (one read on any list): log and result when no cache has a hit -/
theorem C18_hist_readLoop_all_miss (k : ReadKind) (args : List String) (s : List Cache)
    (hmiss : ∀ b ∈ s, hit k (b.answer k args) = false) :
    readLoop k args s = ⟨s.map (fun b => ⟨b.id, k.name, args⟩), fallThrough k⟩ := by
  induction s with
  | nil => simp [readLoop]
  | cons x rest ih =>
    have hx : hit k (x.answer k args) = false := hmiss x (by simp)
    have := ih (fun b hb => hmiss b (by simp [hb]))
    simp [readLoop, hx, this]

/-- **C18 (histories, reads)**: in any history, a read at step `n` consults exactly the prefix of the CURRENT
list of caches (the one assigned last before step `n`) up to and including the first cache `i` whose answer is a
hit — each once, in order, with the caller's argument — and returns that cache's answer unchanged. -/
theorem C18_hist_read_first_hit (s0 : List Cache) (h : List Op) (n : Nat) (k : ReadKind) (args : List String)
    (i : Nat) (c : Cache)
    (hn : h[n]? = some (.read k args))
    (hi : (lastAssigned s0 (h.take n))[i]? = some c) (hhit : hit k (c.answer k args) = true)
    (hbefore : ∀ j b, j < i → (lastAssigned s0 (h.take n))[j]? = some b → hit k (b.answer k args) = false) :
    (run s0 h).2[n]? =
      some ⟨((lastAssigned s0 (h.take n)).take (i + 1)).map (fun b => ⟨b.id, k.name, args⟩),
            .answer (c.answer k args)⟩ := by
  rw [C18_hist_step_output s0 h n _ hn]
  simp only [step]
  rw [C18_hist_readLoop_first_hit k args _ i c hi hhit hbefore]

/-- **C18 (histories, reads, all miss)**: if no cache of the current list has a hit, the read consults every
cache of the current list once, in order, and returns `None` (get/gets) or `[]` (get_many/gets_many). -/
theorem C18_hist_read_all_miss (s0 : List Cache) (h : List Op) (n : Nat) (k : ReadKind) (args : List String)
    (hn : h[n]? = some (.read k args))
    (hmiss : ∀ b ∈ lastAssigned s0 (h.take n), hit k (b.answer k args) = false) :
    (run s0 h).2[n]? =
      some ⟨(lastAssigned s0 (h.take n)).map (fun b => ⟨b.id, k.name, args⟩), fallThrough k⟩ ∧
    fallThrough .get = .none ∧ fallThrough .gets = .none ∧
    fallThrough .getMany = .emptyList ∧ fallThrough .getsMany = .emptyList := by
  refine ⟨?_, rfl, rfl, rfl, rfl⟩
  rw [C18_hist_step_output s0 h n _ hn]
  simp only [step]
  rw [C18_hist_readLoop_all_miss k args _ hmiss]

/-- C18 (histories): the history-level read loop is the single-call model `Fallback.firstHit` on the answers
of the current list: same number of caches consulted, same answer -/
theorem C18_hist_read_agrees_with_firstHit (k : ReadKind) (args : List String) (s : List Cache) :
    (readLoop k args s).log =
      (s.take (Fallback.firstHit (hit k) (s.map (·.answer k args))).2).map (fun b => ⟨b.id, k.name, args⟩) ∧
    (readLoop k args s).result =
      (match (Fallback.firstHit (hit k) (s.map (·.answer k args))).1 with
       | some a => .answer a
       | none => fallThrough k) := by
  induction s with
  | nil => simp [readLoop, Fallback.firstHit]
  | cons x rest ih =>
    by_cases hx : hit k (x.answer k args) = true
    · simp [readLoop, Fallback.firstHit, hx]
    · simp only [Bool.not_eq_true] at hx
      simp [readLoop, Fallback.firstHit, hx, ih.1, ih.2]

/-- **C18 (histories, writes)**: in any history, a mutating operation at step `n` calls exactly the FIRST cache
of the current list, once, with the method of the same name and the bound arguments `args` — and no other cache. -/
theorem C18_hist_write_first_only (s0 : List Cache) (h : List Op) (n : Nat) (m : WriteKind)
    (given : List (Option String)) (args : List String) (c : Cache) (rest : List Cache)
    (hn : h[n]? = some (.write m given)) (hb : bindArgs m.params given = some args)
    (hs : lastAssigned s0 (h.take n) = c :: rest) :
    (run s0 h).2[n]? = some ⟨[⟨c.id, m.name, args⟩], .none⟩ := by
  rw [C18_hist_step_output s0 h n _ hn]
  simp [step, hb, hs]

/-- C18 (writes, arguments): the bound arguments are one per parameter, in the order of the parameter list:
the caller's value where one was given, else the default (`expire=0`, `noreply=True`, `delay=0`) -/
theorem C18_hist_write_args_spec (ps : List (String × Option String)) (given : List (Option String))
    (args : List String) (hb : bindArgs ps given = some args) :
    args.length = ps.length ∧ given.length = ps.length ∧
    ∀ (j : Nat) (p : String × Option String) (g : Option String),
      ps[j]? = some p → given[j]? = some g → args[j]? = pick g p.2 := by
  induction ps generalizing given args with
  | nil =>
    cases given with
    | nil => simp [bindArgs] at hb; subst hb; simp
    | cons g gs => simp [bindArgs] at hb
  | cons p ps ih =>
    cases given with
    | nil => simp [bindArgs] at hb
    | cons g gs =>
      obtain ⟨pn, pd⟩ := p
      simp only [bindArgs] at hb
      split at hb
      · rename_i v rest' hv hr
        simp at hb; subst hb
        obtain ⟨h1, h2, h3⟩ := ih gs rest' hr
        refine ⟨by simp [h1], by simp [h2], ?_⟩
        intro j p g' hp hg
        cases j with
        | zero => simp at hp hg; subst hp; subst hg; simpa using hv.symm
        | succ j => simpa using h3 j p g' (by simpa using hp) (by simpa using hg)
      · simp at hb

/-- C18 (writes, arguments): when the caller gives every argument, they are forwarded unchanged and in order -/
theorem C18_hist_write_all_given (ps : List (String × Option String)) (vals : List String)
    (hl : vals.length = ps.length) : bindArgs ps (vals.map some) = some vals := by
  induction ps generalizing vals with
  | nil => cases vals with
    | nil => rfl
    | cons v vs => simp at hl
  | cons p ps ih =>
    cases vals with
    | nil => simp at hl
    | cons v vs =>
      obtain ⟨pn, pd⟩ := p
      simp [bindArgs, pick, ih vs (by simpa using hl)]

/-- C18 (writes, defaults): the forwarded positional arguments when the caller gives only the required ones -/
theorem C18_hist_write_defaults_table :
    bindArgs WriteKind.set.params [some "k", some "v", none, none] = some ["k", "v", "0", "True"] ∧
    bindArgs WriteKind.add.params [some "k", some "v", none, none] = some ["k", "v", "0", "True"] ∧
    bindArgs WriteKind.replace.params [some "k", some "v", none, none] = some ["k", "v", "0", "True"] ∧
    bindArgs WriteKind.append.params [some "k", some "v", none, none] = some ["k", "v", "0", "True"] ∧
    bindArgs WriteKind.prepend.params [some "k", some "v", none, none] = some ["k", "v", "0", "True"] ∧
    bindArgs WriteKind.cas.params [some "k", some "v", some "c", none, none] = some ["k", "v", "c", "0", "True"] ∧
    bindArgs WriteKind.delete.params [some "k", none] = some ["k", "True"] ∧
    bindArgs WriteKind.incr.params [some "k", some "v", none] = some ["k", "v", "True"] ∧
    bindArgs WriteKind.decr.params [some "k", some "v", none] = some ["k", "v", "True"] ∧
    bindArgs WriteKind.touch.params [some "k", none, none] = some ["k", "0", "True"] ∧
    bindArgs WriteKind.flushAll.params [none, none] = some ["0", "True"] := by decide

/-- C18 (histories, writes that cannot be made): a call that cannot be bound (`TypeError`), or a mutating
operation while the list of caches is empty (`IndexError` from `caches[0]`), reaches no cache at all -/
theorem C18_hist_write_failed_touches_nothing (s0 : List Cache) (h : List Op) (n : Nat) (m : WriteKind)
    (given : List (Option String)) (hn : h[n]? = some (.write m given)) :
    (bindArgs m.params given = none → (run s0 h).2[n]? = some ⟨[], .typeError⟩) ∧
    (∀ args, bindArgs m.params given = some args → lastAssigned s0 (h.take n) = [] →
      (run s0 h).2[n]? = some ⟨[], .indexError⟩) := by
  rw [C18_hist_step_output s0 h n _ hn]
  refine ⟨fun hb => by simp [step, hb], fun args hb hs => by simp [step, hb, hs]⟩

/-- **C18 (histories, close)**: `close` at step `n` calls `close()` on every cache of the current list, once
each, in order, and nothing else -/
theorem C18_hist_close_calls_every_cache_in_order (s0 : List Cache) (h : List Op) (n : Nat)
    (hn : h[n]? = some .close) :
    (run s0 h).2[n]? = some ⟨(lastAssigned s0 (h.take n)).map (fun b => ⟨b.id, "close", []⟩), .none⟩ := by
  rw [C18_hist_step_output s0 h n _ hn]; rfl

/-- **C18 (histories, quit / stats)**: they call no cache and return `None` -/
theorem C18_hist_quit_stats_do_nothing (s0 : List Cache) (h : List Op) (n : Nat) (op : Op)
    (hop : op = .quit ∨ op = .stats) (hn : h[n]? = some op) :
    (run s0 h).2[n]? = some ⟨[], .none⟩ := by
  rw [C18_hist_step_output s0 h n _ hn]
  rcases hop with rfl | rfl <;> rfl

/-- C18 (histories): inserting or deleting `close` / `quit` / `stats` anywhere before step `n` changes neither
the list in force at step `n` nor — by `C18_hist_step_output` — what step `n` does -/
theorem C18_hist_nondata_ops_are_invisible_later (s0 : List Cache) (h1 h2 : List Op) (op : Op)
    (hop : op = .close ∨ op = .quit ∨ op = .stats) :
    lastAssigned s0 (h1 ++ op :: h2) = lastAssigned s0 (h1 ++ h2) := by
  simp only [lastAssigned, List.foldl_append, List.foldl_cons]
  rcases hop with rfl | rfl | rfl <;> rfl

/-! non-vacuity (`exA … exHist` are defined at the end of the model file): caches 0, 1, 2; cache 1 answers the
single-key reads with a falsy object, cache 2 answers everything with a truthy one; then the application promotes a
new empty cache 9 in front, later empties the list -/
example : (run [exA, exB, exC] exHist).2 =
    [⟨[⟨0, "get", ["k"]⟩, ⟨1, "get", ["k"]⟩], .answer (.falsy 1)⟩,
     ⟨[⟨0, "get_many", ["[k|j]"]⟩, ⟨1, "get_many", ["[k|j]"]⟩, ⟨2, "get_many", ["[k|j]"]⟩], .answer (.truthy 2)⟩,
     ⟨[⟨0, "set", ["k", "v", "0", "True"]⟩], .none⟩,
     ⟨[⟨0, "close", []⟩, ⟨1, "close", []⟩, ⟨2, "close", []⟩], .none⟩,
     ⟨[], .none⟩,
     ⟨[], .none⟩,
     ⟨[⟨9, "gets", ["k"]⟩, ⟨0, "gets", ["k"]⟩, ⟨1, "gets", ["k"]⟩], .answer (.falsy 1)⟩,
     ⟨[⟨9, "cas", ["k", "v", "7", "60", "True"]⟩], .none⟩,
     ⟨[], .none⟩,
     ⟨[⟨9, "close", []⟩, ⟨0, "close", []⟩, ⟨1, "close", []⟩, ⟨2, "close", []⟩], .none⟩,
     ⟨[], .none⟩,
     ⟨[], .none⟩,
     ⟨[], .emptyList⟩,
     ⟨[], .indexError⟩,
     ⟨[], .none⟩,
     ⟨[], .typeError⟩] := by decide
/-- the list after the history and at three points inside it (by identifiers) -/
example : (run [exA, exB, exC] exHist).1.map (·.id) = [] ∧
    (lastAssigned [exA, exB, exC] (exHist.take 5)).map (·.id) = [0, 1, 2] ∧
    (lastAssigned [exA, exB, exC] (exHist.take 6)).map (·.id) = [9, 0, 1, 2] ∧
    (lastAssigned [exA, exB, exC] (exHist.take 10)).map (·.id) = [9, 0, 1, 2] := by decide
/-- the hypotheses of `C18_hist_read_first_hit` are satisfiable: step 6 (`gets` after the promotion), hit in position 2 -/
example : ((lastAssigned [exA, exB, exC] (exHist.take 6))[2]?).map (·.id) = some 1 ∧
    hit .gets (exB.answer .gets ["k"]) = true ∧ hit .gets (exN.answer .gets ["k"]) = false ∧
    hit .gets (exA.answer .gets ["k"]) = false ∧ hit .getsMany (exB.answer .gets ["k"]) = false := by decide
end FallbackHist
