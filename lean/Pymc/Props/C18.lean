import Pymc.Model.Fallback
/-!
# C18 — FallbackClient: reads fall through in order, writes touch only the primary

`Fallback.firstHit` transliterates the read loops; the theorems hold for any number of caches and any
assignment of answers.
-/
namespace Fallback

/-- **C18 (reads)**: if cache `i` is the first whose answer is a hit, the read returns exactly that
answer and consults exactly the caches `0..i` (`i+1` of them, in order) and none after it. -/
theorem C18_read_first_hit {α : Type} (hit : α → Bool) (answers : List α) (i : Nat) (a : α)
    (hi : answers[i]? = some a) (hhit : hit a = true)
    (hbefore : ∀ j, j < i → ∀ b, answers[j]? = some b → hit b = false) :
    firstHit hit answers = (some a, i + 1) := by
  induction answers generalizing i with
  | nil => simp at hi
  | cons x rest ih =>
    cases i with
    | zero =>
      simp at hi; subst hi
      simp [firstHit, hhit]
    | succ i =>
      have hx : hit x = false := hbefore 0 (by omega) x (by simp)
      have := ih i (by simpa using hi) (fun j hj b hb => hbefore (j + 1) (by omega) b (by simpa using hb))
      simp [firstHit, hx, this]

/-- **C18 (reads, all miss)**: if no cache has a hit, every cache is consulted once, in order, and the
fall-through value is returned (`None` for get/gets, `[]` for the multi-key reads). -/
theorem C18_read_all_miss {α : Type} (hit : α → Bool) (answers : List α)
    (hmiss : ∀ b ∈ answers, hit b = false) :
    firstHit hit answers = (none, answers.length) := by
  induction answers with
  | nil => simp [firstHit]
  | cons x rest ih =>
    have hx : hit x = false := hmiss x (by simp)
    have := ih (fun b hb => hmiss b (by simp [hb]))
    simp [firstHit, hx, this]

/-- C18: a read never consults more caches than there are, and consults at least one when there is one -/
theorem C18_consulted_bounds {α : Type} (hit : α → Bool) (answers : List α) :
    (firstHit hit answers).2 ≤ answers.length ∧ (answers ≠ [] → 1 ≤ (firstHit hit answers).2) := by
  induction answers with
  | nil => simp [firstHit]
  | cons x rest ih =>
    simp only [firstHit]
    split
    · simp
    · simp; omega

/-- C18: whatever a read returns is one of the answers and is a hit -/
theorem C18_result_is_a_hit {α : Type} (hit : α → Bool) (answers : List α) (a : α)
    (h : (firstHit hit answers).1 = some a) : a ∈ answers ∧ hit a = true := by
  induction answers with
  | nil => simp [firstHit] at h
  | cons x rest ih =>
    simp only [firstHit] at h
    split at h
    · rename_i hx; simp at h; subst h; simp [hx]
    · have := ih (by simpa using h); simp [this]

/-- **C18 (writes)**: a mutating operation produces exactly one forwarded call, on cache 0, carrying the
caller's arguments unchanged and in order. -/
theorem C18_writes_only_primary (m : String) (args : List String) :
    ∀ f ∈ write m args, f.cache = 0 ∧ f.method = m ∧ f.args = args := by
  intro f hf; simp [write] at hf; subst hf; simp

theorem C18_write_is_single_call (m : String) (args : List String) : (write m args).length = 1 := rfl

/-- non-vacuity: four caches, `None`, a falsy-but-not-None hit (0), then real hits -/
example : firstHit (fun (o : Option Nat) => o.isSome) [none, some 0, some 5, none] = (some (some 0), 2) := by
  decide
example : firstHit (fun (d : List Nat) => !d.isEmpty) [[], [], [3]] = (some [3], 3) := by decide
end Fallback
