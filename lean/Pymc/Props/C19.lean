import Pymc.Props.C03
import Pymc.Props.C11
import Pymc.Proofs.AwsRotation
import Pymc.Proofs.AwsParse
import Pymc.Proofs.AwsError
/-!
# C19 — the ElastiCache client talks to exactly the nodes the configuration endpoint advertises

Model: Pymc/Model/Aws.lean transliterates `AWSElastiCacheHashClient._get_nodes_list` and
`reconfigure_nodes` (pymemcache/client/ext/aws_ec_client.py 154–205).

* `renderReply version nodes` is the endpoint's answer to `config get cluster`:
  `CONFIG cluster 0 <len>\r\n<version>\n<host|ip|port host|ip|port …>\n\r\nEND\r\n`.
* `discover useVpc reply` is `raw_command(b"config get cluster", end_tokens=b"\n\r\nEND\r\n")` on the flat
  stream (`Readers.splitSegment`, the meaning of `_readsegment` by C03) followed by `splitlines()`, the last
  line, `split(" ")`, `split("|")`, `(server[use_vpc], server[2])`.
* `reconfigure s adv` is `reconfigure_nodes` on the rotation (`hasher.nodes`), the key set of `self.clients`
  and the list of closed clients, AS REPAIRED (nodes that are no longer advertised leave the rotation);
  `reconfigureOrig` is the code as it stands (they stay).  `adv` is the list of node names
  `"%s:%s" % (address, port)` (`nodeName`).

Hypotheses on the advertised nodes: `CleanNode n` (Pymc/Proofs/AwsParse.lean) — host name and address contain
none of the bytes SP, `|`, LF, CR (they may be empty).  Nothing else is assumed: any number `≥ 1` of nodes, any
port, any version number, any bytes after the reply, any delivery schedule.

The last sentence of the property (an `ERROR` answer) is NOT established by the code; section 7 records what
the model gives instead.
-/
namespace Aws
open Bytes Wire Readers Exchange

/-! ## 1. parsing a rendered reply gives back the advertised nodes -/

/-- C19 (d): `split("|")` of one rendered node is `[host, ip, port]`. -/
theorem C19_renderNode_fields (n : Node) (h : CleanNode n) :
    splitOn1 PIPE (renderNode n) = [n.host, n.ip, natDec n.port] :=
  splitOn1_renderNode n h

example : splitOn1 PIPE (renderNode ⟨[104, 49], [49, 48, 46, 49], 11211⟩)
    = [[104, 49], [49, 48, 46, 49], natDec 11211] := C19_renderNode_fields _ (by decide)

/-- C19 (c): `split(" ")` of the config line is the list of rendered nodes. -/
theorem C19_configLine_fields (nodes : List Node) (hne : nodes ≠ []) (h : ∀ n ∈ nodes, CleanNode n) :
    splitOn1 SP (configLine nodes) = nodes.map renderNode :=
  splitOn1_configLine nodes hne h

example : splitOn1 SP (configLine [⟨[104, 49], [49], 1⟩, ⟨[104, 50], [50], 2⟩, ⟨[], [], 3⟩])
    = [renderNode ⟨[104, 49], [49], 1⟩, renderNode ⟨[104, 50], [50], 2⟩, renderNode ⟨[], [], 3⟩] :=
  C19_configLine_fields _ (by decide) (by decide)

/-- C19 (a): in a rendered reply, followed by any bytes `extra`, the first occurrence of the end token
`\n\r\nEND\r\n` is the one that closes the reply: the segment is header line, version line, config line, and
exactly `extra` is left. -/
theorem C19_segment_of_reply (version : Nat) (nodes : List Node) (extra : Bytes)
    (h : ∀ n ∈ nodes, CleanNode n) :
    splitSegment endToken (renderReply version nodes ++ extra) =
      some (ofString "CONFIG cluster 0 " ++
          natDec (natDec version ++ [LF] ++ configLine nodes ++ [LF]).length ++ CRLF ++
          natDec version ++ [LF] ++ configLine nodes, extra) := by
  rw [← replyPre_eq]
  exact splitSegment_renderReply version nodes extra (configLine_mem nodes h)

example : splitSegment endToken (renderReply 3 [⟨[104, 49], [49], 1⟩, ⟨[104, 50], [50], 2⟩] ++ [67, 79]) =
    some (ofString "CONFIG cluster 0 " ++
      natDec (natDec 3 ++ [LF] ++ configLine [⟨[104, 49], [49], 1⟩, ⟨[104, 50], [50], 2⟩] ++ [LF]).length ++
      CRLF ++ natDec 3 ++ [LF] ++ configLine [⟨[104, 49], [49], 1⟩, ⟨[104, 50], [50], 2⟩], [67, 79]) :=
  C19_segment_of_reply 3 _ _ (by decide)

/-- C19 (b): the last line `splitlines()` finds in that segment is the config line. -/
theorem C19_last_line_is_config_line (version : Nat) (nodes : List Node) (hne : nodes ≠ [])
    (h : ∀ n ∈ nodes, CleanNode n) :
    (splitLines (ofString "CONFIG cluster 0 " ++
        natDec (natDec version ++ [LF] ++ configLine nodes ++ [LF]).length ++ CRLF ++
        natDec version ++ [LF] ++ configLine nodes)).getLast? = some (configLine nodes) := by
  have e : ofString "CONFIG cluster 0 " ++
        natDec (natDec version ++ [LF] ++ configLine nodes ++ [LF]).length ++ CRLF ++
        natDec version ++ [LF] ++ configLine nodes =
      (ofString "CONFIG cluster 0 " ++
        natDec (natDec version ++ [LF] ++ configLine nodes ++ [LF]).length ++ CRLF ++
        natDec version) ++ LF :: configLine nodes := by simp
  rw [e]
  exact splitLines_last _ _ (configLine_ne_nil nodes hne) (configLine_mem nodes h)

example : (splitLines (ofString "CONFIG cluster 0 " ++
      natDec (natDec 3 ++ [LF] ++ configLine [⟨[104, 49], [49], 1⟩, ⟨[104, 50], [50], 2⟩] ++ [LF]).length ++
      CRLF ++ natDec 3 ++ [LF] ++ configLine [⟨[104, 49], [49], 1⟩, ⟨[104, 50], [50], 2⟩])).getLast? =
    some (configLine [⟨[104, 49], [49], 1⟩, ⟨[104, 50], [50], 2⟩]) :=
  C19_last_line_is_config_line 3 _ (by decide) (by decide)

/-- C19 (discovery, main): for every non-empty list of clean nodes, every version number and both values of
`use_vpc`, `_get_nodes_list` on the rendered reply returns, in order, one pair per advertised node: its IP
address (`use_vpc` true) or its host name (`use_vpc` false), and its port in decimal. -/
theorem C19_parse_render_nodes (useVpc : Bool) (version : Nat) (nodes : List Node) (hne : nodes ≠ [])
    (h : ∀ n ∈ nodes, CleanNode n) :
    discover useVpc (renderReply version nodes) =
      some (nodes.map fun n => (if useVpc then n.ip else n.host, natDec n.port)) := by
  have := discover_renderReply useVpc version nodes [] hne h
  rw [List.append_nil] at this
  exact this

/-- C19 (discovery, bytes after the reply are irrelevant) -/
theorem C19_parse_render_nodes_trailing (useVpc : Bool) (version : Nat) (nodes : List Node) (extra : Bytes)
    (hne : nodes ≠ []) (h : ∀ n ∈ nodes, CleanNode n) :
    discover useVpc (renderReply version nodes ++ extra) =
      some (nodes.map fun n => (if useVpc then n.ip else n.host, natDec n.port)) :=
  discover_renderReply useVpc version nodes extra hne h

/-- three nodes `h1|10.0.0.1|11211 h2|10.0.0.2|11211 h3|10.0.0.3|11212`, by address -/
example : discover true (renderReply 12
      [⟨[104, 49], [49, 48, 46, 48, 46, 48, 46, 49], 11211⟩,
       ⟨[104, 50], [49, 48, 46, 48, 46, 48, 46, 50], 11211⟩,
       ⟨[104, 51], [49, 48, 46, 48, 46, 48, 46, 51], 11212⟩]) =
    some [([49, 48, 46, 48, 46, 48, 46, 49], natDec 11211), ([49, 48, 46, 48, 46, 48, 46, 50], natDec 11211),
          ([49, 48, 46, 48, 46, 48, 46, 51], natDec 11212)] :=
  C19_parse_render_nodes true 12 _ (by decide) (by decide)
/-- the same cluster, by host name -/
example : discover false (renderReply 12
      [⟨[104, 49], [49, 48, 46, 48, 46, 48, 46, 49], 11211⟩,
       ⟨[104, 50], [49, 48, 46, 48, 46, 48, 46, 50], 11211⟩,
       ⟨[104, 51], [49, 48, 46, 48, 46, 48, 46, 51], 11212⟩]) =
    some [([104, 49], natDec 11211), ([104, 50], natDec 11211), ([104, 51], natDec 11212)] :=
  C19_parse_render_nodes false 12 _ (by decide) (by decide)

/-- C19 (the cleanliness hypothesis is needed): a host name that contains `|` is rendered and parsed back as
something else — here host `|`, address `1`, port 1 is read, with `use_vpc` false, as host `""` — so `CleanNode`
cannot be dropped from `C19_parse_render_nodes`. -/
theorem C19_unclean_host_misparsed :
    ¬ CleanNode ⟨[124], [49], 1⟩ ∧
    discover false (renderReply 5 [⟨[124], [49], 1⟩]) = some [([], [49])] ∧
    discover false (renderReply 5 [⟨[124], [49], 1⟩]) ≠ some [([124], natDec 1)] := by
  have hline : configLine [⟨[124], [49], 1⟩] = [124, 124, 49, 124, 49] := by
    simp [configLine, joinWith, renderNode, natDec_lt, digitChar, PIPE]
  have h : discover false (renderReply 5 [⟨[124], [49], 1⟩]) = some [([], [49])] := by
    have := discover_renderReply_line false 5 [⟨[124], [49], 1⟩] []
      (by rw [hline]; simp) (by rw [hline]; decide)
    rw [List.append_nil] at this
    rw [this, hline]
    simp [splitOn1, SP, PIPE]
  refine ⟨by decide, h, ?_⟩
  rw [h]; simp

/-- C19 (distinct nodes get distinct names): the node name `"%s:%s" % (address, port)` under which a node is put
in rotation determines address and port. -/
theorem C19_nodeName_injective (a b : Bytes) (p q : Nat)
    (h : nodeName (a, natDec p) = nodeName (b, natDec q)) : a = b ∧ p = q :=
  nodeName_inj a b p q h

example (b : Bytes) (q : Nat) (h : nodeName ([104, 49], natDec 11211) = nodeName (b, natDec q)) :
    [104, 49] = b ∧ 11211 = q := C19_nodeName_injective _ _ _ _ h

/-! ## 2. … however the reply is split on the wire -/

/-- C19 (chunking): for ANY fault-free delivery schedule `evs` whose bytes are the rendered reply followed by
any `extra`, `_readsegment(sock, b"", b"\n\r\nEND\r\n")` succeeds, leaves exactly `extra` unread, and returns
the segment on which `_get_nodes_list` computes the advertised pairs — the same result as `discover` on the
unsplit stream. -/
theorem C19_discover_chunking_independent (useVpc : Bool) (version : Nat) (nodes : List Node)
    (extra : Bytes) (evs : List Ev) (hne : nodes ≠ []) (h : ∀ n ∈ nodes, CleanNode n)
    (hc : clean evs) (hs : joinData evs = renderReply version nodes ++ extra) :
    ∃ rest seg evs', readsegment endToken [] evs = .ok (rest, seg, evs') ∧
      rest ++ joinData evs' = extra ∧ clean evs' ∧
      nodesOfSegment useVpc seg =
        some (nodes.map fun n => (if useVpc then n.ip else n.host, natDec n.port)) ∧
      nodesOfSegment useVpc seg = discover useVpc (joinData evs) := by
  have hsplit := splitSegment_renderReply version nodes extra (configLine_mem nodes h)
  obtain ⟨rest, evs', h1, h2, h3⟩ :=
    (C03_readsegment_flat endToken [] evs hc).1 (replyPre version nodes) extra
      (by rw [List.nil_append, hs]; exact hsplit)
  have hparse := nodesOfSegment_replyPre useVpc version nodes hne h
  refine ⟨rest, _, evs', h1, h2, h3, hparse, ?_⟩
  rw [hs, discover, hsplit]

/-- the reply delivered as `C`, an interrupted `recv`, then everything else, with the next reply's first byte
already in the pipe -/
example :
    ∃ rest seg evs', readsegment endToken []
        [.data [67], .eintr, .data ((renderReply 7 ([⟨[104, 49], [49], 1⟩, ⟨[104, 50], [50], 2⟩] : List Node)).tail ++ [67])]
        = .ok (rest, seg, evs') ∧ rest ++ joinData evs' = [67] ∧ clean evs' ∧
      nodesOfSegment false seg = some (([⟨[104, 49], [49], 1⟩, ⟨[104, 50], [50], 2⟩] : List Node).map
        fun n => (if false then n.ip else n.host, natDec n.port)) ∧
      nodesOfSegment false seg = discover false (joinData
        [.data [67], .eintr, .data ((renderReply 7 ([⟨[104, 49], [49], 1⟩, ⟨[104, 50], [50], 2⟩] : List Node)).tail ++ [67])]) :=
  C19_discover_chunking_independent false 7 ([⟨[104, 49], [49], 1⟩, ⟨[104, 50], [50], 2⟩] : List Node) [67] _
    (by decide) (by decide) (by simp [clean]) (by simp [joinData, renderReply, lit_CONFIG])

/-- C19 (chunking, the whole `raw_command`): under the same conditions `_misc_cmd` — `_readsegment` followed by
`_raise_errors` on the segment — returns that one segment, leaves the socket open and the rest of the stream
unread; so `_get_nodes_list` obtains the advertised pairs. -/
theorem C19_raw_command_returns_segment (useVpc : Bool) (version : Nat) (nodes : List Node)
    (extra : Bytes) (evs : List Ev) (hne : nodes ≠ []) (h : ∀ n ∈ nodes, CleanNode n)
    (hc : clean evs) (hs : joinData evs = renderReply version nodes ++ extra) :
    ∃ seg evs', miscLoop (some endToken) 1 [] evs [] = ⟨.ok [seg], evs', false⟩ ∧
      nodesOfSegment useVpc seg =
        some (nodes.map fun n => (if useVpc then n.ip else n.host, natDec n.port)) := by
  have hsplit := splitSegment_renderReply version nodes extra (configLine_mem nodes h)
  obtain ⟨rest, evs', h1, -, -⟩ :=
    (C03_readsegment_flat endToken [] evs hc).1 (replyPre version nodes) extra
      (by rw [List.nil_append, hs]; exact hsplit)
  refine ⟨_, evs', ?_, nodesOfSegment_replyPre useVpc version nodes hne h⟩
  simp [miscLoop, h1, raiseErrors_replyPre]

example :
    ∃ seg evs', miscLoop (some endToken) 1 []
        [.data [67], .eintr, .data ((renderReply 7 ([⟨[104, 49], [49], 1⟩, ⟨[104, 50], [50], 2⟩] : List Node)).tail ++ [67])] []
        = ⟨.ok [seg], evs', false⟩ ∧
      nodesOfSegment true seg = some (([⟨[104, 49], [49], 1⟩, ⟨[104, 50], [50], 2⟩] : List Node).map
        fun n => (if true then n.ip else n.host, natDec n.port)) :=
  C19_raw_command_returns_segment true 7 ([⟨[104, 49], [49], 1⟩, ⟨[104, 50], [50], 2⟩] : List Node) [67] _
    (by decide) (by decide) (by simp [clean]) (by simp [joinData, renderReply, lit_CONFIG])

/-! ## 3. the rotation is exactly the advertised list -/

/-- C19 (rotation): after `reconfigure_nodes()` the rotation and the client table have exactly the advertised
node names as members; the client table has no duplicates, and neither has the rotation if it had none. -/
theorem C19_rotation_eq_advertised (s : St) (adv : List Bytes) :
    (∀ n, n ∈ (reconfigure s adv).nodes ↔ n ∈ adv) ∧
    (∀ n, n ∈ (reconfigure s adv).clients ↔ n ∈ adv) ∧
    (s.nodes.Nodup → (reconfigure s adv).nodes.Nodup) ∧
    (reconfigure s adv).clients.Nodup :=
  ⟨mem_reconfigure_nodes s adv, mem_reconfigure_clients s adv, nodup_reconfigure_nodes s adv,
    nodup_reconfigure_clients s adv⟩

/-- scale-up `a, b → a, b, c` (node names abbreviated to one letter) -/
example : (reconfigure { nodes := [[97], [98]], clients := [[97], [98]] } [[97], [98], [99]]).nodes
    = [[97], [98], [99]] := by decide
/-- scale-down `a, b, c → b` -/
example : (reconfigure { nodes := [[97], [98], [99]], clients := [[97], [98], [99]] } [[98]]).nodes = [[98]] ∧
    (reconfigure { nodes := [[97], [98], [99]], clients := [[97], [98], [99]] } [[98]]).clients = [[98]] := by
  decide
/-- replacement `a, b → b, d` and a node advertised twice -/
example : (reconfigure { nodes := [[97], [98]], clients := [[97], [98]] } [[98], [100], [98]]).nodes
    = [[98], [100]] := by decide

/-- C19 (rotation, any history): after ANY sequence of reconfigurations from ANY state, the members of the
rotation and of the client table are exactly the names advertised LAST. -/
theorem C19_rotation_after_history (s : St) (hist : List (List Bytes)) (last : List Bytes) :
    (∀ n, n ∈ ((hist ++ [last]).foldl reconfigure s).nodes ↔ n ∈ last) ∧
    (∀ n, n ∈ ((hist ++ [last]).foldl reconfigure s).clients ↔ n ∈ last) ∧
    (s.nodes.Nodup → ((hist ++ [last]).foldl reconfigure s).nodes.Nodup) ∧
    ((hist ++ [last]).foldl reconfigure s).clients.Nodup := by
  rw [List.foldl_append]
  exact ⟨mem_reconfigure_nodes _ last, mem_reconfigure_clients _ last,
    fun hn => nodup_reconfigure_nodes _ last (nodup_history hist s hn), nodup_reconfigure_clients _ last⟩

/-- construction with `a, b`, scale-up to `a, b, c`, scale-down to `c` -/
example : ((([[[97], [98]], [[97], [98], [99]]] : List (List Bytes)) ++ [[[99]]]).foldl reconfigure {}).nodes
    = [[99]] := by decide

/-- C19 (rotation, end to end): what the endpoint renders is what ends up in rotation — after a
reconfiguration driven by the reply `renderReply version nodes`, a name is in rotation iff it is
`"<ip>:<port>"` (`use_vpc`) resp. `"<host>:<port>"` of one of the advertised nodes. -/
theorem C19_rotation_eq_rendered (s : St) (useVpc : Bool) (version : Nat) (nodes : List Node) (extra : Bytes)
    (hne : nodes ≠ []) (h : ∀ n ∈ nodes, CleanNode n) :
    ∃ pairs, discover useVpc (renderReply version nodes ++ extra) = some pairs ∧
      ∀ name, name ∈ (reconfigure s (pairs.map nodeName)).nodes ↔
        ∃ n ∈ nodes, name = nodeName (if useVpc then n.ip else n.host, natDec n.port) := by
  refine ⟨_, C19_parse_render_nodes_trailing useVpc version nodes extra hne h, fun name => ?_⟩
  rw [mem_reconfigure_nodes]
  simp only [List.map_map, List.mem_map, Function.comp]
  constructor
  · rintro ⟨n, hn, rfl⟩; exact ⟨n, hn, rfl⟩
  · rintro ⟨n, hn, rfl⟩; exact ⟨n, hn, rfl⟩

/-- C19 (rotation non-empty): a non-empty advertisement gives a non-empty rotation. -/
theorem C19_rotation_nonempty (s : St) (adv : List Bytes) (hne : adv ≠ []) :
    (reconfigure s adv).nodes ≠ [] := by
  cases adv with
  | nil => exact absurd rfl hne
  | cons a r =>
    intro h
    have := (mem_reconfigure_nodes s (a :: r) a).2 (by simp)
    rw [h] at this; cases this

example : (reconfigure {} [[97]]).nodes ≠ [] := C19_rotation_nonempty _ _ (by decide)

/-! ## 4. every key is routed to an advertised node that has a client -/

/-- C19 (routing): whatever rule picks the node for a key — any `choose` that returns a member of the
rotation, as `RendezvousHash.get_node` does (C11) — after `reconfigure_nodes()` the node picked is advertised,
has an entry in `self.clients` (no `KeyError`), and is none of the nodes that are no longer advertised. -/
theorem C19_routes_into_advertised (choose : List Bytes → Option Bytes)
    (hchoose : ∀ l w, choose l = some w → w ∈ l) (s : St) (adv : List Bytes) (w : Bytes)
    (hw : choose (reconfigure s adv).nodes = some w) :
    w ∈ adv ∧ w ∈ (reconfigure s adv).clients ∧ ∀ r, r ∉ adv → w ≠ r := by
  have hmem : w ∈ adv := (mem_reconfigure_nodes s adv w).1 (hchoose _ _ hw)
  exact ⟨hmem, (mem_reconfigure_clients s adv w).2 hmem, fun r hr e => hr (e ▸ hmem)⟩

/-- `choose = head?` is such a rule -/
example : ([98] : Bytes) ∈ ([[98], [100]] : List Bytes) ∧
    [98] ∈ (reconfigure { nodes := [[97], [98]] } [[98], [100]]).clients ∧
    ∀ r : Bytes, r ∉ ([[98], [100]] : List Bytes) → [98] ≠ r :=
  C19_routes_into_advertised List.head? (fun l w h => List.mem_of_head? h)
    { nodes := [[97], [98]] } [[98], [100]] [98] (by decide)

/-- C19 (routing, the real hasher): with the rendezvous hasher of C11 on the rotation (node names read as `str`
through any `name`), for ANY score function: if the advertisement is non-empty every key gets a node, and the
node it gets is the name of an advertised node that has a client. -/
theorem C19_routes_into_advertised_rendezvous (score : String → Nat) (name : Bytes → String)
    (s : St) (adv : List Bytes) :
    (adv ≠ [] → (Rendezvous.getNode score ((reconfigure s adv).nodes.map name)).isSome) ∧
    ∀ w, Rendezvous.getNode score ((reconfigure s adv).nodes.map name) = some w →
      ∃ b, b ∈ adv ∧ b ∈ (reconfigure s adv).clients ∧ name b = w := by
  constructor
  · intro hne
    rw [Rendezvous.C11_getNode_isSome_iff]
    simpa using C19_rotation_nonempty s adv hne
  · intro w hw
    obtain ⟨b, hb, rfl⟩ := List.mem_map.1 (Rendezvous.C11_getNode_mem score _ w hw)
    have hmem := (mem_reconfigure_nodes s adv b).1 hb
    exact ⟨b, hmem, (mem_reconfigure_clients s adv b).2 hmem, rfl⟩

example : ∃ b : Bytes, b ∈ ([[98], [100]] : List Bytes) ∧ b ∈ (reconfigure { nodes := [[97], [98]] } [[98], [100]]).clients ∧
    (fun b : Bytes => String.ofList (b.map fun x => Char.ofNat x.toNat)) b = "d" :=
  (C19_routes_into_advertised_rendezvous (fun _ => 7)
    (fun b => String.ofList (b.map fun x => Char.ofNat x.toNat)) { nodes := [[97], [98]] } [[98], [100]]).2
    "d" (by decide)

/-! ## 5. the clients of the previous configuration are closed -/

/-- C19 (closing): `reconfigure_nodes()` closes every client of the previous configuration — in particular the
clients of the nodes that were replaced — and nothing else. -/
theorem C19_removed_nodes_closed (s : St) (adv : List Bytes) :
    (reconfigure s adv).closed = s.closed ++ s.clients ∧
    ∀ c ∈ s.clients, c ∈ (reconfigure s adv).closed := by
  refine ⟨rfl, fun c hc => ?_⟩
  simp [reconfigure, hc]

example : (reconfigure { nodes := [[97], [98], [99]], clients := [[97], [98], [99]] } [[98]]).closed
    = [[97], [98], [99]] := by decide

/-- C19 (closing, any history): a client that was ever in the table is, after any further reconfigurations,
either closed or in the current table. -/
theorem C19_no_client_leaks (s : St) (hist : List (List Bytes)) (c : Bytes)
    (hc : c ∈ s.closed ∨ c ∈ s.clients) :
    c ∈ (hist.foldl reconfigure s).closed ∨ c ∈ (hist.foldl reconfigure s).clients :=
  closed_history hist s c hc

example : [97] ∈ (([[[98]], [[99]]] : List (List Bytes)).foldl reconfigure { nodes := [[97]], clients := [[97]] }).closed := by
  decide

/-! ## 6. the code as it stands (`reconfigureOrig`): removed nodes stay in rotation -/

/-- C19 (defect, general): in the code as it stands, a node that was in rotation and is no longer advertised
stays in rotation while it has no entry in `self.clients`; a key routed to it raises `KeyError`. -/
theorem C19_orig_keeps_removed_nodes (s : St) (adv : List Bytes) (n : Bytes) (hn : n ∈ s.nodes)
    (hadv : n ∉ adv) :
    n ∈ (reconfigureOrig s adv).nodes ∧ n ∉ (reconfigureOrig s adv).clients :=
  ⟨(mem_reconfigureOrig_nodes s adv n).2 (.inl hn), fun h => hadv ((mem_reconfigureOrig_clients s adv n).1 h)⟩

/-- C19 (defect, witness): scale-down from `a, b, c` to `b` — the code as it stands keeps `a` and `c` in
rotation with only `b` in the client table, so a key that the hasher gives to `a` (here: `choose = head?`) has no
client; the repaired code routes the same key to `b`. -/
theorem C19_orig_scale_down_counterexample :
    (reconfigureOrig { nodes := [[97], [98], [99]], clients := [[97], [98], [99]] } [[98]]).nodes
      = [[97], [98], [99]] ∧
    (reconfigureOrig { nodes := [[97], [98], [99]], clients := [[97], [98], [99]] } [[98]]).clients = [[98]] ∧
    (reconfigureOrig { nodes := [[97], [98], [99]], clients := [[97], [98], [99]] } [[98]]).nodes.head?
      = some [97] ∧
    [97] ∉ (reconfigureOrig { nodes := [[97], [98], [99]], clients := [[97], [98], [99]] } [[98]]).clients ∧
    (reconfigure { nodes := [[97], [98], [99]], clients := [[97], [98], [99]] } [[98]]).nodes.head?
      = some [98] := by decide

/-- C19 (the two versions agree when nothing is removed): on first construction and on a pure scale-up
(`s.nodes ⊆ adv`) the code as it stands and the repaired code produce the same state. -/
theorem C19_orig_agrees_on_scale_up (s : St) (adv : List Bytes) (h : ∀ n ∈ s.nodes, n ∈ adv) :
    reconfigureOrig s adv = reconfigure s adv ∧
    ∀ n, n ∈ (reconfigureOrig s adv).nodes ↔ n ∈ adv := by
  have e := reconfigureOrig_eq_of_subset s adv h
  exact ⟨e, fun n => e ▸ mem_reconfigure_nodes s adv n⟩

example : reconfigureOrig { nodes := [[97], [98]], clients := [[97], [98]] } [[97], [98], [99]]
    = reconfigure { nodes := [[97], [98]], clients := [[97], [98]] } [[97], [98], [99]] :=
  (C19_orig_agrees_on_scale_up _ _ (by decide)).1
/-- first construction: the rotation is empty -/
example (adv : List Bytes) : reconfigureOrig {} adv = reconfigure {} adv :=
  (C19_orig_agrees_on_scale_up _ _ (by simp)).1

/-! ## 7. an endpoint that answers `ERROR`

Full-strength statement of the property's last sentence, which does NOT hold:

  "if the endpoint answers `ERROR\r\n` to `config get cluster`, the call fails with
   `MemcacheUnknownCommandError`"
   i.e. `(miscLoop (some endToken) 1 [] [.data (ofString "ERROR" ++ CRLF)] []).res = .error .unknownCommand`.

The segment reader waits for the 8-byte token `\n\r\nEND\r\n`; `ERROR\r\n` does not contain it, so the line is
never handed to `_raise_errors`: the call ends with `MemcacheUnexpectedCloseError` when the peer closes (and
blocks until the socket timeout otherwise, which the model renders as running out of events).
`C19_error_line_not_recognised_by_segment_reader` is that counterexample; `C19_error_recognised_partial` is the
statement with the explicit extra hypothesis (the token does arrive later). -/

/-- C19 (`_raise_errors`): a segment or line that starts with `ERROR` raises `MemcacheUnknownCommandError`. -/
theorem C19_error_segment_raises_unknown_command (x : Bytes) :
    raiseErrors (ofString "ERROR" ++ x) = some .unknownCommand :=
  raiseErrors_ERROR x

example : raiseErrors (ofString "ERROR" ++ CRLF) = some .unknownCommand :=
  C19_error_segment_raises_unknown_command _

/-- C19 (defect): with `end_tokens = b"\n\r\nEND\r\n"` the reply `ERROR\r\n` is not recognised as an error
line.  Followed by end-of-stream, or by nothing (blocking socket), and for ANY fault-free chunking of the seven
bytes, `_misc_cmd` ends with `MemcacheUnexpectedCloseError` and closes the socket — not with
`MemcacheUnknownCommandError`.  (With the default line reader the same reply IS recognised: last conjunct.) -/
theorem C19_error_line_not_recognised_by_segment_reader :
    miscLoop (some endToken) 1 [] [.data (ofString "ERROR" ++ CRLF), .data []] []
      = ⟨.error .unexpectedClose, [], true⟩ ∧
    miscLoop (some endToken) 1 [] [.data (ofString "ERROR" ++ CRLF)] []
      = ⟨.error .unexpectedClose, [], true⟩ ∧
    (∀ evs rest, clean evs → joinData evs = ofString "ERROR" ++ CRLF →
      miscLoop (some endToken) 1 [] evs [] = ⟨.error .unexpectedClose, [], true⟩ ∧
      miscLoop (some endToken) 1 [] (evs ++ .data [] :: rest) [] = ⟨.error .unexpectedClose, [], true⟩) ∧
    miscLoop none 1 [] [.data (ofString "ERROR" ++ CRLF)] [] = ⟨.error .unknownCommand, [], true⟩ := by
  have gen : ∀ evs rest, clean evs → joinData evs = ofString "ERROR" ++ CRLF →
      miscLoop (some endToken) 1 [] evs [] = ⟨.error .unexpectedClose, [], true⟩ ∧
      miscLoop (some endToken) 1 [] (evs ++ .data [] :: rest) [] = ⟨.error .unexpectedClose, [], true⟩ := by
    intro evs rest hc hs
    have hnone : findSub endToken ([] ++ joinData evs) = none := by
      rw [List.nil_append, hs]; exact findSub_ERROR_CRLF
    exact ⟨miscLoop_of_readsegment_error _ _ _ _ (readsegment_absent_out endToken evs [] hc hnone),
      miscLoop_of_readsegment_error _ _ _ _ (readsegment_absent_eof endToken evs rest [] hc hnone)⟩
  have hc : clean [.data (ofString "ERROR" ++ CRLF)] := by simp [clean, CRLF]
  have hj : joinData [.data (ofString "ERROR" ++ CRLF)] = ofString "ERROR" ++ CRLF := by simp [joinData]
  refine ⟨(gen _ [] hc hj).2, (gen _ [] hc hj).1, gen, ?_⟩
  simp [miscLoop, readline, findCRLF, lit_ERROR, CRLF, CR, LF, raiseErrors, startsWith, List.isPrefixOf]

/-- C19 (ERROR, partial — explicit hypothesis: the end token does arrive): if the stream starts with `ERROR` and
the end token occurs later, then for any fault-free chunking `_misc_cmd` fails with
`MemcacheUnknownCommandError` and closes the socket. -/
theorem C19_error_recognised_partial (rest : Bytes) (evs : List Ev) (hc : clean evs)
    (hs : joinData evs = ofString "ERROR" ++ rest) (htok : endToken <:+: rest) :
    ∃ unread, miscLoop (some endToken) 1 [] evs [] = ⟨.error .unknownCommand, unread, true⟩ := by
  have hinf : endToken <:+: ofString "ERROR" ++ rest := by
    obtain ⟨a, b, e⟩ := htok
    exact ⟨ofString "ERROR" ++ a, b, by rw [← e]; simp⟩
  cases hsp : splitSegment endToken (ofString "ERROR" ++ rest) with
  | none => exact absurd hinf ((C03_splitSegment_first_occurrence _ _).2.1 hsp)
  | some v =>
    obtain ⟨seg, tail⟩ := v
    obtain ⟨x, rfl⟩ := splitSegment_ERROR rest seg tail hsp
    obtain ⟨r, evs', h1, -, -⟩ :=
      (C03_readsegment_flat endToken [] evs hc).1 _ tail (by rw [List.nil_append, hs]; exact hsp)
    exact ⟨evs', by simp [miscLoop, h1, raiseErrors_ERROR]⟩

/-- `ERROR\r\n` and, later, a stray end token, in two pieces -/
example : ∃ unread, miscLoop (some endToken) 1 []
    [.data (ofString "ERROR" ++ CRLF), .data endToken] [] = ⟨.error .unknownCommand, unread, true⟩ :=
  C19_error_recognised_partial (CRLF ++ endToken) _ (by simp [clean, CRLF, endToken_eq])
    (by simp [joinData]) ⟨CRLF, [], by simp⟩
end Aws
