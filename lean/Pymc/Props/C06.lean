import Pymc.Proofs.ConnOrder
/-!
# C06 — connection establishment never leaks sockets, orders its timeouts, and falls back to later addresses

Model: `Conn.connect` / `Conn.close` (Pymc/Model/Conn.lean), a transliteration of `Client._connect` and
`Client.close` (pymemcache/client/base.py) *after* the one-line fix that clears the remembered `error` when a later
address yields a socket; `Conn.connectOrig` is the pinned code.  The socket API is a `Plan` (which calls raise);
a call returns the new client state, its outcome and the log of socket events.

All theorems quantify over every configuration, every plan (any number of addresses, arbitrary failure
functions) and every start state.  Vocabulary (Pymc/Proofs/ConnLog.lean, ConnSeq.lean, ConnSpec.lean):
`openIds log` = ids created by the log and not `isClosed` at its end; `openOf tls sock` = `[]`, `[s]` or (TLS)
`[s-1, s]`; `St.WF st` = `self.sock`, if set, is an id handed out earlier; `Preparable cfg p j` = `socket()`,
`TCP_NODELAY` (if configured) and `wrap_socket` (if configured) all succeed for address `j`; `Phase2Fine cfg p` =
neither `settimeout`, the keepalive options (if configured) nor `connect` raises; `prepErr cfg p i` = the exception
raised while preparing address `i`; `Step`/`run` = sequences of `_connect()`/`close()` calls on one client;
`openSocks log` (ConnPeak.lean) = OS-level sockets (`created` events; a TLS wrapper shares the descriptor of its raw
socket) not closed at the end of the log; `pre <+: log` = `pre` is a prefix of `log` (a moment during the run).
-/
namespace Conn

/-- **No leak.** For one `_connect()` call: the id counter only grows; every socket object created by the call is
fresh; every created socket is closed (directly, or through the TLS wrapper that owns it) unless it is the new
`self.sock` or the raw socket owned by the wrapper that is the new `self.sock`; and the previous `self.sock` was
closed. -/
theorem C06_no_leak (cfg : Cfg) (p : Plan) (st st' : St) (r : Except Err Unit) (log : List Ev)
    (h : connect cfg p st = (st', r, log)) :
    st.next ≤ st'.next ∧
    (∀ id ∈ createdIds log, st.next ≤ id ∧ id < st'.next) ∧
    leaked log st'.sock = [] ∧
    (∀ id ∈ createdIds log, isClosed log id = true ∨ st'.sock = some id ∨
      ∃ w, ownedBy log id = some w ∧ st'.sock = some w) ∧
    (∀ t, st.sock = some t → Ev.close t ∈ log) := by
  have ho := connect_outcome' h
  have f := ho.facts
  exact ⟨f.next_le, f.created_fresh, f.no_leak, leaked_eq_nil_iff.1 f.no_leak, f.prev_closed⟩

/-- **A failed `_connect()` leaves `self.sock = None`** and never assigned it; a successful one leaves a fresh
socket, and `self.sock = sock` is the last thing that happens. -/
theorem C06_failed_connect_leaves_none (cfg : Cfg) (p : Plan) (st st' : St) (r : Except Err Unit) (log : List Ev)
    (h : connect cfg p st = (st', r, log)) :
    (∀ e, r = .error e → st'.sock = none ∧ ∀ id, Ev.assign id ∉ log) ∧
    (r = .ok () → ∃ s, st'.sock = some s ∧ st.next ≤ s ∧ s < st'.next ∧ log.getLast? = some (.assign s)) := by
  have ho := connect_outcome' h
  have f := ho.facts
  cases ho with
  | early e junk n' hle hj =>
    refine ⟨fun _ _ => ⟨rfl, ?_⟩, fun hr => by simp at hr⟩
    intro id hid
    exact setupOnly_pre (o := st.sock) hj false false 0 (.assign id) (List.mem_append_left _ hid)
  | late e junk m a mid hle hj hq =>
    refine ⟨fun _ _ => ⟨rfl, ?_⟩, fun hr => by simp at hr⟩
    intro id hid
    simp only [List.mem_append] at hid
    rcases hid with (hid | hid) | hid
    · exact setupOnly_pre (o := st.sock) hj _ _ a (.assign id) (by simpa only [List.mem_append] using hid)
    · exact hq _ hid
    · simp at hid
  | ok junk m a hle hj =>
    refine ⟨fun e hr => by simp at hr, fun _ => ⟨_, rfl, ?_⟩⟩
    have := f.sock_fresh _ rfl
    exact ⟨this.1, this.2, by cases cfg.keepalive <;> simp [List.getLast?_append, kaSeg]⟩

/-- **At most one open socket.** Of the sockets created by a `_connect()` call, the only ones still open afterwards
are the new `self.sock` and the raw socket owned by it; none after a failed call.  From a sane start state the open
set is exactly `self.sock` (plus the raw socket under TLS), so it has at most 2 (without TLS: 1) elements. -/
theorem C06_at_most_one_open (cfg : Cfg) (p : Plan) (st st' : St) (r : Except Err Unit) (log : List Ev)
    (h : connect cfg p st = (st', r, log)) :
    (∀ id ∈ openIds log, ∃ s, st'.sock = some s ∧ (id = s ∨ ownedBy log id = some s)) ∧
    (∀ e, r = .error e → openIds log = []) ∧
    (st.WF → openIds log = openOf (cfg.tls && !cfg.unix) st'.sock) := by
  have ho := connect_outcome' h
  have f := ho.facts
  have h1 : ∀ id ∈ openIds log, ∃ s, st'.sock = some s ∧ (id = s ∨ ownedBy log id = some s) := by
    intro id hid
    rcases (leaked_eq_nil_iff_open.1 f.no_leak) id hid with h | ⟨w, h1, h2⟩
    · exact ⟨id, h, .inl rfl⟩
    · exact ⟨w, h2, .inr h1⟩
  refine ⟨h1, ?_, fun hwf => ho.open_exact hwf⟩
  intro e he
  have hs : st'.sock = none := ((C06_failed_connect_leaves_none cfg p st st' r log h).1 e he).1
  rw [List.eq_nil_iff_forall_not_mem]
  intro id hid
  obtain ⟨s, hs', -⟩ := h1 id hid
  rw [hs] at hs'; exact absurd hs' (by simp)

/-- **Timeouts in order.** The log of a successful call is
`pre ++ [settimeout s CONNECT] ++ [keepalive s]? ++ [connect s a, settimeout s IO, assign s]` where `s` is the new
`self.sock`, the keepalive event is present iff configured, and `pre` contains no `connect`, `settimeout`,
`keepalive` or `assign` event at all: the only `connect` of the call happens on `self.sock` under the connect
timeout, the I/O timeout is installed right after it, and nothing else happens before the socket is published. -/
theorem C06_timeouts_ordered (cfg : Cfg) (p : Plan) (st st' : St) (log : List Ev)
    (h : connect cfg p st = (st', .ok (), log)) :
    ∃ s pre a, st'.sock = some s ∧
      log = pre ++ [Ev.settimeout s .connect] ++ (if cfg.keepalive then [Ev.keepalive s] else []) ++
        [Ev.connect s a, Ev.settimeout s .io, Ev.assign s] ∧
      ∀ e ∈ pre, (∀ id x, e ≠ .connect id x) ∧ (∀ id t, e ≠ .settimeout id t) ∧ (∀ id, e ≠ .keepalive id) ∧
        (∀ id, e ≠ .assign id) := by
  have ho := connect_outcome' h
  cases ho with
  | ok junk m a hle hj =>
    refine ⟨_, _, a, rfl, rfl, ?_⟩
    intro e he
    have := setupOnly_pre hj _ _ a e he
    refine ⟨?_, ?_, ?_, ?_⟩ <;> intros <;> intro heq <;> subst heq <;> exact this

/-- **Only through the TLS wrapper.** With a TLS context on a TCP server, the socket kept after a successful call is
a wrapper object that owns a distinct raw socket, and every `connect` and `settimeout` of the call was made on the
wrapper (hence none on the raw socket). -/
theorem C06_io_only_via_tls_wrapper (cfg : Cfg) (p : Plan) (st st' : St) (log : List Ev)
    (htls : cfg.tls = true) (hu : cfg.unix = false) (h : connect cfg p st = (st', .ok (), log)) :
    ∃ s raw, st'.sock = some s ∧ Ev.wrapped s raw ∈ log ∧ raw ≠ s ∧ ownedBy log raw = some s ∧
      (∀ id a, Ev.connect id a ∈ log → id = s) ∧ (∀ id t, Ev.settimeout id t ∈ log → id = s) ∧
      (∃ a, Ev.connect s a ∈ log) := by
  have ho := connect_outcome' h
  rw [htls, hu] at ho
  simp only [Bool.not_false, Bool.and_true] at ho
  cases ho with
  | ok junk m a hle hj =>
    have hsetup := setupOnly_pre (o := st.sock) hj cfg.noDelay true a
    have hw : Ev.wrapped (m + 1) m ∈ closeEvs st.sock ++ junk ++ okSeg cfg.noDelay true m a := by
      cases cfg.noDelay <;> simp [okSeg]
    have hown : ownedBy (closeEvs st.sock ++ junk ++ okSeg cfg.noDelay true m a) m = some (m + 1) := by
      simp only [List.append_assoc]
      rw [ownedBy_append_of_not_raw _ (by simp), ownedBy_append_of_not_raw _ (by simp [hj.rawIds]), ownedBy_okSeg]
      simp
    generalize closeEvs st.sock ++ junk ++ okSeg cfg.noDelay true m a = pre at hsetup hw hown
    have hs : sockOf true m = m + 1 := by simp [sockOf]
    rw [hs]
    refine ⟨m + 1, m, rfl, ?_, by idomega, ?_, ?_, ?_, ?_⟩
    · simp [hw]
    · simp only [List.append_assoc]
      exact ownedBy_append_of_some _ hown
    · intro id x hmem
      simp only [List.mem_append, List.mem_cons, List.not_mem_nil, or_false] at hmem
      rcases hmem with ((hmem | hmem) | hmem) | hmem
      · exact (hsetup _ hmem).elim
      · simp at hmem
      · cases cfg.keepalive <;> simp [kaSeg] at hmem
      · simp at hmem; exact hmem.1
    · intro id t hmem
      simp only [List.mem_append, List.mem_cons, List.not_mem_nil, or_false] at hmem
      rcases hmem with ((hmem | hmem) | hmem) | hmem
      · exact (hsetup _ hmem).elim
      · simp at hmem; exact hmem.1
      · cases cfg.keepalive <;> simp [kaSeg] at hmem
      · simp at hmem; exact hmem.1
    · exact ⟨a, by simp⟩

/-- **Fallback to a later address.** TCP server, `getaddrinfo` succeeds.  If `j` is the first resolved address for
which a socket can be created and prepared, and nothing raises afterwards, the call succeeds and connects to address
`j` — whatever failed for the addresses before it. -/
theorem C06_fallback_uses_later_address (cfg : Cfg) (p : Plan) (st : St) (j : Nat)
    (hu : cfg.unix = false) (hg : p.gai = false) (hj : j < p.naddr)
    (hprep : Preparable cfg p j) (hleast : ∀ i, i < j → ¬ Preparable cfg p i) (h2 : Phase2Fine cfg p) :
    (connect cfg p st).2.1 = .ok () ∧
    ∃ s, (connect cfg p st).1.sock = some s ∧ Ev.connect s j ∈ (connect cfg p st).2.2 ∧
      ∀ id a, Ev.connect id a ∈ (connect cfg p st).2.2 → id = s ∧ a = j := by
  obtain ⟨junk, m, hle, hjunk, hc, -⟩ := connect_first st hu hg hj (prepOk_iff.2 hprep)
    (fun i hi => prepOk_false_iff.2 (hleast i hi))
  rw [finish_ok (p2Ok_iff.2 h2)] at hc
  rw [hc]
  refine ⟨rfl, _, rfl, by simp, ?_⟩
  intro id a hmem
  have hsetup := setupOnly_pre (o := st.sock) hjunk cfg.noDelay cfg.tls j
  simp only [← List.append_assoc] at hmem
  generalize closeEvs st.sock ++ junk ++ okSeg cfg.noDelay cfg.tls m j = pre at hsetup hmem
  simp only [List.mem_append, List.mem_cons, List.not_mem_nil, or_false] at hmem
  rcases hmem with (((hmem | hmem) | hmem) | hmem) | hmem
  · exact (hsetup _ hmem).elim
  · simp at hmem
  · cases cfg.keepalive <;> simp [kaSeg] at hmem
  · simpa using hmem
  · simp at hmem

/-- **…and only then does the call fail.** TCP server, `getaddrinfo` succeeds, no address can be prepared: the call
fails with the error of the last address tried (`prepErr cfg p (naddr-1)`: the `socket()`, `TCP_NODELAY` or
`wrap_socket` exception of that address), `self.sock` stays `None`, and no `connect` is attempted. -/
theorem C06_fallback_all_fail (cfg : Cfg) (p : Plan) (st : St)
    (hu : cfg.unix = false) (hg : p.gai = false) (hall : ∀ i, i < p.naddr → ¬ Preparable cfg p i) :
    (connect cfg p st).2.1 = .error (if p.naddr = 0 then .gai else prepErr cfg p (p.naddr - 1)) ∧
    (connect cfg p st).1.sock = none ∧ ∀ id a, Ev.connect id a ∉ (connect cfg p st).2.2 := by
  obtain ⟨junk, n', hle, hjunk, hc, -⟩ := connect_allfail st hu hg (fun i hi => prepOk_false_iff.2 (hall i hi))
  rw [hc]
  refine ⟨?_, rfl, ?_⟩
  · cases hn : p.naddr with
    | zero => simp [lastErr]
    | succ n => simp [lastErr_range_succ]
  · intro id a hmem
    exact setupOnly_pre (o := st.sock) hjunk false false 0 _ (List.mem_append_left _ hmem)

/-- The first preparable address decides: if `settimeout`/keepalive/`connect` raises for it, the call fails (no
later address is tried — the fallback of C06 covers socket *creation* only), the prepared socket is closed and
`self.sock` stays `None`. -/
theorem C06_no_fallback_after_connect_failure (cfg : Cfg) (p : Plan) (st : St) (j : Nat)
    (hu : cfg.unix = false) (hg : p.gai = false) (hj : j < p.naddr)
    (hprep : Preparable cfg p j) (hleast : ∀ i, i < j → ¬ Preparable cfg p i) (h2 : ¬ Phase2Fine cfg p) :
    (∃ e, (connect cfg p st).2.1 = .error e) ∧ (connect cfg p st).1.sock = none ∧
    openIds (connect cfg p st).2.2 = [] ∧
    ∀ id a, Ev.connect id a ∈ (connect cfg p st).2.2 → a = j := by
  obtain ⟨junk, m, hle, hjunk, hc, -⟩ := connect_first st hu hg hj (prepOk_iff.2 hprep)
    (fun i hi => prepOk_false_iff.2 (hleast i hi))
  have hp2 : p2Ok cfg p = false := by
    cases hh : p2Ok cfg p
    · rfl
    · exact absurd (p2Ok_iff.1 hh) h2
  have hph := phase2_fail_eq hp2 (sockOf cfg.tls m) j
  generalize p2Err cfg p = e at hph
  have hfin : connect cfg p st = ({ sock := none, next := nextOf cfg.tls m }, .error e,
      closeEvs st.sock ++ (junk ++ okSeg cfg.noDelay cfg.tls m j) ++
        (p2Mid cfg p (sockOf cfg.tls m) j ++ [Ev.close (sockOf cfg.tls m)])) := by
    rw [hc]; simp [finish, hph]
  have herr : (connect cfg p st).2.1 = .error e := by rw [hfin]
  have hopen := (C06_at_most_one_open cfg p st _ _ _ rfl).2.1 e herr
  refine ⟨⟨e, herr⟩, by rw [hfin], hopen, ?_⟩
  rw [hfin]
  intro id a hmem
  have hsetup := setupOnly_pre (o := st.sock) hjunk cfg.noDelay cfg.tls j
  simp only [← List.append_assoc] at hmem
  generalize closeEvs st.sock ++ junk ++ okSeg cfg.noDelay cfg.tls m j = pre at hsetup hmem
  simp only [List.mem_append, List.mem_cons, List.not_mem_nil, or_false] at hmem
  rcases hmem with (hmem | hmem) | hmem
  · exact (hsetup _ hmem).elim
  · exact (p2Mid_connect hmem).2
  · simp at hmem

/-- **After any failed call the next call opens a fresh connection and works.** Whatever made the first
`_connect()` fail, a following `_connect()` for which some address is preparable and nothing raises afterwards
succeeds with a socket created by that second call (an id the first call never used), having left nothing of the
first call open. -/
theorem C06_recovers_after_failure (cfg : Cfg) (p1 p2 : Plan) (st st1 : St) (e : Err) (log1 : List Ev)
    (h1 : connect cfg p1 st = (st1, .error e, log1))
    (hgood : cfg.unix = true ∧ p2.socket 0 = false ∨
      cfg.unix = false ∧ p2.gai = false ∧ ∃ j, j < p2.naddr ∧ Preparable cfg p2 j)
    (hfine : Phase2Fine cfg p2) :
    st1.sock = none ∧ openIds log1 = [] ∧
    (connect cfg p2 st1).2.1 = .ok () ∧
    ∃ s, (connect cfg p2 st1).1.sock = some s ∧ st1.next ≤ s ∧ s ∉ createdIds log1 ∧
      s ∈ createdIds (connect cfg p2 st1).2.2 := by
  have hs1 := ((C06_failed_connect_leaves_none cfg p1 st st1 _ log1 h1).1 e rfl).1
  have ho1 := (C06_at_most_one_open cfg p1 st st1 _ log1 h1).2.1 e rfl
  have hfresh1 := (C06_no_leak cfg p1 st st1 _ log1 h1).2.1
  have hok : (connect cfg p2 st1).2.1 = .ok () := by
    rcases hgood with ⟨hu, hs⟩ | ⟨hu, hg, j, hj, hprep⟩
    · unfold connect
      rw [connectWith_unix st1 hu, hs, phase2_ok (p2Ok_iff.2 hfine)]
      rfl
    · -- least preparable index
      have hex : ∃ j, j < p2.naddr ∧ Preparable cfg p2 j ∧ ∀ i, i < j → ¬ Preparable cfg p2 i := by
        rcases split_first (prepOk cfg p2) (List.range p2.naddr) with hall | ⟨pre, k, post, hsplit, hpre, hk⟩
        · exact absurd (prepOk_iff.2 hprep) (by rw [hall j (List.mem_range.2 hj)]; simp)
        · have hlen : pre.length < p2.naddr := by
            have := congrArg List.length hsplit; simp at this; omega
          have hk' : k = pre.length := by
            have := congrArg (fun l => l[pre.length]?) hsplit
            simp [List.getElem?_range hlen] at this
            exact this.symm
          refine ⟨k, by omega, prepOk_iff.1 hk, ?_⟩
          intro i hi
          have : i ∈ pre := by
            have hi' : i < pre.length := by omega
            have := congrArg (fun l => l[i]?) hsplit
            simp [List.getElem?_range (by omega : i < p2.naddr), List.getElem?_append_left hi'] at this
            exact List.mem_of_getElem? this.symm
          exact prepOk_false_iff.1 (hpre i this)
      obtain ⟨j', hj', hprep', hleast'⟩ := hex
      exact (C06_fallback_uses_later_address cfg p2 st1 j' hu hg hj' hprep' hleast' hfine).1
  refine ⟨hs1, ho1, hok, ?_⟩
  generalize hc : connect cfg p2 st1 = res at hok
  obtain ⟨st2, r2, log2⟩ := res
  simp only at hok
  subst hok
  obtain ⟨s, hs, hge, hlt, -⟩ := (C06_failed_connect_leaves_none cfg p2 st1 st2 _ log2 hc).2 rfl
  refine ⟨s, hs, hge, ?_, ?_⟩
  · intro hmem
    have := (hfresh1 s hmem).2
    idomega
  · have ho := connect_outcome' hc
    cases ho with
    | ok junk m a hle hj =>
      simp only [Option.some.injEq] at hs
      subst hs
      cases htls : (cfg.tls && !cfg.unix) <;> simp [createdIds_append, createdIds_okSeg, sockOf]

/-! ## the pinned (unfixed) code -/

/-- **The defect of the pinned code.** Two addresses, `socket()` raises for the first, everything else works.  The
original loop creates a socket for the second address but then re-raises the stale error of the first: the call
fails, `self.sock` stays `None` and the new socket is neither used nor closed — it is leaked.  The fixed code
connects to the second address. -/
theorem C06_orig_stale_error_counterexample :
    let p : Plan := { naddr := 2, socket := fun i => i == 0 }
    connectOrig {} p {} = ({ sock := none, next := 1 }, .error (.socket 0), [.created 0 1]) ∧
    leaked [Ev.created 0 1] none = [0] ∧
    leaked (connectOrig {} p {}).2.2 (connectOrig {} p {}).1.sock ≠ [] ∧
    connect {} p {} = ({ sock := some 0, next := 1 }, .ok (),
      [.created 0 1, .settimeout 0 .connect, .connect 0 1, .settimeout 0 .io, .assign 0]) := by
  refine ⟨rfl, by decide, by decide, rfl⟩

/-- The same defect in general: whenever the first preparable address `j` is not the first address, the pinned code
raises the error of address `j-1` although a socket for `j` exists, and leaks that socket (from any sane start
state, for every configuration); the fixed code would have gone on with address `j`. -/
theorem C06_orig_stale_error_general (cfg : Cfg) (p : Plan) (st : St) (j : Nat) (hwf : st.WF)
    (hu : cfg.unix = false) (hg : p.gai = false) (hj : j < p.naddr) (hpos : 0 < j)
    (hprep : Preparable cfg p j) (hleast : ∀ i, i < j → ¬ Preparable cfg p i) :
    (connectOrig cfg p st).2.1 = .error (prepErr cfg p (j - 1)) ∧
    (connectOrig cfg p st).1.sock = none ∧
    leaked (connectOrig cfg p st).2.2 (connectOrig cfg p st).1.sock ≠ [] := by
  obtain ⟨junk, m, hle, hjunk, -, hc⟩ := connect_first st hu hg hj (prepOk_iff.2 hprep)
    (fun i hi => prepOk_false_iff.2 (hleast i hi))
  obtain ⟨k, rfl⟩ : ∃ k, j = k + 1 := ⟨j - 1, by omega⟩
  rw [lastErr_range_succ] at hc
  simp only at hc
  rw [hc]
  refine ⟨by simp, rfl, ?_⟩
  intro hnil
  have := orig_leak (o := st.sock) hjunk hle hwf cfg.noDelay cfg.tls (k + 1)
  simp only at hnil
  rw [hnil] at this
  simp at this

/-- why `st.WF` is assumed above (and for the exact open set in `C06_at_most_one_open`): from the ill-formed state
`sock = some 0, next = 0` the id 0 is handed out a second time, and the earlier `close 0` hides the leak from the
order-insensitive judgment; `C06_sequence_closes_well_ordered` shows this cannot happen along a run -/
example : leaked (connectOrig {} { naddr := 2, socket := fun i => i == 0 } { sock := some 0, next := 0 }).2.2 none
    = [] := by decide

/-- The pinned code and the fixed code agree on UNIX sockets, when `getaddrinfo` raises, when the first address can
be prepared, and when no address can be prepared: they differ only when an earlier address failed before a later
one succeeded. -/
theorem C06_orig_agrees_without_earlier_failure (cfg : Cfg) (p : Plan) (st : St)
    (h : cfg.unix = true ∨ p.gai = true ∨ Preparable cfg p 0 ∨ ∀ i, i < p.naddr → ¬ Preparable cfg p i) :
    connectOrig cfg p st = connect cfg p st := by
  cases hu : cfg.unix
  · cases hg : p.gai
    · have hall : (∀ i, i < p.naddr → ¬ Preparable cfg p i) → connectOrig cfg p st = connect cfg p st := by
        intro hall
        obtain ⟨_, _, _, _, _, heq⟩ := connect_allfail st hu hg (fun i hi => prepOk_false_iff.2 (hall i hi))
        exact heq
      rcases h with h | h | h | h
      · rw [hu] at h; exact absurd h (by simp)
      · rw [hg] at h; exact absurd h (by simp)
      · by_cases hn : 0 < p.naddr
        · obtain ⟨junk, m, hle, hjunk, hc, hco⟩ := connect_first st hu hg hn (prepOk_iff.2 h) (fun i hi => by omega)
          rw [hc, hco]; rfl
        · exact hall (fun i hi => by omega)
      · exact hall h
    · unfold connect connectOrig; rw [connectWith_gai st hu hg, connectWith_gai st hu hg]
  · unfold connect connectOrig; rw [connectWith_unix st hu, connectWith_unix st hu]

/-! ## sequences of calls -/

/-- **The invariant holds along any sequence of `_connect()` / `close()` calls** on a fresh client, each
`_connect()` under an arbitrary plan of failures: at the end nothing is leaked (every socket ever created is closed,
or is `self.sock`, or is the raw socket owned by `self.sock`), the set of open sockets is exactly `self.sock`
(plus the raw socket it wraps under TLS) — so at most one connection is open at any time — and `self.sock` is an id
that was handed out. -/
theorem C06_sequence_no_leak (cfg : Cfg) (steps : List Step) (st : St) (log : List Ev)
    (h : run cfg {} steps = (st, log)) :
    leaked log st.sock = [] ∧
    openIds log = openOf (cfg.tls && !cfg.unix) st.sock ∧
    (openIds log).length ≤ (if (cfg.tls && !cfg.unix) then 2 else 1) ∧
    (st.sock = none → openIds log = []) ∧
    (∀ id ∈ createdIds log, id < st.next) ∧ st.WF := by
  have hI := run_inv (cfg := cfg) steps (Inv.init (cfg.tls && !cfg.unix) 0)
  change Inv _ ([] ++ (run cfg {} steps).2) (run cfg {} steps).1 at hI
  rw [h, List.nil_append] at hI
  refine ⟨hI.no_leak, hI.open_exact, ?_, ?_, hI.created, hI.sock⟩
  · rw [hI.open_exact]; exact openOf_length _ _
  · intro hs; rw [hI.open_exact, hs]; rfl

/-- **Never more than one open socket, at any moment.** At every point (every prefix of the log, also in the middle
of a call, between the attempts for different addresses) of any sequence of `_connect()` / `close()` calls on a
fresh client, at most one OS-level socket is open, and at most one socket object (two under TLS: the raw socket
and its wrapper). -/
theorem C06_sequence_at_every_moment (cfg : Cfg) (steps : List Step) (st : St) (log : List Ev)
    (h : run cfg {} steps = (st, log)) (pre : List Ev) (hpre : pre <+: log) :
    (openSocks pre).length ≤ 1 ∧ (openIds pre).length ≤ (if (cfg.tls && !cfg.unix) then 2 else 1) := by
  have hS0 : SafeP (peakOf (cfg.tls && !cfg.unix)) [] := by
    intro q hq
    simp at hq; subst hq
    simp [Peak, openIds, openSocks, sockIds]
  have hS := run_safeP (cfg := cfg) steps (Inv.init (cfg.tls && !cfg.unix) 0) hS0
  change SafeP _ ([] ++ (run cfg {} steps).2) at hS
  rw [h, List.nil_append] at hS
  have := hS pre hpre
  exact ⟨this.2, this.1⟩

/-- **Closes are well ordered** (so the order-insensitive judgments `isClosed`/`leaked` mean what they say): along any
sequence of calls on a fresh client, at every moment every socket closed so far had been created before, and no
socket is ever closed twice. -/
theorem C06_sequence_closes_well_ordered (cfg : Cfg) (steps : List Step) (st : St) (log : List Ev)
    (h : run cfg {} steps = (st, log)) :
    (∀ pre, pre <+: log → ∀ id ∈ closedIds pre, id ∈ createdIds pre) ∧ (closedIds log).Nodup := by
  have hO0 : ClosesOrdered [] := closesOrdered_of_no_close rfl
  have := run_order (cfg := cfg) steps (Inv.init (cfg.tls && !cfg.unix) 0) hO0 (by simp)
  change ClosesOrdered ([] ++ (run cfg {} steps).2) ∧ (closedIds ([] ++ (run cfg {} steps).2)).Nodup at this
  rw [h, List.nil_append] at this
  exact this

/-- `close()` closes `self.sock` and nothing stays open: after any sequence of calls that ends with `close()`
every socket ever created is closed. -/
theorem C06_sequence_close_closes_all (cfg : Cfg) (steps : List Step) (st : St) (log : List Ev)
    (h : run cfg {} (steps ++ [.close]) = (st, log)) :
    st.sock = none ∧ ∀ id ∈ createdIds log, isClosed log id = true := by
  have hrun : ∀ (l : List Step) (s0 : St), (run cfg s0 (l ++ [.close])).1.sock = none := by
    intro l
    induction l with
    | nil => intro s0; simp [run, step, close_eq]
    | cons a l ih => intro s0; simpa [run] using ih _
  have hs : st.sock = none := by have := hrun steps {}; rw [h] at this; exact this
  refine ⟨hs, ?_⟩
  have ho := (C06_sequence_no_leak cfg _ st log h).2.2.2.1 hs
  intro id hid
  cases hc : isClosed log id
  · have : id ∈ openIds log := mem_openIds.2 ⟨hid, hc⟩
    rw [ho] at this; simp at this
  · rfl

/-! ## non-vacuity -/

/-- three addresses, TLS + nodelay + keepalive: `socket()` fails for the first, `wrap_socket` for the second, the
third works; the previous socket 7 is closed first -/
example :
    connect { tls := true, noDelay := true, keepalive := true }
      { naddr := 3, socket := fun i => i == 0, wrap := fun i => i == 1 } { sock := some 7, next := 10 } =
    ({ sock := some 12, next := 13 }, .ok (),
      [.close 7, .unassign, .created 10 1, .nodelay 10, .close 10, .created 11 2, .nodelay 11, .wrapped 12 11,
       .settimeout 12 .connect, .keepalive 12, .connect 12 2, .settimeout 12 .io, .assign 12]) := rfl

example : Preparable { tls := true, noDelay := true, keepalive := true }
    { naddr := 3, socket := fun i => i == 0, wrap := fun i => i == 1 } 2 := by simp [Preparable]

/-- open set after that call: the wrapper 12 and its raw socket 11 -/
example : openIds [Ev.close 7, .unassign, .created 10 1, .nodelay 10, .close 10, .created 11 2, .nodelay 11,
    .wrapped 12 11, .settimeout 12 .connect, .keepalive 12, .connect 12 2, .settimeout 12 .io, .assign 12]
    = [11, 12] := by decide

/-- in the middle of that call (after the TLS wrap of the third address): one OS-level socket, two socket objects -/
example : openSocks [Ev.close 7, .unassign, .created 10 1, .nodelay 10, .close 10, .created 11 2, .nodelay 11,
    .wrapped 12 11] = [11] ∧
  openIds [Ev.close 7, .unassign, .created 10 1, .nodelay 10, .close 10, .created 11 2, .nodelay 11,
    .wrapped 12 11] = [11, 12] := by decide

/-- `connect()` raising for the only preparable address: failure, socket and wrapper closed -/
example :
    connect { tls := true } { naddr := 2, socket := fun i => i == 0, connect := true } {} =
    ({ sock := none, next := 2 }, .error .connect,
      [.created 0 1, .wrapped 1 0, .settimeout 1 .connect, .close 1]) := rfl

example : leaked [Ev.created 0 1, .wrapped 1 0, .settimeout 1 .connect, .close 1] none = [] := by decide

/-- all addresses fail: the error of the last one -/
example :
    connect {} { naddr := 2, socket := fun _ => true } {} = ({ sock := none, next := 0 }, .error (.socket 1), []) := rfl

/-- a sequence: failed connect, successful connect, reconnect (closes the old socket), close -/
example :
    run { tls := true } {}
      [.connect { connect := true }, .connect {}, .connect { naddr := 2, wrap := fun i => i == 0 }, .close] =
    ({ sock := none, next := 7 },
      [.created 0 0, .wrapped 1 0, .settimeout 1 .connect, .close 1,
       .created 2 0, .wrapped 3 2, .settimeout 3 .connect, .connect 3 0, .settimeout 3 .io, .assign 3,
       .close 3, .unassign, .created 4 0, .close 4, .created 5 1, .wrapped 6 5, .settimeout 6 .connect,
       .connect 6 1, .settimeout 6 .io, .assign 6,
       .close 6, .unassign]) := rfl

end Conn
