import Pymc.Model.Retrying
/-!
# C17 — RetryingClient retries exactly as configured

Model: `Retrying.retry` (Pymc/Model/Retrying.lean), a transliteration of `RetryingClient._retry`.
The theorems quantify over every configuration (any `attempts ≥ 1`, any class lists, any subclass
relation) and every script of outcomes of the wrapped call — no bound on `attempts`.
-/
namespace Retrying

theorem mustRaise_iff (cfg : Cfg) (a cls : Nat) :
    mustRaise cfg a cls = true ↔ (a + 1 ≥ cfg.attempts ∨ retryable cfg cls = false) := by
  unfold mustRaise retryable
  cases h1 : cfg.retryFor.isEmpty <;> cases h2 : isInst cfg cls cfg.retryFor <;>
  cases h3 : cfg.doNotRetryFor.isEmpty <;> cases h4 : isInst cfg cls cfg.doNotRetryFor <;>
  cases h5 : cfg.nameInDir <;> simp <;> omega

/-- the i-th invocation raised a retryable exception -/
def RetryableAt (cfg : Cfg) (script : List Outcome) (j : Nat) : Prop :=
  ∃ c id, script[j]? = some (.exc c id) ∧ retryable cfg c = true

theorem loop_spec (cfg : Cfg) (fuel a : Nat) (script : List Outcome)
    (h : a + fuel = cfg.attempts) (hf : 0 < fuel) (hlen : fuel ≤ script.length) :
    ∃ i, i < fuel ∧ (loop cfg fuel a script).invocations = a + i + 1 ∧
      (loop cfg fuel a script).sleeps = a + i ∧
      (∀ j, j < i → RetryableAt cfg script j) ∧
      ((∃ v, script[i]? = some (.ok v) ∧ (loop cfg fuel a script).result = .value v) ∨
       (∃ c id, script[i]? = some (.exc c id) ∧ (loop cfg fuel a script).result = .raised c id ∧
          (retryable cfg c = false ∨ a + i + 1 = cfg.attempts))) := by
  induction fuel generalizing a script with
  | zero => omega
  | succ n ih =>
    match script, hlen with
    | [], hl => simp at hl
    | .ok v :: rest, _ =>
      refine ⟨0, by omega, ?_, ?_, ?_, ?_⟩ <;> simp [loop]
    | .exc c id :: rest, hl =>
      by_cases hm : mustRaise cfg a c = true
      · refine ⟨0, by omega, ?_, ?_, ?_, ?_⟩
        · simp [loop, hm]
        · simp [loop, hm]
        · intro j hj; omega
        · right
          refine ⟨c, id, by simp, by simp [loop, hm], ?_⟩
          rcases (mustRaise_iff cfg a c).1 hm with h1 | h1
          · right; omega
          · left; exact h1
      · have hnr : ¬ (a + 1 ≥ cfg.attempts ∨ retryable cfg c = false) := fun hh => hm ((mustRaise_iff cfg a c).2 hh)
        have hn : 0 < n := by omega
        have hlen' : n ≤ rest.length := by simp at hl; omega
        obtain ⟨i, hi, hinv, hsl, hpre, hfin⟩ := ih (a + 1) rest (by omega) hn hlen'
        have hloop : loop cfg (n + 1) a (.exc c id :: rest) = loop cfg n (a + 1) rest := by
          simp [loop, hm]
        refine ⟨i + 1, by omega, ?_, ?_, ?_, ?_⟩
        · rw [hloop, hinv]; omega
        · rw [hloop, hsl]; omega
        · intro j hj
          cases j with
          | zero =>
            refine ⟨c, id, by simp, ?_⟩
            cases hr : retryable cfg c with
            | true => rfl
            | false => exact absurd (Or.inr hr) hnr
          | succ j =>
            obtain ⟨c', id', h1, h2⟩ := hpre j (by omega)
            exact ⟨c', id', by simpa using h1, h2⟩
        · rw [hloop]
          rcases hfin with ⟨v, h1, h2⟩ | ⟨c', id', h1, h2, h3⟩
          · left; exact ⟨v, by simpa using h1, h2⟩
          · right; refine ⟨c', id', by simpa using h1, h2, ?_⟩
            rcases h3 with h3 | h3
            · left; exact h3
            · right; omega

/-- **C17 (main)**: for every configuration with `attempts ≥ 1` and every script that has an outcome
for each possible invocation, there is an index `i < attempts` such that: the wrapped method is invoked
exactly `i+1` times, `sleep(retry_delay)` is called exactly `i` times (between consecutive attempts,
never after the last), every invocation before `i` raised a retryable exception (matches `retry_for`
when given, does not match `do_not_retry_for`), and invocation `i` either succeeded — its value is
returned unchanged — or raised an exception that is re-raised (the same object) because it is not
retryable or because it was the `attempts`-th attempt. -/
theorem C17_retry_spec (cfg : Cfg) (script : List Outcome)
    (ha : 1 ≤ cfg.attempts) (hlen : cfg.attempts ≤ script.length) :
    ∃ i, i < cfg.attempts ∧ (retry cfg script).invocations = i + 1 ∧ (retry cfg script).sleeps = i ∧
      (∀ j, j < i → RetryableAt cfg script j) ∧
      ((∃ v, script[i]? = some (.ok v) ∧ (retry cfg script).result = .value v) ∨
       (∃ c id, script[i]? = some (.exc c id) ∧ (retry cfg script).result = .raised c id ∧
          (retryable cfg c = false ∨ i + 1 = cfg.attempts))) := by
  have := loop_spec cfg cfg.attempts 0 script (by omega) (by omega) hlen
  simpa [retry] using this

/-- C17: at most `attempts` invocations, for any script (even a short one) -/
theorem C17_at_most_attempts (cfg : Cfg) (script : List Outcome) :
    (retry cfg script).invocations ≤ cfg.attempts := by
  unfold retry
  suffices ∀ fuel a s, (loop cfg fuel a s).invocations ≤ a + fuel by simpa using this cfg.attempts 0 script
  intro fuel
  induction fuel with
  | zero => intro a s; simp [loop]
  | succ n ih =>
    intro a s
    match s with
    | [] => simp [loop]
    | .ok v :: _ => simp [loop]
    | .exc c id :: rest =>
      simp only [loop]
      split
      · simp
      · have := ih (a + 1) rest; omega

/-- C17: the loop never ends without returning or raising (no implicit `None`), and never sleeps
after the final attempt: sleeps = invocations − 1 -/
theorem C17_never_falls_through (cfg : Cfg) (script : List Outcome)
    (ha : 1 ≤ cfg.attempts) (hlen : cfg.attempts ≤ script.length) :
    (retry cfg script).result ≠ .fellThrough ∧ (retry cfg script).result ≠ .scriptExhausted ∧
    (retry cfg script).sleeps + 1 = (retry cfg script).invocations := by
  obtain ⟨i, _, hinv, hsl, _, hfin⟩ := C17_retry_spec cfg script ha hlen
  refine ⟨?_, ?_, by omega⟩ <;>
  · rcases hfin with ⟨v, _, h⟩ | ⟨c, id, _, h, _⟩ <;> simp [h]

/-- C17: a first-attempt success is returned after one invocation and no sleep -/
theorem C17_success_first (cfg : Cfg) (v : Nat) (rest : List Outcome) (ha : 1 ≤ cfg.attempts) :
    retry cfg (.ok v :: rest) = ⟨.value v, 1, 0⟩ := by
  unfold retry
  match h : cfg.attempts, ha with
  | n + 1, _ => simp [loop]

/-- C17 (validation): construction succeeds iff `attempts ≥ 1`, both class arguments are
`None`/tuple/set/list of exception classes, and no class is in both lists -/
theorem C17_validate_spec (a : CtorArgs) :
    ctorOk a = true ↔
      (1 ≤ a.attempts ∧
       (a.retryForKind = .none ∨ (a.retryForKind ≠ .other ∧ ∀ c ∈ a.retryFor, a.isExcClass c = true)) ∧
       (a.dnrKind = .none ∨ (a.dnrKind ≠ .other ∧ ∀ c ∈ a.dnr, a.isExcClass c = true)) ∧
       ∀ c, c ∈ (if a.retryForKind = .none then [] else a.retryFor) →
            c ∉ (if a.dnrKind = .none then [] else a.dnr)) := by
  unfold ctorOk ensureTuple
  by_cases h1 : a.attempts < 1
  · simp [h1]; omega
  · have h1' : 1 ≤ a.attempts := by omega
    simp only [h1, if_false]
    cases hk : a.retryForKind <;> cases hd : a.dnrKind <;>
      simp [h1', List.all_eq_true] <;>
      (try (by_cases hA : ∀ c ∈ a.retryFor, a.isExcClass c = true <;>
            by_cases hB : ∀ c ∈ a.dnr, a.isExcClass c = true <;> simp_all)) <;>
      grind

/-- non-vacuity: attempts = 3, a base class 0 with subclasses 1,2 and an unrelated class 9;
retry only for the base, not for subclass 2: two retryable failures then a success. -/
example :
    let cfg : Cfg := ⟨3, [0], [2], true, fun c k => c = k || (k = 0 && (c = 1 || c = 2))⟩
    retry cfg [.exc 1 100, .exc 0 101, .ok 7] = ⟨.value 7, 3, 2⟩ ∧
    retry cfg [.exc 2 100, .ok 7, .ok 7] = ⟨.raised 2 100, 1, 0⟩ ∧
    retry cfg [.exc 9 100, .ok 7, .ok 7] = ⟨.raised 9 100, 1, 0⟩ ∧
    retry cfg [.exc 1 100, .exc 1 101, .exc 1 102] = ⟨.raised 1 102, 3, 2⟩ := by decide

end Retrying
