import Pymc.Model.Retrying
/-!
# C17 — RetryingClient retries exactly as configured

Model: `Retrying.retry` (Pymc/Model/Retrying.lean), a transliteration of `RetryingClient._retry`.
The theorems quantify over every configuration (any `attempts ≥ 1`, any class lists, any subclass
relation) and every script of outcomes of the wrapped call — no bound on `attempts`.
-/
namespace Retrying

theorem mustRaise_iff (cfg : Cfg) (a cls : Nat) :
    mustRaise cfg a cls = true ↔ (a + 1 ≥ cfg.attempts ∨ retryable cfg cls = false) := by
  unfold mustRaise retryable
  cases h1 : cfg.retryFor.isEmpty <;> cases h2 : isInst cfg cls cfg.retryFor <;>
  cases h3 : cfg.doNotRetryFor.isEmpty <;> cases h4 : isInst cfg cls cfg.doNotRetryFor <;>
  cases h5 : cfg.nameInDir <;> simp <;> omega

/-- the i-th invocation raised a retryable exception -/
def RetryableAt (cfg : Cfg) (script : List Outcome) (j : Nat) : Prop :=
  ∃ c id, script[j]? = some (.exc c id) ∧ retryable cfg c = true

theorem loop_spec (cfg : Cfg) (fuel a : Nat) (script : List Outcome)
    (h : a + fuel = cfg.attempts) (hf : 0 < fuel) (hlen : fuel ≤ script.length) :
    ∃ i, i < fuel ∧ (loop cfg fuel a script).invocations = a + i + 1 ∧
      (loop cfg fuel a script).sleeps = a + i ∧
      (∀ j, j < i → RetryableAt cfg script j) ∧
      ((∃ v, script[i]? = some (.ok v) ∧ (loop cfg fuel a script).result = .value v) ∨
       (∃ c id, script[i]? = some (.exc c id) ∧ (loop cfg fuel a script).result = .raised c id ∧
          (retryable cfg c = false ∨ a + i + 1 = cfg.attempts))) := by
  induction fuel generalizing a script with
  | zero => omega
  | succ n ih =>
    match script, hlen with
    | [], hl => simp at hl
    | .ok v :: rest, _ =>
      refine ⟨0, by omega, ?_, ?_, ?_, ?_⟩ <;> simp [loop]
    | .exc c id :: rest, hl =>
      by_cases hm : mustRaise cfg a c = true
      · refine ⟨0, by omega, ?_, ?_, ?_, ?_⟩
        · simp [loop, hm]
        · simp [loop, hm]
        · intro j hj; omega
        · right
          refine ⟨c, id, by simp, by simp [loop, hm], ?_⟩
          rcases (mustRaise_iff cfg a c).1 hm with h1 | h1
          · right; omega
          · left; exact h1
      · have hnr : ¬ (a + 1 ≥ cfg.attempts ∨ retryable cfg c = false) := fun hh => hm ((mustRaise_iff cfg a c).2 hh)
        have hn : 0 < n := by omega
        have hlen' : n ≤ rest.length := by simp at hl; omega
        obtain ⟨i, hi, hinv, hsl, hpre, hfin⟩ := ih (a + 1) rest (by omega) hn hlen'
        have hloop : loop cfg (n + 1) a (.exc c id :: rest) = loop cfg n (a + 1) rest := by
          simp [loop, hm]
        refine ⟨i + 1, by omega, ?_, ?_, ?_, ?_⟩
        · rw [hloop, hinv]; omega
        · rw [hloop, hsl]; omega
        · intro j hj
          cases j with
          | zero =>
            refine ⟨c, id, by simp, ?_⟩
            cases hr : retryable cfg c with
            | true => rfl
            | false => exact absurd (Or.inr hr) hnr
          | succ j =>
            obtain ⟨c', id', h1, h2⟩ := hpre j (by omega)
            exact ⟨c', id', by simpa using h1, h2⟩
        · rw [hloop]
          rcases hfin with ⟨v, h1, h2⟩ | ⟨c', id', h1, h2, h3⟩
          · left; exact ⟨v, by simpa using h1, h2⟩
          · right; refine ⟨c', id', by simpa using h1, h2, ?_⟩
            rcases h3 with h3 | h3
            · left; exact h3
            · right; omega

/-- **C17 (main)**: for every configuration with `attempts ≥ 1` and every script that has an outcome
for each possible invocation, there is an index `i < attempts` such that: the wrapped method is invoked
exactly `i+1` times, `sleep(retry_delay)` is called exactly `i` times (between consecutive attempts,
never after the last), every invocation before `i` raised a retryable exception (matches `retry_for`
when given, does not match `do_not_retry_for`), and invocation `i` either succeeded — its value is
returned unchanged — or raised an exception that is re-raised (the same object) because it is not
retryable or because it was the `attempts`-th attempt. -/
theorem C17_retry_spec (cfg : Cfg) (script : List Outcome)
    (ha : 1 ≤ cfg.attempts) (hlen : cfg.attempts ≤ script.length) :
    ∃ i, i < cfg.attempts ∧ (retry cfg script).invocations = i + 1 ∧ (retry cfg script).sleeps = i ∧
      (∀ j, j < i → RetryableAt cfg script j) ∧
      ((∃ v, script[i]? = some (.ok v) ∧ (retry cfg script).result = .value v) ∨
       (∃ c id, script[i]? = some (.exc c id) ∧ (retry cfg script).result = .raised c id ∧
          (retryable cfg c = false ∨ i + 1 = cfg.attempts))) := by
  have := loop_spec cfg cfg.attempts 0 script (by omega) (by omega) hlen
  simpa [retry] using this

/-- C17: at most `attempts` invocations, for any script (even a short one) -/
theorem C17_at_most_attempts (cfg : Cfg) (script : List Outcome) :
    (retry cfg script).invocations ≤ cfg.attempts := by
  unfold retry
  suffices ∀ fuel a s, (loop cfg fuel a s).invocations ≤ a + fuel by simpa using this cfg.attempts 0 script
  intro fuel
  induction fuel with
  | zero => intro a s; simp [loop]
  | succ n ih =>
    intro a s
    match s with
    | [] => simp [loop]
    | .ok v :: _ => simp [loop]
    | .exc c id :: rest =>
      simp only [loop]
      split
      · simp
      · have := ih (a + 1) rest; omega

/-- C17: the loop never ends without returning or raising (no implicit `None`), and never sleeps
after the final attempt: sleeps = invocations − 1 -/
theorem C17_never_falls_through (cfg : Cfg) (script : List Outcome)
    (ha : 1 ≤ cfg.attempts) (hlen : cfg.attempts ≤ script.length) :
    (retry cfg script).result ≠ .fellThrough ∧ (retry cfg script).result ≠ .scriptExhausted ∧
    (retry cfg script).sleeps + 1 = (retry cfg script).invocations := by
  obtain ⟨i, _, hinv, hsl, _, hfin⟩ := C17_retry_spec cfg script ha hlen
  refine ⟨?_, ?_, by omega⟩ <;>
  · rcases hfin with ⟨v, _, h⟩ | ⟨c, id, _, h, _⟩ <;> simp [h]

/-- C17: a first-attempt success is returned after one invocation and no sleep -/
theorem C17_success_first (cfg : Cfg) (v : Nat) (rest : List Outcome) (ha : 1 ≤ cfg.attempts) :
    retry cfg (.ok v :: rest) = ⟨.value v, 1, 0⟩ := by
  unfold retry
  match h : cfg.attempts, ha with
  | n + 1, _ => simp [loop]

/-- C17 (validation): construction succeeds iff `attempts ≥ 1`, both class arguments are
`None`/tuple/set/list of exception classes, and no class is in both lists -/
theorem C17_validate_spec (a : CtorArgs) :
    ctorOk a = true ↔
      (1 ≤ a.attempts ∧
       (a.retryForKind = .none ∨ (a.retryForKind ≠ .other ∧ ∀ c ∈ a.retryFor, a.isExcClass c = true)) ∧
       (a.dnrKind = .none ∨ (a.dnrKind ≠ .other ∧ ∀ c ∈ a.dnr, a.isExcClass c = true)) ∧
       ∀ c, c ∈ (if a.retryForKind = .none then [] else a.retryFor) →
            c ∉ (if a.dnrKind = .none then [] else a.dnr)) := by
  unfold ctorOk ensureTuple
  by_cases h1 : a.attempts < 1
  · simp [h1]; omega
  · have h1' : 1 ≤ a.attempts := by omega
    simp only [h1, if_false]
    cases hk : a.retryForKind <;> cases hd : a.dnrKind <;>
      simp [h1', List.all_eq_true] <;>
      (try (by_cases hA : ∀ c ∈ a.retryFor, a.isExcClass c = true <;>
            by_cases hB : ∀ c ∈ a.dnr, a.isExcClass c = true <;> simp_all)) <;>
      grind

/-- non-vacuity: attempts = 3, a base class 0 with subclasses 1,2 and an unrelated class 9;
retry only for the base, not for subclass 2: two retryable failures then a success. -/
example :
    let cfg : Cfg := ⟨3, [0], [2], true, fun c k => c = k || (k = 0 && (c = 1 || c = 2))⟩
    retry cfg [.exc 1 100, .exc 0 101, .ok 7] = ⟨.value 7, 3, 2⟩ ∧
    retry cfg [.exc 2 100, .ok 7, .ok 7] = ⟨.raised 2 100, 1, 0⟩ ∧
    retry cfg [.exc 9 100, .ok 7, .ok 7] = ⟨.raised 9 100, 1, 0⟩ ∧
    retry cfg [.exc 1 100, .exc 1 101, .exc 1 102] = ⟨.raised 1 102, 3, 2⟩ := by decide

/-! ## several calls on one client: the model of one call is all there is -/

/-- C17 (histories): a call leaves the object as it found it -/
theorem C17_calls_object_unchanged (o : Obj) (calls : List MCall) : (runCalls o calls).1 = o := by
  induction calls generalizing o with
  | nil => rfl
  | cons c rest ih => simpa [runCalls, callOnce] using ih o

/-- **C17 (histories)**: in any history of calls on one `RetryingClient`, the result, the number of
invocations and the number of sleeps of call `k` are those of the single-call model on call `k`'s own
script and the configuration — the calls before it (how many attempts they used, whether they failed)
and after it do not enter.  In particular each call has the full budget `attempts`. -/
theorem C17_calls_independent (o : Obj) (calls : List MCall) (k : Nat) (c : MCall)
    (hk : calls[k]? = some c) :
    (runCalls o calls).2[k]? = some (retry (o.cfg c.method) c.script) := by
  induction calls generalizing o k with
  | nil => simp at hk
  | cons x rest ih =>
    cases k with
    | zero => simp at hk; subst hk; simp [runCalls, callOnce]
    | succ k => simpa [runCalls, callOnce] using ih o k (by simpa using hk)

/-- C17 (histories): two histories on equally configured objects that have the same call at position `k`
give the same run at position `k` -/
theorem C17_calls_independent_of_other_calls (o : Obj) (h1 h2 : List MCall) (k : Nat) (c : MCall)
    (e1 : h1[k]? = some c) (e2 : h2[k]? = some c) :
    (runCalls o h1).2[k]? = (runCalls o h2).2[k]? := by
  rw [C17_calls_independent o h1 k c e1, C17_calls_independent o h2 k c e2]

/-- C17 (histories): one run per call -/
theorem C17_calls_length (o : Obj) (calls : List MCall) : (runCalls o calls).2.length = calls.length := by
  induction calls generalizing o with
  | nil => rfl
  | cons c rest ih => simp [runCalls, ih]

/-- C17 (histories, full budget): wherever it stands in the history, a call whose wrapped method keeps
raising retryable exceptions is attempted exactly `attempts` times with `attempts − 1` sleeps, and the
exception of the last attempt is re-raised -/
theorem C17_calls_each_has_full_budget (o : Obj) (calls : List MCall) (k : Nat) (c : MCall)
    (hk : calls[k]? = some c) (ha : 1 ≤ o.attempts) (hlen : o.attempts ≤ c.script.length)
    (hall : ∀ j, j < o.attempts → RetryableAt (o.cfg c.method) c.script j) :
    ∃ r cls id, (runCalls o calls).2[k]? = some r ∧ r.invocations = o.attempts ∧
      r.sleeps = o.attempts - 1 ∧ r.result = .raised cls id ∧
      c.script[o.attempts - 1]? = some (.exc cls id) := by
  refine ⟨retry (o.cfg c.method) c.script, ?_⟩
  obtain ⟨i, hi, hinv, hsl, _, hfin⟩ := C17_retry_spec (o.cfg c.method) c.script ha hlen
  have hi' : i < o.attempts := hi
  obtain ⟨c', id', hs, hr⟩ := hall i hi'
  rcases hfin with ⟨v, h1, _⟩ | ⟨c2, id2, h1, h2, h3⟩
  · rw [hs] at h1; cases h1
  · rw [hs] at h1
    have hc : c' = c2 := by cases h1; rfl
    have hid : id' = id2 := by cases h1; rfl
    subst hc; subst hid
    have hlast : i + 1 = o.attempts := by
      rcases h3 with h3 | h3
      · rw [hr] at h3; cases h3
      · exact h3
    refine ⟨c', id', C17_calls_independent o calls k c hk, ?_, ?_, h2, ?_⟩
    · rw [hinv]; exact hlast
    · rw [hsl]; omega
    · have : o.attempts - 1 = i := by omega
      rw [this]; exact hs

/-- C17 (constructor): `construct` succeeds exactly when `ctorOk` says so -/
theorem C17_construct_iff_ctorOk (a : CtorArgs) (d : List Nat) (s : Nat → Nat → Bool) :
    (construct a d s).isSome = ctorOk a := by
  unfold construct ctorOk
  split
  · rfl
  · split
    · split <;> simp_all
    · rfl

/-- **C17 (empty filter)**: `retry_for=[]` (or `()`, `set()`) behaves exactly like no `retry_for`, and
`do_not_retry_for=[]` exactly like no `do_not_retry_for`, as the truthiness tests of lines 140 and 142 make it:
(1, 2) the constructor builds the same object — so every history of calls runs the same;
(3, 4) with the stored tuple empty, the decision to re-raise is the one with that disjunct struck out. -/
theorem C17_empty_filter_is_no_filter :
    (∀ (a : CtorArgs) (k : ArgKind) (d : List Nat) (s : Nat → Nat → Bool),
        k = .tuple ∨ k = .set ∨ k = .list →
        construct { a with retryForKind := k, retryFor := [] } d s
          = construct { a with retryForKind := .none } d s) ∧
    (∀ (a : CtorArgs) (k : ArgKind) (d : List Nat) (s : Nat → Nat → Bool),
        k = .tuple ∨ k = .set ∨ k = .list →
        construct { a with dnrKind := k, dnr := [] } d s = construct { a with dnrKind := .none } d s) ∧
    (∀ (cfg : Cfg) (attempt cls : Nat), cfg.retryFor = [] →
        mustRaise cfg attempt cls = mustRaiseNoRetryFor cfg attempt cls) ∧
    (∀ (cfg : Cfg) (attempt cls : Nat), cfg.doNotRetryFor = [] →
        mustRaise cfg attempt cls = mustRaiseNoDoNotRetryFor cfg attempt cls) := by
  refine ⟨?_, ?_, ?_, ?_⟩
  · intro a k d s hk
    rcases hk with rfl | rfl | rfl <;> simp [construct, ensureTuple]
  · intro a k d s hk
    rcases hk with rfl | rfl | rfl <;> simp [construct, ensureTuple]
  · intro cfg attempt cls h
    simp [mustRaise, mustRaiseNoRetryFor, h]
  · intro cfg attempt cls h
    simp [mustRaise, mustRaiseNoDoNotRetryFor, h]

/-- C17 (empty filter, whole histories): a client built with an empty `retry_for` and an empty
`do_not_retry_for` runs every history of calls exactly like one built with neither argument -/
theorem C17_empty_filter_same_histories (a : CtorArgs) (k1 k2 : ArgKind) (d : List Nat)
    (s : Nat → Nat → Bool) (calls : List MCall)
    (h1 : k1 = .tuple ∨ k1 = .set ∨ k1 = .list) (h2 : k2 = .tuple ∨ k2 = .set ∨ k2 = .list) :
    (construct { a with retryForKind := k1, retryFor := [], dnrKind := k2, dnr := [] } d s).map
        (fun o => (runCalls o calls).2)
      = (construct { a with retryForKind := .none, dnrKind := .none } d s).map
        (fun o => (runCalls o calls).2) := by
  have e1 := C17_empty_filter_is_no_filter.1
    { a with dnrKind := k2, dnr := [] } k1 d s h1
  have e2 := C17_empty_filter_is_no_filter.2.1 { a with retryForKind := .none } k2 d s h2
  simp only at e1 e2
  rw [e1, e2]

/-- C17 (empty filter): with both tuples empty every exception is retryable on a method listed by `dir()` -/
theorem C17_no_filters_everything_retryable (cfg : Cfg) (cls : Nat)
    (h1 : cfg.retryFor = []) (h2 : cfg.doNotRetryFor = []) : retryable cfg cls = cfg.nameInDir := by
  simp [retryable, h1, h2]

/-- non-vacuity: attempts = 3 on one object (methods 1, 2 listed by `dir()`, 5 not); the first call uses
up all three attempts and fails, the second still gets three; a call of an unlisted method gets one -/
example :
    let o : Obj := ⟨3, [0], [], [1, 2], fun c k => c = k || (k = 0 && c = 1)⟩
    (runCalls o [⟨1, [.exc 1 100, .exc 0 101, .exc 1 102]⟩,
                 ⟨2, [.exc 0 200, .exc 0 201, .ok 7]⟩,
                 ⟨5, [.exc 0 300, .ok 8, .ok 9]⟩,
                 ⟨1, [.ok 4, .ok 5, .ok 6]⟩]).2 =
      [⟨.raised 1 102, 3, 2⟩, ⟨.value 7, 3, 2⟩, ⟨.raised 0 300, 1, 0⟩, ⟨.value 4, 1, 0⟩] := by decide
/-- non-vacuity: an empty list and `None` construct the same object; a non-empty filter does not -/
example :
    let sub : Nat → Nat → Bool := fun c k => c = k
    let a : CtorArgs := ⟨2, .list, [], .set, [], fun c => c < 10⟩
    let b : CtorArgs := ⟨2, .none, [], .none, [], fun c => c < 10⟩
    let f : CtorArgs := ⟨2, .list, [0], .none, [], fun c => c < 10⟩
    let calls : List MCall := [⟨1, [.exc 9 1, .ok 3]⟩, ⟨1, [.exc 0 1, .exc 0 2]⟩]
    (construct a [1] sub).map (fun o => (runCalls o calls).2) = some [⟨.value 3, 2, 1⟩, ⟨.raised 0 2, 2, 1⟩] ∧
    (construct b [1] sub).map (fun o => (runCalls o calls).2) = some [⟨.value 3, 2, 1⟩, ⟨.raised 0 2, 2, 1⟩] ∧
    (construct f [1] sub).map (fun o => (runCalls o calls).2) = some [⟨.raised 9 1, 1, 0⟩, ⟨.raised 0 2, 2, 1⟩] := by
  decide

end Retrying
