import Pymc.Proofs.KeyCheck
/-!
# C20 — key validation (`check_key_helper`, pymemcache/client/base.py 101–125)

Model: `Key.checkKey au pfx k` (Pymc/Model/Key.lean) is the code *after* the one-clause fix that makes
non-empty all-whitespace keys illegal; `Key.checkKeyOrig` is the code at the pinned commit.  The Python
builtin `bytes.split()` is modelled by `Key.pySplitWs`.  Specification: `Key.Legal au pfx k w`, written
without reference to `split`: `w = pfx ++ enc` for the (ASCII or UTF-8) encoding `enc` of `k`, at most
250 bytes, no byte among space, tab, LF, VT, FF, CR, NUL.

Everything below holds for all `au : Bool`, `pfx : Bytes`, `k : K`; there is no bound on lengths.

Not covered here (Lean cannot see it): that `Client`, `PooledClient` and `HashClient` all route through
`check_key_helper`, and that the Python exception class is `MemcacheIllegalInputError`; the model has a
single error constructor `Err.illegalInput`, so the "always the same error" clause is true by typing.
-/
namespace Key
open Bytes

/-! ## 1. the model of the builtin `bytes.split()` -/

/-- `split()` returns exactly `[w]` iff `w` is non-empty and contains no ASCII whitespace. -/
theorem C20_split_singleton_iff (w : Bytes) :
    pySplitWs w = [w] ↔ (w ≠ [] ∧ ∀ b ∈ w, isWs b = false) :=
  pySplitWs_eq_singleton_self w
example : pySplitWs [97, 98] = [[97, 98]] := by decide
example : pySplitWs [97, 32, 98] = [[97], [98]] := by decide

/-- `split()` returns no part iff every byte is whitespace (in particular for the empty string). -/
theorem C20_split_nil_iff (w : Bytes) : pySplitWs w = [] ↔ ∀ b ∈ w, isWs b = true :=
  pySplitWs_eq_nil w
example : pySplitWs [32, 9, 13, 10, 11, 12] = [] := by decide
example : pySplitWs [] = [] := by decide

/-- Every part returned by `split()` is non-empty and whitespace-free. -/
theorem C20_split_parts_clean (w : Bytes) :
    ∀ p ∈ pySplitWs w, p ≠ [] ∧ ∀ b ∈ p, isWs b = false :=
  pySplitWs_parts w
example : [97] ∈ pySplitWs [32, 97, 9, 98, 10] := by decide

/-- Concatenating the parts yields the non-whitespace bytes of the input, in order (no byte is lost,
invented or reordered). -/
theorem C20_split_flatten (w : Bytes) :
    (pySplitWs w).flatten = w.filter (fun b => !isWs b) :=
  pySplitWs_flatten w

/-- If `w` contains both a whitespace and a non-whitespace byte then `split()` does not return `[w]`:
it returns at least two parts, or one part different from `w` (leading/trailing whitespace). -/
theorem C20_split_mixed (w : Bytes) (h1 : ∃ b ∈ w, isWs b = true) (h2 : ∃ b ∈ w, isWs b = false) :
    pySplitWs w ≠ [w] ∧ (2 ≤ (pySplitWs w).length ∨ ∃ p, pySplitWs w = [p] ∧ p ≠ w) :=
  ⟨pySplitWs_mixed w h1 h2, pySplitWs_mixed' w h1 h2⟩
example : (∃ b ∈ ([97, 32] : Bytes), isWs b = true) ∧ (∃ b ∈ ([97, 32] : Bytes), isWs b = false) :=
  ⟨⟨32, by decide, by decide⟩, ⟨97, by decide, by decide⟩⟩
example : pySplitWs [97, 32] = [[97]] := by decide          -- one part ≠ w
example : pySplitWs [97, 32, 98] = [[97], [98]] := by decide -- two parts

/-- The forbidden bytes of the specification are exactly the `split()` whitespace bytes plus NUL. -/
theorem C20_forbidden_iff (b : UInt8) : forbidden b = true ↔ (isWs b = true ∨ b = 0) := by
  simp [forbidden_eq]

/-! ## 2.–3. the fixed code implements the declarative rule -/

/-- The executable encoding step and the declarative `Encodes` coincide. -/
theorem C20_encodeKey_iff_encodes (au : Bool) (k : K) (enc : Bytes) :
    encodeKey au k = .ok enc ↔ Encodes au k enc :=
  encodeKey_ok_iff au k enc

/-- Unconditional form: the key is accepted with wire form `w` iff `w` is legal.  (Both sides allow the
empty prefixed key; see `C20_empty_key_accepted`.) -/
theorem C20_checkKey_iff_legal_incl_empty (au : Bool) (pfx : Bytes) (k : K) (w : Bytes) :
    checkKey au pfx k = .ok w ↔ Legal au pfx k w := by
  constructor
  · intro h
    match he : encodeKey au k with
    | .error e => rw [checkKey_of_encode_err pfx he] at h; cases h
    | .ok enc =>
      rw [checkKey_of_encode pfx he] at h
      have hw := checkEncoded_ok_eq h
      subst hw
      have := (checkEncoded_ok_iff' pfx enc).1 h
      exact ⟨enc, (encodeKey_ok_iff au k enc).1 he, rfl, this.1, this.2⟩
  · rintro ⟨enc, hE, rfl, hl, hf⟩
    rw [checkKey_of_encode pfx ((encodeKey_ok_iff au k enc).2 hE)]
    exact (checkEncoded_ok_iff' pfx enc).2 ⟨hl, hf⟩

/-- **C20 (main).**  For every non-empty wire form `w`: the fixed `check_key_helper` returns `w` iff `w`
is the prefix followed by the encoding of the key, is at most 250 bytes long and contains none of
space, tab, LF, VT, FF, CR, NUL. -/
theorem C20_checkKey_iff_legal (au : Bool) (pfx : Bytes) (k : K) (w : Bytes) (_hw : w ≠ []) :
    checkKey au pfx k = .ok w ↔ Legal au pfx k w :=
  C20_checkKey_iff_legal_incl_empty au pfx k w
example : checkKey false [112, 58] (.str [97, 98]) = .ok [112, 58, 97, 98] := by decide
example : Legal false [112, 58] (.str [97, 98]) [112, 58, 97, 98] :=
  (C20_checkKey_iff_legal _ _ _ _ (by decide)).1 (by decide)
example : checkKey true [] (.str [0xE9]) = .ok [0xC3, 0xA9] := by decide   -- "é" with unicode keys
example : checkKey false [] (.bytes [97, 32, 98]) = .error .illegalInput := by decide
example : checkKey false [] (.bytes [97, 0]) = .error .illegalInput := by decide
example : checkKey false [] (.bytes [32]) = .error .illegalInput := by decide
set_option maxRecDepth 8000 in
example : checkKey false [] (.bytes (List.replicate 250 97)) = .ok (List.replicate 250 97) := by decide
set_option maxRecDepth 8000 in
example : checkKey false [] (.bytes (List.replicate 251 97)) = .error .illegalInput := by decide

/-- An accepted key is transmitted as exactly prefix + encoded key. -/
theorem C20_checkKey_ok_is_prefixed_encoding (au : Bool) (pfx : Bytes) (k : K) (w : Bytes)
    (h : checkKey au pfx k = .ok w) : ∃ enc, encodeKey au k = .ok enc ∧ w = pfx ++ enc := by
  obtain ⟨enc, hE, hw, _, _⟩ := (C20_checkKey_iff_legal_incl_empty au pfx k w).1 h
  exact ⟨enc, (encodeKey_ok_iff au k enc).2 hE, hw⟩
example : ∃ w, checkKey true [112] (.str [0x20AC]) = .ok w := ⟨[112, 0xE2, 0x82, 0xAC], by decide⟩

/-! ## 4. rejections -/

/-- Every rejection is `illegalInput` (true by typing: the model has one error constructor, standing
for `MemcacheIllegalInputError`). -/
theorem C20_reject_is_illegal_input (au : Bool) (pfx : Bytes) (k : K) (e : Err)
    (_h : checkKey au pfx k = .error e) : e = .illegalInput := by
  cases e; rfl
example : checkKey false [] (.bytes [9]) = .error .illegalInput := by decide

/-- A `str` key with a non-ASCII character is rejected unless unicode keys are enabled, whatever the
prefix and the other characters. -/
theorem C20_nonascii_str_rejected_without_unicode (au : Bool) (pfx : Bytes) (cps : List Nat)
    (hau : au = false) (h : ∃ c ∈ cps, 128 ≤ c) :
    checkKey au pfx (.str cps) = .error .illegalInput := by
  subst hau
  exact checkKey_of_encode_err pfx (encodeKey_nonascii cps h)
example : ∃ c ∈ [97, 0xE9], 128 ≤ c := ⟨0xE9, by decide, by decide⟩
example : checkKey false [] (.str [97, 0xE9]) = .error .illegalInput := by decide
example : checkKey true [] (.str [97, 0xE9]) = .ok [97, 0xC3, 0xA9] := by decide

/-! ## 5. totality: accept or reject, never both, and reject exactly when the rule fails -/

/-- For an encodable key with non-empty prefixed form `pfx ++ enc`: either the key is accepted as
`pfx ++ enc` and the rule holds, or it is rejected and the rule fails.  (The two cases are exclusive
because `.ok _ ≠ .error _`.) -/
theorem C20_accepts_or_rejects_total (au : Bool) (pfx : Bytes) (k : K) (enc : Bytes)
    (he : encodeKey au k = .ok enc) (_hne : pfx ++ enc ≠ []) :
    (checkKey au pfx k = .ok (pfx ++ enc) ∧
        ((pfx ++ enc).length ≤ 250 ∧ ∀ b ∈ pfx ++ enc, forbidden b = false)) ∨
    (checkKey au pfx k = .error .illegalInput ∧
        ¬ ((pfx ++ enc).length ≤ 250 ∧ ∀ b ∈ pfx ++ enc, forbidden b = false)) := by
  rw [checkKey_of_encode pfx he]
  rcases checkEncoded_cases pfx enc with h | h
  · exact .inl ⟨h, (checkEncoded_ok_iff' pfx enc).1 h⟩
  · refine .inr ⟨h, fun hr => ?_⟩
    rw [(checkEncoded_ok_iff' pfx enc).2 hr] at h
    cases h
example : encodeKey true (.str [0x20AC]) = .ok [0xE2, 0x82, 0xAC] ∧
    ([112] ++ [0xE2, 0x82, 0xAC] : Bytes) ≠ [] := by decide

/-- Unconditional form of the rejection side. -/
theorem C20_reject_iff_no_legal_incl_empty (au : Bool) (pfx : Bytes) (k : K) :
    checkKey au pfx k = .error .illegalInput ↔ ¬ ∃ w, Legal au pfx k w := by
  constructor
  · rintro h ⟨w, hw⟩
    rw [(C20_checkKey_iff_legal_incl_empty au pfx k w).2 hw] at h
    cases h
  · intro h
    match hc : checkKey au pfx k with
    | .error .illegalInput => rfl
    | .ok w => exact absurd ⟨w, (C20_checkKey_iff_legal_incl_empty au pfx k w).1 hc⟩ h

/-- **C20 ("only if", on the error side).**  When the prefixed form is non-empty, the key is rejected iff
it has no legal wire form (it is not encodable, or too long, or contains a forbidden byte). -/
theorem C20_reject_iff_no_legal (au : Bool) (pfx : Bytes) (k : K)
    (_hne : ∀ enc, encodeKey au k = .ok enc → pfx ++ enc ≠ []) :
    checkKey au pfx k = .error .illegalInput ↔ ¬ ∃ w, Legal au pfx k w :=
  C20_reject_iff_no_legal_incl_empty au pfx k
example : ∀ enc, encodeKey false (.bytes [97, 32]) = .ok enc → ([] : Bytes) ++ enc ≠ [] := by
  intro enc h; cases h; decide

/-! ## 6. the empty key (excluded by the property's "non-empty" clause) -/

/-- Pinned behaviour, unchanged by the fix: the empty key with the empty prefix is accepted. -/
theorem C20_empty_key_accepted (au : Bool) : checkKey au [] (.bytes []) = .ok [] := by
  cases au <;> decide

/-- Likewise for the empty `str`. -/
theorem C20_empty_str_key_accepted (au : Bool) : checkKey au [] (.str []) = .ok [] := by
  cases au <;> decide

/-! ## 7. the original code (pinned commit) -/

/-- Concrete defects of the pinned code: non-empty all-whitespace keys are accepted. -/
theorem C20_orig_accepts_whitespace_only :
    checkKeyOrig false [] (.bytes [32]) = .ok [32] ∧
    checkKeyOrig false [] (.bytes [13, 10]) = .ok [13, 10] ∧
    checkKeyOrig false [] (.str [32]) = .ok [32] ∧
    checkKeyOrig false [] (.str [9, 10]) = .ok [9, 10] ∧
    checkKeyOrig true [] (.str [32]) = .ok [32] ∧
    checkKeyOrig false [32] (.bytes []) = .ok [32] := by decide

/-- General form of the defect: the pinned code accepts *every* all-whitespace prefixed key of at most
250 bytes. -/
theorem C20_orig_accepts_all_whitespace (au : Bool) (pfx : Bytes) (k : K) (enc : Bytes)
    (he : encodeKey au k = .ok enc) (hl : (pfx ++ enc).length ≤ 250)
    (hws : ∀ b ∈ pfx ++ enc, isWs b = true) :
    checkKeyOrig au pfx k = .ok (pfx ++ enc) := by
  rw [checkKeyOrig_of_encode pfx he]
  exact checkEncodedOrig_allWs pfx enc hl hws
example : encodeKey false (.bytes [13, 10]) = .ok [13, 10] ∧ (([] : Bytes) ++ [13, 10]).length ≤ 250 ∧
    ∀ b ∈ ([] : Bytes) ++ [13, 10], isWs b = true := by decide

/-- ... whereas the fixed code rejects every non-empty all-whitespace prefixed key. -/
theorem C20_fix_rejects_all_whitespace (au : Bool) (pfx : Bytes) (k : K) (enc : Bytes)
    (he : encodeKey au k = .ok enc) (hne : pfx ++ enc ≠ [])
    (hws : ∀ b ∈ pfx ++ enc, isWs b = true) :
    checkKey au pfx k = .error .illegalInput := by
  rw [checkKey_of_encode pfx he]
  exact checkEncoded_allWs pfx enc hne hws
example : checkKey false [] (.bytes [13, 10]) = .error .illegalInput := by decide

-- Full-strength statement for the original code, FALSE:
--   theorem C20_orig_iff_legal (w ≠ []) : checkKeyOrig au pfx k = .ok w ↔ Legal au pfx k w
-- counterexample below; the provable version needs a non-whitespace byte in `w`.

/-- Counterexample to the full-strength equivalence for the pinned code. -/
theorem C20_orig_iff_legal_counterexample :
    checkKeyOrig false [] (.bytes [32]) = .ok [32] ∧ ¬ Legal false [] (.bytes [32]) [32] := by
  refine ⟨by decide, ?_⟩
  rintro ⟨enc, _, _, _, hf⟩
  exact absurd (hf 32 (by simp)) (by decide)

/-- The pinned code implements the rule on every wire form containing at least one non-whitespace
byte. -/
theorem C20_orig_iff_legal_partial (au : Bool) (pfx : Bytes) (k : K) (w : Bytes)
    (hnw : ∃ b ∈ w, isWs b = false) :
    checkKeyOrig au pfx k = .ok w ↔ Legal au pfx k w := by
  constructor
  · intro h
    match he : encodeKey au k with
    | .error e => rw [checkKeyOrig_of_encode_err pfx he] at h; cases h
    | .ok enc =>
      rw [checkKeyOrig_of_encode pfx he] at h
      have hw := checkEncodedOrig_ok_eq h
      subst hw
      have := (checkEncodedOrig_ok_iff pfx enc hnw).1 h
      exact ⟨enc, (encodeKey_ok_iff au k enc).1 he, rfl, this.1, this.2⟩
  · rintro ⟨enc, hE, rfl, hl, hf⟩
    rw [checkKeyOrig_of_encode pfx ((encodeKey_ok_iff au k enc).2 hE)]
    exact (checkEncodedOrig_ok_iff pfx enc hnw).2 ⟨hl, hf⟩
example : (∃ b ∈ ([112, 97] : Bytes), isWs b = false) ∧
    checkKeyOrig false [112] (.str [97]) = .ok [112, 97] := ⟨⟨97, by decide, by decide⟩, by decide⟩

/-- The fix changes nothing except on non-empty all-whitespace keys: fixed and pinned code return the
same result whenever the prefixed encoded key is empty or contains a non-whitespace byte (and when the
key is not encodable). -/
theorem C20_fix_agrees_elsewhere (au : Bool) (pfx : Bytes) (k : K)
    (h : ∀ enc, encodeKey au k = .ok enc → pfx ++ enc = [] ∨ ∃ b ∈ pfx ++ enc, isWs b = false) :
    checkKey au pfx k = checkKeyOrig au pfx k := by
  match he : encodeKey au k with
  | .error e => rw [checkKey_of_encode_err pfx he, checkKeyOrig_of_encode_err pfx he]
  | .ok enc =>
    rw [checkKey_of_encode pfx he, checkKeyOrig_of_encode pfx he]
    exact checkEncoded_eq_orig pfx enc (h enc he)
example : ∀ enc, encodeKey false (.bytes [32, 97]) = .ok enc →
    ([] : Bytes) ++ enc = [] ∨ ∃ b ∈ ([] : Bytes) ++ enc, isWs b = false := by
  intro enc h; cases h; exact .inr ⟨97, by decide, by decide⟩
example : checkKey false [] (.bytes [32, 97]) = .error .illegalInput ∧
    checkKeyOrig false [] (.bytes [32, 97]) = .error .illegalInput := by decide

/-! ## 8. UTF-8 sanity: the encoder used in the specification is the real one -/

/-- Length of the UTF-8 encoding of a scalar value: 1, 2, 3 or 4 bytes by range. -/
theorem C20_utf8_len (c : Nat) (_hs : scalar c = true) :
    (utf8Cp c).length =
      if c < 0x80 then 1 else if c < 0x800 then 2 else if c < 0x10000 then 3 else 4 :=
  utf8Cp_length c
example : scalar 0x1F600 = true ∧ utf8Cp 0x1F600 = [0xF0, 0x9F, 0x98, 0x80] := by decide
example : utf8Cp 0x20AC = [0xE2, 0x82, 0xAC] ∧ utf8Cp 0xE9 = [0xC3, 0xA9] ∧ utf8Cp 0x41 = [0x41] := by
  decide

/-- On ASCII code points UTF-8 is the identity, i.e. equals the ASCII encoder's output. -/
theorem C20_utf8_ascii (cps : List Nat) (h : ∀ c ∈ cps, c < 128) :
    encodeUtf8 cps = cps.map UInt8.ofNat :=
  encodeUtf8_ascii cps h

/-- Hence ASCII mode and unicode mode treat an all-ASCII `str` key identically. -/
theorem C20_ascii_modes_agree (pfx : Bytes) (cps : List Nat) (h : ∀ c ∈ cps, c < 128) :
    checkKey true pfx (.str cps) = checkKey false pfx (.str cps) := by
  have h1 : encodeKey true (.str cps) = .ok (cps.map UInt8.ofNat) := by
    simp [encodeKey, encodeUtf8_ascii cps h]
  have h2 : encodeKey false (.str cps) = .ok (cps.map UInt8.ofNat) :=
    (encodeKey_ok_iff false (.str cps) _).2 (by simp only [Encodes]; exact ⟨h, trivial⟩)
  rw [checkKey_of_encode pfx h1, checkKey_of_encode pfx h2]
example : ∀ c ∈ [97, 98, 32], c < 128 := by decide

/-- Every byte of the UTF-8 encoding of a non-ASCII scalar value is ≥ 0x80. -/
theorem C20_utf8_nonascii_bytes_high (c : Nat) (h128 : 128 ≤ c) (hs : scalar c = true) :
    ∀ b ∈ utf8Cp c, (0x80 : UInt8) ≤ b :=
  utf8Cp_high c h128 hs
example : 128 ≤ 0x10FFFF ∧ scalar 0x10FFFF = true ∧ utf8Cp 0x10FFFF = [0xF4, 0x8F, 0xBF, 0xBF] := by
  decide

/-- Hence a non-ASCII character can never introduce whitespace or NUL into the wire key. -/
theorem C20_utf8_nonascii_never_forbidden (c : Nat) (h128 : 128 ≤ c) (hs : scalar c = true) :
    ∀ b ∈ utf8Cp c, forbidden b = false := by
  intro b hb
  have hge := utf8Cp_high c h128 hs b hb
  cases hf : forbidden b with
  | false => rfl
  | true =>
    have hlt := forbidden_lt_128 hf
    rw [UInt8.le_iff_toNat_le] at hge
    rw [UInt8.lt_iff_toNat_lt] at hlt
    have : (128 : UInt8).toNat = 128 := rfl
    omega

/-- Cross-check against an independent implementation: on every `Char` (= Unicode scalar value) the
model's encoder equals Lean core's `String.utf8EncodeChar`. -/
theorem C20_utf8_matches_core_char (ch : Char) :
    utf8Cp ch.val.toNat = String.utf8EncodeChar ch :=
  utf8Cp_core ch

/-- ... and on every string the model's `encodeUtf8` of its code points equals `String.toUTF8`. -/
theorem C20_utf8_matches_core_string (s : String) :
    encodeUtf8 (s.toList.map (fun ch => ch.val.toNat)) = s.toUTF8.data.toList :=
  encodeUtf8_core s
example : encodeUtf8 ("a€é".toList.map (fun ch => ch.val.toNat)) = [97, 0xE2, 0x82, 0xAC, 0xC3, 0xA9] := by
  decide

-- The scalar-value hypothesis matters: outside the Unicode range the four-byte formula wraps.
example : utf8Cp 0x1000000 = [0xF0 + 0x40, 0x80, 0x80, 0x80] := by decide
example : (UInt8.ofNat (0xF0 + 0x2C0000 / 262144) : UInt8) = 0xFB := by decide

end Key
