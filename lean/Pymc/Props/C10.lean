import Pymc.Proofs.Interrupt
import Pymc.Proofs.IgnoreExcServer
import Pymc.Props.C01
import Pymc.Props.C08
import Pymc.Props.C09
/-!
# C10 — an asynchronous interruption neither leaks a reply nor loses a pool slot

Property text: "If a call is aborted at any point by an exception that is not an ordinary error — KeyboardInterrupt,
SystemExit, a gevent-style timeout raised inside a socket call — then later calls on the same Client, PooledClient or
HashClient still never receive another request's reply (as in C01), and the pool slot used by the aborted call is not lost."

Models.  A `BaseException` is `Exc.sock code` with `code ≥ 100` (`Exchange.isBaseExc`); it is raised by the script of the
call: `Script.connectFails`, `Script.sendFails`, or a `recv()` result `Ev.err code` at any position of `Script.evs`.
The exchange paths of `Pymc/Model/Exchange.lean` model the tree after the fix commit: every exception class closes the
socket; `ignore_exc` swallows `Exception`s only.  `Framing.Interrupted` (Pymc/Model/Interrupt.lean): the reply arrives
up to an arbitrary byte, then a `recv()` raises a `BaseException`, then anything.  Pool: `Pymc/Model/PoolConc.lean`
(any threads, any interleaving; a call whose body was aborted — by any exception class, `get_and_release` destroys on
`BaseException` — is the Op `useFail`, an aborted `quit` is `quitFail`) and `Pymc/Model/Pooled.lean` (sequential; the
aborted body is `Body.fail _` / `Body.quitFail _`).

* `C10_interrupt_closes_socket`, `C10_interrupt_comes_from_the_connection`, `C10_interrupt_not_swallowed`,
  `C10_interrupt_not_swallowed_exchange`: one call.
* `C10_own_bytes_only_interrupt`: runs of calls on one `Client` — C01's conclusions when calls are interrupted.
* `C10_slot_not_lost`, `C10_slot_not_lost_sequential`, `C10_pooled_interrupted_connection_never_reused`: the pool.

`HashClient` has no model of its own here: it hands every call to a per-server `Client` or `PooledClient` (C16 / C11)
and its retry logic catches `Exception` only, so the statements above are the ones that apply to it.

Not covered (Lean cannot see it): an asynchronous exception delivered between two bytecodes outside a socket call
(e.g. while a reply is being parsed) — in the source this is inside the same `try`/`except BaseException` blocks, but the
model has no such event; that the Python methods are the transliterated ones.
-/
namespace C10
open Bytes Readers Wire Exchange Client Framing

/-! ## one call -/

/-- **C10** (the interrupted connection is never used again).  For every public operation, configuration, socket
state, `ignore_exc` setting and behaviour of the connection: if the call ends with a `BaseException`, the socket is
closed (`self.sock is None`) — also with `ignore_exc`, and also when the interruption hit `connect()` or `sendall()`.
The next call on this client therefore connects anew and cannot see anything the old connection still delivers. -/
theorem C10_interrupt_closes_socket (cfg : Cfg) (ignoreExc sockOpen : Bool) (c : Call) (sc : Script) (e : Exc)
    (he : (Client.call cfg ignoreExc sockOpen c sc).res = .error e) (hb : isBaseExc e = true) :
    (Client.call cfg ignoreExc sockOpen c sc).sockOpen = false :=
  call_baseCloses cfg ignoreExc sockOpen c sc e he hb

/-- **C10** (where it comes from).  A socket-layer exception `Exc.sock code` that a call raises — in particular every
`BaseException` of the model — was raised by the connection during *this* call: by `connect()` (the client was closed),
by `sendall()`, or by one of the `recv()` calls.  Argument checks and post-processing never produce one. -/
theorem C10_interrupt_comes_from_the_connection (cfg : Cfg) (ignoreExc sockOpen : Bool) (c : Call) (sc : Script)
    (e : Exc) (he : (Client.call cfg ignoreExc sockOpen c sc).res = .error e) (hb : isBaseExc e = true) :
    ∃ code, code ≥ 100 ∧ e = .sock code ∧
      ((sockOpen = false ∧ sc.connectFails = some (.sock code)) ∨ sc.sendFails = some (.sock code) ∨
        .err code ∈ sc.evs) := by
  cases e with
  | sock code =>
    refine ⟨code, by simpa [isBaseExc] using hb, rfl, call_sockOK cfg ignoreExc sockOpen c sc code he⟩
  | _ => simp [isBaseExc] at hb

/-- **C10** (`ignore_exc` does not swallow it, every operation).  If the call without `ignore_exc` ends with a
`BaseException`, the call with `ignore_exc` has exactly the same outcome: the same exception propagates, the socket is
closed, the same bytes were sent. -/
theorem C10_interrupt_not_swallowed (cfg : Cfg) (sockOpen : Bool) (c : Call) (sc : Script) (e : Exc)
    (he : (Client.call cfg false sockOpen c sc).res = .error e) (hb : isBaseExc e = true) :
    Client.call cfg true sockOpen c sc = Client.call cfg false sockOpen c sc ∧
    (Client.call cfg true sockOpen c sc).res = .error e ∧
    (Client.call cfg true sockOpen c sc).sockOpen = false := by
  have h := call_ie_same cfg sockOpen c sc (.inr ⟨e, he, hb⟩)
  refine ⟨h, h ▸ he, ?_⟩
  rw [h]
  exact call_baseCloses cfg false sockOpen c sc e he hb

/-- **C10** (`ignore_exc` does not swallow it, position by position, on the fetch path — the only place where
`ignore_exc` acts).  With `ignore_exc = True`, a `BaseException` (`code ≥ 100`) raised (1) by `connect()`, (2) by
`sendall()`, or (3) by whichever `recv()` the reply loop is in when it comes — stated as: the reply loop over the script's
`recv()` results ends with that exception — is the result of the exchange, and the socket is closed; in case (1)
nothing was sent, in cases (2) and (3) the command was. -/
theorem C10_interrupt_not_swallowed_exchange (kind : FetchKind) (cmd : Bytes) (wanted : List Bytes) (sockOpen : Bool)
    (sc : Script) (code : Nat) (hcode : code ≥ 100) :
    (sockOpen = false → sc.connectFails = some (.sock code) →
      exchangeFetch kind cmd wanted true sockOpen sc = ⟨.error (.sock code), false, false, none, sc.evs⟩) ∧
    ((sockOpen = true ∨ sc.connectFails = none) → sc.sendFails = some (.sock code) →
      exchangeFetch kind cmd wanted true sockOpen sc = ⟨.error (.sock code), false, !sockOpen, some cmd, sc.evs⟩) ∧
    ((sockOpen = true ∨ sc.connectFails = none) → sc.sendFails = none →
      (fetchLoop kind wanted (totalLen [] sc.evs) [] sc.evs []).res = .error (.sock code) →
      (exchangeFetch kind cmd wanted true sockOpen sc).res = .error (.sock code) ∧
      (exchangeFetch kind cmd wanted true sockOpen sc).sockOpen = false ∧
      (exchangeFetch kind cmd wanted true sockOpen sc).sent = some cmd) := by
  have hb : isBaseExc (.sock code) = true := by simpa [isBaseExc] using hcode
  have hconn : (sockOpen = true ∨ sc.connectFails = none) →
      (if sockOpen = true then none else sc.connectFails) = none := by
    rintro (h | h)
    · simp [h]
    · simp [h]
  refine ⟨fun hso hc => ?_, fun hso hsf => ?_, fun hso hsf hl => ?_⟩
  · subst hso
    simp [exchangeFetch, hc, hb]
  · simp [exchangeFetch, hconn hso, hsf, hb]
  · simp [exchangeFetch, hconn hso, hsf, hl, hb]

/-! ## runs of calls on one `Client` -/

/-- **C10** (later calls never receive another request's reply).  C01's run theorems quantify over arbitrary fault
events, so they cover interruptions; explicitly: take any run of calls on one `Client`, starting at a call boundary,
in which for every call the connection either delivers exactly the owed reply (`WellFramed`) or delivers the owed reply
up to an arbitrary byte and then raises a `BaseException` inside `recv()`, whatever it would deliver afterwards
(`Interrupted`); `connect()` and `sendall()` may fail or be interrupted arbitrarily (`connectFails`, `sendFails` are
unconstrained).  Then (1) after every call that leaves the socket open, no byte is readable from the pipe before a
fault; (2) in the tagged run, everything a call can possibly receive was provoked by its own commands (tag = its own
index) or is an interrupted attempt without bytes, and a call that leaves the socket open has consumed only such
events.  The remainder of an interrupted reply is never read by anybody. -/
theorem C10_own_bytes_only_interrupt (cfg : Cfg) (ignoreExc sockOpen : Bool) (calls : List (Call × Script))
    (h : ∀ cs ∈ calls, WellFramed cfg cs.1 cs.2.evs ∨ Interrupted cfg cs.1 cs.2.evs) :
    (∀ o ∈ runCalls cfg ignoreExc sockOpen calls, o.sockOpen = true → quiet o.unread) ∧
    (∀ st ∈ runTagged cfg ignoreExc sockOpen calls,
      st.consumed ++ st.leftover = st.avail ∧
      st.leftover.map (·.2) = st.out.unread ∧
      (∀ te ∈ readable st.avail, te.1 = st.idx ∨ te.2 = .eintr) ∧
      (st.out.sockOpen = true → ∀ te ∈ st.consumed, te.1 = st.idx ∨ te.2 = .eintr)) := by
  have hff : ∀ cs ∈ calls, FaultFramed cfg cs.1 cs.2.evs := fun cs hcs =>
    (h cs hcs).elim faultFramed_of_wellFramed faultFramed_of_interrupted
  exact ⟨C01.C01_sequence_clean_faults cfg ignoreExc sockOpen calls hff,
    C01.C01_own_bytes_only_faults cfg ignoreExc sockOpen calls hff⟩

/-- non-vacuity: `version` is answered `VERS`, then `KeyboardInterrupt` inside `recv()`, and `ION 1\r\n` would still
arrive; the second `version` is answered properly.  Both scripts satisfy the hypothesis; the first call raises the
interrupt and closes, the second reconnects and reads its own reply — not the rest of the first. -/
example :
    (∀ cs ∈ [(Call.version, ({ evs := [.data [86, 69, 82, 83], .err 100, .data [73, 79, 78, 32, 49, 13, 10]] } : Script)),
        (Call.version, { evs := [.data [86, 69, 82, 83, 73, 79, 78, 32, 50, 13, 10]] })],
      WellFramed {} cs.1 cs.2.evs ∨ Interrupted {} cs.1 cs.2.evs) ∧
    (runCalls {} false true
      [(.version, { evs := [.data [86, 69, 82, 83], .err 100, .data [73, 79, 78, 32, 49, 13, 10]] }),
       (.version, { evs := [.data [86, 69, 82, 83, 73, 79, 78, 32, 50, 13, 10]] })]).map
      (fun o => (o.res, o.sockOpen, o.connected, o.unread)) =
    [(.error (.sock 100), false, false, []),
     (.ok (.bytes [50]), true, true, [])] := by
  constructor
  · intro cs hcs
    simp only [List.mem_cons, List.not_mem_nil, or_false] at hcs
    rcases hcs with rfl | rfl
    · refine .inr ⟨[.data [86, 69, 82, 83]], 100, [.data [73, 79, 78, 32, 49, 13, 10]],
        C01Examples.versionReply 49, rfl, by decide, by simp [clean], ?_, ⟨[73, 79, 78, 32, 49, 13, 10], rfl⟩⟩
      rw [C01Examples.owed_version]; exact C01Examples.versionReply_units 49 (by decide)
    · refine .inl ⟨by simp [clean], ?_⟩
      rw [C01Examples.owed_version]; exact C01Examples.versionReply_units 50 (by decide)
  · simp [runCalls, runFrom, available, Client.call, mapOut, exchangeMisc, miscLoop,
      readline, findCRLF, CR, LF, raiseErrors, startsWith, SP,
      List.idxOf?, List.findIdx?, List.findIdx?.go, ofReaderErr]

/-- non-vacuity of the one-call theorems: `get` with `ignore_exc`, interrupted in the middle of the `VALUE` line -/
example :
    (Client.call {} true true (.get (.bytes [107]))
      { evs := [.data [86, 65, 76], .err 100] }).res
      = .error (.sock 100) ∧
    (Client.call {} true true (.get (.bytes [107]))
      { evs := [.data [86, 65, 76], .err 100] }).sockOpen = false := by
  have he : (Client.call {} false true (.get (.bytes [107]))
      { evs := [.data [86, 65, 76], .err 100] }).res
      = .error (.sock 100) := by
    simp only [Client.call, fetchValues, C07Examples.h1, C07Examples.h2]
    simp [mapOut, exchangeFetch, totalLen, joinData, fetchLoop, readline, findCRLF, CR, LF, ofReaderErr]
  have := C10_interrupt_not_swallowed {} true (.get (.bytes [107])) _ _ he rfl
  exact ⟨this.2.1, this.2.2⟩

/-- the administrative operations are inside the one-call theorems.  `shutdown` swallows `MemcacheUnexpectedCloseError`
and nothing else: a `KeyboardInterrupt` inside `recv()` propagates and the socket is closed (`C10_interrupt_closes_socket`);
`stats` / `cache_memlimit` with `ignore_exc`, interrupted in the middle of the reply: the interrupt is not turned into
`{}` / `True` (`C10_interrupt_not_swallowed`). -/
example :
    (Client.call {} false true (.shutdown true) { evs := [.err 100] }).res = .error (.sock 100) ∧
    (Client.call {} false true (.shutdown true) { evs := [.err 100] }).sockOpen = false ∧
    (Client.call {} true true (.stats []) { evs := [.data [83, 84, 65], .err 101] }).res = .error (.sock 101) ∧
    (Client.call {} true true (.stats []) { evs := [.data [83, 84, 65], .err 101] }).sockOpen = false ∧
    (Client.call {} true true (.cacheMemlimit (.int 64)) { evs := [.data [79], .err 102] }).res = .error (.sock 102) ∧
    (Client.call {} true true (.cacheMemlimit (.int 64)) { evs := [.data [79], .err 102] }).sockOpen = false := by
  have h1 : (Client.call {} false true (.shutdown true) { evs := [.err 100] }).res = .error (.sock 100) := by
    with_unfolding_all rfl
  have h2 : (Client.call {} false true (.stats []) { evs := [.data [83, 84, 65], .err 101] }).res
      = .error (.sock 101) := by with_unfolding_all rfl
  have h3 : (Client.call {} false true (.cacheMemlimit (.int 64)) { evs := [.data [79], .err 102] }).res
      = .error (.sock 102) := by with_unfolding_all rfl
  have t2 := C10_interrupt_not_swallowed {} true (.stats []) _ _ h2 rfl
  have t3 := C10_interrupt_not_swallowed {} true (.cacheMemlimit (.int 64)) _ _ h3 rfl
  exact ⟨h1, C10_interrupt_closes_socket {} false true (.shutdown true) _ _ h1 rfl, t2.2.1, t2.2.2, t3.2.1, t3.2.2⟩

/-! ## the pool -/

/-- **C10** (the pool slot is not lost, any number of threads).  Let any number of threads run any programs of
`PooledClient` calls on one pool, under any interleaving; a call aborted by an exception of any class — the model's
`useFail`, and `quitFail` for `quit` — ends in `destroy`, exactly as an ordinary failure does (`get_and_release` now
catches `BaseException`).  Then at every moment the pool lists no connection twice and accounts for at most
`max_size` connections, and once all threads are done nothing is checked out (`_used_objs` is empty) and the lock is
free: every one of the `max_size` slots is available again, however many calls were aborted. -/
theorem C10_slot_not_lost {programs : List PoolConc.Program} {maxSize : Nat} {s : PoolConc.State}
    (h : PoolConc.Reachable programs maxSize s) :
    ((s.used ++ s.free).Nodup ∧ s.used.length + s.free.length ≤ maxSize) ∧
    (s.allDone → s.used = [] ∧ s.lock = none ∧ s.free.length ≤ maxSize) := by
  have h1 := PoolConc.C08_no_duplicates_and_capacity h
  refine ⟨h1, fun hd => ?_⟩
  have h2 := PoolConc.C08_quiescent_accounting h hd
  exact ⟨h2.1, h2.2.1, by have := h1.2; omega⟩

/-- non-vacuity: two threads, an aborted call and an aborted `quit`, pool of size 2 — a reachable state in which all
threads are done, nothing is checked out and nothing is idle (both connections were destroyed). -/
example : ∃ s, PoolConc.Reachable [[.useFail], [.quitFail]] 2 s ∧ s.allDone ∧ s.used = [] ∧ s.free = [] := by
  obtain ⟨s, hr, hp⟩ := PoolConc.runCheck_reachable (maxSize := 2) (programs := [[.useFail], [.quitFail]])
    (sched := PoolConc.taus 0 6 ++ PoolConc.taus 1 6 ++ PoolConc.taus 0 5 ++ PoolConc.taus 1 8)
    (p := fun s => ((List.range 2).all fun t => (s.th t).done) && decide (s.used = []) && decide (s.free = []))
    (by decide)
  simp only [Bool.and_eq_true, decide_eq_true_eq] at hp
  exact ⟨s, hr, PoolConc.allDone_of_prefix hr hp.1.1, hp.1.2, hp.2⟩

/-- **C10** (the pool slot is not lost, sequential use).  In every history of `PooledClient` calls, at whatever times
and with whatever bodies — `fail _` and `quitFail _` being a body aborted by an exception of any class —, after every
call no client is checked out, and (with `max_pool_size ≥ 1`) the `get` of every later call succeeds: no call is ever
refused with "Too many objects" because earlier calls were aborted. -/
theorem C10_slot_not_lost_sequential (cfg : Pooled.Cfg) (evs : List (Nat × Pooled.Body)) :
    (∀ n, (Pooled.run cfg {} (evs.take n)).1.used = []) ∧
    (1 ≤ cfg.maxSize →
      (∀ n now, (Pooled.get cfg (Pooled.run cfg {} (evs.take n)).1 now).2.isSome) ∧
      (∀ o ∈ (Pooled.run cfg {} evs).2, o.client.isSome)) :=
  ⟨Pooled.C09_used_zero_after_call cfg evs, Pooled.C09_never_exhausts cfg evs⟩

/-- **C10** (`PooledClient`: the interrupted connection is never handed out again).  If the body of call number `i`
was aborted (`fail _`, or `quitFail _` for `quit`) after using connection `k`, then from the moment the call is over
`k` is closed, no idle pooled client holds it, and no later call of the history sends anything on it — so no later call
can read what was left on it. -/
theorem C10_pooled_interrupted_connection_never_reused (cfg : Pooled.Cfg) (evs : List (Nat × Pooled.Body))
    (i now : Nat) (b : Pooled.Body) (o : Pooled.CallObs) (k : Nat)
    (he : evs[i]? = some (now, b)) (hb : (∃ c, b = .fail c) ∨ (∃ c, b = .quitFail c))
    (ho : (Pooled.run cfg {} evs).2[i]? = some o) (hio : o.io = some k) :
    (∀ n, i < n → k ∈ (Pooled.run cfg {} (evs.take n)).1.closed ∧
      ∀ c ∈ (Pooled.run cfg {} (evs.take n)).1.free, c.conn ≠ some k) ∧
    (∀ j o', i < j → (Pooled.run cfg {} evs).2[j]? = some o' → o'.io ≠ some k) :=
  Pooled.C09_failed_conn_never_reused cfg evs i now b o k he
    (hb.elim .inl fun h => .inr (.inr (.inr h))) ho hio

/-- non-vacuity: the first call is aborted on connection 0; the second is served on a new connection -/
example : ∃ evs o, evs[0]? = some (0, Pooled.Body.fail true) ∧ (Pooled.run ⟨1, 5⟩ {} evs).2[0]? = some o ∧
    o.io = some 0 ∧ (Pooled.run ⟨1, 5⟩ {} evs).2[1]? = some ⟨some 1, some 1⟩ :=
  ⟨[(0, .fail true), (1, .ok)], ⟨some 0, some 0⟩, by decide⟩
end C10
