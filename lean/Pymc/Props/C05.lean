import Pymc.Proofs.RefineCor
import Pymc.Proofs.RefineChunk
import Pymc.Proofs.StatsConv
import Pymc.Generated.Consts
/-!
# C05 — client ∘ wire ∘ server is a plain in-memory map with expiry and cas versions

Models.  `Client.call` (Pymc/Model/Client.lean, Exchange.lean) transliterates the public operations of
`pymemcache.client.base.Client` (argument checks, command building, the three exchange paths
`_store_cmd` / `_fetch_cmd` / `_misc_cmd`, post-processing).  `Server.feed` (Pymc/Model/Server.lean) is a
faithful memcached at wire level: the strict request parser of C02, the abstract map `AbsMap.apply`
(Pymc/Model/AbsMap.lean: expiry, cas versions, delayed flush, 64-bit incr/decr), reply rendering.
`Client.onServer cfg s c` runs one call against that server over a perfect connection and returns
(server state after, what the call returned or raised, "socket still open with nothing unread").
`ApiSpec.spec cfg s c` is the documented contract stated directly on the abstract map: no bytes at all.

Side conditions (`Client.WF`, Pymc/Model/WF.lean): every key that `check_key` accepts has a non-empty
wire form (the empty key is the open finding of C02); `flags`, an integer `delta` and an integer `delay`
are `≥ 0` (rendered unchecked by the client, rejected by a strict server); the call is not `raw`.

Everything holds for every configuration (prefix, key encoding, value encoding, default noreply),
every server state, every key, every value — ANY bytes of ANY length — every integer.

Not covered (Lean cannot see it): that the Python methods are the transliterated ones; a real memcached's
eviction and item-size limit; `ignore_exc = True` (the theorems are about `ignore_exc = False`; with a
faithful server no exception arises in the fetch path, so the flag is irrelevant there).
-/
namespace Client
open Bytes Wire Exchange Readers AbsMap ApiSpec

/-! ## 1. reply round trips: the client's reader loops on rendered replies -/

/-- **Storage replies.**  `STORED` reads as `True`; `NOT_STORED` (add/replace/append/prepend) as `False`;
for `cas`, `EXISTS` reads as `False` and `NOT_FOUND` as `None`.  The reply is consumed completely and the
socket stays open. -/
theorem C05_reply_store_roundtrip (verb : SVerb) (r : Req) :
    storeLoop verb 1 [] [.data (Server.render r .stored)] [] = ⟨.ok [some true], [], false⟩ ∧
    (verb ≠ .cas →
      storeLoop verb 1 [] [.data (Server.render r .notStored)] [] = ⟨.ok [some false], [], false⟩) ∧
    storeLoop .cas 1 [] [.data (Server.render r .exists_)] [] = ⟨.ok [some false], [], false⟩ ∧
    storeLoop .cas 1 [] [.data (Server.render r .notFound)] [] = ⟨.ok [Option.none], [], false⟩ := by
  have key : ∀ (verb : SVerb) (l : Bytes) (v : Option Bool), PlainLine l →
      storeResultValue verb l = some v →
      storeLoop verb 1 [] [.data (l ++ CRLF)] [] = ⟨.ok [v], [], false⟩ := by
    intro verb l v h1 h2
    have := storeLoop_reply verb [(l, v)] (by simpa using ⟨h1, h2⟩)
    simpa [joinLines, CRLF] using this
  refine ⟨key verb _ _ plain_STORED (by simp [storeResultValue]),
    fun hv => key verb _ _ plain_NOT_STORED (by simp [storeResultValue, hv]),
    key .cas _ _ plain_EXISTS (by simp [storeResultValue]),
    key .cas _ _ plain_NOT_FOUND (by simp [storeResultValue])⟩

/-- **Line replies, any number of them** (`delete`, `delete_many`, `touch`, `incr`/`decr`, `flush_all`,
`version`): a reply made of lines that contain no CR and are not error lines is read back as exactly
those lines, one per command, nothing left unread. -/
theorem C05_reply_lines_roundtrip (ls : List Bytes)
    (h : ∀ l ∈ ls, (∀ b ∈ l, b ≠ CR) ∧ raiseErrors l = Option.none) (hne : ls ≠ []) :
    miscLoop Option.none ls.length [] [.data (ls.flatMap (· ++ CRLF))] [] = ⟨.ok ls, [], false⟩ := by
  have := miscLoop_reply ls h
  cases ls with
  | nil => exact absurd rfl hne
  | cons l ls => rwa [if_neg (joinLines_ne_nil l ls)] at this

/-- The reply words of the server are such lines, and so is every decimal number. -/
theorem C05_reply_words_plain (n : Nat) :
    ∀ l ∈ [ofString "STORED", ofString "NOT_STORED", ofString "EXISTS", ofString "NOT_FOUND",
        ofString "DELETED", ofString "TOUCHED", ofString "OK", Server.versionLine, natDec n],
      (∀ b ∈ l, b ≠ CR) ∧ raiseErrors l = Option.none := by
  intro l hl
  simp only [List.mem_cons, List.mem_nil_iff, or_false] at hl
  rcases hl with rfl | rfl | rfl | rfl | rfl | rfl | rfl | rfl | rfl
  · exact plain_STORED
  · exact plain_NOT_STORED
  · exact plain_EXISTS
  · exact plain_NOT_FOUND
  · exact plain_DELETED
  · exact plain_TOUCHED
  · exact plain_OK
  · exact plain_versionLine
  · exact plain_natDec n
example : miscLoop Option.none 2 [] [.data ([ofString "DELETED", ofString "NOT_FOUND"].flatMap (· ++ CRLF))] [] =
    ⟨.ok [ofString "DELETED", ofString "NOT_FOUND"], [], false⟩ :=
  C05_reply_lines_roundtrip [ofString "DELETED", ofString "NOT_FOUND"] (fun l hl => C05_reply_words_plain 0 l (by
    simp only [List.mem_cons, List.mem_nil_iff, or_false] at hl ⊢
    rcases hl with rfl | rfl <;> simp)) (by simp)

/-- **A number reply** (`incr`/`decr`) is read back as that number by `int(line)`. -/
theorem C05_reply_number_roundtrip (n : Nat) : pyInt (natDec n) = some (n : Int) := pyInt_natDec n

/-- **The error reply** of a non-numeric `incr`/`decr`: the client raises `MemcacheClientError` with the
server's message and closes the socket. -/
theorem C05_reply_client_error (r : Req) :
    miscLoop Option.none 1 [] [.data (Server.render r .nonNumeric)] [] =
      ⟨.error (.clientError (ofString "cannot increment or decrement non-numeric value")), [], true⟩ :=
  miscLoop_error_line _ _ (by rw [lit_nonNumericLine]; decide) raiseErrors_nonNumeric

/-- **Fetch replies.**  For every list `vs` of (key, item) hits whose keys are valid wire keys (1..250
bytes, none of the seven forbidden bytes) that the request asked for, the client's `_fetch_cmd` loop reads
the rendered reply `VALUE <key> <flags> <bytes> [<cas>]\r\n<data>\r\n … END\r\n` back as exactly those
items: same key, same flags, the cas token `str(cas)`, and the data block **bit for bit** — the data are
ARBITRARY bytes of arbitrary length (they may contain CR LF, `END\r\n`, `VALUE …` lines): the block is
cut by the announced length, never by content.  Everything is consumed; the socket stays open. -/
theorem C05_reply_fetch_roundtrip (withCas : Bool) (wanted : List Bytes) (vs : List (Bytes × AbsMap.Item))
    (hk : ∀ p ∈ vs, validKey p.1 = true ∧ p.1 ∈ wanted) (fuel : Nat) (hf : vs.length < fuel) :
    fetchLoop (.values withCas) wanted fuel []
        [.data ((vs.flatMap fun p => Server.renderValue withCas p.1 p.2) ++ ofString "END" ++ CRLF)] [] =
      ⟨.ok (vs.map fun p => .item ⟨p.1, p.2.data, (p.2.flags : Int),
          if withCas then some (natDec p.2.cas) else Option.none⟩), [], false⟩ := by
  cases fuel with
  | zero => simp at hf
  | succ fuel =>
    rw [fetchLoop_single _ _ _ _ (by simp [CRLF])]
    have := fetchLoop_values withCas wanted vs (fun p hp => ⟨tok_of_validKey (hk p hp).1, (hk p hp).2⟩)
      (fuel + 1) hf []
    simpa [toItem] using this
/-- a value that contains a complete fake reply -/
example : fetchLoop (.values false) [[107]] 2 []
    [.data (([(([107] : Bytes), (⟨5, 0, ofString "\r\nEND\r\nVALUE x 0 1\r\n", 9⟩ : AbsMap.Item))].flatMap
      fun p => Server.renderValue false p.1 p.2) ++ ofString "END" ++ CRLF)] [] =
    ⟨.ok [.item ⟨[107], ofString "\r\nEND\r\nVALUE x 0 1\r\n", 5, Option.none⟩], [], false⟩ :=
  C05_reply_fetch_roundtrip false [[107]] _ (by simp; decide) 2 (by simp)

/-! ### the same for ANY fault-free delivery (pieces of any size, interrupted `recv()`s), via C03 -/

/-- **Line replies under any clean chunking.**  However the reply bytes `l₁\r\n…lₙ\r\n ++ tail` are split
between the buffer and the `recv()` results (`clean`: no fault, no premature end-of-stream; EINTR allowed),
`_misc_cmd`'s loop returns exactly the lines and leaves exactly `tail` unread. -/
theorem C05_reply_lines_any_chunking (ls : List Bytes)
    (h : ∀ l ∈ ls, (∀ b ∈ l, b ≠ CR) ∧ raiseErrors l = Option.none) (buf : Bytes) (evs : List Ev)
    (tail : Bytes) (hc : clean evs) (hs : buf ++ joinData evs = ls.flatMap (· ++ CRLF) ++ tail) :
    ∃ rest evs', miscLoop Option.none ls.length buf evs [] = ⟨.ok ls, evs', false⟩ ∧
      rest ++ joinData evs' = tail ∧ clean evs' := by
  simpa using miscLoop_chunked ls h buf evs tail [] hc hs

/-- **Storage replies under any clean chunking** (one line per key, as for `set_many`). -/
theorem C05_reply_store_any_chunking (verb : SVerb) (lvs : List (Bytes × Option Bool))
    (h : ∀ p ∈ lvs, ((∀ b ∈ p.1, b ≠ CR) ∧ raiseErrors p.1 = Option.none) ∧
      storeResultValue verb p.1 = some p.2)
    (buf : Bytes) (evs : List Ev) (tail : Bytes) (hc : clean evs)
    (hs : buf ++ joinData evs = (lvs.map (·.1)).flatMap (· ++ CRLF) ++ tail) :
    ∃ rest evs', storeLoop verb lvs.length buf evs [] = ⟨.ok (lvs.map (·.2)), evs', false⟩ ∧
      rest ++ joinData evs' = tail ∧ clean evs' := by
  simpa using storeLoop_chunked verb lvs h buf evs tail [] hc hs

/-- **Fetch replies under any clean chunking**: the items come back bit for bit however the reply is cut
into `recv()` results — in the middle of a header line, of a data block, between CR and LF — and exactly
what follows `END\r\n` is left unread. -/
theorem C05_reply_fetch_any_chunking (withCas : Bool) (wanted : List Bytes) (vs : List (Bytes × AbsMap.Item))
    (hk : ∀ p ∈ vs, validKey p.1 = true ∧ p.1 ∈ wanted) (fuel : Nat) (hf : vs.length < fuel)
    (buf : Bytes) (evs : List Ev) (tail : Bytes) (hc : clean evs)
    (hs : buf ++ joinData evs =
      (vs.flatMap fun p => Server.renderValue withCas p.1 p.2) ++ ofString "END" ++ CRLF ++ tail) :
    ∃ rest evs', fetchLoop (.values withCas) wanted fuel buf evs [] =
        ⟨.ok (vs.map fun p => .item ⟨p.1, p.2.data, (p.2.flags : Int),
          if withCas then some (natDec p.2.cas) else Option.none⟩), evs', false⟩ ∧
      rest ++ joinData evs' = tail ∧ clean evs' := by
  have := fetchLoop_chunked withCas wanted vs (fun p hp => ⟨tok_of_validKey (hk p hp).1, (hk p hp).2⟩)
    fuel hf buf evs tail [] hc hs
  simpa [toItem] using this
example : clean [.data [86, 65], .eintr, .data [76]] := by simp [clean]

/-! ## 2. one call: client ∘ wire ∘ server = the contract on the abstract map -/

/-- **set / add / replace / append / prepend / cas** (one key). -/
theorem C05_refines_store (cfg : Cfg) (s : St) (verb : SVerb) (k : Key.K) (v : Val) (expire : IntArg)
    (noreply : Option Bool) (flags : Option Int) (cas : Option CasArg)
    (hk : KeyOK cfg k) (hf : FlagsOK flags) :
    onServer cfg s (.store verb k v expire noreply flags cas) =
      ((spec cfg s (.store verb k v expire noreply flags cas)).1,
       (spec cfg s (.store verb k v expire noreply flags cas)).2, true) :=
  refines_store cfg s verb k v expire noreply flags cas hk hf

/-- **set_many**. -/
theorem C05_refines_setMany (cfg : Cfg) (s : St) (items : List (Key.K × Val)) (expire : IntArg)
    (noreply : Option Bool) (flags : Option Int)
    (hk : ∀ kv ∈ items, KeyOK cfg kv.1) (hf : FlagsOK flags) :
    onServer cfg s (.setMany items expire noreply flags) =
      ((spec cfg s (.setMany items expire noreply flags)).1,
       (spec cfg s (.setMany items expire noreply flags)).2, true) :=
  refines_setMany cfg s items expire noreply flags hk hf

/-- **get**. -/
theorem C05_refines_get (cfg : Cfg) (s : St) (k : Key.K) (hk : KeyOK cfg k) :
    onServer cfg s (.get k) = ((spec cfg s (.get k)).1, (spec cfg s (.get k)).2, true) :=
  refines_get cfg s k hk
/-- a miss on the empty server, end to end -/
example : onServer {} {} (.get (.bytes [107])) = (({} : St), .ok .dflt, true) := by
  have h : checkKey {} (.bytes [107]) = .ok [107] := by decide
  rw [C05_refines_get {} {} _ (by intro h'; rw [h] at h'; cases h'), spec_get {} {} _ [107] h]
  rfl
/-- **gets**. -/
theorem C05_refines_gets (cfg : Cfg) (s : St) (k : Key.K) (hk : KeyOK cfg k) :
    onServer cfg s (.gets k) = ((spec cfg s (.gets k)).1, (spec cfg s (.gets k)).2, true) :=
  refines_gets cfg s k hk
/-- **gat** (get and touch). -/
theorem C05_refines_gat (cfg : Cfg) (s : St) (k : Key.K) (e : IntArg) (hk : KeyOK cfg k) :
    onServer cfg s (.gat k e) = ((spec cfg s (.gat k e)).1, (spec cfg s (.gat k e)).2, true) :=
  refines_gat cfg s k e hk
/-- **gats**. -/
theorem C05_refines_gats (cfg : Cfg) (s : St) (k : Key.K) (e : IntArg) (hk : KeyOK cfg k) :
    onServer cfg s (.gats k e) = ((spec cfg s (.gats k e)).1, (spec cfg s (.gats k e)).2, true) :=
  refines_gats cfg s k e hk
/-- **get_many** (any number of keys, duplicates and colliding wire keys included). -/
theorem C05_refines_getMany (cfg : Cfg) (s : St) (ks : List Key.K) (hk : ∀ k ∈ ks, KeyOK cfg k) :
    onServer cfg s (.getMany ks) = ((spec cfg s (.getMany ks)).1, (spec cfg s (.getMany ks)).2, true) :=
  refines_getMany cfg s ks hk
/-- **gets_many**. -/
theorem C05_refines_getsMany (cfg : Cfg) (s : St) (ks : List Key.K) (hk : ∀ k ∈ ks, KeyOK cfg k) :
    onServer cfg s (.getsMany ks) = ((spec cfg s (.getsMany ks)).1, (spec cfg s (.getsMany ks)).2, true) :=
  refines_getsMany cfg s ks hk
/-- **delete**. -/
theorem C05_refines_delete (cfg : Cfg) (s : St) (k : Key.K) (noreply : Option Bool) (hk : KeyOK cfg k) :
    onServer cfg s (.delete k noreply) =
      ((spec cfg s (.delete k noreply)).1, (spec cfg s (.delete k noreply)).2, true) :=
  refines_delete cfg s k noreply hk
/-- **delete_many**. -/
theorem C05_refines_deleteMany (cfg : Cfg) (s : St) (ks : List Key.K) (noreply : Option Bool)
    (hk : ∀ k ∈ ks, KeyOK cfg k) :
    onServer cfg s (.deleteMany ks noreply) =
      ((spec cfg s (.deleteMany ks noreply)).1, (spec cfg s (.deleteMany ks noreply)).2, true) :=
  refines_deleteMany cfg s ks noreply hk
/-- **touch**. -/
theorem C05_refines_touch (cfg : Cfg) (s : St) (k : Key.K) (expire : IntArg) (noreply : Option Bool)
    (hk : KeyOK cfg k) :
    onServer cfg s (.touch k expire noreply) =
      ((spec cfg s (.touch k expire noreply)).1, (spec cfg s (.touch k expire noreply)).2, true) :=
  refines_touch cfg s k expire noreply hk
/-- **flush_all**. -/
theorem C05_refines_flushAll (cfg : Cfg) (s : St) (delay : IntArg) (noreply : Option Bool)
    (hd : NonNegArg delay) :
    onServer cfg s (.flushAll delay noreply) =
      ((spec cfg s (.flushAll delay noreply)).1, (spec cfg s (.flushAll delay noreply)).2, true) :=
  refines_flushAll cfg s delay noreply hd

/-- **incr / decr.**  Same state, same result; the socket stays open except when the contract says
`MemcacheClientError` (non-numeric value): the server's `CLIENT_ERROR` line makes `_misc_cmd` close the
socket before re-raising (`sockAfter` is `false` exactly then). -/
theorem C05_refines_arith (cfg : Cfg) (s : St) (incr : Bool) (k : Key.K) (delta : IntArg) (noreply : Bool)
    (hk : KeyOK cfg k) (hd : NonNegArg delta) :
    onServer cfg s (.arith incr k delta noreply) =
      ((spec cfg s (.arith incr k delta noreply)).1, (spec cfg s (.arith incr k delta noreply)).2,
        sockAfter (.arith incr k delta noreply) (spec cfg s (.arith incr k delta noreply)).2) :=
  refines_arith cfg s incr k delta noreply hk hd

/-- The non-numeric case spelled out: the item is left alone, `MemcacheClientError` carries the
server's message, and the socket is closed. -/
theorem C05_arith_non_numeric_closes_socket (cfg : Cfg) (s : St) (incr : Bool) (k : Key.K) (w : Bytes)
    (d : Int) (it : AbsMap.Item) (hk : KeyOK cfg k) (hd : 0 ≤ d) (hck : checkKey cfg k = .ok w)
    (hl : live (settle s) w = some it) (hn : parseNat it.data = Option.none) :
    onServer cfg s (.arith incr k (.int d) false) =
      (settle s, .error (.clientError (ofString "cannot increment or decrement non-numeric value")), false) := by
  rw [refines_arith cfg s incr k (.int d) false hk (by intro x hx; cases hx; exact hd)]
  have happ : AbsMap.apply s (.arith incr w d.toNat false) = (settle s, .nonNumeric) := by
    rw [apply_loud _ _ rfl]; simp [applyLoud, hl, hn]
  simp [spec, hck, checkInteger, happ, sockAfter]
example : parseNat (ofString "abc") = Option.none := by simp [ofString_eq]; decide

/-- **version**: the reply line is parsed to the version string; like every request it lets the server
apply a delayed flush that has become due (`(spec cfg s .version).1 = settle s`). -/
theorem C05_refines_version (cfg : Cfg) (s : St) :
    onServer cfg s .version =
      ((spec cfg s .version).1, (spec cfg s .version).2, sockAfter .version (spec cfg s .version).2) :=
  refines_version cfg s
/-- **quit**: nothing is read and the client closes the socket (`sockAfter .quit _ = false`). -/
theorem C05_refines_quit (cfg : Cfg) (s : St) :
    onServer cfg s .quit =
      ((spec cfg s .quit).1, (spec cfg s .quit).2, sockAfter .quit (spec cfg s .quit).2) :=
  refines_quit cfg s
/-- a due delayed flush is applied by `version`, on both sides alike; the version string comes back -/
example : onServer {} { items := [([107], ⟨0, 0, [], 1⟩)], now := 10, flushAt := some 5 } .version =
    ({ items := [], now := 10, flushAt := Option.none }, .ok (.bytes (ofString "1.6.21-ref")), true) := by
  rw [C05_refines_version]
  simp [spec, AbsMap.apply, applyLoud, reqNoreply, settle, sockAfter, Server.versionLine, ofString_eq]
  decide
example : sockAfter .quit (.ok .none) = false := rfl

/-- **All operations together.**  For every configuration, server state and call that satisfies the side
conditions `WF`: running the call through client, wire and server gives the same resulting map and the
same return value / exception as the contract on the abstract map, and the socket is open with nothing
unread afterwards unless the contract says `MemcacheClientError` or the call was `quit`. -/
theorem C05_client_server_refines_absmap (cfg : Cfg) (s : St) (c : Call) (h : WF cfg c) :
    onServer cfg s c = ((spec cfg s c).1, (spec cfg s c).2, sockAfter c (spec cfg s c).2) :=
  refines_all cfg s c h

/-- **Illegal arguments** (illegal key, non-integer expire/delta/delay, bad cas token): nothing is sent,
the server is untouched, `MemcacheIllegalInputError` is raised and the socket stays as it was. -/
theorem C05_illegal_arguments_nothing_sent (cfg : Cfg) (s : St) (c : Call) (h : WF cfg c)
    (hi : (spec cfg s c).2 = .error .illegalInput) :
    onServer cfg s c = (s, .error .illegalInput, true) := by
  rw [refines_all cfg s c h, spec_illegal_state cfg s c hi, hi]
  cases c with
  | quit => exact absurd hi (by simp [spec])
  | raw a b => exact absurd h (by simp [WF])
  | _ => rfl
example : (spec {} {} (.get (.bytes [97, 32, 98]))).2 = .error .illegalInput := by
  have : checkKey {} (.bytes [97, 32, 98]) = .error .illegalInput := by decide
  simp [spec, fetchSpec, List.mapM_cons, this, bind, Except.bind]

/-! ## 3. histories -/

/-- **Every sequence of operations, with time passing in between.**  `runOnServer` threads the server
state through client ∘ wire ∘ server, `runSpec` through the contract; for every history whose calls
satisfy `WF` they agree on the final map and on everything every call returned. -/
theorem C05_history (cfg : Cfg) (s : St) (h : History) (hwf : ∀ p ∈ h, WF cfg p.2) :
    runOnServer cfg s h = runSpec cfg s h := history_refines cfg s h hwf

example : ∀ p ∈ ([(0, .store .set (.bytes [107]) (.bytes [13, 10]) (.int 5) (some false) Option.none Option.none),
    (7, .get (.bytes [107])), (0, .arith true (.bytes [107]) (.int 1) false),
    (1, .flushAll (.int 0) Option.none), (0, .version), (3, .quit)] : History), WF {} p.2 := by
  have hk : KeyOK {} (.bytes [107]) := by
    have : checkKey {} (.bytes [107]) = .ok [107] := by decide
    intro h; rw [this] at h; cases h
  intro p hp
  simp only [List.mem_cons, List.mem_nil_iff, or_false] at hp
  rcases hp with rfl | rfl | rfl | rfl | rfl | rfl
  · exact ⟨hk, by intro x hx; cases hx⟩
  · exact hk
  · exact ⟨hk, by intro x hx; cases hx; decide⟩
  · intro x hx; cases hx; decide
  · trivial
  · trivial

/-! ## 4. corollaries -/

/-- **The cas token handed out by `gets` is accepted.**  If `gets k` returned `(v, tok)` and nothing
happened in between, `cas k v' tok` (with any expiry, flags, noreply) stores: it returns `True` and the
map afterwards holds `v'` under the key. -/
theorem C05_cas_token_from_gets_accepted (cfg : Cfg) (s s1 : St) (k : Key.K) (v tok : Bytes) (b : Bool)
    (v' : Val) (d : Bytes) (e : Int) (flags : Option Int) (noreply : Option Bool)
    (hk : KeyOK cfg k) (hf : FlagsOK flags) (hv : encodeVal cfg.utf8 v' = .ok d)
    (hg : onServer cfg s (.gets k) = (s1, .ok (.pair v tok), b)) :
    ∃ w, checkKey cfg k = .ok w ∧
      onServer cfg s1 (.store .cas k v' (.int e) noreply flags (some (.bytes tok))) =
        (AbsMap.store s1 w (flagsOf flags).toNat e d, .ok (.bool true), true) :=
  gets_then_cas cfg s s1 k v tok b v' d e flags noreply hk hf hv hg

/-- **With noreply the effect still takes place**: the server state after a `noreply=True` call equals
the state after the same call with `noreply=False` (store family, delete, touch, incr/decr). -/
theorem C05_noreply_effect_takes_place (cfg : Cfg) (s : St) (k : Key.K) (hk : KeyOK cfg k) :
    (∀ verb v e flags cas, FlagsOK flags →
      (onServer cfg s (.store verb k v e (some true) flags cas)).1 =
      (onServer cfg s (.store verb k v e (some false) flags cas)).1) ∧
    ((onServer cfg s (.delete k (some true))).1 = (onServer cfg s (.delete k (some false))).1) ∧
    (∀ e, (onServer cfg s (.touch k e (some true))).1 = (onServer cfg s (.touch k e (some false))).1) ∧
    (∀ i d, NonNegArg d →
      (onServer cfg s (.arith i k d true)).1 = (onServer cfg s (.arith i k d false)).1) := by
  refine ⟨?_, ?_, ?_, ?_⟩
  · intro verb v e flags cas hf
    rw [refines_store cfg s verb k v e (some true) flags cas hk hf,
      refines_store cfg s verb k v e (some false) flags cas hk hf]
    exact spec_noreply_state_store ..
  · rw [refines_delete cfg s k _ hk, refines_delete cfg s k _ hk]
    exact spec_noreply_state_delete ..
  · intro e
    rw [refines_touch cfg s k e _ hk, refines_touch cfg s k e _ hk]
    exact spec_noreply_state_touch ..
  · intro i d hd
    rw [refines_arith cfg s i k d _ hk hd, refines_arith cfg s i k d _ hk hd]
    exact spec_noreply_state_arith ..

/-- **With noreply the documented constant is returned** (legal arguments): `True` for the storage
commands, `delete`, `touch`, `flush_all`; `None` for `incr`/`decr`; `[]` (no failed keys) for `set_many`. -/
theorem C05_noreply_constant (cfg : Cfg) (s : St) (k : Key.K) (w : Bytes) (hk : KeyOK cfg k)
    (hck : checkKey cfg k = .ok w) :
    (∀ verb v d e flags, verb ≠ .cas → FlagsOK flags → encodeVal cfg.utf8 v = .ok d →
      (onServer cfg s (.store verb k v (.int e) (some true) flags Option.none)).2.1 = .ok (.bool true)) ∧
    ((onServer cfg s (.delete k (some true))).2.1 = .ok (.bool true)) ∧
    (∀ e, (onServer cfg s (.touch k (.int e) (some true))).2.1 = .ok (.bool true)) ∧
    (∀ i d, 0 ≤ d → (onServer cfg s (.arith i k (.int d) true)).2.1 = .ok .none) := by
  refine ⟨?_, ?_, ?_, ?_⟩
  · intro verb v d e flags hverb hf hv
    rw [refines_store cfg s verb k v (.int e) (some true) flags Option.none hk hf]
    cases verb <;> first | exact absurd rfl hverb | simp [spec, hck, hv, checkInteger, nr]
  · rw [refines_delete cfg s k _ hk]; simp [spec, hck, nr]
  · intro e
    rw [refines_touch cfg s k _ _ hk]; simp [spec, hck, checkInteger, nr]
  · intro i d hd
    rw [refines_arith cfg s i k _ _ hk (by intro x hx; cases hx; exact hd)]
    simp [spec, hck, checkInteger]

/-- **`set_many`'s failed list is ordered.**  Whatever the server answers per key (`STORED` or
`NOT_STORED`, one line per key in one piece), `set_many` returns the sub-list of the caller's keys whose
line was not `STORED`, in the caller's order (the caller's own key objects). -/
theorem C05_set_many_failed_list_ordered (cfg : Cfg) (ignoreExc : Bool) (items : List (Key.K × Val))
    (expire : IntArg) (flags : Option Int) (cmds : List Bytes) (lines : List Bytes)
    (henc : encodeStore cfg .set items expire false flags 0 Option.none = .ok cmds)
    (hl : lines.length = items.length)
    (hline : ∀ l ∈ lines, l = ofString "STORED" ∨ l = ofString "NOT_STORED") :
    (call cfg ignoreExc true (.setMany items expire (some false) flags)
        { evs := [.data (lines.flatMap (· ++ CRLF))] }).res =
      .ok (.keys ((items.zip lines).filterMap fun (x : (Key.K × Val) × Bytes) =>
        if x.2 = ofString "STORED" then Option.none else some x.1.1)) :=
  setMany_failed_ordered cfg ignoreExc items expire flags cmds lines henc hl hline
example : encodeStore {} .set [(.bytes [97], .bytes [1]), (.bytes [98], .bytes [2])] (.int 0) false Option.none 0
    Option.none = .ok [storeCmd .set [97] 0 0 [1] Option.none false, storeCmd .set [98] 0 0 [2] Option.none false] := by
  rw [encodeStore_int]; rfl

/-- Against the faithful server every `set` is `STORED`, so `set_many` returns the empty list. -/
theorem C05_set_many_faithful_server_all_stored (cfg : Cfg) (s : St) (items : List (Key.K × Val)) (e : Int)
    (noreply : Option Bool) (flags : Option Int) (wds : List (Bytes × Bytes))
    (hk : ∀ kv ∈ items, KeyOK cfg kv.1) (hf : FlagsOK flags)
    (hm : items.mapM (keyData cfg) = .ok wds) :
    (onServer cfg s (.setMany items (.int e) noreply flags)).2 = (.ok (.keys []), true) := by
  rw [refines_setMany cfg s items (.int e) noreply flags hk hf]
  have hm' : (items.mapM fun kv => do
      let w ← Wire.checkKey cfg kv.1
      let d ← encodeVal cfg.utf8 kv.2
      pure (w, d)) = .ok wds := hm
  simp only [spec, hm', checkInteger]
  split
  · rfl
  · rename_i hnr
    have hnr' : nr cfg noreply = false := by simpa using hnr
    simp only [Prod.mk.injEq, and_true, Except.ok.injEq, Res.keys.injEq]
    have hall : ∀ (reqs : List Req) (s : St), (∀ r ∈ reqs, ∃ w f e d, r = .store .set w f e d Option.none false) →
        ∀ rep ∈ (applyAll s reqs).2, rep = .stored := by
      intro reqs
      induction reqs with
      | nil => intro s _ rep h; simp [applyAll] at h
      | cons r rs ih =>
        intro s hr rep h
        obtain ⟨w, f, e, d, rfl⟩ := hr r (by simp)
        simp only [applyAll, List.mem_cons] at h
        rcases h with rfl | h
        · rw [apply_loud _ _ rfl]; rfl
        · exact ih _ (fun x hx => hr x (by simp [hx])) rep h
    have hreps := hall (wds.map fun x => Req.store .set x.1 (flagsOf flags).toNat e x.2 Option.none (nr cfg noreply)) s
      (by intro r hr; obtain ⟨x, _, rfl⟩ := List.mem_map.1 hr; rw [hnr']; exact ⟨_, _, _, _, rfl⟩)
    generalize (applyAll s (wds.map fun x => Req.store .set x.1 (flagsOf flags).toNat e x.2 Option.none
      (nr cfg noreply))).2 = reps at hreps
    clear hm hm' hk
    induction items generalizing reps with
    | nil => simp
    | cons a items ih =>
      cases reps with
      | nil => simp
      | cons r reps =>
        have := hreps r (by simp)
        subst this
        simp only [List.zip_cons_cons, List.filterMap_cons, if_true]
        exact ih reps (fun x hx => hreps x (by simp [hx]))
end Client

/-! ## 9. `stats()`: the type conversion of the reply (Pymc/Model/Stats.lean)

`Client.stats` returns the dict of `_fetch_cmd` after `STAT_TYPES.get(key, int)` has been applied to every value, failures ignored.
The statements below are about `Stats.convert` / `Stats.statsConvert`, the transliteration of that loop and of the six converters
(`int`, `bytes`, `float`, `_parse_float`, `_parse_bool_int`, `_parse_bool_string_is_yes`, `_parse_hex`).  `lim` is the interpreter's limit
on decimal digits (`sys.get_int_max_str_digits()`, default 4300, `0` = none).  `float` itself is not modelled (the model hands the
harness the exact argument).  The table `statTypes` is tied to the source by the translator (`C05_stats_table_tie`). -/
namespace Stats
open Bytes Wire Exchange

/-- the table in the model is the table in the source (re-extracted on every run) -/
theorem C05_stats_table_tie : Generated.statTypes = statTypes.map (fun kc => (kc.1, kc.2.name)) := by decide +kernel

/-- a key outside the table — in particular every `str` key — is converted with `int` -/
theorem C05_stats_unknown_key_is_int (b : Bytes) (h : ∀ kc ∈ statTypes, kc.1 ≠ b) :
    converterOf (.bytes b) = .int ∧ ∀ s, converterOf (.str s) = .int := by
  refine ⟨?_, fun _ => rfl⟩
  have : statTypes.find? (·.1 = b) = none := by
    rw [List.find?_eq_none]; intro kc hkc; simpa using h kc hkc
  show (Option.map (·.2) (statTypes.find? (·.1 = b))).getD Conv.int = Conv.int
  rw [this]; rfl

/-- **Counters.**  A counter the server renders in decimal comes back as that integer — for every `n` within the digit limit -/
theorem C05_stats_counter_roundtrip (lim n : Nat) (h : lim = 0 ∨ (natDec n).length ≤ lim) :
    convert lim .int (natDec n) = .int n := by
  simp [convert, pyIntWs_natDec lim n h]

/-- **Signed values.**  Every integer in its canonical rendering (`str(i)`: a `-` and the digits, or the digits) comes back as that integer -/
theorem C05_stats_signed_roundtrip (lim : Nat) (i : Int) (h : lim = 0 ∨ (natDec i.natAbs).length ≤ lim) :
    convert lim .int (intDec i) = .int i := by
  by_cases hi : i < 0
  · rw [intDec_neg hi]
    have hn : (-i).toNat = i.natAbs := by omega
    rw [hn]
    simp only [convert, pyIntWs_neg_natDec lim _ h]
    congr 1; omega
  · rw [intDec_nonneg (by omega)]
    have hn : i.toNat = i.natAbs := by omega
    rw [hn]
    simp only [convert, pyIntWs_natDec lim _ h]
    congr 1; omega

/-- every 64-bit counter under the default limit -/
theorem C05_stats_u64_counter (n : Nat) (hn : n < 2 ^ 64) : convert 4300 .int (natDec n) = .int n := by
  apply C05_stats_counter_roundtrip
  right
  have := natDec_length_le 19 n (by omega)
  omega

/-- **Boolean settings** reported as numbers: `number != 0` -/
theorem C05_stats_bool_setting (lim n : Nat) (h : lim = 0 ∨ (natDec n).length ≤ lim) :
    convert lim .boolInt (natDec n) = .bool (n != 0) := by
  simp only [convert, pyIntWs_natDec lim n h]
  congr 1
  cases n <;> simp <;> omega

/-- **Textual statistics** (`version`, `inter`, `stat_key_prefix`) are the bytes the server sent; `auth_enabled_sasl` is `value == b"yes"` -/
theorem C05_stats_text_kept (lim : Nat) (v : Bytes) :
    convert lim .bytes v = .raw v ∧ convert lim .isYes v = .bool (v == yes) ∧
    (convert lim .isYes v = .bool true ↔ v = yes) := by
  refine ⟨rfl, rfl, ?_⟩
  simp [convert]

/-- **umask** is read as octal: the octal rendering of `n` comes back as `n` (no digit limit applies) -/
theorem C05_stats_umask_roundtrip (lim n : Nat) : convert lim .octal (octDec n) = .int n := by
  have hmem := octDec_mem n
  have hsp : strip (octDec n) = octDec n := strip_eq_self _ fun x hx => by
    have := (isOctDigit_iff x).1 (hmem x hx)
    simp only [isSpace, Bool.or_eq_false_iff, Bool.and_eq_false_iff, decide_eq_false_iff_not]
    refine ⟨?_, ?_⟩
    · intro he; subst he; revert this; decide
    · right; simp [UInt8.le_iff_toNat_le]; omega
  have hbody : octBody (octDec n) = some n := by
    have hd : octDigits (octDec n) false none = some n := by
      rw [octDigits_digits _ _ hmem, if_neg (octDec_ne_nil n)]
      have hv := octVal_octDec n
      unfold octVal at hv
      simp only [Option.getD_none]; rw [hv]
    have no111 : (111 : UInt8) ∉ octDec n := fun hx => by have := hmem _ hx; revert this; decide
    have no79 : (79 : UInt8) ∉ octDec n := fun hx => by have := hmem _ hx; revert this; decide
    unfold octBody
    split
    · rename_i heq; rw [heq] at no111; simp at no111
    · rename_i heq; rw [heq] at no79; simp at no79
    · rename_i heq; rw [heq] at no111; simp at no111
    · rename_i heq; rw [heq] at no79; simp at no79
    · exact hd
  obtain ⟨d, r, hdr, hd⟩ := octDec_head n
  have hd' := (isOctDigit_iff d).1 hd
  have h1 : d ≠ 45 := by rintro rfl; revert hd'; decide
  have h2 : d ≠ 43 := by rintro rfl; revert hd'; decide
  have : pyOct (octDec n) = some (n : Int) := by
    unfold pyOct
    rw [hsp]
    split
    · rename_i heq; rw [hdr] at heq; cases heq; exact absurd rfl h1
    · rename_i heq; rw [hdr] at heq; cases heq; exact absurd rfl h2
    · rw [hbody]; rfl
  simp [convert, this]

/-- **Best effort.**  A value the converter rejects is returned as it was -/
theorem C05_stats_unconvertible_kept (lim : Nat) (v : Bytes) :
    (pyIntWs lim v = none → convert lim .int v = .raw v ∧ convert lim .boolInt v = .raw v) ∧
    (pyOct v = none → convert lim .octal v = .raw v) := by
  refine ⟨fun h => ?_, fun h => ?_⟩
  · simp [convert, h]
  · simp [convert, h]

/-- **The dict keeps its keys and their order**; every value is converted on its own, by the converter of its own key -/
theorem C05_stats_keys_preserved (lim : Nat) (d : List (Key.K × Bytes)) :
    (statsConvert lim d).map (·.1) = d.map (·.1) ∧
    ∀ k v, (k, v) ∈ d → (k, convert lim (converterOf k) v) ∈ statsConvert lim d := by
  refine ⟨by simp [statsConvert, Function.comp_def], fun k v h => ?_⟩
  exact List.mem_map.2 ⟨(k, v), h, rfl⟩

-- non-vacuity / samples (tests, labelled as such)
example : converterOf (.bytes (ofString "pid")) = .int ∧ converterOf (.bytes (ofString "umask")) = .octal := by decide +kernel
example : convert 4300 .octal (ofString "022") = .int 18 ∧ convert 4300 .int (ofString " 1_000\n") = .int 1000 ∧
    convert 4300 .boolInt (ofString "2") = .bool true ∧ convert 4300 .int (ofString "1.6.21") = .raw (ofString "1.6.21") := by decide +kernel
example : convert 4300 .int (intDec (-42)) = .int (-42) := C05_stats_signed_roundtrip 4300 (-42) (by decide +kernel)
example : pyIntWs 3 (ofString "1234") = none ∧ pyIntWs 0 (ofString "1234") = some 1234 ∧ pyOct (ofString "0o_17") = some 15 ∧
    pyOct (ofString "8") = none := by decide +kernel
end Stats
