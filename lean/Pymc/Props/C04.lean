import Pymc.Proofs.RefineC04b
/-!
# C04 — what was stored is what comes back; multi-key fetches and the key prefix

Same models as C05 (`Client.onServer` = client ∘ wire ∘ faithful server over a perfect connection;
see Pymc/Props/C05.lean).  All statements are about the *default serializer path* of the model: values
are `bytes`, or a `str`/`int` that `_store_cmd` renders with `str(data).encode(encoding)`.

Quantification: every configuration (any key prefix, both key encodings, both value encodings), every
server state, every legal key (accepted by `check_key`, non-empty wire form), every value — ANY bytes, ANY
length, including CR LF, `END\r\n`, NUL — and every non-negative `flags`.

Not covered: user-supplied serializers/deserializers (the `serde` hook is outside the model: `get`
returns the raw bytes); a real memcached's item-size limit; expiry other than "never" between the store
and the fetch (C05 covers the general history).  Time itself may pass (`…_over_time`).
-/
namespace Client
open Bytes Wire Exchange Readers AbsMap ApiSpec

/-! ## store, then fetch -/

/-- **An explicit `set` (reply awaited) of any value under a legal key succeeds**: it returns `True` and
the server then holds exactly that item. (So the hypothesis of the round-trip theorems below is
satisfiable for every legal key and every value.) -/
theorem C04_set_succeeds (cfg : Cfg) (s : St) (k : Key.K) (w : Bytes) (v : Val) (d : Bytes) (e : Int)
    (flags : Option Int) (hk : KeyOK cfg k) (hf : FlagsOK flags) (hck : checkKey cfg k = .ok w)
    (hv : encodeVal cfg.utf8 v = .ok d) :
    onServer cfg s (.store .set k v (.int e) (some false) flags Option.none) =
      (AbsMap.store (settle s) w (flagsOf flags).toNat e d, .ok (.bool true), true) :=
  set_returns_true cfg s k w v d e flags Option.none hk hf hck hv

/-- **Bit-for-bit round trip.**  After `set` / `add` / `replace` / `cas` (any of the replacing storage
commands; expiry "never", reply awaited) returned `True` for value `v : bytes` under a legal key, a `get`
of that key on the resulting server returns exactly `v` — whatever bytes `v` contains and however long it
is — and `gets` returns `v` together with the new cas token. -/
theorem C04_store_fetch_roundtrip (cfg : Cfg) (s s' : St) (verb : SVerb) (k : Key.K) (v : Bytes)
    (flags : Option Int) (cas : Option CasArg) (b : Bool)
    (hverb : verb ≠ .append ∧ verb ≠ .prepend) (hk : KeyOK cfg k) (hf : FlagsOK flags)
    (hset : onServer cfg s (.store verb k (.bytes v) (.int 0) (some false) flags cas) =
      (s', .ok (.bool true), b)) :
    onServer cfg s' (.get k) = (s', .ok (.bytes v), true) ∧
    onServer cfg s' (.gets k) = (s', .ok (.pair v (natDec ((settle s).casCtr + 1))), true) :=
  store_then_fetch cfg s s' verb k (.bytes v) v flags cas b hverb hk hf rfl hset

/-- **… and it stays there while time passes.**  The same round trip when the clock advances by any `dt`
seconds between the store and the fetch: an item stored with expiry 0 never expires.  The only thing that
can remove it without a further request is a *delayed* `flush_all` issued earlier whose deadline falls
into the interval; `hfl` says that no such deadline is reached (in particular it holds when no delayed
flush is pending, `s'.flushAt = none`). -/
theorem C04_store_fetch_roundtrip_over_time (cfg : Cfg) (s s' : St) (verb : SVerb) (k : Key.K) (v : Bytes)
    (flags : Option Int) (cas : Option CasArg) (b : Bool) (dt : Nat)
    (hverb : verb ≠ .append ∧ verb ≠ .prepend) (hk : KeyOK cfg k) (hf : FlagsOK flags)
    (hset : onServer cfg s (.store verb k (.bytes v) (.int 0) (some false) flags cas) =
      (s', .ok (.bool true), b))
    (hfl : ∀ t, s'.flushAt = some t → s'.now + dt < t) :
    onServer cfg (advance s' dt) (.get k) = (advance s' dt, .ok (.bytes v), true) ∧
    onServer cfg (advance s' dt) (.gets k) =
      (advance s' dt, .ok (.pair v (natDec ((settle s).casCtr + 1))), true) :=
  store_then_fetch_over_time cfg s s' verb k (.bytes v) v flags cas b dt hverb hk hf rfl hset hfl

/-- With no delayed flush pending on the server (`s.flushAt = none`), `set` then `get` after ANY time
returns the value: no hypothesis about outcomes or deadlines is left. -/
theorem C04_set_get_roundtrip_over_time (cfg : Cfg) (s : St) (k : Key.K) (w : Bytes) (v : Bytes)
    (flags : Option Int) (dt : Nat)
    (hk : KeyOK cfg k) (hf : FlagsOK flags) (hck : checkKey cfg k = .ok w) (hs : s.flushAt = Option.none) :
    (onServer cfg
      (advance (onServer cfg s (.store .set k (.bytes v) (.int 0) (some false) flags Option.none)).1 dt)
      (.get k)).2 = (.ok (.bytes v), true) := by
  have hset := set_returns_true cfg s k w (.bytes v) v 0 flags Option.none hk hf hck rfl
  have hst : settle s = s := settle_of_settled (by intro t ht; rw [hs] at ht; cases ht)
  have := (store_then_fetch_over_time cfg s _ .set k (.bytes v) v flags Option.none true dt (by simp) hk hf
    rfl hset (by intro t ht; rw [hst] at ht; simp [AbsMap.store, hs] at ht)).1
  rw [hset, this]

/-- The same without a hypothesis about the outcome, for `set`: `get` after `set` returns the value. -/
theorem C04_set_get_roundtrip (cfg : Cfg) (s : St) (k : Key.K) (w : Bytes) (v : Bytes) (flags : Option Int)
    (hk : KeyOK cfg k) (hf : FlagsOK flags) (hck : checkKey cfg k = .ok w) :
    (onServer cfg (onServer cfg s (.store .set k (.bytes v) (.int 0) (some false) flags Option.none)).1
      (.get k)).2 = (.ok (.bytes v), true) := by
  have hset := set_returns_true cfg s k w (.bytes v) v 0 flags Option.none hk hf hck rfl
  have := (store_then_fetch cfg s _ .set k (.bytes v) v flags Option.none true (by simp) hk hf rfl hset).1
  rw [hset, this]
/-- a value full of protocol text, under a prefixed `str` key -/
example : KeyOK { pfx := [112, 58] } (.str [107]) ∧ FlagsOK (some 7) ∧
    checkKey { pfx := [112, 58] } (.str [107]) = .ok [112, 58, 107] := by
  have h : checkKey { pfx := [112, 58] } (.str [107]) = .ok [112, 58, 107] := by decide
  refine ⟨(by intro h'; rw [h] at h'; cases h'), (by intro x hx; cases hx; decide), h⟩
example (s : St) : (onServer { pfx := [112, 58] }
    (onServer { pfx := [112, 58] } s
      (.store .set (.str [107]) (.bytes (ofString "x\r\nEND\r\nVALUE k 0 1\r\n\x00")) (.int 0) (some false)
        (some 7) Option.none)).1 (.get (.str [107]))).2 =
    (.ok (.bytes (ofString "x\r\nEND\r\nVALUE k 0 1\r\n\x00")), true) := by
  have h : checkKey { pfx := [112, 58] } (.str [107]) = .ok [112, 58, 107] := by decide
  exact C04_set_get_roundtrip _ s _ _ _ _ (by intro h'; rw [h] at h'; cases h')
    (by intro x hx; cases hx; decide) h

/-- **`str` and `int` values without a serializer.**  Storing an ASCII `str` (code points `< 128`; with
either value encoding) and fetching returns its bytes; storing an `int` returns its decimal rendering. -/
theorem C04_text_int_without_serde (cfg : Cfg) (s s' : St) (verb : SVerb) (k : Key.K)
    (flags : Option Int) (cas : Option CasArg) (b : Bool)
    (hverb : verb ≠ .append ∧ verb ≠ .prepend) (hk : KeyOK cfg k) (hf : FlagsOK flags) :
    (∀ cps : List Nat, (∀ c ∈ cps, c < 128) →
      onServer cfg s (.store verb k (.text cps) (.int 0) (some false) flags cas) = (s', .ok (.bool true), b) →
      onServer cfg s' (.get k) = (s', .ok (.bytes (cps.map UInt8.ofNat)), true)) ∧
    (∀ i : Int,
      onServer cfg s (.store verb k (.int i) (.int 0) (some false) flags cas) = (s', .ok (.bool true), b) →
      onServer cfg s' (.get k) = (s', .ok (.bytes (intDec i)), true)) := by
  constructor
  · intro cps hc hset
    have hv : encodeVal cfg.utf8 (.text cps) = .ok (cps.map UInt8.ofNat) := by
      cases hu : cfg.utf8 with
      | true => simp [encodeVal, Key.encodeUtf8_ascii cps hc]
      | false =>
        have : Key.encodeAscii cps = some (cps.map UInt8.ofNat) := by
          simp [Key.encodeAscii]; exact hc
        simp [encodeVal, this]
    exact (store_then_fetch cfg s s' verb k _ _ flags cas b hverb hk hf hv hset).1
  · intro i hset
    exact (store_then_fetch cfg s s' verb k (.int i) (intDec i) flags cas b hverb hk hf rfl hset).1
example : intDec (-12) = [45, 49, 50] := by simp [intDec, natDec_ge, natDec_lt, digitChar]

/-! ## multi-key fetches -/

/-- **`get_many` with pairwise distinct wire keys** (all legal): the result is exactly the dict that maps,
in request order, each requested key object whose wire key is live on the server to that item's own data:
every present key exactly once, under the caller's key object, never with another key's value; absent
keys do not appear. -/
theorem C04_getMany_keys (cfg : Cfg) (s : St) (ks : List Key.K) (wire : List Bytes)
    (hk : ∀ k ∈ ks, KeyOK cfg k) (hm : ks.mapM (checkKey cfg) = .ok wire) (hn : wire.Nodup) :
    (onServer cfg s (.getMany ks)).2 =
      (.ok (.dict ((wire.zip ks).filterMap fun p => (live (settle s) p.1).map fun it => (p.2, it.data))),
       true) := by
  rw [refines_getMany cfg s ks hk, spec_getMany_result cfg s ks wire hm hn]
example : [Key.K.bytes [97], .str [98]].mapM (checkKey { pfx := [112] }) = .ok [[112, 97], [112, 98]] ∧
    ([[112, 97], [112, 98]] : List Bytes).Nodup := by
  have h1 : checkKey { pfx := [112] } (.bytes [97]) = .ok [112, 97] := by decide
  have h2 : checkKey { pfx := [112] } (.str [98]) = .ok [112, 98] := by decide
  refine ⟨by simp [List.mapM_cons, h1, h2, bind, Except.bind, pure, Except.pure], by decide⟩

/-- **In general** (duplicates, different key objects with the same wire key, anything): every key of the
dict `get_many` returns is one of the caller's own key objects, and no key occurs twice.  In particular
**the configured prefix is never visible**: a prefixed wire key `w` can only show up as a result key if
the caller literally passed the key object `w`. -/
theorem C04_prefix_invisible (cfg : Cfg) (s s' : St) (ks : List Key.K) (d : List (Key.K × Bytes)) (b : Bool)
    (hk : ∀ k ∈ ks, KeyOK cfg k) (h : onServer cfg s (.getMany ks) = (s', .ok (.dict d), b)) :
    (∀ kv ∈ d, kv.1 ∈ ks) ∧ (d.map (·.1)).Nodup ∧
    (∀ w : Bytes, Key.K.bytes w ∈ d.map (·.1) → Key.K.bytes w ∈ ks) := by
  rw [refines_getMany cfg s ks hk] at h
  have hs : spec cfg s (.getMany ks) = (s', .ok (.dict d)) := by
    simp only [Prod.mk.injEq] at h
    exact Prod.ext h.1 h.2.1
  obtain ⟨h1, h2⟩ := spec_getMany_keys cfg s s' ks d hs
  refine ⟨h1, h2, ?_⟩
  intro w hw
  obtain ⟨kv, hkv, he⟩ := List.mem_map.1 hw
  exact he ▸ h1 kv hkv

/-- The prefix is applied on the wire: the request `get_many` sends for legal keys is
`get <pfx+k1> <pfx+k2> …\r\n` with exactly the wire keys that `check_key` computed. -/
theorem C04_prefix_on_the_wire (cfg : Cfg) (ks : List Key.K) (wire : List Bytes) (hne : ks ≠ [])
    (hm : ks.mapM (checkKey cfg) = .ok wire) :
    (call cfg false true (.getMany ks) {}).sent = some (fetchCmd .get Option.none wire) ∧
    (∀ i (h1 : i < ks.length) (h2 : i < wire.length), ∃ enc, Key.encodeKey cfg.au ks[i] = .ok enc ∧
      wire[i] = cfg.pfx ++ enc) := by
  constructor
  · have henc : encodeFetch cfg .get ks Option.none = .ok (fetchCmd .get Option.none wire) := by
      simp [encodeFetch, hm, bind, Except.bind, pure, Except.pure]
    simp only [call, hne, if_false, fetchValues, hm, henc, mapOut_sent]
    exact exchangeFetch_open ..
  · intro i h1 h2
    have := (mapM_ok _ _ _ hm).2 i h1 h2
    rw [checkKey_ok_iff] at this
    unfold Key.checkKey at this
    cases he : Key.encodeKey cfg.au ks[i] with
    | error err => simp [he] at this
    | ok enc =>
      simp only [he] at this
      exact ⟨enc, rfl, Key.checkEncoded_ok_eq this⟩
end Client
