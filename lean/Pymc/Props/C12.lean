import Pymc.Proofs.HashRouteGet
import Pymc.Proofs.HashRouteDemo
/-!
# C12 — HashClient sends every key to the one server that placement assigns to it

Model: Pymc/Model/HashRoute.lean transliterates `HashClient._get_client` (hash.py 172–190: `route`),
`_run_cmd` (319–328: `get`, the representative of every single-key command), `get_many` (388–413:
`batchesOf` = first loop, `getMany` = second loop with `dict.update`), `set` / `set_many` (`setOne`,
`setMany`, as updates of the abstract per-server stores `Stores V = Srv → Key.K → Option V`).
An `HKey` is a caller-side key: `routing` is the string that is hashed (the key itself, or the
`server_key` of a `(server_key, key)` pair) and `key` is the inner key sent to the chosen server.

Every theorem holds for an ARBITRARY `score : String → String → Nat` (node name → routing key → score;
collisions allowed), node lists of any length and content, key lists of any length, arbitrary stores
and value type.  Auxiliary notions (Pymc/Proofs/HashRoute*.lean): `lookup d k` = `d.get(k)` = value of
the first entry of `d` with key `k` (`List.find?`); `batchFor bs s` = `client_batches[s]`, `[]` if absent.

Examples use three servers `demoNodes = ["A","B","C"]`, the score table `demoScore`, and six keys
`demoKeys = [hk1 … hk6]` routed to A, B, A, C, C, B (`hk1`, `hk3` share server A; `hk5` is decided by the
tie rule; `hk6 = ("k2", k6)` is a `(server_key, key)` pair that goes to B whereas the plain key `k6`
goes to C) — see Pymc/Proofs/HashRouteDemo.lean.
-/
namespace HashRoute
variable {V : Type}

/-! ## 1. routing: one server per routing key, a member of the server set -/

/-- C12 (placement): `_get_client` picks the server exactly by rendezvous placement (C11) of the
routing key: `s` is chosen iff it is the lexicographic maximum of `(score, name)` over the servers. -/
theorem C12_route_is_placement (score : String → String → Nat) (nodes : List Srv) (k : HKey) (s : Srv) :
    route score nodes k = some s ↔ Rendezvous.IsLexMax (fun n => score n k.routing) nodes s :=
  Rendezvous.getNode_eq_some_iff _ nodes s

/-- C12 (one server per key): the server depends only on the SET of servers and on the routing string
— not on the order or multiplicity of the server list and not on the inner key — and it is one of the
servers. -/
theorem C12_route_unique (score : String → String → Nat) (nodes : List Srv) (k : HKey) :
    (∀ (nodes' : List Srv) (k' : HKey), (∀ n, n ∈ nodes ↔ n ∈ nodes') → k.routing = k'.routing →
        route score nodes k = route score nodes' k') ∧
    (∀ k' : HKey, k.routing = k'.routing → route score nodes k = route score nodes k') ∧
    (∀ s, route score nodes k = some s → s ∈ nodes) :=
  ⟨fun _ _ hm hr => route_congr score hm hr, fun _ hr => route_congr score (fun _ => Iff.rfl) hr,
    fun _ h => route_mem h⟩

/-- C12 (a key is routable iff some server is in rotation). -/
theorem C12_route_some_iff (score : String → String → Nat) (nodes : List Srv) (k : HKey) :
    (∃ s, route score nodes k = some s) ↔ nodes ≠ [] := by
  rw [← route_isSome_iff score nodes k, Option.isSome_iff_exists]

example : demoKeys.map (route demoScore demoNodes) =
    [some "A", some "B", some "A", some "C", some "C", some "B"] := by decide
/-- the pair `("k2", k6)` follows its server key, not its inner key -/
example : route demoScore demoNodes hk6 = some "B" ∧ route demoScore demoNodes hk6plain = some "C" ∧
    hk6.key = hk6plain.key := by decide
example : route demoScore demoNodes hk6 = route demoScore ["C", "A", "B", "A"] hk2 :=
  (C12_route_unique demoScore demoNodes hk6).1 _ hk2
    (by intro n; simp only [demoNodes, List.mem_cons, List.not_mem_nil]; grind) rfl
example : "B" ∈ demoNodes := (C12_route_unique demoScore demoNodes hk6).2.2 "B" (by decide)

/-! ## 2. multi-key operations: the batches partition the requested keys -/

/-- C12 (each key is sent to its routed server, exactly as often as requested, and to no other):
with at least one server in rotation,
(a) no batch is empty and every key in the batch of `s` is the inner key of a requested key routed to `s`;
(b) no server has two batches;
(c) the batch of every server `s` is exactly the inner keys of the requested keys routed to `s` — same
    keys, same multiplicities, same order (and `[]`, i.e. no batch, if none is routed to `s`);
(d) the batches together contain as many keys as were requested. -/
theorem C12_batches_partition_keys (score : String → String → Nat) (nodes : List Srv) (ks : List HKey)
    (hne : nodes ≠ []) :
    (∀ s b, (s, b) ∈ batchesOf score nodes ks →
        b ≠ [] ∧ ∀ k ∈ b, ∃ hk ∈ ks, route score nodes hk = some s ∧ hk.key = k) ∧
    ((batchesOf score nodes ks).map (·.1)).Nodup ∧
    (∀ s, batchFor (batchesOf score nodes ks) s =
        (ks.filter (fun hk => route score nodes hk = some s)).map (·.key)) ∧
    ((batchesOf score nodes ks).map (·.2.length)).sum = ks.length := by
  have inv := batchInv score nodes ks
  refine ⟨?_, inv.nodup, fun s => batchFor_batchesOf score nodes ks s, ?_⟩
  · intro s b hb
    have hb' : b = keysFor score nodes s ks := inv.eq (s, b) hb
    constructor
    · obtain ⟨hk, hm, hr⟩ := (inv.mem s).mp (List.mem_map.mpr ⟨(s, b), hb, rfl⟩)
      intro hnil
      have : hk.key ∈ keysFor score nodes s ks := mem_keysFor.mpr ⟨hk, hm, hr, rfl⟩
      rw [← hb', hnil] at this
      simp at this
    · intro k hk
      rw [hb'] at hk
      exact mem_keysFor.mp hk
  · have := inv.total
    unfold totalKeys at this
    rw [this]
    congr 1
    rw [List.filter_eq_self]
    intro hk _
    exact (route_isSome_iff score nodes hk).mpr hne

/-- C12 (same, without any hypothesis on the server set): a batch `(s, b)` is present iff some requested
key routes to `s`, and then `b` is exactly the inner keys of the requested keys routed to `s`, in request
order; `s` is one of the servers. -/
theorem C12_batches_exact (score : String → String → Nat) (nodes : List Srv) (ks : List HKey)
    (s : Srv) (b : List Key.K) :
    (s, b) ∈ batchesOf score nodes ks ↔
      (∃ hk ∈ ks, route score nodes hk = some s) ∧
        b = (ks.filter (fun hk => route score nodes hk = some s)).map (·.key) := by
  have inv := batchInv score nodes ks
  constructor
  · intro hb
    exact ⟨(inv.mem s).mp (List.mem_map.mpr ⟨(s, b), hb, rfl⟩), inv.eq (s, b) hb⟩
  · rintro ⟨hex, rfl⟩
    obtain ⟨e, he, hes⟩ := List.mem_map.mp ((inv.mem s).mpr hex)
    have := inv.eq e he
    obtain ⟨s', b'⟩ := e
    simp only at hes this
    subst hes
    rw [this] at he
    exact he

/-- C12 (only servers in rotation are contacted). -/
theorem C12_batches_servers_mem (score : String → String → Nat) (nodes : List Srv) (ks : List HKey)
    (s : Srv) (b : List Key.K) (h : (s, b) ∈ batchesOf score nodes ks) : s ∈ nodes := by
  obtain ⟨⟨hk, _, hr⟩, _⟩ := (C12_batches_exact score nodes ks s b).mp h
  exact route_mem hr

example : batchesOf demoScore demoNodes demoKeys =
    [("A", [kk 1, kk 3]), ("B", [kk 2, kk 6]), ("C", [kk 4, kk 5])] := by decide
example : batchFor (batchesOf demoScore demoNodes demoKeys) "A" = [hk1.key, hk3.key] :=
  ((C12_batches_partition_keys demoScore demoNodes demoKeys (by decide)).2.2.1 "A").trans (by decide)
example : ((batchesOf demoScore demoNodes demoKeys).map (·.2.length)).sum = 6 :=
  (C12_batches_partition_keys demoScore demoNodes demoKeys (by decide)).2.2.2
/-- a key requested twice is sent twice (to its one server): `get_many` batches are lists -/
example : batchesOf demoScore demoNodes [hk1, hk2, hk1] = [("A", [kk 1, kk 1]), ("B", [kk 2])] := by decide

/-! ## 3. `get_many` equals the per-key `get`s -/

/-- C12 (`get_many` = per-key `get`): if the requested inner keys are pairwise distinct, then
(1) for every requested key the merged result holds exactly what `get` on that key returns (a value, or a
    miss);
(2) every entry of the result is the answer of the routed server to some requested key with that inner key;
(3) no key occurs twice in the result.
No hypothesis on the server set is needed: with no server both sides of (1) are a miss.  (2) and (3) do not
need the distinctness hypothesis either, see `C12_getMany_entries`, `C12_getMany_nodup_keys`. -/
theorem C12_getMany_eq_gets (score : String → String → Nat) (nodes : List Srv) (st : Stores V)
    (ks : List HKey) (hd : (ks.map (·.key)).Nodup) :
    (∀ hk ∈ ks, lookup (getMany score nodes st ks) hk.key = get score nodes st hk) ∧
    (∀ k v, (k, v) ∈ getMany score nodes st ks →
        ∃ hk ∈ ks, hk.key = k ∧ get score nodes st hk = some v) ∧
    ((getMany score nodes st ks).map (·.1)).Nodup :=
  ⟨fun _ hm => getMany_lookup st hd hm, fun _ _ h => getMany_mem h, getMany_nodup score nodes st ks⟩

/-- C12 (same under the weakest hypothesis we found): it suffices that every requested key with the same
inner key as `hk` is routed to the same server as `hk` (e.g. the same key requested twice). -/
theorem C12_getMany_eq_gets_of_consistent (score : String → String → Nat) (nodes : List Srv)
    (st : Stores V) (ks : List HKey) (hk : HKey) (hm : hk ∈ ks)
    (hc : ∀ hk' ∈ ks, hk'.key = hk.key → route score nodes hk' = route score nodes hk) :
    lookup (getMany score nodes st ks) hk.key = get score nodes st hk :=
  getMany_lookup_of_consistent st hm hc

/-- C12 (nothing foreign in the result; no hypothesis on `ks`): every entry `(k, v)` of the merged result
is the answer of the routed server of some requested key with inner key `k`. -/
theorem C12_getMany_entries (score : String → String → Nat) (nodes : List Srv) (st : Stores V)
    (ks : List HKey) (k : Key.K) (v : V) (h : (k, v) ∈ getMany score nodes st ks) :
    ∃ hk ∈ ks, hk.key = k ∧ get score nodes st hk = some v :=
  getMany_mem h

/-- C12 (the result is a dict: no key occurs twice; no hypothesis on `ks`). -/
theorem C12_getMany_nodup_keys (score : String → String → Nat) (nodes : List Srv) (st : Stores V)
    (ks : List HKey) : ((getMany score nodes st ks).map (·.1)).Nodup :=
  getMany_nodup score nodes st ks

/-- C12 (`get_many` = the set of per-key hits): for pairwise distinct inner keys, the entries of the
result are exactly the pairs (inner key, value) for the requested keys that `get` finds. -/
theorem C12_getMany_mem_iff (score : String → String → Nat) (nodes : List Srv) (st : Stores V)
    (ks : List HKey) (hd : (ks.map (·.key)).Nodup) (k : Key.K) (v : V) :
    (k, v) ∈ getMany score nodes st ks ↔ ∃ hk ∈ ks, hk.key = k ∧ get score nodes st hk = some v := by
  constructor
  · exact getMany_mem
  · rintro ⟨hk, hm, rfl, hg⟩
    exact mem_of_lookup ((getMany_lookup st hd hm).trans hg)

/-
C12 (`get_many` = per-key `get`) WITHOUT the distinctness hypothesis — FALSE for the model (and for
hash.py, whose `end.update(result)` lets the server contacted last overwrite the entry):

  ∀ score nodes st ks hk, hk ∈ ks → lookup (getMany score nodes st ks) hk.key = get score nodes st hk

Counterexample: the inner key `k1` requested under two server keys, one routed to A (holding 11) and one
routed to C (holding 99): the single result entry for `k1` is C's answer.
-/
/-- the distinctness hypothesis of `C12_getMany_eq_gets` is needed -/
theorem C12_getMany_eq_gets_counterexample :
    hk1 ∈ [hk1, hk1onC] ∧ demoNodes ≠ [] ∧
    get demoScore demoNodes demoStores hk1 = some 11 ∧
    lookup (getMany demoScore demoNodes demoStores [hk1, hk1onC]) hk1.key = some 99 := by
  decide

example : getMany demoScore demoNodes demoStores demoKeys =
    [(kk 1, 11), (kk 3, 13), (kk 2, 22), (kk 6, 26), (kk 4, 34)] := by decide
example : lookup (getMany demoScore demoNodes demoStores demoKeys) hk6.key =
    get demoScore demoNodes demoStores hk6 :=
  (C12_getMany_eq_gets _ _ _ _ (by decide)).1 _ (by decide)
/-- … and that common value is B's `26`, not the stale `96` on C where the plain key `k6` would go -/
example : get demoScore demoNodes demoStores hk6 = some 26 ∧
    get demoScore demoNodes demoStores hk6plain = some 96 := by decide
/-- a miss is a miss on both sides -/
example : lookup (getMany demoScore demoNodes demoStores demoKeys) hk5.key = none ∧
    get demoScore demoNodes demoStores hk5 = none := by decide
example : ∃ hk ∈ demoKeys, hk.key = kk 3 ∧ get demoScore demoNodes demoStores hk = some 13 :=
  C12_getMany_entries _ _ _ _ _ _ (by decide)

/-! ## 4. what `set` / `set_many` wrote is found by the single-key commands on the same key -/

/-- C12 (`set` then any single-key command): `set` on `hk` writes the cell (routed server of `hk`, inner
key of `hk`) — the very cell that `_run_cmd` addresses for `get`, `gets`, `delete`, `incr`, `touch`, … on
`hk` — so a following `get` returns the value written; and a key with a different (routed server, inner
key) pair reads the same before and after. -/
theorem C12_written_is_found (score : String → String → Nat) (nodes : List Srv) (st : Stores V)
    (hk : HKey) (v : V) (hr : route score nodes hk ≠ none) :
    get score nodes (setOne score nodes st hk v) hk = some v ∧
    (∃ s, route score nodes hk = some s ∧ setOne score nodes st hk v s hk.key = some v) ∧
    (∀ hk' : HKey, ¬ (route score nodes hk = route score nodes hk' ∧ hk.key = hk'.key) →
      get score nodes (setOne score nodes st hk v) hk' = get score nodes st hk') := by
  refine ⟨get_setOne_same st hk v hr, ?_, fun hk' hne => get_setOne_other st hk hk' v hne⟩
  cases h : route score nodes hk with
  | none => exact absurd h hr
  | some s => exact ⟨s, rfl, by simp [setOne, h]⟩

/-- C12 (`set` touches nothing else — also when no server is in rotation): a key with a different (routed
server, inner key) pair reads the same before and after. -/
theorem C12_written_elsewhere_unchanged (score : String → String → Nat) (nodes : List Srv)
    (st : Stores V) (hk hk' : HKey) (v : V)
    (hne : ¬ (route score nodes hk = route score nodes hk' ∧ hk.key = hk'.key)) :
    get score nodes (setOne score nodes st hk v) hk' = get score nodes st hk' :=
  get_setOne_other st hk hk' v hne

/-- C12 (a single-key command depends only on (routed server, inner key)): two caller-side keys with the
same routed server and inner key read the same cell. -/
theorem C12_get_same_slot (score : String → String → Nat) (nodes : List Srv) (st : Stores V)
    (hk hk' : HKey) (hs : route score nodes hk = route score nodes hk') (hkey : hk.key = hk'.key) :
    get score nodes st hk = get score nodes st hk' :=
  get_congr_slot st ⟨hs, hkey⟩

/-- C12 (`set_many` then `get`): if `(hk, v)` is the last entry of `kvs` for its (routed server, inner key)
pair, `get hk` afterwards returns `v`. -/
theorem C12_setMany_found (score : String → String → Nat) (nodes : List Srv) (st : Stores V)
    (l₁ l₂ : List (HKey × V)) (hk : HKey) (v : V) (hr : route score nodes hk ≠ none)
    (hlast : ∀ e ∈ l₂, ¬ (route score nodes e.1 = route score nodes hk ∧ e.1.key = hk.key)) :
    get score nodes (setMany score nodes st (l₁ ++ (hk, v) :: l₂)) hk = some v :=
  get_setMany_last st l₁ l₂ hk v hr hlast

/-- C12 (`set_many` touches nothing else). -/
theorem C12_setMany_elsewhere_unchanged (score : String → String → Nat) (nodes : List Srv)
    (st : Stores V) (kvs : List (HKey × V)) (hk : HKey)
    (hne : ∀ e ∈ kvs, ¬ (route score nodes e.1 = route score nodes hk ∧ e.1.key = hk.key)) :
    get score nodes (setMany score nodes st kvs) hk = get score nodes st hk :=
  get_setMany_other st kvs hk hne

/-- C12 (`set_many` then `get_many`, general form): for requested keys with pairwise distinct inner keys,
`get_many` after `set_many` returns, for every requested `hk` whose last write in `kvs` is `v`, the value `v`. -/
theorem C12_setMany_getMany_last (score : String → String → Nat) (nodes : List Srv) (st : Stores V)
    (l₁ l₂ : List (HKey × V)) (ks : List HKey) (hk : HKey) (v : V) (hr : route score nodes hk ≠ none)
    (hlast : ∀ e ∈ l₂, ¬ (route score nodes e.1 = route score nodes hk ∧ e.1.key = hk.key))
    (hd : (ks.map (·.key)).Nodup) (hm : hk ∈ ks) :
    lookup (getMany score nodes (setMany score nodes st (l₁ ++ (hk, v) :: l₂)) ks) hk.key = some v :=
  (getMany_lookup _ hd hm).trans (get_setMany_last st l₁ l₂ hk v hr hlast)

/-- C12 (`set_many` then `get_many` of the same keys): with a server in rotation and pairwise distinct
inner keys, `get_many` of the keys just written returns exactly the written pairs. -/
theorem C12_setMany_then_getMany (score : String → String → Nat) (nodes : List Srv) (st : Stores V)
    (kvs : List (HKey × V)) (hne : nodes ≠ []) (hd : (kvs.map (·.1.key)).Nodup) :
    (∀ e ∈ kvs, lookup (getMany score nodes (setMany score nodes st kvs) (kvs.map (·.1))) e.1.key
        = some e.2) ∧
    (∀ k v, (k, v) ∈ getMany score nodes (setMany score nodes st kvs) (kvs.map (·.1)) ↔
        ∃ e ∈ kvs, e.1.key = k ∧ e.2 = v) := by
  have hd' : ((kvs.map (·.1)).map (·.key)).Nodup := by rw [List.map_map]; exact hd
  have hget : ∀ e ∈ kvs, get score nodes (setMany score nodes st kvs) e.1 = some e.2 := by
    intro e he
    obtain ⟨l₁, l₂, rfl⟩ := List.append_of_mem he
    obtain ⟨hk, v⟩ := e
    refine get_setMany_last st l₁ l₂ hk v ((route_ne_none_iff score nodes hk).mpr hne) ?_
    intro e' he' hs
    exact not_mem_of_nodup_map_append (f := fun e : HKey × V => e.1.key) hd e' he' hs.2
  refine ⟨fun e he => ?_, fun k v => ?_⟩
  · exact (getMany_lookup _ hd' (List.mem_map.mpr ⟨e, he, rfl⟩)).trans (hget e he)
  · rw [C12_getMany_mem_iff score nodes _ _ hd']
    constructor
    · rintro ⟨hk, hm, rfl, hg⟩
      obtain ⟨e, he, rfl⟩ := List.mem_map.mp hm
      rw [hget e he] at hg
      exact ⟨e, he, rfl, Option.some.inj hg⟩
    · rintro ⟨e, he, rfl, rfl⟩
      exact ⟨e.1, List.mem_map.mpr ⟨e, he, rfl⟩, rfl, hget e he⟩

example : get demoScore demoNodes (setOne demoScore demoNodes demoStores hk6 7) hk6 = some 7 :=
  (C12_written_is_found _ _ _ _ _ (by decide)).1
/-- the write through the pair `("k2", k6)` lands on B and leaves C's `k6` alone -/
example : get demoScore demoNodes (setOne demoScore demoNodes demoStores hk6 7) hk6plain = some 96 :=
  (C12_written_elsewhere_unchanged _ _ _ hk6 hk6plain 7 (by decide)).trans (by decide)
/-- two writes to the same key in one `set_many`: the later one is found -/
example : get demoScore demoNodes
    (setMany demoScore demoNodes demoStores ([(hk1, 1), (hk3, 3)] ++ (hk1, 5) :: [(hk4, 4), (hk6, 6)])) hk1 = some 5 :=
  C12_setMany_found _ _ _ _ _ _ _ (by decide) (by decide)
example : getMany demoScore demoNodes
    (setMany demoScore demoNodes demoStores [(hk1, 1), (hk3, 3), (hk4, 4), (hk6, 6), (hk5, 5)])
    [hk1, hk3, hk4, hk6, hk5] = [(kk 1, 1), (kk 3, 3), (kk 4, 4), (kk 5, 5), (kk 6, 6)] := by decide
example : lookup (getMany demoScore demoNodes
    (setMany demoScore demoNodes demoStores [(hk1, 1), (hk3, 3), (hk4, 4), (hk6, 6), (hk5, 5)])
    ([(hk1, 1), (hk3, 3), (hk4, 4), (hk6, 6), (hk5, 5)].map (·.1))) hk6.key = some 6 :=
  (C12_setMany_then_getMany demoScore demoNodes demoStores _ (by decide) (by decide)).1 (hk6, 6) (by decide)

/-! ## 5. no server in rotation: every key is skipped -/

/-- C12 (all servers down, `ignore_exc=True`): nothing is contacted, `get_many` is empty, `get` misses,
`set` / `set_many` change nothing. -/
theorem C12_no_server_all_skipped (score : String → String → Nat) (st : Stores V) (ks : List HKey)
    (k : HKey) (v : V) (kvs : List (HKey × V)) :
    batchesOf score [] ks = [] ∧ getMany score [] st ks = [] ∧ get score [] st k = none ∧
    setOne score [] st k v = st ∧ setMany score [] st kvs = st := by
  refine ⟨batchesOf_no_nodes score ks, ?_, rfl, rfl, ?_⟩
  · rw [getMany_eq_mergeAll, batchesOf_no_nodes]; rfl
  · induction kvs with
    | nil => rfl
    | cons e kvs ih => rw [setMany_cons]; exact ih

example : batchesOf demoScore [] demoKeys = [] ∧ getMany demoScore [] demoStores demoKeys = [] :=
  ⟨(C12_no_server_all_skipped demoScore demoStores demoKeys hk1 0 []).1,
   (C12_no_server_all_skipped demoScore demoStores demoKeys hk1 0 []).2.1⟩

end HashRoute
