import Pymc.Proofs.WireEnc
/-!
# C02 — request framing (`Client` of pymemcache/client/base.py)

Model: Pymc/Model/Wire.lean.  `storeCmd`, `fetchCmd`, `deleteCmd`, `arithCmd`, `touchCmd`, `flushCmd`,
`versionCmd`, `quitCmd` are the byte strings the client concatenates (`_store_cmd` 1217–1270,
`_fetch_cmd` 1155–1174, `delete` 787–810, `delete_many` 812–842, `incr`/`decr` 846–900, `touch`
902–928, `flush_all` 1009–1032); `encodeStore`, `encodeFetch`, `encodeDelete`, `encodeArith`,
`encodeTouch`, `encodeFlush` add the argument checks (`check_key`, `_check_integer`) that run *before*
the first byte is written; `checkCas` is `_check_cas`.  `parseReq`/`parseAll` is an independent strict
request parser (one line up to the first CR LF, single-space separated fields, exact verbs, keys of
1..250 bytes without the forbidden bytes, unsigned decimals, optional trailing `noreply`, data block of
exactly `<bytes>` bytes followed by CR LF).

Everything below holds for every key, prefix, value, integer: there is no bound on any length or value.

Not covered here (Lean cannot see it): that every public method routes through these builders; that the
configured `encoding` is ASCII-compatible (the model renders decimals as ASCII digits); a `bool`
argument (`True` is an `int` for `isinstance`, and `str(True)` is `"True"`) is outside `IntArg`.

One finding is recorded as a theorem: the empty key (`C02_empty_key_counterexample`).  The key `noreply`
in `delete(..., noreply=False)` is read correctly (`C02_parse_deleteCmd_noreply_key`): like memcached,
the parser looks for the `noreply` marker only *after* the key.
-/
namespace Wire
open Bytes Readers

/-! ## 1. decimal rendering and parsing -/

/-- `str(n).encode()` read back as an unsigned decimal is `n`, for every natural number. -/
theorem C02_parseNat_natDec (n : Nat) : parseNat (natDec n) = some n := parseNat_natDec n
example : natDec 305 = [51, 48, 53] := by simp [natDec_ge, natDec_lt, digitChar]
example : natDec 0 = [48] := by simp [natDec_lt, digitChar]

/-- `str(i).encode()` read back as a signed decimal is `i`, for every integer. -/
theorem C02_parseInt_intDec (i : Int) : parseInt (intDec i) = some i := parseInt_intDec i
example : intDec (-17) = [45, 49, 55] := by simp [intDec, natDec_ge, natDec_lt, digitChar]

/-- The rendering of a natural number is non-empty and consists of ASCII digits only; hence it contains
no space, CR or LF, and it is not the word `noreply`. -/
theorem C02_natDec_digits (n : Nat) :
    natDec n ≠ [] ∧ (∀ b ∈ natDec n, isDigit b = true) ∧
    (∀ b ∈ natDec n, b ≠ SP ∧ b ≠ CR ∧ b ≠ LF) ∧ natDec n ≠ ofString "noreply" := by
  refine ⟨natDec_ne_nil n, natDec_mem_isDigit n, ?_, ?_⟩
  · intro b hb
    have := isDigit_ne (natDec_mem_isDigit n b hb)
    exact ⟨this.1, this.2.1, this.2.2.1⟩
  · exact ne_noreply_of_dec (fun b hb => .inl (natDec_mem_isDigit n b hb))

/-- The rendering of an integer is non-empty and consists of ASCII digits and `-` only; hence it contains
no space, CR or LF, and it is not the word `noreply`. -/
theorem C02_intDec_bytes (i : Int) :
    intDec i ≠ [] ∧ (∀ b ∈ intDec i, isDigit b = true ∨ b = 45) ∧
    (∀ b ∈ intDec i, b ≠ SP ∧ b ≠ CR ∧ b ≠ LF) ∧ intDec i ≠ ofString "noreply" := by
  refine ⟨intDec_ne_nil i, intDec_mem i, ?_, ne_noreply_of_dec (intDec_mem i)⟩
  intro b hb
  rcases intDec_mem i b hb with h | rfl
  · have := isDigit_ne h
    exact ⟨this.1, this.2.1, this.2.2.1⟩
  · decide

/-- A non-negative integer is rendered like the natural number. -/
theorem C02_intDec_nonneg (i : Int) (h : 0 ≤ i) : intDec i = natDec i.toNat := intDec_nonneg h
example : (0 : Int) ≤ 7 := by decide

/-! ## 2. tokenisation and line splitting -/

/-- Splitting `b" ".join(toks)` on single spaces gives back `toks`, provided there is at least one token
and no token contains a space.  Empty tokens are allowed (they are kept by `splitSp`). -/
theorem C02_splitSp_intercalate (toks : List Bytes) (hne : toks ≠ [])
    (h : ∀ t ∈ toks, ∀ b ∈ t, b ≠ SP) : splitSp (([SP] : Bytes).intercalate toks) = toks := by
  rw [← joinSp_eq_intercalate]; exact splitSp_joinSp toks hne h
example : splitSp (([SP] : Bytes).intercalate [[103], [], [107]]) = [[103], [], [107]] :=
  C02_splitSp_intercalate _ (by decide) (by decide)
-- `toks ≠ []` is needed: the empty list joins to the empty line, which splits into one empty field.
example : splitSp (([SP] : Bytes).intercalate []) = [[]] := by decide

/-- `splitSp` splits at *every* space: it is a homomorphism from "concatenate with a space" to list
append. -/
theorem C02_splitSp_append_sp (a b : Bytes) : splitSp (a ++ SP :: b) = splitSp a ++ splitSp b := by
  induction a with
  | nil => simp [splitSp]
  | cons x a ih =>
    by_cases hx : x = SP
    · simp [splitSp, hx, ih]
    · obtain ⟨t, ts, h1, h2⟩ := splitSp_cons_ne hx a
      obtain ⟨t', ts', h1', h2'⟩ := splitSp_cons_ne hx (a ++ SP :: b)
      rw [List.cons_append, h2', h2]
      rw [ih, h1] at h1'
      simp only [List.cons_append, List.cons.injEq] at h1'
      obtain ⟨rfl, rfl⟩ := h1'
      rfl

/-- The first CR LF of `line ++ CRLF ++ rest` is right after `line` when `line` contains no CR. -/
theorem C02_findCRLF_line (line rest : Bytes) (h : ∀ b ∈ line, b ≠ CR) :
    findCRLF (line ++ CRLF ++ rest) = some line.length := findCRLF_line line rest h
example : findCRLF ([103, 10, 107] ++ CRLF ++ [13, 10]) = some 3 :=
  C02_findCRLF_line _ _ (by decide)

/-- The data block is cut by length, never by content. -/
theorem C02_takeBlock_data (data rest : Bytes) :
    takeBlock data.length (data ++ CRLF ++ rest) = some (data, rest) := takeBlock_data data rest

/-! ## 3. per-command round trips (with an arbitrary continuation, so that they compose) -/

/-- **Storage commands** (`set`, `add`, `replace`, `append`, `prepend`, `cas`).  For every valid wire key,
non-negative flags, any expiry, ANY data bytes of any length, a cas token that is present exactly for the
verb `cas` and is then a non-empty digit string: the strict parser reads the command bytes as exactly
that command and leaves exactly what follows it. -/
theorem C02_parse_storeCmd (verb : SVerb) (key : Bytes) (flags expire : Int) (data : Bytes)
    (cas : Option Bytes) (noreply : Bool) (rest : Bytes)
    (hk : validKey key = true) (hf : 0 ≤ flags)
    (hcv : cas.isSome ↔ verb = .cas)
    (hcw : ∀ c, cas = some c → c ≠ [] ∧ c.all isDigit = true) :
    parseReq (storeCmd verb key flags expire data cas noreply ++ rest) =
      some (.store verb key flags.toNat expire data (cas.bind parseNat) noreply, rest) := by
  cases cas with
  | none =>
    have hv : verb ≠ .cas := fun h => by simpa using hcv.2 h
    exact parseReq_store verb hv key flags expire data noreply rest hk hf
  | some c =>
    have hv : verb = .cas := hcv.1 rfl
    subst hv
    obtain ⟨h1, h2⟩ := hcw c rfl
    exact parseReq_cas key flags expire data c noreply rest hk hf h1 h2
example : parseReq (storeCmd .set [107] 5 (-1) [13, 10, 1] none true ++ [9]) =
    some (.store .set [107] 5 (-1) [13, 10, 1] none true, [9]) :=
  C02_parse_storeCmd _ _ _ _ _ _ _ _ (by decide) (by decide) (by decide) (by simp)
example : parseReq (storeCmd .cas [107] 0 0 [] (some [52, 50]) false ++ []) =
    some (.store .cas [107] 0 0 [] ((some [52, 50]).bind parseNat) false, []) :=
  C02_parse_storeCmd _ _ _ _ _ _ _ _ (by decide) (by decide) (by decide)
    (by intro c hc; cases hc; decide)
example : parseNat [52, 50] = some 42 := by decide

/-- A well-formed cas token has a numeric value (so the `cas` field of the parsed request is `some _`). -/
theorem C02_cas_token_value (c : Bytes) (h1 : c ≠ []) (h2 : c.all isDigit = true) :
    ∃ n, parseNat c = some n := ⟨_, parseNat_eq_some_of c h1 h2⟩
example : ([48, 48, 55] : Bytes) ≠ [] ∧ ([48, 48, 55] : Bytes).all isDigit = true := by decide

/-- **`get` / `gets`**: at least one key, all valid. -/
theorem C02_parse_fetchCmd_get (verb : FVerb) (hv : verb = .get ∨ verb = .gets) (keys : List Bytes)
    (rest : Bytes) (hne : keys ≠ []) (hk : ∀ k ∈ keys, validKey k = true) :
    parseReq (fetchCmd verb none keys ++ rest) = some (.fetch verb none keys, rest) :=
  parseReq_get verb hv keys rest hne hk
example : parseReq (fetchCmd .gets none [[97], [98, 99]] ++ [1, 2]) =
    some (.fetch .gets none [[97], [98, 99]], [1, 2]) :=
  C02_parse_fetchCmd_get _ (.inr rfl) _ _ (by decide) (by decide)

/-- **`gat` / `gats`**: any expiry, at least one key, all valid. -/
theorem C02_parse_fetchCmd_gat (verb : FVerb) (hv : verb = .gat ∨ verb = .gats) (e : Int)
    (keys : List Bytes) (rest : Bytes) (hne : keys ≠ []) (hk : ∀ k ∈ keys, validKey k = true) :
    parseReq (fetchCmd verb (some e) keys ++ rest) = some (.fetch verb (some e) keys, rest) :=
  parseReq_gat verb hv e keys rest hne hk
example : parseReq (fetchCmd .gat (some (-1)) [[97]] ++ []) = some (.fetch .gat (some (-1)) [[97]], []) :=
  C02_parse_fetchCmd_gat _ (.inl rfl) _ _ _ (by decide) (by decide)

/-- **`delete`**: every valid key, including the word `noreply` itself, with or without the marker. -/
theorem C02_parse_deleteCmd (key : Bytes) (noreply : Bool) (rest : Bytes)
    (hk : validKey key = true) :
    parseReq (deleteCmd key noreply ++ rest) = some (.delete key noreply, rest) :=
  parseReq_delete key noreply rest hk
example : parseReq (deleteCmd [107] false ++ [7]) = some (.delete [107] false, [7]) :=
  C02_parse_deleteCmd _ _ _ (by decide)
example : parseReq (deleteCmd (ofString "noreply") true ++ []) =
    some (.delete (ofString "noreply") true, []) :=
  C02_parse_deleteCmd _ _ _ (by simp [validKey, Key.forbidden])

/-- The former ambiguity is gone: `delete(b"noreply", noreply=False)` sends `delete noreply\r\n`, the key
is legal, and the strict parser reads it as a `delete` of the key `noreply` that expects a reply. -/
theorem C02_parse_deleteCmd_noreply_key :
    validKey (ofString "noreply") = true ∧
    deleteCmd (ofString "noreply") false =
      [100, 101, 108, 101, 116, 101, 32, 110, 111, 114, 101, 112, 108, 121, 13, 10] ∧
    ofString "delete noreply\r\n" =
      [100, 101, 108, 101, 116, 101, 32, 110, 111, 114, 101, 112, 108, 121, 13, 10] ∧
    parseReq (deleteCmd (ofString "noreply") false) = some (.delete (ofString "noreply") false, []) := by
  have hv : validKey (ofString "noreply") = true := by simp [validKey, Key.forbidden]
  refine ⟨hv, by simp [deleteCmd, noreplySfx, CRLF], by rw [ofString_eq]; decide, ?_⟩
  simpa using C02_parse_deleteCmd (ofString "noreply") false [] hv

/-- **`incr` / `decr`**: non-negative delta. -/
theorem C02_parse_arithCmd (incr : Bool) (key : Bytes) (delta : Int) (noreply : Bool) (rest : Bytes)
    (hk : validKey key = true) (hd : 0 ≤ delta) :
    parseReq (arithCmd incr key delta noreply ++ rest) =
      some (.arith incr key delta.toNat noreply, rest) :=
  parseReq_arith incr key delta noreply rest hk hd
example : parseReq (arithCmd false [107] 18446744073709551615 true ++ [7]) =
    some (.arith false [107] 18446744073709551615 true, [7]) :=
  C02_parse_arithCmd _ _ _ _ _ (by decide) (by decide)

/-- **`touch`**: any expiry. -/
theorem C02_parse_touchCmd (key : Bytes) (expire : Int) (noreply : Bool) (rest : Bytes)
    (hk : validKey key = true) :
    parseReq (touchCmd key expire noreply ++ rest) = some (.touch key expire noreply, rest) :=
  parseReq_touch key expire noreply rest hk
example : parseReq (touchCmd [107] (-5) false ++ []) = some (.touch [107] (-5) false, []) :=
  C02_parse_touchCmd _ _ _ _ (by decide)

/-- **`flush_all`**: non-negative delay (the client always sends the delay). -/
theorem C02_parse_flushCmd (delay : Int) (noreply : Bool) (rest : Bytes) (hd : 0 ≤ delay) :
    parseReq (flushCmd delay noreply ++ rest) = some (.flushAll (some delay.toNat) noreply, rest) :=
  parseReq_flush delay noreply rest hd
example : parseReq (flushCmd 0 true ++ []) = some (.flushAll (some 0) true, []) :=
  C02_parse_flushCmd _ _ _ (by decide)

/-- **`version`**. -/
theorem C02_parse_versionCmd (rest : Bytes) : parseReq (versionCmd ++ rest) = some (.version, rest) :=
  parseReq_version rest

/-- **`quit`**. -/
theorem C02_parse_quitCmd (rest : Bytes) : parseReq (quitCmd ++ rest) = some (.quit, rest) :=
  parseReq_quit rest

/-! ## 4. the checked encoders: accepted arguments are framed exactly -/

/-- **`set`/`set_many`/`add`/`replace`/`append`/`prepend`/`cas`.**  If `_store_cmd` gets as far as a
command list `cmds`, then the expiry was an integer `e`, every item has a wire key `w` (accepted by
`check_key`) and an encoded data block `d`, and the concatenation of all commands is read by the strict
parser as exactly one `store` request per item, in order, with that verb, key, flags, expiry, data, cas
value and noreply marker — and nothing more (`parseAll` fails on any leftover byte). -/
theorem C02_parse_encode_store (cfg : Cfg) (verb : SVerb) (items : List (Key.K × Val)) (expire : IntArg)
    (noreply : Bool) (flags : Option Int) (serFlags : Nat) (cas : Option Bytes) (cmds : List Bytes)
    (h : encodeStore cfg verb items expire noreply flags serFlags cas = .ok cmds)
    (hfl : ∀ f, flags = some f → 0 ≤ f)
    (hcv : cas.isSome ↔ verb = .cas)
    (hcw : ∀ c, cas = some c → c ≠ [] ∧ c.all isDigit = true)
    (hkey : ∀ kv ∈ items, ∀ w, checkKey cfg kv.1 = .ok w → w ≠ []) :
    ∃ (e : Int) (wds : List (Bytes × Bytes)),
      expire = .int e ∧ wds.length = items.length ∧
      (∀ i (h1 : i < items.length) (h2 : i < wds.length),
        checkKey cfg items[i].1 = .ok wds[i].1 ∧ encodeVal cfg.utf8 items[i].2 = .ok wds[i].2) ∧
      parseAll cmds.flatten.length cmds.flatten =
        some (wds.map fun wd =>
          Req.store verb wd.1 (flags.getD (serFlags : Int)).toNat e wd.2
            (cas.bind parseNat) noreply) := by
  cases expire with
  | nonInt => rw [encodeStore_nonInt] at h; cases h
  | int e =>
    rw [encodeStore_int] at h
    cases hm : items.mapM (keyData cfg) with
    | error err => rw [hm] at h; cases h
    | ok wds =>
      rw [hm] at h
      have hc : cmds = wds.map fun wd => storeCmd verb wd.1 (sentFlags flags serFlags) e wd.2 cas noreply := by
        cases h; rfl
      obtain ⟨hlen, hidx⟩ := mapM_ok _ _ _ hm
      have hidx' : ∀ i (h1 : i < items.length) (h2 : i < wds.length),
          checkKey cfg items[i].1 = .ok wds[i].1 ∧ encodeVal cfg.utf8 items[i].2 = .ok wds[i].2 :=
        fun i h1 h2 => (keyData_ok_iff cfg _ _).1 (hidx i h1 h2)
      refine ⟨e, wds, rfl, hlen, hidx', ?_⟩
      subst hc
      have hfl0 : 0 ≤ sentFlags flags serFlags := by
        cases flags with
        | none => simp [sentFlags]
        | some f => exact hfl f rfl
      have hfv : flags.getD (serFlags : Int) = sentFlags flags serFlags := by
        cases flags <;> simp [sentFlags]
      rw [hfv]
      apply parseAll_map
      intro wd hwd
      obtain ⟨i, hi, rfl⟩ := List.mem_iff_getElem.1 hwd
      have hi' : i < items.length := by omega
      have hk := (hidx' i hi' hi).1
      have hv : validKey wds[i].1 = true :=
        checkKey_validKey hk (hkey _ (List.getElem_mem hi') _ hk)
      exact parsesAs_of fun rest =>
        C02_parse_storeCmd verb _ _ e _ cas noreply rest hv hfl0 hcv hcw
example : encodeStore {} .set [(.bytes [107], .bytes [118]), (.str [97], .int 5)] (.int 0) false none 0 none
    = .ok [storeCmd .set [107] 0 0 [118] none false, storeCmd .set [97] 0 0 (intDec 5) none false] := by
  rw [encodeStore_int]; rfl
example : ∀ kv ∈ [((.bytes [107] : Key.K), Val.bytes [118])], ∀ w, checkKey {} kv.1 = .ok w → w ≠ [] := by
  intro kv hkv w hw
  simp at hkv; subst hkv
  have : checkKey {} (.bytes [107]) = .ok [107] := by decide
  rw [this] at hw; cases hw; decide

/-- **`get`/`gets`/`get_many`/`gets_many`/`gat`/`gats`.**  If `_fetch_cmd` builds a command, every key
has a wire form `ks[i]` accepted by `check_key`, the expiry (present exactly for `gat`/`gats`) was an
integer, and the command is read as exactly one `fetch` request with those keys in order. -/
theorem C02_parse_encode_fetch (cfg : Cfg) (verb : FVerb) (keys : List Key.K) (expire : Option IntArg)
    (cmd : Bytes) (h : encodeFetch cfg verb keys expire = .ok cmd)
    (hne : keys ≠ [])
    (hex : expire.isSome ↔ (verb = .gat ∨ verb = .gats))
    (hkey : ∀ k ∈ keys, ∀ w, checkKey cfg k = .ok w → w ≠ []) :
    ∃ (e : Option Int) (ks : List Bytes),
      expire = e.map IntArg.int ∧ ks.length = keys.length ∧
      (∀ i (h1 : i < keys.length) (h2 : i < ks.length), checkKey cfg keys[i] = .ok ks[i]) ∧
      parseAll cmd.length cmd = some [.fetch verb e ks] := by
  obtain ⟨ks, e, hm, he, rfl⟩ := encodeFetch_ok_inv h
  obtain ⟨hlen, hidx⟩ := mapM_ok _ _ _ hm
  refine ⟨e, ks, he, hlen, hidx, ?_⟩
  have hks : ks ≠ [] := by
    intro h0; subst h0
    exact hne (List.length_eq_zero_iff.1 (by simpa using hlen.symm))
  have hv : ∀ k ∈ ks, validKey k = true := by
    intro k hk
    obtain ⟨i, hi, rfl⟩ := List.mem_iff_getElem.1 hk
    have hi' : i < keys.length := by omega
    exact checkKey_validKey (hidx i hi' hi) (hkey _ (List.getElem_mem hi') _ (hidx i hi' hi))
  apply parseAll_single
  apply parsesAs_of
  intro rest
  subst he
  cases e with
  | none =>
    have : verb = .get ∨ verb = .gets := by
      have : ¬ (verb = .gat ∨ verb = .gats) := fun h' => by simpa using hex.2 h'
      cases verb <;> simp at this ⊢
    exact C02_parse_fetchCmd_get verb this ks rest hks hv
  | some e =>
    exact C02_parse_fetchCmd_gat verb (hex.1 rfl) e ks rest hks hv
example : encodeFetch {} .gat [.bytes [107], .str [97]] (some (.int 60)) =
    .ok (fetchCmd .gat (some 60) [[107], [97]]) := by rfl

/-- **`delete`/`delete_many`.**  If the command list is built, every key has a wire form accepted by
`check_key` and the bytes are read as exactly one `delete` per key, in order. -/
theorem C02_parse_encode_delete_many (cfg : Cfg) (keys : List Key.K) (noreply : Bool)
    (cmds : List Bytes) (h : encodeDelete cfg keys noreply = .ok cmds)
    (hkey : ∀ k ∈ keys, ∀ w, checkKey cfg k = .ok w → w ≠ []) :
    ∃ ks : List Bytes, ks.length = keys.length ∧
      (∀ i (h1 : i < keys.length) (h2 : i < ks.length), checkKey cfg keys[i] = .ok ks[i]) ∧
      parseAll cmds.flatten.length cmds.flatten = some (ks.map fun w => Req.delete w noreply) := by
  rw [encodeDelete_eq] at h
  cases hm : keys.mapM (checkKey cfg) with
  | error err => rw [hm] at h; cases h
  | ok ks =>
    rw [hm] at h
    have hc : cmds = ks.map fun w => deleteCmd w noreply := by cases h; rfl
    subst hc
    obtain ⟨hlen, hidx⟩ := mapM_ok _ _ _ hm
    refine ⟨ks, hlen, hidx, ?_⟩
    apply parseAll_map
    intro w hw
    obtain ⟨i, hi, rfl⟩ := List.mem_iff_getElem.1 hw
    have hi' : i < keys.length := by omega
    have hk := hidx i hi' hi
    exact parsesAs_of fun rest =>
      C02_parse_deleteCmd _ _ rest (checkKey_validKey hk (hkey _ (List.getElem_mem hi') _ hk))
example : encodeDelete {} [.bytes [107], .str [97]] true =
    .ok [deleteCmd [107] true, deleteCmd [97] true] := by rw [encodeDelete_eq]; rfl

/-- The legal key `noreply` with the client's `noreply` off: `delete_many([b"noreply"], noreply=False)` is
built as `delete noreply\r\n` and read as exactly one `delete` of that key expecting a reply. -/
theorem C02_parse_encode_delete_many_noreply_key :
    encodeDelete {} [.bytes (ofString "noreply")] false = .ok [deleteCmd (ofString "noreply") false] ∧
    parseAll [deleteCmd (ofString "noreply") false].flatten.length
      [deleteCmd (ofString "noreply") false].flatten = some [.delete (ofString "noreply") false] := by
  have henc : encodeDelete {} [.bytes (ofString "noreply")] false =
      .ok [deleteCmd (ofString "noreply") false] := by
    rw [encodeDelete_eq]
    have : checkKey {} (.bytes [110, 111, 114, 101, 112, 108, 121]) =
        .ok [110, 111, 114, 101, 112, 108, 121] := by decide
    simp [List.mapM_cons, this, bind, Except.bind, pure, Except.pure, Except.map]
  refine ⟨henc, ?_⟩
  have hv : validKey (ofString "noreply") = true := by simp [validKey, Key.forbidden]
  have := parseAll_single (parsesAs_of fun rest => C02_parse_deleteCmd (ofString "noreply") false rest hv)
  simpa using this

/-- **`incr`/`decr`**: non-negative integer delta. -/
theorem C02_parse_encode_arith (cfg : Cfg) (incr : Bool) (k : Key.K) (delta : IntArg) (noreply : Bool)
    (cmd : Bytes) (h : encodeArith cfg incr k delta noreply = .ok cmd)
    (hd : ∀ d, delta = .int d → 0 ≤ d)
    (hkey : ∀ w, checkKey cfg k = .ok w → w ≠ []) :
    ∃ (w : Bytes) (d : Int), checkKey cfg k = .ok w ∧ delta = .int d ∧
      parseAll cmd.length cmd = some [.arith incr w d.toNat noreply] := by
  obtain ⟨w, d, hk, rfl, rfl⟩ := encodeArith_ok_inv h
  exact ⟨w, d, hk, rfl, parseAll_single (parsesAs_of fun rest =>
    C02_parse_arithCmd incr w d noreply rest (checkKey_validKey hk (hkey w hk)) (hd d rfl))⟩
example : encodeArith {} true (.bytes [107]) (.int 3) false = .ok (arithCmd true [107] 3 false) := by rfl

/-- **`touch`**: any integer expiry. -/
theorem C02_parse_encode_touch (cfg : Cfg) (k : Key.K) (expire : IntArg) (noreply : Bool)
    (cmd : Bytes) (h : encodeTouch cfg k expire noreply = .ok cmd)
    (hkey : ∀ w, checkKey cfg k = .ok w → w ≠ []) :
    ∃ (w : Bytes) (e : Int), checkKey cfg k = .ok w ∧ expire = .int e ∧
      parseAll cmd.length cmd = some [.touch w e noreply] := by
  obtain ⟨w, e, hk, rfl, rfl⟩ := encodeTouch_ok_inv h
  exact ⟨w, e, hk, rfl, parseAll_single (parsesAs_of fun rest =>
    C02_parse_touchCmd w e noreply rest (checkKey_validKey hk (hkey w hk)))⟩
example : encodeTouch {} (.bytes [107]) (.int 3) false = .ok (touchCmd [107] 3 false) := by rfl

/-- **`flush_all`**: non-negative integer delay. -/
theorem C02_parse_encode_flush (delay : IntArg) (noreply : Bool) (cmd : Bytes)
    (h : encodeFlush delay noreply = .ok cmd) (hd : ∀ d, delay = .int d → 0 ≤ d) :
    ∃ d : Int, delay = .int d ∧ parseAll cmd.length cmd = some [.flushAll (some d.toNat) noreply] := by
  obtain ⟨d, rfl, rfl⟩ := encodeFlush_ok_inv h
  exact ⟨d, rfl, parseAll_single (parsesAs_of fun rest => C02_parse_flushCmd d noreply rest (hd d rfl))⟩
example : encodeFlush (.int 0) true = .ok (flushCmd 0 true) := by rfl

/-! ## 5. rejected arguments: nothing is built, so nothing can be sent -/

/-- **One illegal key means nothing at all is sent.**  If any key of a multi-key call is rejected by
`check_key`, the encoder returns the input error instead of a command list — whatever the position of
the bad key and however many good keys precede it. -/
theorem C02_illegal_key_sends_nothing (cfg : Cfg) :
    (∀ verb (items : List (Key.K × Val)) expire noreply flags serFlags cas,
      (∃ kv ∈ items, ∃ e, checkKey cfg kv.1 = .error e) →
      encodeStore cfg verb items expire noreply flags serFlags cas = .error .illegalInput) ∧
    (∀ verb (keys : List Key.K) expire,
      (∃ k ∈ keys, ∃ e, checkKey cfg k = .error e) →
      encodeFetch cfg verb keys expire = .error .illegalInput) ∧
    (∀ (keys : List Key.K) noreply,
      (∃ k ∈ keys, ∃ e, checkKey cfg k = .error e) →
      encodeDelete cfg keys noreply = .error .illegalInput) := by
  refine ⟨?_, ?_, ?_⟩
  · rintro verb items expire noreply flags serFlags cas ⟨kv, hkv, e, he⟩
    cases expire with
    | nonInt => rfl
    | int x =>
      rw [encodeStore_int, mapM_error_of_mem (keyData cfg) items kv hkv .illegalInput]
      · rfl
      · cases e; simp [keyData, he, bind, Except.bind]
  · rintro verb keys expire ⟨k, hk, e, he⟩
    exact encodeFetch_key_error cfg verb keys expire (mapM_error_of_mem _ keys k hk e he)
  · rintro keys noreply ⟨k, hk, e, he⟩
    rw [encodeDelete_eq, mapM_error_of_mem _ keys k hk e he]; rfl
example : ∃ k ∈ [Key.K.bytes [107], .bytes [97, 32, 98]], ∃ e, checkKey {} k = .error e :=
  ⟨.bytes [97, 32, 98], by simp, .illegalInput, by decide⟩
example : encodeDelete {} [.bytes [107], .bytes [97, 32, 98]] false = .error .illegalInput :=
  (C02_illegal_key_sends_nothing {}).2.2 _ _ ⟨.bytes [97, 32, 98], by simp, .illegalInput, by decide⟩

/-- Single-key commands: an illegal key means no command. -/
theorem C02_illegal_key_sends_nothing_single (cfg : Cfg) (k : Key.K) (e : Err)
    (h : checkKey cfg k = .error e) :
    (∀ incr delta noreply, encodeArith cfg incr k delta noreply = .error .illegalInput) ∧
    (∀ expire noreply, encodeTouch cfg k expire noreply = .error .illegalInput) := by
  cases e
  constructor
  · intro incr delta noreply; simp [encodeArith, h, bind, Except.bind]
  · intro expire noreply; simp [encodeTouch, h, bind, Except.bind]
example : checkKey {} (.bytes [13, 10]) = .error .illegalInput := by decide

/-- **A non-integer expiry / delta / delay is rejected** by `_check_integer`, and every encoder that
takes one then fails without building a command. -/
theorem C02_non_integer_rejected :
    checkInteger .nonInt = .error .illegalInput ∧
    (∀ cfg verb items noreply flags serFlags cas,
      encodeStore cfg verb items .nonInt noreply flags serFlags cas = .error .illegalInput) ∧
    (∀ cfg verb keys, encodeFetch cfg verb keys (some .nonInt) = .error .illegalInput) ∧
    (∀ cfg incr k noreply, encodeArith cfg incr k .nonInt noreply = .error .illegalInput) ∧
    (∀ cfg k noreply, encodeTouch cfg k .nonInt noreply = .error .illegalInput) ∧
    (∀ noreply, encodeFlush .nonInt noreply = .error .illegalInput) :=
  ⟨rfl, fun _ _ _ _ _ _ _ => rfl, encodeFetch_nonInt, encodeArith_nonInt, encodeTouch_nonInt,
    fun _ => rfl⟩

/-- **`_check_cas` accepts exactly the non-empty ASCII-digit strings** and returns them unchanged:
an `int` iff it is non-negative (rendered in decimal), a `str` iff it is non-empty and all its code points
are `0`–`9`, `bytes` iff non-empty and all digits; anything else is an input error. -/
theorem C02_bad_cas_rejected :
    (∀ (i : Int) out, checkCas (.int i) = .ok out ↔ (0 ≤ i ∧ out = natDec i.toNat)) ∧
    (∀ (cps : List Nat) out, checkCas (.str cps) = .ok out ↔
      (out = cps.map UInt8.ofNat ∧ cps ≠ [] ∧ ∀ c ∈ cps, 48 ≤ c ∧ c ≤ 57)) ∧
    (∀ (b out : Bytes), checkCas (.bytes b) = .ok out ↔ (out = b ∧ b ≠ [] ∧ b.all isDigit = true)) ∧
    checkCas .other = .error .illegalInput ∧
    (∀ a out, checkCas a = .ok out → out ≠ [] ∧ out.all isDigit = true) := by
  refine ⟨checkCas_int_iff, checkCas_str_iff, checkCas_bytes_iff, rfl, ?_⟩
  intro a out h
  cases a with
  | int i =>
    obtain ⟨_, rfl⟩ := (checkCas_int_iff i out).1 h
    exact ⟨natDec_ne_nil _, natDec_all_isDigit _⟩
  | str cps =>
    have : checkCas (.bytes out) = .ok out := by
      obtain ⟨rfl, h1, h2⟩ := (checkCas_str_iff cps out).1 h
      cases he : Key.encodeAscii cps with
      | none => simp [checkCas, he] at h
      | some b =>
        have hb := ((Key.encodeAscii_eq_some cps b).1 he).2
        subst hb
        simpa [checkCas, he] using h
    exact ((checkCas_bytes_iff out out).1 this).2
  | bytes b =>
    obtain ⟨rfl, h1, h2⟩ := (checkCas_bytes_iff b out).1 h
    exact ⟨h1, h2⟩
  | other => cases h
example : checkCas (.int (-1)) = .error .illegalInput := by
  have := (C02_bad_cas_rejected.1 (-1))
  cases h : checkCas (.int (-1)) with
  | error e => cases e; rfl
  | ok out => exact absurd ((this out).1 h).1 (by decide)
example : checkCas (.bytes []) = .error .illegalInput := by decide
example : checkCas (.bytes [49, 32, 50]) = .error .illegalInput := by decide
example : checkCas (.str [49, 0x663]) = .error .illegalInput := by decide   -- "1٣": non-ASCII digit
example : checkCas (.str [49, 50]) = .ok [49, 50] := by decide
example : checkCas (.bytes [48, 48]) = .ok [48, 48] := by decide

/-- The value of an accepted `int` cas survives the trip: the parser reads the token as that number. -/
theorem C02_cas_int_value (i : Int) (out : Bytes) (h : checkCas (.int i) = .ok out) :
    parseNat out = some i.toNat := by
  obtain ⟨_, rfl⟩ := (checkCas_int_iff i out).1 h
  exact parseNat_natDec _
example : ∃ out, checkCas (.int 12) = .ok out := ⟨natDec 12, (checkCas_int_iff 12 _).2 ⟨by decide, rfl⟩⟩

/-! ## 6. the empty key (open finding; pinned by a repo test) -/

/-- With an empty prefix the empty key is accepted by `check_key`; `get(b"")` then sends `get \r\n` and
`set(b"", b"x")` sends `set  0 0 1\r\nx\r\n`, both of which the strict parser rejects.  This is why every
round-trip theorem above asks for a non-empty wire key. -/
theorem C02_empty_key_counterexample :
    checkKey {} (.bytes []) = .ok [] ∧
    encodeFetch {} .get [.bytes []] none = .ok [103, 101, 116, 32, 13, 10] ∧
    ofString "get \r\n" = [103, 101, 116, 32, 13, 10] ∧
    parseReq [103, 101, 116, 32, 13, 10] = none ∧
    encodeStore {} .set [(.bytes [], .bytes [120])] (.int 0) false none 0 none =
      .ok [[115, 101, 116, 32, 32, 48, 32, 48, 32, 49, 13, 10, 120, 13, 10]] ∧
    ofString "set  0 0 1\r\nx\r\n" = [115, 101, 116, 32, 32, 48, 32, 48, 32, 49, 13, 10, 120, 13, 10] ∧
    parseReq [115, 101, 116, 32, 32, 48, 32, 48, 32, 49, 13, 10, 120, 13, 10] = none := by
  refine ⟨by decide, ?_, by rw [ofString_eq]; decide, ?_, ?_, by rw [ofString_eq]; decide, ?_⟩
  · simp [encodeFetch, checkKey, mapKeyErr, Key.C20_empty_key_accepted, fetchCmd, List.intercalate,
      pure, Except.pure, bind, Except.bind, CRLF, SP]
  · simp [parseReq, findCRLF, splitSp, parseLine, parseSVerb, parseFVerb, validKey, CR, LF, SP]
  · rw [encodeStore_int]
    have : List.mapM (keyData {}) [((.bytes [] : Key.K), Val.bytes [120])] = .ok [([], [120])] := by rfl
    rw [this]
    simp [Except.map, storeCmd, sentFlags, intDec, natDec_lt, digitChar, noreplySfx, CRLF, SP]
  · simp [parseReq, findCRLF, splitSp, parseLine, parseSVerb, validKey, CR, LF, SP,
      splitNoreply, parseNat, parseInt, isDigit]

/-- Why `0 ≤ flags` is a hypothesis: `flags` is rendered with `str(flags)` without any check, so
`set(b"k", b"x", flags=-1)` is not rejected by the client and sends `set k -1 0 1\r\nx\r\n`, which the
strict parser rejects.  (Outside the property's "within the protocol's ranges" clause; recorded for
completeness.  The same holds for a negative `incr`/`decr` delta and `flush_all` delay.) -/
theorem C02_negative_flags_counterexample :
    encodeStore {} .set [(.bytes [107], .bytes [120])] (.int 0) false (some (-1)) 0 none =
      .ok [[115, 101, 116, 32, 107, 32, 45, 49, 32, 48, 32, 49, 13, 10, 120, 13, 10]] ∧
    ofString "set k -1 0 1\r\nx\r\n" =
      [115, 101, 116, 32, 107, 32, 45, 49, 32, 48, 32, 49, 13, 10, 120, 13, 10] ∧
    parseReq [115, 101, 116, 32, 107, 32, 45, 49, 32, 48, 32, 49, 13, 10, 120, 13, 10] = none := by
  refine ⟨?_, by rw [ofString_eq]; decide, ?_⟩
  · rw [encodeStore_int]
    have : List.mapM (keyData {}) [((.bytes [107] : Key.K), Val.bytes [120])] = .ok [([107], [120])] := by
      rfl
    rw [this]
    simp [Except.map, storeCmd, sentFlags, intDec, natDec_lt, digitChar, noreplySfx, CRLF, SP]
  · simp [parseReq, findCRLF, splitSp, parseLine, parseSVerb, validKey, CR, LF, SP,
      splitNoreply, parseNat, parseInt, isDigit]

/-! ## 7. no injection -/

/-- **A value cannot inject a command.**  For ANY data bytes — containing CR LF, complete commands,
the word `noreply`, anything — the encoded storage command followed by `rest` is consumed as exactly one
`store` request whose data block is `data`, and what is left is exactly `rest`.  In particular the command
alone parses (with `parseAll`, which rejects leftovers) as a single request: nothing inside `data` is
ever interpreted as a command. -/
theorem C02_value_cannot_inject (verb : SVerb) (key : Bytes) (flags expire : Int)
    (data : Bytes) (cas : Option Bytes) (noreply : Bool) (hk : validKey key = true) (hf : 0 ≤ flags)
    (hcv : cas.isSome ↔ verb = .cas)
    (hcw : ∀ c, cas = some c → c ≠ [] ∧ c.all isDigit = true) :
    (∀ rest, parseReq (storeCmd verb key flags expire data cas noreply ++ rest) =
      some (.store verb key flags.toNat expire data (cas.bind parseNat) noreply, rest)) ∧
    parseAll (storeCmd verb key flags expire data cas noreply).length
        (storeCmd verb key flags expire data cas noreply) =
      some [.store verb key flags.toNat expire data (cas.bind parseNat) noreply] := by
  have h : ∀ rest, parseReq (storeCmd verb key flags expire data cas noreply ++ rest) =
      some (.store verb key flags.toNat expire data (cas.bind parseNat) noreply, rest) := fun rest =>
    C02_parse_storeCmd verb key flags expire data cas noreply rest hk hf hcv hcw
  exact ⟨h, parseAll_single (parsesAs_of h)⟩
-- the classic payload: a value that contains a complete `set` command
example :
    parseAll (storeCmd .set [107] 0 0 (ofString "\r\nset x 0 0 8\r\nINJECTED\r\n") none false).length
        (storeCmd .set [107] 0 0 (ofString "\r\nset x 0 0 8\r\nINJECTED\r\n") none false) =
      some [.store .set [107] 0 0 (ofString "\r\nset x 0 0 8\r\nINJECTED\r\n") none false] :=
  (C02_value_cannot_inject .set [107] 0 0 _ none false (by decide) (by decide) (by decide) (by simp)).2

/-- **A key cannot inject a field or a command.**  A wire key accepted by `check_key` contains no space,
CR, LF (nor tab, VT, FF, NUL) and is at most 250 bytes long, so (when non-empty) it is a valid key for
the strict parser; and wherever it is placed between two spaces it is exactly one field of the line. -/
theorem C02_key_cannot_inject (cfg : Cfg) (k : Key.K) (w : Bytes) (h : checkKey cfg k = .ok w) :
    (∀ b ∈ w, b ≠ SP ∧ b ≠ CR ∧ b ≠ LF ∧ Key.forbidden b = false) ∧ w.length ≤ 250 ∧
    (w ≠ [] → validKey w = true) ∧
    (∀ pre post : Bytes, splitSp (pre ++ [SP] ++ w ++ [SP] ++ post) = splitSp pre ++ [w] ++ splitSp post) := by
  obtain ⟨enc, _, _, hl, hf⟩ := checkKey_legal h
  have hb : ∀ b ∈ w, b ≠ SP ∧ b ≠ CR ∧ b ≠ LF ∧ Key.forbidden b = false := by
    intro b hb
    have := hf b hb
    refine ⟨?_, ?_, ?_, this⟩ <;> (rintro rfl; revert this; decide)
  refine ⟨hb, hl, fun hne => checkKey_validKey h hne, ?_⟩
  intro pre post
  have : pre ++ [SP] ++ w ++ [SP] ++ post = pre ++ SP :: (w ++ SP :: post) := by simp
  rw [this, C02_splitSp_append_sp, C02_splitSp_append_sp, splitSp_token w (fun b hb' => (hb b hb').1)]
  simp
example : checkKey { pfx := [112, 58] } (.str [97]) = .ok [112, 58, 97] := by decide
example : checkKey {} (.bytes [97, 13, 10, 98]) = .error .illegalInput := by decide
end Wire
