import Pymc.Model.Stacks
import Pymc.Generated.Consts
/-!
# C16 — PooledClient, single-server HashClient and RetryingClient behave like Client

The tables in `Pymc/Generated/Consts.lean` are re-extracted from the source on every run (`inspect.signature`, the AST of
each `PooledClient` method and of `_create_client`, `HashClient.default_kwargs`), so the theorems below are re-checked
against what the code says *now*: a changed signature, a dropped argument or a constructor option that is no longer
passed on breaks them.

`C16_forwarding_preserves_binding` is the general statement about the model: a well-forwarded wrapper hands the inner
client exactly the caller's bound arguments.  The remaining theorems say that the current source is well-forwarded.
`RetryingClient` forwards through `__getattr__` with `*args, **kwargs` (nothing to tabulate); its attempts are C17's subject.
-/
namespace Stacks
open Generated

/-- the configuration options the property names, plus the connection options -/
def sharedOptions : List String :=
  ["key_prefix", "default_noreply", "encoding", "allow_unicode_keys", "serde", "connect_timeout", "timeout",
   "no_delay", "socket_module", "socket_keepalive", "tls_context"]

def toForward (e : String × String × List String × List (String × String)) : Forward := ⟨e.2.1, e.2.2.1, e.2.2.2⟩

/-- **C16**: every key-addressed method of `PooledClient` has exactly `Client`'s parameter list (names, order, defaults). -/
theorem C16_pooled_signatures_eq_client :
    ∀ m ∈ keyMethods, lookup pooledSigs m = lookup clientSigs m ∧ (lookup clientSigs m).isSome := by decide +kernel

/-- **C16**: every `PooledClient` method passes each of its parameters to the inner client's parameter of the same name
(positionally in `Client`'s order, or by keyword `name=name`) and calls the method of the same name. -/
theorem C16_pooled_forwarding_wellformed :
    ∀ m ∈ keyMethods,
      (match lookup clientSigs m, pooledForward.find? (·.1 = m) with
       | some s, some e => wellForwarded m s (toForward e)
       | _, _ => false) = true := by decide +kernel

/-- **C16**: every `HashClient` method accepts every call `Client` accepts, binding the explicit parameters the same
way and forwarding the rest through `*args`/`**kwargs`. -/
theorem C16_hash_signatures_compatible :
    ∀ m ∈ keyMethods,
      (match lookup hashSigs m, lookup clientSigs m with
       | some h, some c => hashCompatible h c
       | _, _ => false) = true := by decide +kernel

/-- **C16**: every shared constructor option of `PooledClient` reaches the clients it creates, unchanged
(`option=self.option` in `_create_client`). -/
theorem C16_pooled_ctor_forwards_shared_options :
    ∀ o ∈ sharedOptions, (o, "self." ++ o) ∈ pooledCreateClientKw := by decide +kernel

/-- **C16**: every shared constructor option of `HashClient` is in the `default_kwargs` handed to each per-server client,
with and without pooling. -/
theorem C16_hash_ctor_forwards_shared_options :
    ∀ o ∈ sharedOptions, o ∈ hashDefaultKwargs ∧ o ∈ hashPooledDefaultKwargs := by decide +kernel

/-- **C16**: `PooledClient`'s constructor accepts every option `Client`'s does. -/
theorem C16_pooled_ctor_accepts_client_options :
    ∀ o ∈ clientCtorParams, o ∈ pooledCtorParams := by decide +kernel

/-- the one deliberate difference: the pooled connections always raise (the pool must learn about failures) -/
theorem C16_pooled_inner_clients_always_raise : ("ignore_exc", "False") ∈ pooledCreateClientKw := by decide +kernel

example : lookup clientSigs "gats" =
    some [("key", "REQUIRED"), ("expire", "0"), ("default", "None"), ("cas_default", "None")] := by decide +kernel
example : bind [("key", "REQUIRED"), ("expire", "0"), ("default", "None")] ["k", "30"] [("default", "D")] =
    some [("key", "k"), ("expire", "30"), ("default", "D")] := by decide +kernel
end Stacks
