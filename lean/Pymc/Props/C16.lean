import Pymc.Model.Stacks
import Pymc.Generated.Consts
import Pymc.Proofs.Stacks
/-!
# C16 — PooledClient, single-server HashClient and RetryingClient behave like Client

The tables in `Pymc/Generated/Consts.lean` are re-extracted from the source on every run (`inspect.signature`, the AST of
each `PooledClient` method and of `_create_client`, `HashClient.default_kwargs`), so the theorems below are re-checked
against what the code says *now*: a changed signature, a dropped argument or a constructor option that is no longer
passed on breaks them.

`C16_forwarding_preserves_binding` is the general statement about the model: a well-forwarded wrapper hands the inner
client exactly the caller's bound arguments.  The remaining theorems say that the current source is well-forwarded.
`RetryingClient` forwards through `__getattr__` with `*args, **kwargs` (nothing to tabulate); its attempts are C17's subject.
-/
namespace Stacks
open Generated

/-- the configuration options the property names, plus the connection options -/
def sharedOptions : List String :=
  ["key_prefix", "default_noreply", "encoding", "allow_unicode_keys", "serde", "connect_timeout", "timeout",
   "no_delay", "socket_module", "socket_keepalive", "tls_context"]

def toForward (e : String × String × List String × List (String × String)) : Forward := ⟨e.2.1, e.2.2.1, e.2.2.2⟩

/-- **C16**: every key-addressed method of `PooledClient` has exactly `Client`'s parameter list (names, order, defaults). -/
theorem C16_pooled_signatures_eq_client :
    ∀ m ∈ keyMethods, lookup pooledSigs m = lookup clientSigs m ∧ (lookup clientSigs m).isSome := by decide +kernel

/-- **C16**: every `PooledClient` method passes each of its parameters to the inner client's parameter of the same name
(positionally in `Client`'s order, or by keyword `name=name`) and calls the method of the same name. -/
theorem C16_pooled_forwarding_wellformed :
    ∀ m ∈ keyMethods,
      (match lookup clientSigs m, pooledForward.find? (·.1 = m) with
       | some s, some e => wellForwarded m s (toForward e)
       | _, _ => false) = true := by decide +kernel

/-- **C16**: every `HashClient` method accepts every call `Client` accepts, binding the explicit parameters the same
way and forwarding the rest through `*args`/`**kwargs`. -/
theorem C16_hash_signatures_compatible :
    ∀ m ∈ keyMethods,
      (match lookup hashSigs m, lookup clientSigs m with
       | some h, some c => hashCompatible h c
       | _, _ => false) = true := by decide +kernel

/-- **C16**: every shared constructor option of `PooledClient` reaches the clients it creates, unchanged
(`option=self.option` in `_create_client`). -/
theorem C16_pooled_ctor_forwards_shared_options :
    ∀ o ∈ sharedOptions, (o, "self." ++ o) ∈ pooledCreateClientKw := by decide +kernel

/-- **C16**: every shared constructor option of `HashClient` is in the `default_kwargs` handed to each per-server client,
with and without pooling. -/
theorem C16_hash_ctor_forwards_shared_options :
    ∀ o ∈ sharedOptions, o ∈ hashDefaultKwargs ∧ o ∈ hashPooledDefaultKwargs := by decide +kernel

/-- **C16**: `PooledClient`'s constructor accepts every option `Client`'s does. -/
theorem C16_pooled_ctor_accepts_client_options :
    ∀ o ∈ clientCtorParams, o ∈ pooledCtorParams := by decide +kernel

/-- the one deliberate difference: the pooled connections always raise (the pool must learn about failures) -/
theorem C16_pooled_inner_clients_always_raise : ("ignore_exc", "False") ∈ pooledCreateClientKw := by decide +kernel

/-! ## the general statement about the model -/

/-- **C16** (binding is total on the signature): a call that binds gives every parameter of the signature exactly one
value, in signature order — the caller's positional or keyword argument, or `default:<the signature's default>`. -/
theorem C16_binding_covers_all_params (s : Sig) (pos : List String) (kw : List (String × String))
    (b : List (String × String)) (hb : bind s pos kw = some b) : b.map (·.1) = s.map (·.1) :=
  bind_names s pos kw b hb

/-- **C16** (general forwarding theorem, for ALL signatures, forwarding entries and calls): if the wrapper method `m`
with signature `s` forwards well (`wellForwarded`: it calls the method of the same name, passes its parameters
positionally in signature order and then by keyword `name=name`, all of them, and the signature has distinct plain
parameters), and the caller's arguments `pos`, `kw` bind to `b`, then the arguments the inner `Client` method (same
signature `s`) receives exist (`innerArgs` finds every value) and bind to exactly the same `b`: every parameter gets the
caller's value, or the same default. -/
theorem C16_forwarding_preserves_binding (m : String) (s : Sig) (f : Forward) (pos : List String)
    (kw : List (String × String)) (b : List (String × String))
    (hw : wellForwarded m s f = true) (hb : bind s pos kw = some b) :
    ∃ ip ik, innerArgs f b = some (ip, ik) ∧ bind s ip ik = some b :=
  forwarding_preserves_binding m s f pos kw b hw hb

/-- `Client`'s signature of a method, and `PooledClient`'s forwarding entry for it, from the generated tables -/
def clientSig (m : String) : Sig := (lookup clientSigs m).getD []
def pooledFwd (m : String) : Forward := ((pooledForward.find? (·.1 = m)).map toForward).getD ⟨"", [], []⟩

/-- **C16** (the theorem on the current source): for every key-addressed method `m`, whatever arguments a caller gives
`PooledClient.m` — if they are valid for `Client.m` and bind to `b` there, then they are valid for `PooledClient.m` and bind
to `b` (same signature), and the call `PooledClient.m` makes on the pooled `Client` is to the method `m` with arguments that
bind to that same `b`. -/
theorem C16_pooled_calls_bind_like_client :
    ∀ m ∈ keyMethods, ∀ (pos : List String) (kw b : List (String × String)),
      bind (clientSig m) pos kw = some b →
      lookup pooledSigs m = some (clientSig m) ∧ (pooledFwd m).target = m ∧
      ∃ ip ik, innerArgs (pooledFwd m) b = some (ip, ik) ∧ bind (clientSig m) ip ik = some b := by
  intro m hm pos kw b hb
  have hsig := C16_pooled_signatures_eq_client m hm
  have hwf := C16_pooled_forwarding_wellformed m hm
  obtain ⟨s, hs⟩ := Option.isSome_iff_exists.mp hsig.2
  have hcs : clientSig m = s := by simp [clientSig, hs]
  rw [hs] at hwf
  cases he : pooledForward.find? (·.1 = m) with
  | none => simp [he] at hwf
  | some e =>
    rw [he] at hwf
    have hfw : pooledFwd m = toForward e := by simp [pooledFwd, he]
    have hwf' : wellForwarded m s (toForward e) = true := hwf
    subst hcs
    rw [hfw]
    refine ⟨hsig.1.trans hs, ?_, C16_forwarding_preserves_binding m _ _ pos kw b hwf' hb⟩
    simp only [wellForwarded, Bool.and_eq_true, decide_eq_true_eq] at hwf'
    exact hwf'.1.1.1.1

/-- non-vacuity: `gats("k", 30, cas_default="C")` on the pooled client: `key`, `expire` go positionally, the others by
keyword, and the inner call binds as the outer one did -/
example :
    bind (clientSig "gats") ["k", "30"] [("cas_default", "C")] =
      some [("key", "k"), ("expire", "30"), ("default", "default:None"), ("cas_default", "C")] ∧
    innerArgs (pooledFwd "gats") [("key", "k"), ("expire", "30"), ("default", "default:None"), ("cas_default", "C")] =
      some (["k", "30", "default:None", "C"], []) := by decide +kernel
/-- without `Nodup` the general theorem is false: with a repeated parameter name the second copy is unreachable -/
example : bind [("a", "REQUIRED"), ("a", "1")] ["x", "y"] [] = some [("a", "x"), ("a", "y")] ∧
    innerArgs ⟨"m", ["a", "a"], []⟩ [("a", "x"), ("a", "y")] = some (["x", "x"], []) := by decide +kernel

example : lookup clientSigs "gats" =
    some [("key", "REQUIRED"), ("expire", "0"), ("default", "None"), ("cas_default", "None")] := by decide +kernel
example : bind [("key", "REQUIRED"), ("expire", "0"), ("default", "None")] ["k", "30"] [("default", "D")] =
    some [("key", "k"), ("expire", "30"), ("default", "D")] := by decide +kernel
end Stacks
