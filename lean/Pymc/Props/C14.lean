import Pymc.Proofs.Murmur3Main
/-!
# C14 — murmur3_32 equals the reference MurmurHash3 x86_32

Model: `Murmur.murmurPy` (Pymc/Model/Murmur3.lean) transliterates pymemcache/client/murmur3.py on
unbounded naturals (masks only before right shifts, un-masked fourth byte).  Specification:
`Murmur.murmurRef`, Appleby's MurmurHash3_x86_32 on `BitVec 32`, itself validated in the kernel by the
SMHasher verification value and published vectors below.

The block loop of the Python code uses `length & 0xFFFFFFFC`; the model consumes 4-byte blocks while at
least four code points remain.  The two agree for strings shorter than 2^32 code points (longer strings
cannot be built in CPython on this platform before memory runs out; stated in the trusted base).
-/
namespace Murmur

/-- C14 (main): for every string of code points 0..255 (any length) and every seed, the Python
arithmetic yields exactly MurmurHash3_x86_32 of those bytes with the seed taken modulo 2^32. -/
theorem C14_murmurPy_eq_ref (data : List Nat) (seed : Nat) (hb : ∀ c ∈ data, c < 256) :
    murmurPy data seed = (murmurRef (data.map (BitVec.ofNat 8)) (BitVec.ofNat 32 seed)).toNat :=
  murmurPy_eq_ref data seed hb

/-- C14 (range): for *any* string (arbitrary code points) and any seed the result is a 32-bit value. -/
theorem C14_murmurPy_lt (data : List Nat) (seed : Nat) : murmurPy data seed < 2 ^ 32 :=
  murmurPy_lt data seed

/-- C14 (determinism is definitional: `murmurPy` is a function); stated for the record: equal
inputs give equal outputs, independent of anything else. -/
theorem C14_deterministic (d₁ d₂ : List Nat) (s₁ s₂ : Nat) (hd : d₁ = d₂) (hs : s₁ = s₂) :
    murmurPy d₁ s₁ = murmurPy d₂ s₂ := by subst hd hs; rfl

/-! ## the reference really is MurmurHash3_x86_32: SMHasher verification value, in the kernel -/
def le4 (w : W) : List (BitVec 8) :=
  [w.truncate 8, (w >>> 8).truncate 8, (w >>> 16).truncate 8, (w >>> 24).truncate 8]
def smhasher : W :=
  let keys : List (BitVec 8) := (List.range 256).map (BitVec.ofNat 8)
  let hashes := (List.range 256).flatMap fun i =>
    le4 (murmurRef (keys.take i) (BitVec.ofNat 32 (256 - i)))
  murmurRef hashes 0#32

/-- SMHasher's VerificationTest for MurmurHash3_x86_32 expects 0xB0F57EE3. -/
theorem C14_smhasher_verification : smhasher = 0xB0F57EE3#32 := by decide +kernel

def ascii (s : String) : List (BitVec 8) := s.toList.map fun c => BitVec.ofNat 8 c.toNat

/-- published vectors -/
theorem C14_vectors :
    murmurRef [] 0#32 = 0#32 ∧
    murmurRef [] 1#32 = 0x514E28B7#32 ∧
    murmurRef [] 0xffffffff#32 = 0x81F16F39#32 ∧
    murmurRef (ascii "Hello, world!") 0x9747b28c#32 = 0x24884CBA#32 ∧
    murmurRef (ascii "The quick brown fox jumps over the lazy dog") 0x9747b28c#32 = 0x2FA826CD#32 ∧
    murmurRef (ascii "aaaa") 0x9747b28c#32 = 0x5A97808A#32 ∧
    murmurRef (ascii "abc") 0#32 = 0xB3DD93FA#32 := by decide +kernel

/-- the values pinned by the repo's own test (`'6666'` → 1361238019 with seed 0, 3810631968 with seed 1) -/
theorem C14_repo_pinned :
    murmurPy ("6666".toList.map Char.toNat) 0 = 1361238019 := by decide +kernel

/-- non-vacuity: a concrete non-trivial input satisfies the byte hypothesis of the main theorem and
exercises blocks, tail and high bits. -/
example : (∀ c ∈ [0xff, 0x80, 0x7f, 0, 1, 0xfe, 0x81], c < 256) ∧
    murmurPy [0xff, 0x80, 0x7f, 0, 1, 0xfe, 0x81] 0xffffffff =
      (murmurRef ([0xff, 0x80, 0x7f, 0, 1, 0xfe, 0x81].map (BitVec.ofNat 8)) 0xffffffff#32).toNat := by
  decide +kernel

end Murmur
