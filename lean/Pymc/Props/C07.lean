import Pymc.Proofs.IgnoreExcServer
import Pymc.Proofs.Reconnect
/-!
# C07 — with `ignore_exc`, every failure of a read is a miss

Model: `Client.call cfg ignoreExc sockOpen c sc` (Pymc/Model/Client.lean over Exchange.lean): one public operation of
`Client` over an explicit script `sc` of what the connection does during the call — `connectFails` (outcome of
`_connect()` when the client is closed), `sendFails` (outcome of `sendall`), `evs` (the results of the `recv()` calls:
data of any content and chunking, end-of-stream, `EINTR`, socket errors).  Every server failure (error lines, garbage,
truncated or malformed replies, a close in the middle of a value) and every network failure is such a script.
`Client.isRead` / `Client.missRes` (Pymc/Model/Miss.lean): the read operations and what each returns for a miss.
`isRead` is "goes through `_fetch_cmd`", the one place where `ignore_exc` is looked at: the six cache reads, and also the
administrative `stats` (miss value `{}`) and `cache_memlimit` (miss value `True` — the value it also returns on success,
so with `ignore_exc` a failed `cache_memlimit` is indistinguishable from a successful one).  `shutdown` is outside.
`Framing.sends cfg c` says that the arguments of `c` pass validation and the call goes to the wire (it is `false` for an
illegal key / non-integer `expire`, and for `get_many([])`, which returns `{}` without I/O).

The theorems are for every configuration, every key, every script — no bound on anything.

* `C07_ignore_exc_never_raises`: a read with `ignore_exc` returns normally, except for the argument error raised before
  any I/O (not a server or network failure) and for `BaseException`s (`KeyboardInterrupt`, …, which must propagate: C10).
* `C07_ignore_exc_is_miss`: whenever the same call without `ignore_exc` raises an `Exception` from the connection, with
  `ignore_exc` it returns exactly `missRes c`, and the socket is closed.
* `C07_ignore_exc_transparent_on_success` / `C07_ignore_exc_only_swallows`: otherwise the flag changes nothing.
* `C07_miss_on_healthy_empty_server`: `missRes c` is what the call returns from a healthy server that stores nothing.
* `C07_next_call_reconnects`: "afterwards the client is still usable".

Not covered: `PooledClient` / `HashClient` set `ignore_exc` on their own level (C16 records that the pooled inner clients
are created with `ignore_exc=False`); the `default` / `cas_default` values are the symbolic `Res.dflt` / `Res.dfltPair`.
-/
namespace C07
open Bytes Readers Wire Exchange Client Framing C07Examples

/-- **C07** (never raises).  For every read operation, configuration, socket state and behaviour of the connection, the
call with `ignore_exc` (1) returns normally, or (2) raises `MemcacheIllegalInputError` for its arguments — then nothing
was sent, the socket is as before, and the arguments are rejected whatever the connection does (`sends cfg c = false`) —,
or (3) raises a `BaseException` that the socket layer raised (never swallowed: C10). -/
theorem C07_ignore_exc_never_raises (cfg : Cfg) (sockOpen : Bool) (c : Call) (sc : Script)
    (hr : isRead c = true) :
    (∃ r, (Client.call cfg true sockOpen c sc).res = .ok r) ∨
    ((Client.call cfg true sockOpen c sc).res = .error .illegalInput ∧
      (Client.call cfg true sockOpen c sc).sent = none ∧
      (Client.call cfg true sockOpen c sc).sockOpen = sockOpen ∧ sends cfg c = false) ∨
    (∃ e, (Client.call cfg true sockOpen c sc).res = .error e ∧ isBaseExc e = true) :=
  call_ie_never_raises cfg sockOpen c sc hr

/-- **C07** (every failure is a miss).  If the arguments are legal (`sends cfg c`) and the call *without* `ignore_exc`
raises an exception `e` that is not a `BaseException` — connect failure, send failure, any receive failure,
end-of-stream, `ERROR` / `CLIENT_ERROR` / `SERVER_ERROR`, an unparseable or unexpected reply —, then the call *with*
`ignore_exc` returns exactly what it returns for a miss: `default` (`get`, `gat`), `(default, cas_default)`
(`gets`, `gats`), `{}` (`get_many`, `gets_many`, `stats`), `True` (`cache_memlimit`).  The broken connection is closed (`sockOpen = false`), so the next call
connects anew; what was sent and what is left unread are as without the flag. -/
theorem C07_ignore_exc_is_miss (cfg : Cfg) (sockOpen : Bool) (c : Call) (sc : Script) (e : Exc)
    (hr : isRead c = true) (hlegal : sends cfg c = true)
    (he : (Client.call cfg false sockOpen c sc).res = .error e) (hb : isBaseExc e = false) :
    (Client.call cfg true sockOpen c sc).res = .ok (missRes c) ∧
    (Client.call cfg true sockOpen c sc).sockOpen = false ∧
    (Client.call cfg true sockOpen c sc).sent = (Client.call cfg false sockOpen c sc).sent ∧
    (Client.call cfg true sockOpen c sc).connected = (Client.call cfg false sockOpen c sc).connected ∧
    (Client.call cfg true sockOpen c sc).unread = (Client.call cfg false sockOpen c sc).unread := by
  rw [call_ie_miss cfg sockOpen c sc hr hlegal e he hb]
  exact ⟨rfl, rfl, rfl, rfl, rfl⟩

/-- **C07** (the same, with the hypothesis on the exception instead of on the arguments): any exception other than
`MemcacheIllegalInputError` and the `BaseException`s becomes a miss. -/
theorem C07_ignore_exc_is_miss_of_not_illegal (cfg : Cfg) (sockOpen : Bool) (c : Call) (sc : Script) (e : Exc)
    (hr : isRead c = true) (he : (Client.call cfg false sockOpen c sc).res = .error e)
    (hne : e ≠ .illegalInput) (hb : isBaseExc e = false) :
    (Client.call cfg true sockOpen c sc).res = .ok (missRes c) ∧
    (Client.call cfg true sockOpen c sc).sockOpen = false :=
  have h := C07_ignore_exc_is_miss cfg sockOpen c sc e hr (sends_of_error cfg false sockOpen c sc hr e he hne) he hb
  ⟨h.1, h.2.1⟩

/-- **C07** (transparent on success): a call that returns normally without `ignore_exc` has exactly the same outcome
with it — result, socket state, bytes sent, bytes left unread. -/
theorem C07_ignore_exc_transparent_on_success (cfg : Cfg) (sockOpen : Bool) (c : Call) (sc : Script) (r : Res)
    (h : (Client.call cfg false sockOpen c sc).res = .ok r) :
    (Client.call cfg true sockOpen c sc).res = .ok r ∧
    (Client.call cfg true sockOpen c sc).sockOpen = (Client.call cfg false sockOpen c sc).sockOpen ∧
    (Client.call cfg true sockOpen c sc).sent = (Client.call cfg false sockOpen c sc).sent ∧
    (Client.call cfg true sockOpen c sc).connected = (Client.call cfg false sockOpen c sc).connected ∧
    (Client.call cfg true sockOpen c sc).unread = (Client.call cfg false sockOpen c sc).unread := by
  rw [call_ie_same cfg sockOpen c sc (.inl ⟨r, h⟩)]
  exact ⟨h, rfl, rfl, rfl, rfl⟩

/-- **C07** (nothing else is touched): `ignore_exc` changes the outcome of a call *only* when a read operation with
legal arguments fails with an ordinary exception; in every other case — any other operation, a normal return, an
argument error, a `BaseException` — the whole outcome is identical. -/
theorem C07_ignore_exc_only_swallows (cfg : Cfg) (sockOpen : Bool) (c : Call) (sc : Script)
    (h : Client.call cfg true sockOpen c sc ≠ Client.call cfg false sockOpen c sc) :
    isRead c = true ∧ sends cfg c = true ∧
    ∃ e, (Client.call cfg false sockOpen c sc).res = .error e ∧ isBaseExc e = false := by
  cases hres : (Client.call cfg false sockOpen c sc).res with
  | ok r => exact absurd (call_ie_same cfg sockOpen c sc (.inl ⟨r, hres⟩)) h
  | error e =>
    cases hb : isBaseExc e with
    | true => exact absurd (call_ie_same cfg sockOpen c sc (.inr ⟨e, hres, hb⟩)) h
    | false =>
      have hr : isRead c = true := by
        cases hr : isRead c with
        | true => rfl
        | false =>
          exfalso; apply h
          cases c <;> first | rfl | simp [isRead] at hr
      refine ⟨hr, ?_, e, rfl, hb⟩
      cases hs : sends cfg c with
      | true => rfl
      | false =>
        exfalso; apply h
        rcases readShape cfg c hr with hcall | hcall | ⟨kind, cmd, wanted, g, -, hcall⟩
        · rw [hcall, hcall]
        · rw [hcall, hcall]
        · rw [sends_of_fetch hcall] at hs; cases hs

/-- **C07** (`missRes` is the miss): over a perfect connection to the reference server (`Client.onServer`, the
composition client ∘ wire ∘ server of C05) in any state that stores nothing — whatever its clock, cas counter or pending
delayed flush —, every read operation with legal arguments (`sends`) and under C05's side condition `WF` (no key with an
empty wire form) returns `missRes c`, and the socket stays open with nothing unread.  So "the value returned for a
failure" and "the value returned for a miss" are the same value. -/
theorem C07_miss_on_healthy_empty_server (cfg : Cfg) (s : AbsMap.St) (c : Call) (hwf : WF cfg c)
    (hr : isRead c = true) (hempty : s.items = []) (hlegal : sends cfg c = true) :
    Client.onServer cfg s c = (AbsMap.settle s, .ok (missRes c), true) :=
  onServer_read_empty cfg s c hwf hr hempty hlegal

/-- **C07** (`get_many([])` / `gets_many([])`): the only legal reads that do not go to the wire return the empty dict
without touching the connection, with and without `ignore_exc`. -/
theorem C07_empty_key_list_no_io (cfg : Cfg) (ie sockOpen : Bool) (sc : Script) :
    Client.call cfg ie sockOpen (.getMany []) sc = ⟨.ok (missRes (.getMany [])), sockOpen, false, none, sc.evs⟩ ∧
    Client.call cfg ie sockOpen (.getsMany []) sc = ⟨.ok (missRes (.getsMany [])), sockOpen, false, none, sc.evs⟩ :=
  ⟨rfl, rfl⟩

/-- **C07** (still usable): after a swallowed failure the client is closed (`C07_ignore_exc_is_miss`); its next call —
any operation `c'` that goes to the wire — connects anew (`connected = true`) and, when that connect succeeds, has the
result, bytes sent, bytes left and socket state of a connected client with an empty pipe.  Nothing of the failed call
survives: the next call's outcome does not mention `c`, `sc` or `e`. -/
theorem C07_next_call_reconnects (cfg : Cfg) (sockOpen : Bool) (c : Call) (sc : Script) (e : Exc)
    (hr : isRead c = true) (hlegal : sends cfg c = true)
    (he : (Client.call cfg false sockOpen c sc).res = .error e) (hb : isBaseExc e = false)
    (ie' : Bool) (c' : Call) (sc' : Script) (hconn : sc'.connectFails = none) (hs' : sends cfg c' = true) :
    Client.call cfg ie' (Client.call cfg true sockOpen c sc).sockOpen c' sc' =
      { Client.call cfg ie' true c' sc' with connected := true } := by
  rw [(C07_ignore_exc_is_miss cfg sockOpen c sc e hr hlegal he hb).2.1]
  exact call_reconnect cfg ie' c' sc' hconn hs'

/-! ## non-vacuity -/
section examples
/-- the server answers `ERROR`: without the flag `get` raises `MemcacheUnknownCommandError`; the hypotheses of
`C07_ignore_exc_is_miss` hold, so with the flag `get` returns the default and the socket is closed -/
example :
    (Client.call {} false true (.get (.bytes [107])) { evs := [.data [69, 82, 82, 79, 82, 13, 10]] }).res
      = .error .unknownCommand ∧
    (Client.call {} true true (.get (.bytes [107])) { evs := [.data [69, 82, 82, 79, 82, 13, 10]] }).res = .ok .dflt ∧
    (Client.call {} true true (.get (.bytes [107])) { evs := [.data [69, 82, 82, 79, 82, 13, 10]] }).sockOpen
      = false := by
  have he : (Client.call {} false true (.get (.bytes [107])) { evs := [.data [69, 82, 82, 79, 82, 13, 10]] }).res
      = .error .unknownCommand := by
    simp only [Client.call, fetchValues, h1, h2]
    simp [mapOut, exchangeFetch, totalLen, joinData, fetchLoop, readline, findCRLF, CR, LF, raiseErrors, startsWith]
  have := C07_ignore_exc_is_miss {} true (.get (.bytes [107])) _ _ rfl hsends he rfl
  exact ⟨he, this.1, this.2.1⟩

/-- the connection cannot be established (`ConnectionRefusedError`): `gets` returns `(default, cas_default)` -/
example :
    (Client.call {} false false (.gets (.bytes [107])) { connectFails := some (.sock 61) }).res = .error (.sock 61) ∧
    (Client.call {} true false (.gets (.bytes [107])) { connectFails := some (.sock 61) }).res = .ok .dfltPair := by
  have he : (Client.call {} false false (.gets (.bytes [107])) { connectFails := some (.sock 61) }).res
      = .error (.sock 61) := by
    have h2' : encodeFetch {} .gets [Key.K.bytes [107]] none = .ok [103, 101, 116, 115, 32, 107, 13, 10] := by
      with_unfolding_all rfl
    simp only [Client.call, fetchValues, h1, h2']
    simp [mapOut, exchangeFetch]
  exact ⟨he, (C07_ignore_exc_is_miss_of_not_illegal {} false (.gets (.bytes [107])) _ _ rfl he (by simp)
    (by decide)).1⟩

/-- `stats` is one of the operations `ignore_exc` is about (it goes through `_fetch_cmd`): the server answers `ERROR`;
without the flag `stats()` raises `MemcacheUnknownCommandError`, with the flag it returns `{}` (`missRes`), socket closed -/
example :
    (Client.call {} false true (.stats []) { evs := [.data [69, 82, 82, 79, 82, 13, 10]] }).res
      = .error .unknownCommand ∧
    (Client.call {} true true (.stats []) { evs := [.data [69, 82, 82, 79, 82, 13, 10]] }).res = .ok (.stats []) ∧
    (Client.call {} true true (.stats []) { evs := [.data [69, 82, 82, 79, 82, 13, 10]] }).sockOpen = false := by
  have he : (Client.call {} false true (.stats []) { evs := [.data [69, 82, 82, 79, 82, 13, 10]] }).res
      = .error .unknownCommand := by with_unfolding_all rfl
  have := C07_ignore_exc_is_miss {} true (.stats []) _ _ rfl (by with_unfolding_all decide) he rfl
  exact ⟨he, this.1, this.2.1⟩

/-- so is `cache_memlimit`, whose "miss value" is `True`: the connection is refused; without the flag the call raises,
with the flag it returns `True` — exactly what it returns when the server accepted the new limit -/
example :
    (Client.call {} false false (.cacheMemlimit (.int 64)) { connectFails := some (.sock 61) }).res
      = .error (.sock 61) ∧
    (Client.call {} true false (.cacheMemlimit (.int 64)) { connectFails := some (.sock 61) }).res
      = .ok (.bool true) ∧
    (Client.call {} true true (.cacheMemlimit (.int 64)) { evs := [.data [79, 75, 13, 10]] }).res
      = .ok (.bool true) := by
  have he : (Client.call {} false false (.cacheMemlimit (.int 64)) { connectFails := some (.sock 61) }).res
      = .error (.sock 61) := by with_unfolding_all rfl
  exact ⟨he, (C07_ignore_exc_is_miss_of_not_illegal {} false (.cacheMemlimit (.int 64)) _ _ rfl he (by simp)
    (by decide)).1, by with_unfolding_all rfl⟩

/-- `shutdown` is not: it goes through `_misc_cmd`, which never looks at the flag (`C07_ignore_exc_only_swallows`) -/
example (sc : Script) (so : Bool) :
    Client.call {} true so (.shutdown false) sc = Client.call {} false so (.shutdown false) sc := rfl

/-- the third alternative of `C07_ignore_exc_never_raises` occurs: a `KeyboardInterrupt` inside `recv()` propagates -/
example : (Client.call {} true true (.get (.bytes [107])) { evs := [.err 100] }).res = .error (.sock 100) := by
  simp only [Client.call, fetchValues, h1, h2]
  simp [mapOut, exchangeFetch, totalLen, joinData, fetchLoop, readline, findCRLF, isBaseExc, ofReaderErr]

/-- the second alternative occurs: a key with a space is rejected before any I/O, also with `ignore_exc` -/
example : (Client.call {} true true (.get (.bytes [97, 32, 98])) { evs := [.err 5] }) =
    ⟨.error .illegalInput, true, false, none, [.err 5]⟩ := by
  have : [Key.K.bytes [97, 32, 98]].mapM (checkKey {}) = .error .illegalInput := by with_unfolding_all rfl
  simp only [Client.call, fetchValues, this]
  simp [mapOut, early]

/-- `C07_miss_on_healthy_empty_server` applies: `get k` on the empty reference server -/
example : Client.onServer {} {} (.get (.bytes [107])) = (({} : AbsMap.St), .ok .dflt, true) :=
  C07_miss_on_healthy_empty_server {} {} (.get (.bytes [107]))
    (by intro h; have : checkKey {} (.bytes [107]) = .ok [107] := by decide
        rw [this] at h; cases h) rfl rfl hsends
end examples
end C07
