import Pymc.Proofs.PooledRun
import Pymc.Proofs.PooledCallExamples
import Pymc.Proofs.HashPooledCallExamples
import Pymc.Proofs.HashPooledCallManyExamples
import Pymc.Proofs.PoolConcTimedReuse
/-!
# C09 — sequential use of the connection pool by `PooledClient`

Property text: "For every sequence of PooledClient operations and connection faults, a connection on which
a call failed is closed and never handed out again, a healthy one is reused rather than reopened (until it
has been idle longer than pool_idle_timeout, after which it is closed and never reused), and once each call
has returned or raised the number of checked-out connections is back to zero, so ordinary failures can never
exhaust max_pool_size."

Model: `Pymc/Model/Pooled.lean` (`pymemcache/pool.py` 63–120 under the
`get_and_release(destroy_on_fail=True)` bracket of every `PooledClient` method, `base.py` 1467–1661).

Reading the statements.  A timed history is `evs : List (Nat × Nat × Body)`: call number `i` (0-based) checks
its client out (`get`) at time `evs[i].1`, its body behaves as `evs[i].2.2`, and the client is handed back
(`release`, which stamps `_last_used`) at time `evs[i].2.1`.  All theorems are about runs from the empty pool:
* `(runT cfg {} (evs.take n)).1` is the pool state after the first `n` calls have returned or raised
  (`n = 0`: initial state; `n ≥ evs.length`: final state), i.e. also the state *before* call number `n`;
* `(runT cfg {} evs).2[i]?` is the observation of call number `i`: which pooled client served it and on which
  connection (socket) its commands were sent.
(`Pooled.runT_take_succ`, `Pooled.runT_obs` in `Pymc/Proofs/PooledRun.lean` relate both to `callT`.)
The `…T` theorems are the general ones; the theorems without the suffix are their specialisation to
instantaneous calls (`run`, histories `List (Nat × Body)`, release time = checkout time), obtained through
`Pooled.run_eq_runT : run cfg s evs = runT cfg s (evs.map lift)`.

The theorems hold for ALL histories; none except `C09_time_monotone_lastUsed(T)` needs any chronology (the
model's truncated subtraction treats a clock that went backwards as "not idle", exactly as Python's
`now - last_used <= idle_timeout` does with a negative difference).  The hypothesis `1 ≤ cfg.maxSize` is
needed only where a call must obtain a client (Python's effective `max_size` is ≥ 1: `max_size or 2**31`).

The inductive invariant is `Pooled.Inv` (`Pymc/Proofs/PooledInv.lean`): no client checked out, at most one
free client, `closed` duplicate-free and below `nextConn`, a free client's connection is allocated and not
closed, every allocated connection is closed or held by a free client, free client ids below `nextClient`.

Nothing had to be weakened.  Remarks on what the exact truth is:
* reuse after `ok` happens iff `idleTimeout = 0 ∨ t2 - fin1 ≤ idleTimeout`, where `fin1` is the RELEASE time
  of the earlier call and `t2` the checkout time of the later one — how long the earlier call took is
  irrelevant (both directions proved:
  `C09_healthy_reused`, `C09_idle_expired_closed`); the reused connection carries the next call unless that
  call is `rejected` (illegal input, raised before any I/O: `io = none`) — and a `rejected` call *closes the
  healthy connection* its client held (`C09_rejected_conn_closed`), because `destroy_on_fail` does not
  distinguish why the with-block raised;
* after `failSwallowed` (a read method under `ignore_exc`) the pooled *client object* goes back to the free
  list and is reused, but its connection is closed and never used again (`C09_failed_conn_never_reused`).
-/
namespace Pooled

section timed
variable (cfg : Cfg) (evs : List (Nat × Nat × Body))

/-- C09 (invariant, initial state).  The empty pool satisfies `Inv`. -/
theorem C09_inv_init : Inv {} := inv_init

/-- C09 (invariant, preservation).  One `PooledClient` call, whatever its time and outcome, and whatever
`max_pool_size` and `pool_idle_timeout` are, preserves `Inv`. -/
theorem C09_inv_preservedT (s : St) (now fin : Nat) (b : Body) (h : Inv s) : Inv (callT cfg s now fin b).1 :=
  inv_callT now fin b h

/-- non-vacuity of `C09_inv_preservedT`: `Inv` holds of a state with an idle client holding an open
connection and two closed connections. -/
example : Inv ⟨[⟨4, some 2, 7⟩], [], 5, 3, [1, 0]⟩ := by
  constructor <;> simp <;> omega

/-- C09 (invariant, reachability).  `Inv` holds after every call of every run from the empty pool. -/
theorem C09_inv_reachableT (n : Nat) : Inv (runT cfg {} (evs.take n)).1 := inv_at evs n

/-- C09 (1).  After every call of a run from the empty pool — hence also before every call — no client is
checked out: the number of checked-out connections is back to zero whether the call returned or raised. -/
theorem C09_used_zero_after_callT (n : Nat) : (runT cfg {} (evs.take n)).1.used = [] :=
  (inv_at evs n).used_nil

/-- C09 (auxiliary).  In sequential use the free list never holds more than one client (so the FIFO order
of `popleft` is immaterial). -/
theorem C09_free_at_most_oneT (n : Nat) : (runT cfg {} (evs.take n)).1.free.length ≤ 1 :=
  (inv_at evs n).free_le

/-- C09 (2).  With `max_pool_size ≥ 1`, `get` succeeds at every point of every run, at whatever time it is
called, and so every call of the run is served by a pooled client: the "Too many objects" branch
(`client = none`) is never taken, however many calls failed before. -/
theorem C09_never_exhaustsT (hmax : 1 ≤ cfg.maxSize) :
    (∀ n now, (get cfg (runT cfg {} (evs.take n)).1 now).2.isSome) ∧
    (∀ o ∈ (runT cfg {} evs).2, o.client.isSome) := by
  have hm : cfg.maxSize ≠ 0 := by omega
  refine ⟨fun n now => ((callT_facts now now .ok (inv_at evs n)).2.2.2.2.2.2.1 hm).1, fun o ho => ?_⟩
  obtain ⟨i, hi⟩ := List.mem_iff_getElem?.mp ho
  obtain ⟨now, fin, b, -, rfl⟩ := runT_obs_inv hi
  exact ((callT_facts now fin b (inv_at evs i)).2.2.2.2.2.2.1 hm).2

/-- non-vacuity of `C09_never_exhaustsT`: a pool of size 1 serves three failing calls and a good one, each
with a new client; the hypothesis is needed (a pool of size 0 serves nobody). -/
example : ((runT ⟨1, 5⟩ {} [(0, 1, .fail true), (1, 1, .quitFail false), (2, 9, .rejected), (9, 9, .ok)]).2.map
      (·.client) = [some 0, some 1, some 2, some 3]) ∧
    (runT ⟨0, 5⟩ {} [(0, 0, .ok)]).2 = [{ client := none, io := none }] := by decide

/-- C09 (3, general form).  Once a connection is closed it stays closed, no free client holds it, and no
later call of the run sends anything on it. -/
theorem C09_closed_conn_never_usedT (n k : Nat) (hk : k ∈ (runT cfg {} (evs.take n)).1.closed) :
    (∀ m, n ≤ m → k ∈ (runT cfg {} (evs.take m)).1.closed ∧
      ∀ c ∈ (runT cfg {} (evs.take m)).1.free, c.conn ≠ some k) ∧
    (∀ j o, n ≤ j → (runT cfg {} evs).2[j]? = some o → o.io ≠ some k) := by
  refine ⟨fun m hm => ?_, fun j o hj ho => closed_never_io inv_init evs hj hk ho⟩
  have hkm := closed_mono inv_init evs hm hk
  exact ⟨hkm, fun c hc hck => (inv_at evs m).free_not_closed c hc k hck hkm⟩

/-- non-vacuity of `C09_closed_conn_never_usedT`: connection 0 is closed after the first call of this run. -/
example : 0 ∈ (runT ⟨1, 5⟩ {} ([(0, 0, Body.fail true), (1, 2, .ok)].take 1)).1.closed := by decide

/-- C09 (3).  If call number `i` sent its commands on connection `k` and its body raised — whether the
exception propagated (`fail`), was swallowed by a read method under `ignore_exc` (`failSwallowed`) or came
from `quit` (`quitFail`) — or was a successful `quit`, then from the moment the call is over `k` is closed,
no free client holds it, and no later call of the run uses it. -/
theorem C09_failed_conn_never_reusedT (i now fin : Nat) (b : Body) (o : CallObs) (k : Nat)
    (he : evs[i]? = some (now, fin, b))
    (hb : (∃ c, b = .fail c) ∨ (∃ c, b = .failSwallowed c) ∨ b = .quitOk ∨ (∃ c, b = .quitFail c))
    (ho : (runT cfg {} evs).2[i]? = some o) (hio : o.io = some k) :
    (∀ n, i < n → k ∈ (runT cfg {} (evs.take n)).1.closed ∧
      ∀ c ∈ (runT cfg {} (evs.take n)).1.free, c.conn ≠ some k) ∧
    (∀ j o', i < j → (runT cfg {} evs).2[j]? = some o' → o'.io ≠ some k) := by
  have hne : b ≠ .ok := by
    rcases hb with ⟨c, rfl⟩ | ⟨c, rfl⟩ | rfl | ⟨c, rfl⟩ <;> simp
  rw [runT_obs he] at ho
  obtain rfl := Option.some.inj ho
  have hk : k ∈ (runT cfg {} (evs.take (i + 1))).1.closed := by
    rw [runT_take_succ he]
    exact (callT_facts now fin b (inv_at evs i)).2.2.2.1 k hio hne
  have := C09_closed_conn_never_usedT cfg evs (i + 1) k hk
  exact ⟨fun n hn => this.1 n hn, fun j o' hj => this.2 j o' hj⟩

/-- non-vacuity of `C09_failed_conn_never_reusedT`: a swallowed failure on connection 0 (opened by the first
call) in call number 1; the same pooled client serves call 2 on a new connection. -/
example : ∃ (evs : List (Nat × Nat × Body)) (o : CallObs),
    evs[1]? = some (1, 2, .failSwallowed false) ∧ (runT ⟨1, 5⟩ {} evs).2[1]? = some o ∧ o.io = some 0 ∧
    (runT ⟨1, 5⟩ {} evs).2[2]? = some ⟨some 0, some 1⟩ :=
  ⟨[(0, 1, .ok), (1, 2, .failSwallowed false), (2, 3, .ok)], ⟨some 0, some 0⟩, by decide⟩

/-- C09 (3, `rejected`).  If the body of call number `i` raised before touching the socket (illegal input),
the connection `k` that the client handed out by `get` was holding — a healthy one — is closed when the call
is over, no free client holds it, and neither this call nor any later one sends anything on it. -/
theorem C09_rejected_conn_closedT (i now fin : Nat) (c : PClient) (k : Nat)
    (he : evs[i]? = some (now, fin, .rejected))
    (hg : (get cfg (runT cfg {} (evs.take i)).1 now).2 = some c) (hc : c.conn = some k) :
    (∀ n, i < n → k ∈ (runT cfg {} (evs.take n)).1.closed ∧
      ∀ c ∈ (runT cfg {} (evs.take n)).1.free, c.conn ≠ some k) ∧
    (∀ j o', i ≤ j → (runT cfg {} evs).2[j]? = some o' → o'.io ≠ some k) := by
  have hk : k ∈ (runT cfg {} (evs.take (i + 1))).1.closed := by
    rw [runT_take_succ he]
    exact (callT_facts now fin .rejected (inv_at evs i)).2.2.2.2.1 c k rfl hg hc
  have := C09_closed_conn_never_usedT cfg evs (i + 1) k hk
  refine ⟨fun n hn => this.1 n hn, fun j o' hj ho' => ?_⟩
  rcases Nat.eq_or_lt_of_le hj with rfl | hlt
  · rw [runT_obs he] at ho'
    obtain rfl := Option.some.inj ho'
    rw [callT_rejected_io]; simp
  · exact this.2 j o' hlt ho'

/-- non-vacuity of `C09_rejected_conn_closedT`: the second call is rejected while its client holds the
healthy connection 0, which is thereby closed; the third call opens connection 1 with a new client. -/
example : ∃ evs : List (Nat × Nat × Body),
    evs[1]? = some (1, 1, .rejected) ∧
    (get ⟨1, 5⟩ (runT ⟨1, 5⟩ {} (evs.take 1)).1 1).2 = some ⟨0, some 0, 1⟩ ∧
    (runT ⟨1, 5⟩ {} evs).1.closed = [0] ∧ (runT ⟨1, 5⟩ {} evs).2[2]? = some ⟨some 1, some 1⟩ :=
  ⟨[(0, 1, .ok), (1, 1, .rejected), (2, 3, .ok)], by decide⟩

/-- C09 (4).  If call number `i` returned normally (`ok`) having used connection `k` and was RELEASED at time
`fin1`, and the next call checks out at `t2` with `pool_idle_timeout = 0` (never expires) or
`t2 - fin1 ≤ pool_idle_timeout`, then the next call is served by the same pooled client, `get` closes nothing,
`k` is still open, nothing is allocated (`nextConn`, `nextClient` unchanged: no reconnect, no new client), and
the commands go out on `k` — unless the next body is `rejected`, which by definition sends nothing.  The
checkout time `t1` of call `i` does not occur in the hypothesis: a slow call does not count as idle time. -/
theorem C09_healthy_reusedT (i t1 fin1 t2 fin2 : Nat) (b2 : Body) (o1 : CallObs) (k : Nat)
    (h1 : evs[i]? = some (t1, fin1, .ok)) (h2 : evs[i + 1]? = some (t2, fin2, b2))
    (ho1 : (runT cfg {} evs).2[i]? = some o1) (hk : o1.io = some k)
    (hgap : cfg.idleTimeout = 0 ∨ t2 - fin1 ≤ cfg.idleTimeout) :
    ∃ o2, (runT cfg {} evs).2[i + 1]? = some o2 ∧
      o2.client = o1.client ∧
      (b2 ≠ .rejected → o2.io = some k) ∧ (b2 = .rejected → o2.io = none) ∧
      (get cfg (runT cfg {} (evs.take (i + 1))).1 t2).1.closed = (runT cfg {} (evs.take (i + 1))).1.closed ∧
      k ∉ (runT cfg {} (evs.take (i + 1))).1.closed ∧
      (runT cfg {} (evs.take (i + 2))).1.nextConn = (runT cfg {} (evs.take (i + 1))).1.nextConn ∧
      (runT cfg {} (evs.take (i + 2))).1.nextClient = (runT cfg {} (evs.take (i + 1))).1.nextClient := by
  rw [runT_obs h1] at ho1
  obtain rfl := Option.some.inj ho1
  obtain ⟨id, hid, hfree⟩ := (callT_facts t1 fin1 .ok (inv_at evs i)).2.2.2.2.2.2.2 k rfl hk
  rw [← runT_take_succ h1] at hfree
  have hI := inv_at (cfg := cfg) evs (i + 1)
  obtain ⟨-, r2, r3, r4, r5, r6, r7⟩ := callT_reuse t2 fin2 b2 hI hfree (clock_fresh hgap)
  refine ⟨_, runT_obs h2, ?_, r3, r4, r7, ?_, ?_, ?_⟩
  · rw [r2, hid]
  · exact hI.free_not_closed _ (by rw [hfree]; exact List.mem_singleton.mpr rfl) k rfl
  · rw [runT_take_succ h2]; exact r5
  · rw [runT_take_succ h2]; exact r6

/-- non-vacuity of `C09_healthy_reusedT`, with a slow call: timeout 5; the first call checks out at 0 and
takes 100 ticks (released at 100), the second checks out at 103: gap after release 3 ≤ 5, so connection 0 is
reused although 103 ticks passed since the first checkout; the third checks out at 110 = 105 + 5 (gap = timeout). -/
example : ∃ (cfg : Cfg) (evs : List (Nat × Nat × Body)) (o1 : CallObs),
    evs[0]? = some (0, 100, .ok) ∧ evs[1]? = some (103, 105, .ok) ∧
    (runT cfg {} evs).2[0]? = some o1 ∧ o1.io = some 0 ∧
    (cfg.idleTimeout = 0 ∨ 103 - 100 ≤ cfg.idleTimeout) ∧ cfg.idleTimeout < 100 - 0 ∧
    (runT cfg {} evs).2 = [⟨some 0, some 0⟩, ⟨some 0, some 0⟩, ⟨some 0, some 0⟩] ∧
    (runT cfg {} evs).1.nextConn = 1 :=
  ⟨⟨1, 5⟩, [(0, 100, .ok), (103, 105, .ok), (110, 111, .fail false)], ⟨some 0, some 0⟩, by decide⟩

/-- C09 (5).  If call number `i` returned normally having used connection `k` and was released at `fin1`, and
the next call checks out at `t2` with `t2 - fin1 > pool_idle_timeout ≠ 0`, then the `get` of that next call
closes `k`; `k` stays closed and is never used again by that call or any later one; and (given
`max_pool_size ≥ 1`) the next call is served by a brand-new pooled client which sends on a brand-new connection
(`= nextConn` before the call) if its body gets as far as connecting, and on none otherwise. -/
theorem C09_idle_expired_closedT (i t1 fin1 t2 fin2 : Nat) (b2 : Body) (o1 : CallObs) (k : Nat)
    (h1 : evs[i]? = some (t1, fin1, .ok)) (h2 : evs[i + 1]? = some (t2, fin2, b2))
    (ho1 : (runT cfg {} evs).2[i]? = some o1) (hk : o1.io = some k)
    (h0 : cfg.idleTimeout ≠ 0) (hgap : cfg.idleTimeout < t2 - fin1) :
    (get cfg (runT cfg {} (evs.take (i + 1))).1 t2).1.closed = (runT cfg {} (evs.take (i + 1))).1.closed ++ [k] ∧
    (∀ n, i + 2 ≤ n → k ∈ (runT cfg {} (evs.take n)).1.closed ∧
      ∀ c ∈ (runT cfg {} (evs.take n)).1.free, c.conn ≠ some k) ∧
    (∀ j o, i < j → (runT cfg {} evs).2[j]? = some o → o.io ≠ some k) ∧
    (1 ≤ cfg.maxSize → ∃ o2, (runT cfg {} evs).2[i + 1]? = some o2 ∧
      o2.client = some (runT cfg {} (evs.take (i + 1))).1.nextClient ∧ o2.client ≠ o1.client ∧
      ((b2 = .ok ∨ b2 = .quitOk ∨ b2 = .fail true ∨ b2 = .failSwallowed true ∨ b2 = .quitFail true) →
        o2.io = some (runT cfg {} (evs.take (i + 1))).1.nextConn ∧
        (runT cfg {} (evs.take (i + 2))).1.nextConn = (runT cfg {} (evs.take (i + 1))).1.nextConn + 1) ∧
      ((b2 = .rejected ∨ b2 = .fail false ∨ b2 = .failSwallowed false ∨ b2 = .quitFail false) →
        o2.io = none ∧
        (runT cfg {} (evs.take (i + 2))).1.nextConn = (runT cfg {} (evs.take (i + 1))).1.nextConn)) := by
  rw [runT_obs h1] at ho1
  obtain rfl := Option.some.inj ho1
  obtain ⟨id, hid, hfree⟩ := (callT_facts t1 fin1 .ok (inv_at evs i)).2.2.2.2.2.2.2 k rfl hk
  rw [← runT_take_succ h1] at hfree
  have hI := inv_at (cfg := cfg) evs (i + 1)
  obtain ⟨e1, -, e3, e4, e5⟩ := callT_expire t2 fin2 b2 hI hfree (clock_expired h0 hgap)
  have hk2 : k ∈ (runT cfg {} (evs.take (i + 2))).1.closed := by rw [runT_take_succ h2]; exact e3
  have hnever := C09_closed_conn_never_usedT cfg evs (i + 2) k hk2
  refine ⟨e1, hnever.1, fun j o hj ho => ?_, fun hmax => ?_⟩
  · rcases Nat.eq_or_lt_of_le (Nat.succ_le_of_lt hj) with rfl | hlt
    · rw [runT_obs h2] at ho
      obtain rfl := Option.some.inj ho
      exact e4
    · exact hnever.2 j o hlt ho
  · obtain ⟨-, f2, f3, f4⟩ := e5 (by omega)
    refine ⟨_, runT_obs h2, f2, ?_, ?_, ?_⟩
    · rw [f2, hid]
      have := hI.free_id_lt _ (by rw [hfree]; exact List.mem_singleton.mpr rfl)
      simp only at this
      intro h; have := Option.some.inj h; omega
    · rw [runT_take_succ h2]; exact f3
    · rw [runT_take_succ h2]; exact f4

/-- non-vacuity of `C09_idle_expired_closedT`: timeout 5, first call released at 2, second checks out at 8;
connection 0 is closed by the second `get` and the second call uses client 1 on connection 1. -/
example : ∃ (cfg : Cfg) (evs : List (Nat × Nat × Body)) (o1 : CallObs),
    evs[0]? = some (0, 2, .ok) ∧ evs[1]? = some (8, 9, .ok) ∧
    (runT cfg {} evs).2[0]? = some o1 ∧ o1.io = some 0 ∧
    cfg.idleTimeout ≠ 0 ∧ cfg.idleTimeout < 8 - 2 ∧ 1 ≤ cfg.maxSize ∧
    (runT cfg {} evs).2 = [⟨some 0, some 0⟩, ⟨some 1, some 1⟩] ∧ (runT cfg {} evs).1.closed = [0] :=
  ⟨⟨1, 5⟩, [(0, 2, .ok), (8, 9, .ok)], ⟨some 0, some 0⟩, by decide⟩

/-- C09 (6a).  No connection is closed twice: `closed` never lists a connection id twice. -/
theorem C09_closed_at_most_onceT (n : Nat) : (runT cfg {} (evs.take n)).1.closed.Nodup :=
  (inv_at evs n).closed_nodup

/-- C09 (6b, accounting).  After every call, the connections ever opened are exactly the ids below
`nextConn`, and each of them is exactly one of: held by the (single) free client, or closed.  With
`C09_used_zero_after_callT` and `C09_free_at_most_oneT`: no connection leaks, at most one is open. -/
theorem C09_no_leakT (n k : Nat) :
    (k < (runT cfg {} (evs.take n)).1.nextConn ↔
      (k ∈ (runT cfg {} (evs.take n)).1.closed ∨ ∃ c ∈ (runT cfg {} (evs.take n)).1.free, c.conn = some k)) ∧
    ¬ (k ∈ (runT cfg {} (evs.take n)).1.closed ∧ ∃ c ∈ (runT cfg {} (evs.take n)).1.free, c.conn = some k) := by
  have hI := inv_at (cfg := cfg) evs n
  refine ⟨⟨hI.covered k, ?_⟩, ?_⟩
  · rintro (h | ⟨c, hc, hck⟩)
    · exact hI.closed_lt k h
    · exact hI.free_conn_lt c hc k hck
  · rintro ⟨h, c, hc, hck⟩
    exact hI.free_not_closed c hc k hck h

/-- C09 (7).  Chronology hypothesis: each call is released no later than the next one checks out
(`fin_i ≤ now_{i+1}`; `now_i ≤ fin_i` is not even needed).  Then when call number `i` checks out at time `now`
every free client was last used at a pool-clock value `≤` the current one, so the truncated subtraction in the
idle test is the true difference.  (In fact `lastUsed` is the clock value of the previous call's release.) -/
theorem C09_time_monotone_lastUsedT
    (hchron : ∀ j a b, evs[j]? = some a → evs[j + 1]? = some b → a.2.1 ≤ b.1)
    (i now fin : Nat) (b : Body) (he : evs[i]? = some (now, fin, b)) :
    ∀ c ∈ (runT cfg {} (evs.take i)).1.free,
      c.lastUsed ≤ clock cfg now ∧ (clock cfg now - c.lastUsed) + c.lastUsed = clock cfg now := by
  intro c hc
  suffices h : c.lastUsed ≤ clock cfg now from ⟨h, by omega⟩
  cases i with
  | zero => simp [runT] at hc
  | succ j =>
    obtain ⟨hi, -⟩ := List.getElem?_eq_some_iff.mp he
    have hj : j < evs.length := by omega
    have hej : evs[j]? = some (evs[j].1, evs[j].2.1, evs[j].2.2) := by simp [hj]
    rw [runT_take_succ hej] at hc
    rw [(callT_facts evs[j].1 evs[j].2.1 evs[j].2.2 (inv_at evs j)).2.2.2.2.2.1 c hc]
    exact clock_mono cfg (hchron j _ _ hej he)

/-- non-vacuity of `C09_time_monotone_lastUsedT`: a chronological history whose state before call 1 has a
free client stamped with the release time 2; and why the hypothesis is needed: if the next checkout (at 3)
precedes the recorded release (at 4), `lastUsed` exceeds `now`. -/
example : (∀ j a b, ([(0, 2, Body.ok), (3, 4, .ok)] : List (Nat × Nat × Body))[j]? = some a →
      ([(0, 2, Body.ok), (3, 4, .ok)] : List (Nat × Nat × Body))[j + 1]? = some b → a.2.1 ≤ b.1) ∧
    (runT ⟨1, 5⟩ {} ([(0, 2, Body.ok), (3, 4, .ok)].take 1)).1.free = [⟨0, some 0, 2⟩] ∧
    (runT ⟨1, 5⟩ {} ([(0, 4, Body.ok), (3, 5, .ok)].take 1)).1.free = [⟨0, some 0, 4⟩] := by
  refine ⟨?_, by decide, by decide⟩
  intro j a b ha hb
  match j with
  | 0 => simp at ha hb; subst ha hb; decide
  | j + 1 => simp at hb

end timed

/-! ## Instantaneous calls (`run`): the special case `fin = now` of the theorems above
(`run cfg s evs = runT cfg s (evs.map lift)`, `Pooled.run_eq_runT`) -/
section instantaneous
variable (cfg : Cfg) (evs : List (Nat × Body))

/-- C09 (invariant, preservation), instantaneous call. -/
theorem C09_inv_preserved (s : St) (now : Nat) (b : Body) (h : Inv s) : Inv (call cfg s now b).1 :=
  inv_call now b h

/-- non-vacuity of `C09_inv_preserved`: see the example after `C09_inv_preservedT`. -/
example : Inv ⟨[⟨4, none, 7⟩], [], 5, 3, [1, 0, 2]⟩ := by
  constructor <;> simp <;> omega

/-- C09 (invariant, reachability) for `run`. -/
theorem C09_inv_reachable (n : Nat) : Inv (run cfg {} (evs.take n)).1 := by
  rw [run_take_eq]; exact C09_inv_reachableT cfg _ n

/-- C09 (1) for `run`: no client is checked out after (= before) any call. -/
theorem C09_used_zero_after_call (n : Nat) : (run cfg {} (evs.take n)).1.used = [] := by
  rw [run_take_eq]; exact C09_used_zero_after_callT cfg _ n

/-- C09 (auxiliary) for `run`: at most one free client. -/
theorem C09_free_at_most_one (n : Nat) : (run cfg {} (evs.take n)).1.free.length ≤ 1 := by
  rw [run_take_eq]; exact C09_free_at_most_oneT cfg _ n

/-- C09 (2) for `run`: with `max_pool_size ≥ 1` every `get` succeeds and every call is served. -/
theorem C09_never_exhausts (hmax : 1 ≤ cfg.maxSize) :
    (∀ n now, (get cfg (run cfg {} (evs.take n)).1 now).2.isSome) ∧
    (∀ o ∈ (run cfg {} evs).2, o.client.isSome) := by
  simp only [run_take_eq]; simp only [run_eq_runT]
  exact C09_never_exhaustsT cfg _ hmax

/-- non-vacuity of `C09_never_exhausts`. -/
example : ((run ⟨1, 5⟩ {} [(0, .fail true), (1, .quitFail false), (2, .rejected), (3, .ok)]).2.map (·.client)
      = [some 0, some 1, some 2, some 3]) ∧
    (run ⟨0, 5⟩ {} [(0, .ok)]).2 = [{ client := none, io := none }] := by decide

/-- C09 (3, general form) for `run`: a closed connection stays closed, is held by no free client and
carries no later call. -/
theorem C09_closed_conn_never_used (n k : Nat) (hk : k ∈ (run cfg {} (evs.take n)).1.closed) :
    (∀ m, n ≤ m → k ∈ (run cfg {} (evs.take m)).1.closed ∧
      ∀ c ∈ (run cfg {} (evs.take m)).1.free, c.conn ≠ some k) ∧
    (∀ j o, n ≤ j → (run cfg {} evs).2[j]? = some o → o.io ≠ some k) := by
  simp only [run_take_eq] at hk ⊢; simp only [run_eq_runT]
  exact C09_closed_conn_never_usedT cfg _ n k hk

/-- non-vacuity of `C09_closed_conn_never_used`. -/
example : 0 ∈ (run ⟨1, 5⟩ {} ([(0, Body.fail true), (1, .ok)].take 1)).1.closed := by decide

/-- C09 (3) for `run`: the connection of a failed (or quit) call is closed and never used again. -/
theorem C09_failed_conn_never_reused (i now : Nat) (b : Body) (o : CallObs) (k : Nat)
    (he : evs[i]? = some (now, b))
    (hb : (∃ c, b = .fail c) ∨ (∃ c, b = .failSwallowed c) ∨ b = .quitOk ∨ (∃ c, b = .quitFail c))
    (ho : (run cfg {} evs).2[i]? = some o) (hio : o.io = some k) :
    (∀ n, i < n → k ∈ (run cfg {} (evs.take n)).1.closed ∧
      ∀ c ∈ (run cfg {} (evs.take n)).1.free, c.conn ≠ some k) ∧
    (∀ j o', i < j → (run cfg {} evs).2[j]? = some o' → o'.io ≠ some k) := by
  simp only [run_take_eq]; simp only [run_eq_runT] at ho ⊢
  exact C09_failed_conn_never_reusedT cfg _ i now now b o k (lift_get he) hb ho hio

/-- non-vacuity of `C09_failed_conn_never_reused`. -/
example : ∃ (evs : List (Nat × Body)) (o : CallObs),
    evs[1]? = some (1, .failSwallowed false) ∧ (run ⟨1, 5⟩ {} evs).2[1]? = some o ∧ o.io = some 0 ∧
    (run ⟨1, 5⟩ {} evs).2[2]? = some ⟨some 0, some 1⟩ :=
  ⟨[(0, .ok), (1, .failSwallowed false), (2, .ok)], ⟨some 0, some 0⟩, by decide⟩

/-- C09 (3, `rejected`) for `run`. -/
theorem C09_rejected_conn_closed (i now : Nat) (c : PClient) (k : Nat)
    (he : evs[i]? = some (now, .rejected))
    (hg : (get cfg (run cfg {} (evs.take i)).1 now).2 = some c) (hc : c.conn = some k) :
    (∀ n, i < n → k ∈ (run cfg {} (evs.take n)).1.closed ∧
      ∀ c ∈ (run cfg {} (evs.take n)).1.free, c.conn ≠ some k) ∧
    (∀ j o', i ≤ j → (run cfg {} evs).2[j]? = some o' → o'.io ≠ some k) := by
  simp only [run_take_eq] at hg ⊢; simp only [run_eq_runT]
  exact C09_rejected_conn_closedT cfg _ i now now c k (lift_get he) hg hc

/-- non-vacuity of `C09_rejected_conn_closed`. -/
example : ∃ evs : List (Nat × Body),
    evs[1]? = some (1, .rejected) ∧
    (get ⟨1, 5⟩ (run ⟨1, 5⟩ {} (evs.take 1)).1 1).2 = some ⟨0, some 0, 0⟩ ∧
    (run ⟨1, 5⟩ {} evs).1.closed = [0] ∧ (run ⟨1, 5⟩ {} evs).2[2]? = some ⟨some 1, some 1⟩ :=
  ⟨[(0, .ok), (1, .rejected), (2, .ok)], by decide⟩

/-- C09 (4) for `run` (release time = checkout time `t1`). -/
theorem C09_healthy_reused (i t1 t2 : Nat) (b2 : Body) (o1 : CallObs) (k : Nat)
    (h1 : evs[i]? = some (t1, .ok)) (h2 : evs[i + 1]? = some (t2, b2))
    (ho1 : (run cfg {} evs).2[i]? = some o1) (hk : o1.io = some k)
    (hgap : cfg.idleTimeout = 0 ∨ t2 - t1 ≤ cfg.idleTimeout) :
    ∃ o2, (run cfg {} evs).2[i + 1]? = some o2 ∧
      o2.client = o1.client ∧
      (b2 ≠ .rejected → o2.io = some k) ∧ (b2 = .rejected → o2.io = none) ∧
      (get cfg (run cfg {} (evs.take (i + 1))).1 t2).1.closed = (run cfg {} (evs.take (i + 1))).1.closed ∧
      k ∉ (run cfg {} (evs.take (i + 1))).1.closed ∧
      (run cfg {} (evs.take (i + 2))).1.nextConn = (run cfg {} (evs.take (i + 1))).1.nextConn ∧
      (run cfg {} (evs.take (i + 2))).1.nextClient = (run cfg {} (evs.take (i + 1))).1.nextClient := by
  simp only [run_take_eq]; simp only [run_eq_runT] at ho1 ⊢
  exact C09_healthy_reusedT cfg _ i t1 t1 t2 t2 b2 o1 k (lift_get h1) (lift_get h2) ho1 hk hgap

/-- non-vacuity of `C09_healthy_reused`: connection 0 is used by calls at times 0, 5 (gap = timeout) and 7. -/
example : ∃ (cfg : Cfg) (evs : List (Nat × Body)) (o1 : CallObs),
    evs[0]? = some (0, .ok) ∧ evs[1]? = some (5, .ok) ∧ (run cfg {} evs).2[0]? = some o1 ∧ o1.io = some 0 ∧
    (cfg.idleTimeout = 0 ∨ 5 - 0 ≤ cfg.idleTimeout) ∧
    (run cfg {} evs).2 = [⟨some 0, some 0⟩, ⟨some 0, some 0⟩, ⟨some 0, some 0⟩] :=
  ⟨⟨1, 5⟩, [(0, .ok), (5, .ok), (7, .fail false)], ⟨some 0, some 0⟩, by decide⟩

/-- C09 (5) for `run` (release time = checkout time `t1`). -/
theorem C09_idle_expired_closed (i t1 t2 : Nat) (b2 : Body) (o1 : CallObs) (k : Nat)
    (h1 : evs[i]? = some (t1, .ok)) (h2 : evs[i + 1]? = some (t2, b2))
    (ho1 : (run cfg {} evs).2[i]? = some o1) (hk : o1.io = some k)
    (h0 : cfg.idleTimeout ≠ 0) (hgap : cfg.idleTimeout < t2 - t1) :
    (get cfg (run cfg {} (evs.take (i + 1))).1 t2).1.closed = (run cfg {} (evs.take (i + 1))).1.closed ++ [k] ∧
    (∀ n, i + 2 ≤ n → k ∈ (run cfg {} (evs.take n)).1.closed ∧
      ∀ c ∈ (run cfg {} (evs.take n)).1.free, c.conn ≠ some k) ∧
    (∀ j o, i < j → (run cfg {} evs).2[j]? = some o → o.io ≠ some k) ∧
    (1 ≤ cfg.maxSize → ∃ o2, (run cfg {} evs).2[i + 1]? = some o2 ∧
      o2.client = some (run cfg {} (evs.take (i + 1))).1.nextClient ∧ o2.client ≠ o1.client ∧
      ((b2 = .ok ∨ b2 = .quitOk ∨ b2 = .fail true ∨ b2 = .failSwallowed true ∨ b2 = .quitFail true) →
        o2.io = some (run cfg {} (evs.take (i + 1))).1.nextConn ∧
        (run cfg {} (evs.take (i + 2))).1.nextConn = (run cfg {} (evs.take (i + 1))).1.nextConn + 1) ∧
      ((b2 = .rejected ∨ b2 = .fail false ∨ b2 = .failSwallowed false ∨ b2 = .quitFail false) →
        o2.io = none ∧
        (run cfg {} (evs.take (i + 2))).1.nextConn = (run cfg {} (evs.take (i + 1))).1.nextConn)) := by
  simp only [run_take_eq]; simp only [run_eq_runT] at ho1 ⊢
  exact C09_idle_expired_closedT cfg _ i t1 t1 t2 t2 b2 o1 k (lift_get h1) (lift_get h2) ho1 hk h0 hgap

/-- non-vacuity of `C09_idle_expired_closed`: timeout 5, calls at times 0 and 6. -/
example : ∃ (cfg : Cfg) (evs : List (Nat × Body)) (o1 : CallObs),
    evs[0]? = some (0, .ok) ∧ evs[1]? = some (6, .ok) ∧ (run cfg {} evs).2[0]? = some o1 ∧ o1.io = some 0 ∧
    cfg.idleTimeout ≠ 0 ∧ cfg.idleTimeout < 6 - 0 ∧ 1 ≤ cfg.maxSize ∧
    (run cfg {} evs).2 = [⟨some 0, some 0⟩, ⟨some 1, some 1⟩] ∧ (run cfg {} evs).1.closed = [0] :=
  ⟨⟨1, 5⟩, [(0, .ok), (6, .ok)], ⟨some 0, some 0⟩, by decide⟩

/-- C09 (6a) for `run`: no connection is closed twice. -/
theorem C09_closed_at_most_once (n : Nat) : (run cfg {} (evs.take n)).1.closed.Nodup := by
  rw [run_take_eq]; exact C09_closed_at_most_onceT cfg _ n

/-- C09 (6b, accounting) for `run`. -/
theorem C09_no_leak (n k : Nat) :
    (k < (run cfg {} (evs.take n)).1.nextConn ↔
      (k ∈ (run cfg {} (evs.take n)).1.closed ∨ ∃ c ∈ (run cfg {} (evs.take n)).1.free, c.conn = some k)) ∧
    ¬ (k ∈ (run cfg {} (evs.take n)).1.closed ∧ ∃ c ∈ (run cfg {} (evs.take n)).1.free, c.conn = some k) := by
  rw [run_take_eq]; exact C09_no_leakT cfg _ n k

/-- C09 (7) for `run`: with non-decreasing call times every free client's `lastUsed` is `≤` the pool clock
at the next checkout. -/
theorem C09_time_monotone_lastUsed (hmono : evs.Pairwise (fun a b => a.1 ≤ b.1)) (i now : Nat) (b : Body)
    (he : evs[i]? = some (now, b)) :
    ∀ c ∈ (run cfg {} (evs.take i)).1.free,
      c.lastUsed ≤ clock cfg now ∧ (clock cfg now - c.lastUsed) + c.lastUsed = clock cfg now := by
  rw [run_take_eq]
  refine C09_time_monotone_lastUsedT cfg _ ?_ i now now b (lift_get he)
  intro j x y hx hy
  rw [List.getElem?_map] at hx hy
  obtain ⟨hj, hxe⟩ := List.getElem?_eq_some_iff.mp (Option.map_eq_some_iff.mp hx).choose_spec.1
  obtain ⟨hj', hye⟩ := List.getElem?_eq_some_iff.mp (Option.map_eq_some_iff.mp hy).choose_spec.1
  have hx2 := (Option.map_eq_some_iff.mp hx).choose_spec.2
  have hy2 := (Option.map_eq_some_iff.mp hy).choose_spec.2
  have := List.pairwise_iff_getElem.mp hmono j (j + 1) hj hj' (Nat.lt_succ_self j)
  rw [hxe, hye] at this
  rw [← hx2, ← hy2]
  exact this

/-- non-vacuity of `C09_time_monotone_lastUsed`; with the clock going backwards `lastUsed` exceeds `now`. -/
example : ([(0, Body.ok), (3, .ok)] : List (Nat × Body)).Pairwise (fun a b => a.1 ≤ b.1) ∧
    (run ⟨1, 5⟩ {} ([(0, Body.ok), (3, .ok)].take 1)).1.free = [⟨0, some 0, 0⟩] ∧
    (run ⟨1, 5⟩ {} ([(4, Body.ok), (3, .ok)].take 1)).1.free = [⟨0, some 0, 4⟩] := by decide

end instantaneous
end Pooled

/-! ## `PooledClient ∘ Client`: the bodies of the abstract model are outcomes of real `Client.call`s

`Pymc/Model/PooledCall.lean` composes the pool bracket with `Client.call`: the body of every pooled call is the inner
client's call over a script of what its socket does, and the pooled clients carry their sockets.  The theorems
below say that this composed model *refines* the abstract one: forgetting the sockets (`St.proj`), one composed
call is one `Pooled.callT` whose body is `bodyOf` of the inner outcome, and a composed run from the empty pool is
the abstract run over the history `historyOf …` — so every theorem above holds of the composed model, with `Body`
no longer an input but computed from what `Client.call` did. -/
namespace PooledCall
open Exchange Client Framing

/-- C09 (reading `bodyOf`): the inner outcome counts as `ok` exactly when the method is not `quit`, returned — normally
or because a read method swallowed the exception under `ignore_exc` — and the inner client still has its socket. -/
theorem C09_pooled_body_ok_iff (ignoreExc : Bool) (c : Call) (o : CallOut Res) :
    bodyOf ignoreExc c o = .ok ↔
      isQuit c = false ∧ o.sockOpen = true ∧
        ((∃ r, o.res = .ok r) ∨ ∃ e, o.res = .error e ∧ swallows ignoreExc c e = true) := by
  unfold bodyOf
  cases isQuit c
  · rcases o.res with e | r
    · cases hsw : swallows ignoreExc c e <;> cases o.sockOpen <;> simp [hsw] <;> (try (split <;> simp))
    · cases o.sockOpen <;> simp
  · rcases o.res with e | r <;> simp

/-- C09 (refinement, one call).  In any coherent state (`Coh`: a pooled client holds a connection id exactly when it holds
a socket — an invariant, last clause), forgetting the sockets commutes with one call: the composed call `callP`, whose
body is `Client.call` on the checked-out inner client, is the abstract call `Pooled.callT` whose body is `bodyOf` of
that `Client.call`'s outcome.  The same pooled client serves both; and the connection reported by both is the same
(`IoExact`: unless the method returned without sending anything while its client holds an open socket —
`get_many([])` —, where the abstract `ok` reports the held connection and the composed model reports none). -/
theorem C09_pooled_projection (ccfg : Wire.Cfg) (pcfg : Pooled.Cfg) (ignoreExc : Bool) (s : St) (idx now fin : Nat)
    (c : Call) (sc : Script) (hcoh : Coh s) :
    (callP ccfg pcfg ignoreExc s idx now fin c sc).1.proj =
      (Pooled.callT pcfg s.proj now fin (bodyOfObs ignoreExc c (callP ccfg pcfg ignoreExc s idx now fin c sc).2)).1 ∧
    (callP ccfg pcfg ignoreExc s idx now fin c sc).2.client =
      (Pooled.callT pcfg s.proj now fin
        (bodyOfObs ignoreExc c (callP ccfg pcfg ignoreExc s idx now fin c sc).2)).2.client ∧
    (IoExact (callP ccfg pcfg ignoreExc s idx now fin c sc).2 →
      (callP ccfg pcfg ignoreExc s idx now fin c sc).2.io =
        (Pooled.callT pcfg s.proj now fin
          (bodyOfObs ignoreExc c (callP ccfg pcfg ignoreExc s idx now fin c sc).2)).2.io) ∧
    (∀ st, (callP ccfg pcfg ignoreExc s idx now fin c sc).2.step = some st →
      bodyOfObs ignoreExc c (callP ccfg pcfg ignoreExc s idx now fin c sc).2 = bodyOf ignoreExc c st.out ∧
      ∃ so left, st.out = Client.call ccfg false so c { sc with evs := available so left sc.evs }) ∧
    Coh (callP ccfg pcfg ignoreExc s idx now fin c sc).1 := by
  obtain ⟨p1, p2, p3⟩ := callP_proj ccfg pcfg ignoreExc s idx now fin c sc hcoh
  refine ⟨p1, p2, fun h => p3 (fun st r h1 h2 h3 => h st r h1 h2 h3), fun st hst => ⟨?_, ?_⟩,
    coh_callP ccfg pcfg ignoreExc s idx now fin c sc hcoh⟩
  · simp only [bodyOfObs, hst]
  · rcases callP_spec ccfg pcfg ignoreExc s idx now fin c sc with ⟨s1, hg, hr⟩ | ⟨s1, cl, hg, hstep, -, -, -⟩
    · rw [hr] at hst; simp at hst
    · rw [hstep] at hst
      obtain rfl := Option.some.inj hst
      exact ⟨cl.sockOpen, cl.pipe.map (·.2), stepTagged_out ccfg idx cl.sockOpen cl.pipe c sc⟩

/-- non-vacuity of `C09_pooled_projection`: the empty pool is coherent, and so is a state with an idle connected client. -/
example : Coh {} ∧ Coh { free := [{ id := 0, sockOpen := true, conn := some 0, lastUsed := 3 }], nextClient := 1, nextConn := 1 } := by
  refine ⟨coh_init, ?_⟩
  intro cl h
  simp only [List.mem_singleton, List.not_mem_nil, or_false] at h
  subst h; rfl

/-- C09 (refinement, runs).  Run any history `calls` on a fresh `PooledClient` and let `evs` be the timed history of the
abstract model it gives rise to: entry `i` is the checkout time, the release time and `bodyOfObs` of the `i`-th
observation, i.e. `bodyOf` of the `i`-th inner `Client.call` outcome.  Then after every number `n` of calls the
composed state projects onto the abstract state `(runT pcfg {} (evs.take n)).1`, and call `i` is served by the same
pooled client (on the same connection, `IoExact`) in both runs.  Hence every `C09_…T` theorem above, instantiated
with `evs`, is a theorem about sequences of real `Client.call`s under the pool bracket. -/
theorem C09_pooled_run_projection (ccfg : Wire.Cfg) (pcfg : Pooled.Cfg) (ignoreExc : Bool) (calls : List PCall) :
    (historyOf ignoreExc calls (runP ccfg pcfg ignoreExc {} 0 calls).2).length = calls.length ∧
    (∀ (i : Nat) (c : Call) (sc : Script) (now fin : Nat) (ob : PObs),
      calls[i]? = some (c, sc, now, fin) → (runP ccfg pcfg ignoreExc {} 0 calls).2[i]? = some ob →
      (historyOf ignoreExc calls (runP ccfg pcfg ignoreExc {} 0 calls).2)[i]? = some (now, fin, bodyOfObs ignoreExc c ob)) ∧
    (∀ n, (runP ccfg pcfg ignoreExc {} 0 (calls.take n)).1.proj =
      (Pooled.runT pcfg {} ((historyOf ignoreExc calls (runP ccfg pcfg ignoreExc {} 0 calls).2).take n)).1) ∧
    (∀ (i : Nat) (ob : PObs), (runP ccfg pcfg ignoreExc {} 0 calls).2[i]? = some ob →
      ∃ o : Pooled.CallObs,
        (Pooled.runT pcfg {} (historyOf ignoreExc calls (runP ccfg pcfg ignoreExc {} 0 calls).2)).2[i]? = some o ∧
        o.client = ob.client ∧ (IoExact ob → o.io = ob.io)) :=
  ⟨historyOf_length ignoreExc calls _ (runP_length ccfg pcfg ignoreExc {} 0 calls),
   fun i c sc now fin ob hc ho => historyOf_getElem ignoreExc calls _ i c sc now fin ob hc ho,
   fun n => runP_proj_take ccfg pcfg ignoreExc calls n,
   (runP_proj ccfg pcfg ignoreExc {} 0 calls coh_init).2.2⟩

/-- non-vacuity of `C09_pooled_run_projection`: the bodies computed for the five-call history
`PooledCallExamples.demoCalls` (`version`; `get` answered `ERROR`; `version`; `set` answered `ERROR`; `version`) with and
without `ignore_exc`, and for `PooledCallExamples.faultCalls` (send failure; reply cut by a timeout; `get_many([])`). -/
example :
    (historyOf true PooledCallExamples.demoCalls (runP {} ⟨1, 0⟩ true {} 0 PooledCallExamples.demoCalls).2).map (·.2.2) =
      [.ok, .failSwallowed false, .ok, .fail false, .ok] ∧
    (historyOf false PooledCallExamples.demoCalls (runP {} ⟨1, 0⟩ false {} 0 PooledCallExamples.demoCalls).2).map (·.2.2) =
      [.ok, .fail false, .ok, .fail false, .ok] ∧
    (historyOf true PooledCallExamples.faultCalls (runP {} ⟨1, 0⟩ true {} 0 PooledCallExamples.faultCalls).2).map (·.2.2) =
      [.ok, .failSwallowed false, .fail true, .failSwallowed false, .ok] :=
  ⟨PooledCallExamples.demo_ignoreExc.2.2.2, PooledCallExamples.demo_strict.2.2, PooledCallExamples.demo_faults.2.2.2⟩

/-- C09 (invariants of the composed model).  After every call of every history on a fresh `PooledClient` — whatever the
connection does during the inner calls — the projected state satisfies `Pooled.Inv`; in particular no client is
checked out, at most one client is idle, no connection is closed twice, and every connection ever opened is closed or
held by the idle client (`C09_no_leakT`); and the state is coherent. -/
theorem C09_pooled_invariants (ccfg : Wire.Cfg) (pcfg : Pooled.Cfg) (ignoreExc : Bool) (calls : List PCall) (n : Nat) :
    Pooled.Inv (runP ccfg pcfg ignoreExc {} 0 (calls.take n)).1.proj ∧
    (runP ccfg pcfg ignoreExc {} 0 (calls.take n)).1.used = [] ∧
    (runP ccfg pcfg ignoreExc {} 0 (calls.take n)).1.free.length ≤ 1 ∧
    (runP ccfg pcfg ignoreExc {} 0 (calls.take n)).1.closed.Nodup ∧
    Coh (runP ccfg pcfg ignoreExc {} 0 (calls.take n)).1 := by
  obtain ⟨h1, h2, -⟩ := runP_proj ccfg pcfg ignoreExc {} 0 (calls.take n) coh_init
  have hI : Pooled.Inv (runP ccfg pcfg ignoreExc {} 0 (calls.take n)).1.proj := by
    rw [h1]; exact Pooled.inv_runT _ Pooled.inv_init
  refine ⟨hI, used_nil_of_proj hI.used_nil, ?_, hI.closed_nodup, h2⟩
  rw [← free_length_proj]; exact hI.free_le

/-- non-vacuity of `C09_pooled_invariants`: the final state of the demo run (client 1 idle on connection 2, connections 0
and 1 closed, nobody checked out). -/
example : PooledCallExamples.poolSummary (runP {} ⟨1, 0⟩ true {} 0 PooledCallExamples.demoCalls) =
    ([(1, some 2, true, 0)], [0, 1], 0) := PooledCallExamples.demo_ignoreExc.2.1

/-- C09 (3) for the composed model: a connection on which a call failed is closed and never handed out again.
Let pooled call `i` have sent its commands on connection `k` (`ob.io = some k`) and let its inner outcome not count
as `ok` (`C09_pooled_body_ok_iff`: the inner client lost its socket — every exception raised inside an exchange closes
it, C01 —, or the method raised, or it was `quit`).  Then after every later call `k` is closed and no idle client holds
it, and no later call sends anything on `k`. -/
theorem C09_pooled_failed_conn_never_reused (ccfg : Wire.Cfg) (pcfg : Pooled.Cfg) (ignoreExc : Bool) (calls : List PCall)
    (i : Nat) (c : Call) (sc : Script) (now fin : Nat) (ob : PObs) (k : Nat)
    (hc : calls[i]? = some (c, sc, now, fin)) (ho : (runP ccfg pcfg ignoreExc {} 0 calls).2[i]? = some ob)
    (hb : bodyOfObs ignoreExc c ob ≠ .ok) (hio : ob.io = some k) :
    (∀ n, i < n → k ∈ (runP ccfg pcfg ignoreExc {} 0 (calls.take n)).1.closed ∧
      ∀ cl ∈ (runP ccfg pcfg ignoreExc {} 0 (calls.take n)).1.free, cl.conn ≠ some k) ∧
    (∀ j ob', i < j → (runP ccfg pcfg ignoreExc {} 0 calls).2[j]? = some ob' → ob'.io ≠ some k) := by
  obtain ⟨-, hhist, hstate, hobs⟩ := C09_pooled_run_projection ccfg pcfg ignoreExc calls
  -- an observation that reports a connection is exact
  have hexact : ∀ (j : Nat) (ob' : PObs), (runP ccfg pcfg ignoreExc {} 0 calls).2[j]? = some ob' → ob'.io = some k →
      IoExact ob' := by
    intro j ob' hj hk st r hst _ _ hsent
    obtain ⟨_, _, _, _, _, h⟩ := runP_steps ccfg pcfg ignoreExc {} 0 calls j ob' hj
    rw [(h st hst).2.2 hsent] at hk
    cases hk
  generalize hev : historyOf ignoreExc calls (runP ccfg pcfg ignoreExc {} 0 calls).2 = evs at hhist hstate hobs
  have he := hhist i c sc now fin ob hc ho
  obtain ⟨o, ho1, -, ho3⟩ := hobs i ob ho
  have hoio : o.io = some k := by rw [ho3 (hexact i ob ho hio)]; exact hio
  -- the body is not `rejected`: the abstract observation reports a connection
  have hbody : (∃ x, bodyOfObs ignoreExc c ob = .fail x) ∨ (∃ x, bodyOfObs ignoreExc c ob = .failSwallowed x) ∨
      bodyOfObs ignoreExc c ob = .quitOk ∨ (∃ x, bodyOfObs ignoreExc c ob = .quitFail x) := by
    cases hbo : bodyOfObs ignoreExc c ob with
    | ok => exact absurd hbo hb
    | fail x => exact .inl ⟨x, rfl⟩
    | failSwallowed x => exact .inr (.inl ⟨x, rfl⟩)
    | rejected =>
      rw [hbo] at he
      rw [Pooled.runT_obs he] at ho1
      obtain rfl := Option.some.inj ho1
      rw [Pooled.callT_rejected_io] at hoio
      cases hoio
    | quitOk => exact .inr (.inr (.inl rfl))
    | quitFail x => exact .inr (.inr (.inr ⟨x, rfl⟩))
  obtain ⟨t1, t2⟩ := Pooled.C09_failed_conn_never_reusedT pcfg evs i now fin _ o k he hbody ho1 hoio
  refine ⟨fun n hn => ?_, fun j ob' hj hoj hk => ?_⟩
  · obtain ⟨a, b⟩ := t1 n hn
    rw [← hstate n] at a b
    refine ⟨a, fun cl hcl hk => b cl.proj ?_ hk⟩
    exact List.mem_map.mpr ⟨cl, hcl, rfl⟩
  · obtain ⟨o', ho'1, -, ho'3⟩ := hobs j ob' hoj
    exact t2 j o' hj ho'1 (by rw [ho'3 (hexact j ob' hoj hk)]; exact hk)

/-- non-vacuity of `C09_pooled_failed_conn_never_reused`: in the demo run with `ignore_exc`, call 1 (`get` answered `ERROR`,
swallowed) used connection 0 and its body is `failSwallowed`; call 2 is served by the same client on connection 1. -/
example :
    PooledCallExamples.demoCalls[1]? = some (.get (.bytes [107]), { evs := [.data PooledCallExamples.errorLine] }, 1, 1) ∧
    ((runP {} ⟨1, 0⟩ true {} 0 PooledCallExamples.demoCalls).2[1]?.map fun ob =>
      (bodyOfObs true (.get (.bytes [107])) ob, ob.io)) = some (.failSwallowed false, some 0) ∧
    ((runP {} ⟨1, 0⟩ true {} 0 PooledCallExamples.demoCalls).2.map fun ob => (ob.client, ob.io)) =
      [(some 0, some 0), (some 0, some 0), (some 0, some 1), (some 0, some 1), (some 1, some 2)] :=
  ⟨rfl, by decide +kernel, by decide +kernel⟩

end PooledCall

/-! ## `HashClient ∘ PooledClient ∘ Client`: every pool of a `HashClient(use_pooling=True)`

Model: `Pymc/Model/HashPooledCall.lean` — the failover code of `HashClient` (`Pymc/Model/HashInner.lean`) around one
`PooledClient` per server: `self.clients` maps every server to the `PooledClient` currently registered for it, whose state
is a pool `PooledCall.St`; a contact is one `PooledCall.callP` (without `ignore_exc`) on that pool; `add_server` — in the
constructor, and when `_retry_dead` brings a dead server back — registers a *new* `PooledClient` with an empty pool in the
place of the old one.  Since a registered pool only ever changes by a `callP` and starts empty, everything the
`C09_pooled_*` theorems say about one pooled call (`C09_pooled_projection`: it is a `Pooled.callT`, coherence is kept)
makes the C09 invariants invariants of *every* pool registered in `self.clients` (`HashInner.runG_inv`).

What `add_server` does *not* do is close the `PooledClient` it replaces: an idle inner client of the old pool keeps its
open socket (until the object is garbage-collected); `HashPooledCallExamples.demo_leak` is such a run.  The old pool is
unreachable, so this is outside the property ("never handed out again" holds trivially); it is a connection leak, at
most one socket per revival in sequential use. -/
namespace HashPooledCall
open Exchange Client Framing Failover HashInner

variable {Key : Type}

/-- C09 (`HashClient(use_pooling=True)`, invariants of every pool).  After every call of every history of single-key
calls on a fresh pooling `HashClient` — whatever the connections do, whatever the failover code does (marking, eviction,
rerouting, revival with a fresh `PooledClient`) — the pool of the `PooledClient` registered for every server satisfies the
C09 invariants: its projection satisfies `Pooled.Inv`; in particular no inner client is checked out, at most one is idle,
no connection is closed twice, every connection the pool ever opened is closed or held by the idle client; and the
pool is coherent (an inner client holds a connection id exactly when it holds a socket). -/
theorem C09_hashpooled_pool_invariants (ccfg : Wire.Cfg) (pcfg : Pooled.Cfg) (fcfg : Failover.Cfg)
    (route : List Srv → Key → Option Srv) (servers : List Srv) (t0 : Time) (calls : List (HPCall Key)) (n : Nat) :
    ∀ p ∈ pools (runHP ccfg pcfg fcfg route (init pcfg servers t0) 0 (calls.take n)).1,
      Pooled.Inv p.2.2.proj ∧ p.2.2.used = [] ∧ p.2.2.free.length ≤ 1 ∧ p.2.2.closed.Nodup ∧ PooledCall.Coh p.2.2 := by
  intro p hp
  obtain ⟨x, hx, hpx⟩ := mem_pools hp
  rw [hpx]
  -- the invariant of one pool is kept by one pooled call: `C09_pooled_projection`
  have hstep : ∀ gc ∈ calls.take n, ∀ idx (s : PooledCall.St), PoolOK s →
      PoolOK ((pooled pcfg).step ccfg idx gc.now gc.fin s gc.call gc.sc).1 ∧ True := by
    intro gc _ idx s hs
    obtain ⟨p1, -, -, -, p5⟩ := PooledCall.C09_pooled_projection ccfg pcfg false s idx gc.now gc.fin gc.call gc.sc hs.1
    refine ⟨⟨p5, ?_⟩, trivial⟩
    show Pooled.Inv (PooledCall.callP ccfg pcfg false s idx gc.now gc.fin gc.call gc.sc).1.proj
    rw [p1]
    exact Pooled.inv_callT _ _ _ hs.2
  have hok : PoolOK x.2.st :=
    (runG_inv (I := pooled pcfg) ccfg fcfg route (init pcfg servers t0) 0 (calls.take n) PoolOK (fun _ _ _ => True)
      poolOK_init hstep (poolsOK_init servers t0)).1 x hx
  obtain ⟨hcoh, hI⟩ := hok
  refine ⟨hI, PooledCall.used_nil_of_proj hI.used_nil, ?_, hI.closed_nodup, hcoh⟩
  have hlen := PooledCall.free_length_proj (x.2.st : PooledCall.St)
  rw [← hlen]; exact hI.free_le

/-- non-vacuity of `C09_hashpooled_pool_invariants`: the pools after each call of `HashPooledCallExamples.leakCalls`
(`max_pool_size=2, pool_idle_timeout=3`; per pool: server, number of the `PooledClient`, idle clients as (id, connection,
socket open, events left), closed connections, checked out).  Call 1 fails: inner client 0 of pool 0 is destroyed and its
connection 0 closed.  Call 3 is the final probe made after `remove_server(0)`; it succeeds, so the old pool keeps inner
client 2 idle on the open connection 1 — and call 6 replaces that pool by the fresh `PooledClient` 2 without closing it.
Call 7 finds the idle client of pool 1 expired (idle since 9, now 20): connection 0 of that pool is closed. -/
example :
    HashPooledCallExamples.poolTrace {} HashPooledCallExamples.poolIdle HashCallExamples.cfgStrict HashPooledCallExamples.leakCalls =
      [[⟨0, 0, [], [], 0⟩, ⟨1, 1, [], [], 0⟩],
       [⟨0, 0, [(0, some 0, true, 0)], [], 0⟩, ⟨1, 1, [], [], 0⟩],
       [⟨0, 0, [], [0], 0⟩, ⟨1, 1, [], [], 0⟩],
       [⟨0, 0, [], [0], 0⟩, ⟨1, 1, [], [], 0⟩],
       [⟨0, 0, [(2, some 1, true, 0)], [0], 0⟩, ⟨1, 1, [], [], 0⟩],
       [⟨0, 0, [(2, some 1, true, 0)], [0], 0⟩, ⟨1, 1, [(0, some 0, true, 0)], [], 0⟩],
       [⟨0, 0, [(2, some 1, true, 0)], [0], 0⟩, ⟨1, 1, [(0, some 0, true, 0)], [], 0⟩],
       [⟨0, 2, [(0, some 0, true, 0)], [], 0⟩, ⟨1, 1, [(0, some 0, true, 0)], [], 0⟩],
       [⟨0, 2, [(0, some 0, true, 0)], [], 0⟩, ⟨1, 1, [(1, some 1, true, 0)], [0], 0⟩]] :=
  HashPooledCallExamples.demo_leak.2.1

/-- C09 (`HashClient(use_pooling=True)`, the pool is never exhausted).  If `max_pool_size` allows even one client
(`pcfg.maxSize ≠ 0`; Python's effective `max_size` is always ≥ 1), then in every history every invocation of a
`PooledClient` is served by an inner client: `ObjectPool.get` never raises `RuntimeError("Too many objects")`, so no
`HashClient` call ends with that exception — ordinary failures, evictions and revivals can never exhaust a pool. -/
theorem C09_hashpooled_never_too_many (ccfg : Wire.Cfg) (pcfg : Pooled.Cfg) (fcfg : Failover.Cfg)
    (route : List Srv → Key → Option Srv) (servers : List Srv) (t0 : Time) (calls : List (HPCall Key))
    (hmax : pcfg.maxSize ≠ 0) :
    ∀ ob ∈ (runHP ccfg pcfg fcfg route (init pcfg servers t0) 0 calls).2, ∀ po : PooledCall.PObs, ob.inner = some po →
      po.res ≠ none ∧ ∀ s, ob.res ≠ .raised s .tooManyObjects := by
  intro ob hob po hpo
  have hres : po.res ≠ none :=
    (runHP_poolsOK ccfg fcfg route (init pcfg servers t0) 0 calls (poolsOK_init servers t0)).2 hmax ob hob po hpo
  refine ⟨hres, fun s hraised => ?_⟩
  obtain ⟨i, hi⟩ := List.getElem?_of_mem hob
  obtain ⟨gc, -, h⟩ := runG_steps (I := pooled pcfg) ccfg fcfg route (init pcfg servers t0) 0 calls i ob hi
  obtain ⟨-, hro⟩ := h po hpo
  have hnot : (pooled pcfg).res po ≠ .error .tooManyObjects := by
    show resOf po ≠ _
    unfold resOf
    rcases hp : po.res with _ | (e | r)
    · exact absurd hp hres
    · exact fun h => by cases h
    · exact fun h => by cases h
  rw [hraised] at hro
  rcases hro with ⟨r, -, h1 | h1⟩ | ⟨e, he, ⟨-, s', h1⟩ | ⟨-, -, h1⟩ | ⟨-, -, s', h1⟩ | ⟨-, h1⟩⟩
  · cases h1
  · cases h1
  · cases h1; exact hnot he
  · cases h1
  · cases h1; exact hnot he
  · cases h1

end HashPooledCall

/-! ## `HashClient ∘ PooledClient ∘ Client`, multi-key operations: every pool of a `HashClient(use_pooling=True)` through `get_many` / `gets_many`, `set_many`, `delete_many`

Model: `Pymc/Model/HashPooledCallMany.lean` — the multi-key code of `HashClient` (`Pymc/Model/HashInnerMany.lean`) around
one `PooledClient` per server.  One public call sends one batch per server (`get_many` / `set_many`) or one `delete` per key
(`delete_many`); every one of them is a `PooledCall.callP` (without `ignore_exc`) on the pool registered for that server at
that moment: `client_pool.get()`, the inner `Client.call`, then `release` (it returned) or `destroy` (it raised —
`after_remove = client.close()`).  The `with` block of the `PooledClient` method is left *before* the failover code sees
the result, so whatever the public call does next — merge the result and go on, swallow the exception under `ignore_exc`
and go on, let it escape and leave the remaining batches unsent, or (`_set_many` under `ignore_exc`, known finding
`C13-setmany-ignoreexc`) pretend nothing failed — the pool has already been conserved: nothing stays checked out, the
client of a failed call is closed and gone, the client of a call that returned is idle again. -/
namespace HashPooledCall
open Exchange Client Framing Failover HashInner

variable {RK : Type}

/-- C09 (`HashClient(use_pooling=True)` with multi-key calls, invariants of every pool).  After every call — returned or
raised — of every history of single-key calls, `get_many` / `gets_many`, `set_many` and `delete_many` on a fresh pooling
`HashClient`, whatever the connections do and whatever the failover code does, the pool of the `PooledClient` registered
for every server satisfies the C09 invariants: its projection satisfies `Pooled.Inv`; in particular no inner client is
checked out, at most one is idle, no connection is closed twice, every connection the pool ever opened is closed or
held by the idle client; and the pool is coherent. -/
theorem C09_hashpooled_many_pool_invariants (ccfg : Wire.Cfg) (pcfg : Pooled.Cfg) (fcfg : Failover.Cfg)
    (route : List Srv → RK → Option Srv) (servers : List Srv) (t0 : Time) (calls : List (MPCall RK)) (n : Nat) :
    ∀ p ∈ pools (runMP ccfg pcfg fcfg route (init pcfg servers t0) 0 (calls.take n)).1,
      Pooled.Inv p.2.2.proj ∧ p.2.2.used = [] ∧ p.2.2.free.length ≤ 1 ∧ p.2.2.closed.Nodup ∧ PooledCall.Coh p.2.2 := by
  intro p hp
  obtain ⟨x, hx, hpx⟩ := mem_pools hp
  rw [hpx]
  obtain ⟨hcoh, hI⟩ := (runMP_poolsOK ccfg fcfg route (init pcfg servers t0) 0 (calls.take n) (poolsOK_init servers t0)).1 x hx
  refine ⟨hI, PooledCall.used_nil_of_proj hI.used_nil, ?_, hI.closed_nodup, hcoh⟩
  have hlen := PooledCall.free_length_proj (x.2.st : PooledCall.St)
  rw [← hlen]; exact hI.free_le

/-- C09 (`HashClient(use_pooling=True)` with multi-key calls, every contact conserves its pool).  In every history in
which no single-key call is `quit` (not a `_run_cmd` operation), every pooled call `po` made during public call `i` — one
per batch that reaches a server, one per `delete` of a `delete_many` — is the observation of one `PooledCall.callP`
(without `ignore_exc`, tagged `i`) on a pool that satisfies the C09 invariants, and the pool it leaves satisfies them and
is *conserved* (`PooledCall.Conserved`): nobody is checked out; if the `PooledClient` method raised, no client is idle —
the inner client that served was destroyed —, it has no socket, and the connection its commands went out on is closed;
if the method returned, the inner client that served is the idle client again, with the socket the call left it; if
the pool could not hand out a client (`res = none`), none served. -/
theorem C09_hashpooled_many_contact_conservation (ccfg : Wire.Cfg) (pcfg : Pooled.Cfg) (fcfg : Failover.Cfg)
    (route : List Srv → RK → Option Srv) (servers : List Srv) (t0 : Time) (calls : List (MPCall RK))
    (hnq : ∀ mc ∈ calls, NoQuit mc.op) :
    ∀ (i : Nat) (ob : MPObs pcfg), (runMP ccfg pcfg fcfg route (init pcfg servers t0) 0 calls).2[i]? = some ob →
      ∀ po ∈ pobsOf ob,
        ∃ (p : PooledCall.St) (now fin : Nat) (call : Call) (sc : Script),
          (Pooled.Inv p.proj ∧ PooledCall.Coh p) ∧
          po = (PooledCall.callP ccfg pcfg false p i now fin call sc).2 ∧
          (Pooled.Inv (PooledCall.callP ccfg pcfg false p i now fin call sc).1.proj ∧
            PooledCall.Coh (PooledCall.callP ccfg pcfg false p i now fin call sc).1) ∧
          PooledCall.Conserved (PooledCall.callP ccfg pcfg false p i now fin call sc).1 po := by
  intro i ob hi po hpo
  obtain ⟨p, now, fin, call, sc, hp, h1, hp', h2⟩ :=
    runMP_contacts ccfg fcfg route (init pcfg servers t0) 0 calls (poolsOK_init servers t0) hnq i ob hi po hpo
  rw [Nat.zero_add] at h1 hp' h2
  exact ⟨p, now, fin, call, sc, ⟨hp.2, hp.1⟩, h1, ⟨hp'.2, hp'.1⟩, h2⟩

/-- C09 (`HashClient(use_pooling=True)`, pool conservation after `get_many` / `gets_many` / `set_many`).  Let call `i` of
any history be a `get_many` / `gets_many` / `set_many` (`batched`), `ob` its observation, and look at the state right after
it (`calls.take (i + 1)`), whether it returned or raised.  For every batch `bo` that was sent (its `PooledClient` was
invoked: `bo.inner = some po`), the `PooledClient` registered for the batch's server is still the one that was invoked
(`bo.obj`), and its pool `p'` satisfies the C09 invariants and is conserved with respect to `po`: zero checked-out clients;
if the pooled call raised, the inner client that served is closed and not in the idle list (the idle list is empty) and
the connection it used is closed; if it returned, that client is the idle client again. -/
theorem C09_hashpooled_many_pool_conservation (ccfg : Wire.Cfg) (pcfg : Pooled.Cfg) (fcfg : Failover.Cfg)
    (route : List Srv → RK → Option Srv) (servers : List Srv) (t0 : Time) (calls : List (MPCall RK))
    (i : Nat) (mc : MPCall RK) (ob : MPObs pcfg) (hmc : calls[i]? = some mc) (hb : batched mc.op = true)
    (hob : (runMP ccfg pcfg fcfg route (init pcfg servers t0) 0 calls).2[i]? = some ob) :
    ∀ bo ∈ ob.batches, ∀ po : PooledCall.PObs, bo.inner = some po →
      ∃ (id : Nat) (p' : PooledCall.St), bo.obj = some id ∧
        (bo.server, id, p') ∈ pools (runMP ccfg pcfg fcfg route (init pcfg servers t0) 0 (calls.take (i + 1))).1 ∧
        (Pooled.Inv p'.proj ∧ PooledCall.Coh p') ∧ PooledCall.Conserved p' po := by
  obtain ⟨h1, h2⟩ := runGM_split (I := pooled pcfg) ccfg fcfg route (init pcfg servers t0) 0 calls i mc hmc
  have hob' : ob = (callMP ccfg pcfg fcfg route (runMP ccfg pcfg fcfg route (init pcfg servers t0) 0 (calls.take i)).1 (0 + i) mc).2 := by
    have h : (runGM ccfg fcfg route (init pcfg servers t0) 0 calls).2[i]? = some ob := hob
    rw [h2] at h
    exact (Option.some.inj h).symm
  have hst : (runMP ccfg pcfg fcfg route (init pcfg servers t0) 0 (calls.take (i + 1))).1 =
      (callMP ccfg pcfg fcfg route (runMP ccfg pcfg fcfg route (init pcfg servers t0) 0 (calls.take i)).1 (0 + i) mc).1 := h1
  have hinv := (runMP_poolsOK ccfg fcfg route (init pcfg servers t0) 0 (calls.take i) (poolsOK_init servers t0)).1
  intro bo hbo po hpo
  rw [hob'] at hbo
  obtain ⟨id, p', h3, h4, h5, h6⟩ := callMP_final ccfg fcfg route _ (0 + i) mc hb hinv bo hbo po hpo
  exact ⟨id, p', h3, by rw [hst]; exact h4, ⟨h5.2, h5.1⟩, h6⟩

/-- non-vacuity of the three theorems above: `HashPooledCallExamples.idleCalls` (`max_pool_size=2, pool_idle_timeout=3,
ignore_exc=False`; no `quit`): call 1, a `get_many` whose batch for server 0 raises, leaves pool 0 empty with connection 0
closed and does not touch pool 1 (its batch is never sent); call 2, a `set_many` that returns, leaves in both pools the
inner client that served idle on its new connection (pool 1 has closed the expired connection 0); call 3, a `delete_many`
whose second `delete` raises after the first one returned its client, leaves pool 0 empty with connections 0 and 1 closed
(per pool: server, `PooledClient`, idle clients as (id, connection, open, events left), closed connections, checked out;
per batch: server, `PooledClient`, inner client, connection, served). -/
example :
    (∀ mc ∈ HashPooledCallExamples.idleCalls, NoQuit mc.op) ∧
    HashPooledCallExamples.idleCalls.map (fun mc => batched mc.op) = [true, true, true, false] ∧
    HashPooledCallExamples.manySummaryP (runMP {} HashPooledCallExamples.poolIdle HashCallExamples.cfgStrict prefRoute
        (init HashPooledCallExamples.poolIdle [0, 1] 0) 0 HashPooledCallExamples.idleCalls) =
      [(.value (.dict [(.bytes [107], [120])]), [⟨0, some 0, some 0, some 0, true⟩, ⟨1, some 1, some 0, some 0, true⟩]),
       (.raised 0 (.inner (.sock 32)), [⟨0, some 0, some 0, some 0, false⟩]),
       (.value (.keys []), [⟨0, some 0, some 1, some 1, true⟩, ⟨1, some 1, some 1, some 1, true⟩]),
       (.raised 0 (.inner (.sock 32)), [⟨0, some 0, some 1, some 1, true⟩, ⟨0, some 0, some 1, some 1, false⟩])] ∧
    HashPooledCallExamples.poolTraceM {} HashPooledCallExamples.poolIdle HashCallExamples.cfgStrict HashPooledCallExamples.idleCalls =
      [[⟨0, 0, [], [], 0⟩, ⟨1, 1, [], [], 0⟩],
       [⟨0, 0, [(0, some 0, true, 0)], [], 0⟩, ⟨1, 1, [(0, some 0, true, 0)], [], 0⟩],
       [⟨0, 0, [], [0], 0⟩, ⟨1, 1, [(0, some 0, true, 0)], [], 0⟩],
       [⟨0, 0, [(1, some 1, true, 0)], [0], 0⟩, ⟨1, 1, [(1, some 1, true, 0)], [0], 0⟩],
       [⟨0, 0, [], [0, 1], 0⟩, ⟨1, 1, [(1, some 1, true, 0)], [0], 0⟩]] := by
  refine ⟨?_, rfl, HashPooledCallExamples.demo_idle.1, HashPooledCallExamples.demo_idle.2.2.1⟩
  intro mc h
  simp only [HashPooledCallExamples.idleCalls, List.mem_cons, List.not_mem_nil, or_false] at h
  rcases h with rfl | rfl | rfl | rfl <;> trivial

/-- C09 (`HashClient(use_pooling=True)` with multi-key calls, the pools are never exhausted).  If `max_pool_size` allows
even one client, then in every history every `PooledClient` invoked by a `get_many` / `gets_many` / `set_many` /
`delete_many` (or a single-key call) is served by an inner client — `ObjectPool.get` never raises
`RuntimeError("Too many objects")`, although one public call uses several pools and `delete_many` the same pool several
times: every client is back or destroyed before the next one is asked for — and no public call ends with that exception. -/
theorem C09_hashpooled_many_never_too_many (ccfg : Wire.Cfg) (pcfg : Pooled.Cfg) (fcfg : Failover.Cfg)
    (route : List Srv → RK → Option Srv) (servers : List Srv) (t0 : Time) (calls : List (MPCall RK))
    (hmax : pcfg.maxSize ≠ 0) :
    ∀ ob ∈ (runMP ccfg pcfg fcfg route (init pcfg servers t0) 0 calls).2,
      (∀ po ∈ pobsOf ob, po.res ≠ none) ∧ ∀ s, ob.res ≠ .raised s .tooManyObjects :=
  fun ob hob =>
    ⟨(runMP_poolsOK ccfg fcfg route (init pcfg servers t0) 0 calls (poolsOK_init servers t0)).2 hmax ob hob,
     runMP_never_too_many ccfg fcfg route (init pcfg servers t0) 0 calls (poolsOK_init servers t0) hmax ob hob⟩

/-- non-vacuity of `C09_hashpooled_many_never_too_many`: with `max_pool_size=1` the seven calls of
`HashPooledCallExamples.setCalls` (two pools used by one `set_many`, the same pool used by consecutive `delete`s) are all
served: per batch the inner client that served (`none` only where no pool was asked: the batch skipped inside the retry
window) -/
example :
    HashPooledCallExamples.pool1.maxSize ≠ 0 ∧
    (HashPooledCallExamples.manySummaryP (runMP {} HashPooledCallExamples.pool1 HashCallExamples.cfgStrict prefRoute
        (init HashPooledCallExamples.pool1 [0, 1] 0) 0 HashPooledCallExamples.setCalls)).map (fun x => x.2.map (fun b => (b.pc, b.inner))) =
      [[(some 0, some 0), (some 1, some 0)], [(some 0, some 0)], [(none, none), (some 1, some 0)], [(some 0, some 1)],
       [(some 0, some 2)], [(some 1, some 0)], [(some 2, some 0), (some 1, some 0)]] := by
  refine ⟨by decide, ?_⟩
  rw [HashPooledCallExamples.demo_set_pooled.1]
  rfl

end HashPooledCall


/-!
# C09 for OVERLAPPING callers — the timed micro-step model of `ObjectPool` (`Pymc/Model/PoolConcTimed.lean`)

The clause "a healthy connection is reused rather than reopened until it has been idle longer than
pool_idle_timeout" for callers that overlap in time.  `PoolConcT` is C08's interleaving model `PoolConc` (threads,
a lock, one micro-step per point of pool.py at which another thread can run) with a clock that the environment
may advance between any two micro-steps, the per-object stamps `_last_used`, written by micro-steps of their own
exactly where pool.py writes them (in `get` after `self._used_objs.append(obj)`, in `release` after
`self._free_objs.append(obj)`, both inside the `with self._lock`), the read `now = self._idle_clock()` at the start
of `get`'s lock hold, and the idle test decided by `now - obj._last_used <= idle_timeout`.

Reading the statements.  `runT false (initT programs maxSize idleTimeout) ls = some s`: `s` is reached from the
empty pool by the run `ls` (a list of `tick d | run t | runCreateFail t`) — ANY number of threads, ANY programs,
ANY interleaving, ANY advance of the clock; `false` selects pool.py, `true` the variant `releaseStampOutsideLock`.
`FreeSince false s0 ls o t0 good`: the run `ls` contains the micro-step `self._free_objs.append(o)` of a `release`,
taken when the clock showed `t0`, and `good` holds in every later state of the run.
`(s.base.th t).pc = .getTest o f`: thread `t` is inside `get`, has popped `o` from `_free_objs` and executes the
idle test next, with its local `now = s.now t` against the stamp `s.lastUsed o`.

The invariants are `PoolConcT.InvT` (`Pymc/Proofs/PoolConcTimedInv.lean`: C08's `Inv` on the underlying state; a
thread owes a clock/stamp statement only inside the lock hold it belongs to; `now` and the stamps are not ahead
of the clock) and `PoolConcT.HistInv` (`Pymc/Proofs/PoolConcTimedHist.lean`: every object in `_free_objs`, or under
test, has been there since an `append` of `release`, and — because the `append` and the stamp happen in ONE lock
hold — carries a stamp that is not older than that `append`, or the releasing thread still owns the lock).
-/
namespace PoolConcT
open PoolConc

variable {programs : List Program} {maxSize idleTimeout : Nat}

/-- C09, overlapping callers (c): refinement, one micro-step.  A micro-step of the timed model (pool.py or the
variant) either leaves the `PoolConc` state alone (clock tick, `now = …`, a stamp) or is a micro-step of `PoolConc`
on it, and at the idle test the label is the answer the clock and the stamps give. -/
theorem C09_conc_step_refines {outside : Bool} {s s' : TState} {l : TLabel} (h : stepT outside s l = some s') :
    s'.base = s.base ∨ ∃ t lb, step s.base t lb = some s'.base ∧
      ∀ o f, (s.base.th t).pc = .getTest o f →
        (lb = .expired ↔ s.idleTimeout < s.now t - s.lastUsed o) ∧ (lb = .fresh ↔ s.now t - s.lastUsed o ≤ s.idleTimeout) := by
  cases stepRel_of_stepT h with
  | tick d => exact Or.inl rfl
  | base t lb b l hl _ hb =>
    refine Or.inr ⟨t, lb, hb, fun o f hpc => ?_⟩
    rcases hl with ⟨_, rfl⟩ | ⟨_, rfl⟩
    · simp only [labelOf, hpc, idleAnswer]
      by_cases hc : s.now t - s.lastUsed o ≤ s.idleTimeout
      · simp [hc]
      · simp [hc]; omega
    · obtain ⟨f', hf'⟩ := createFail_pc hb
      rw [hpc] at hf'; cases hf'
  | readNow t _ => exact Or.inl rfl
  | stampGet t o _ => exact Or.inl rfl
  | stampRel t o _ _ => exact Or.inl rfl
  | leaveFirst t o b _ _ hpc hb =>
    refine Or.inr ⟨t, .tau, hb, fun o' f h' => ?_⟩
    rw [hpc] at h'; cases h'

/-- C09, overlapping callers (c): refinement, runs.  Forgetting the clock and the stamps, every run of the timed
model is a run of C08's model `PoolConc` (schedule `projSched`: the same thread steps, the idle answers computed from
clock and stamps); so its state is `PoolConc.Reachable`, satisfies C08's invariant `PoolConc.Inv`, and every C08
theorem (`C08_mutex`, `C08_held_by_at_most_one`, `C08_no_duplicates_and_capacity`, `C08_no_internal_error`,
`C08_closed_at_most_once`, …) holds of `s.base`. -/
theorem C09_conc_refines_untimed (outside : Bool) (ls : List TLabel) (s : TState)
    (h : runT outside (initT programs maxSize idleTimeout) ls = some s) :
    run (init programs maxSize) (projSched outside (initT programs maxSize idleTimeout) ls) = some s.base ∧
    Reachable programs maxSize s.base ∧ Inv s.base :=
  ⟨run_refines outside _ _ ls h, base_reachable h, inv_reachable (base_reachable h)⟩

/-- non-vacuity of the refinement theorems: a timed run with two overlapping callers; thread 0 hands its connection
back at time 0, thread 1 at time 10 (timeout 5); thread 0's next `get` (`now = 10`) closes connection 0 (idle test
fails) and takes connection 1.  Its `PoolConc` schedule contains the answer `expired` exactly once; C08's invariant
applies to its end state (here: the connection thread 0 holds is held by nobody else). -/
example : (projSched false (initT [[.useOk, .useOk], [.useOk]] 2 5)
      (runs 0 9 ++ runs 1 9 ++ runs 0 5 ++ [.tick 10] ++ runs 1 5 ++ runs 0 8)).count (0, .expired) = 1 ∧
    ∃ s, runT false (initT [[.useOk, .useOk], [.useOk]] 2 5)
        (runs 0 9 ++ runs 1 9 ++ runs 0 5 ++ [.tick 10] ++ runs 1 5 ++ runs 0 8) = some s ∧
      (s.base.th 0).pc.holds = some 1 ∧ s.base.closedCnt 0 = 1 ∧ ∀ u, (s.base.th u).pc.holds = some 1 → u = 0 := by
  refine ⟨by decide, ?_⟩
  obtain ⟨s, hr, hp⟩ := runCheckT_run (outside := false) (s0 := initT [[.useOk, .useOk], [.useOk]] 2 5)
    (ls := runs 0 9 ++ runs 1 9 ++ runs 0 5 ++ [.tick 10] ++ runs 1 5 ++ runs 0 8)
    (p := fun s => decide ((s.base.th 0).pc.holds = some 1) && decide (s.base.closedCnt 0 = 1)) (by decide)
  simp only [Bool.and_eq_true, decide_eq_true_eq] at hp
  exact ⟨s, hr, hp.1, hp.2, fun u hu => (C09_conc_refines_untimed false _ s hr).2.2.holdExcl u 0 1 hu hp.1⟩

/-- C09, overlapping callers (a).  Whenever `get` is about to close a pooled object as idled-out — thread `t` is at
the idle test of `o` and `now - o._last_used > idle_timeout` — then: the next micro-step of `t` does close it
(`after_remove`, once) and goes on with the loop; and `o` has been in `_free_objs` without interruption (until this
very `get` popped it) since an `append` of `release` executed when the clock showed `t0`, with
`now - t0 > idle_timeout`, where `now`, read at the start of this `get`'s lock hold, is not ahead of the clock.
For every program set, every interleaving and every advance of the clock. -/
theorem C09_conc_expired_only_if_idle_long {ls : List TLabel} {s : TState} {t : Tid} {o : Obj} {f : Fin}
    (hr : runT false (initT programs maxSize idleTimeout) ls = some s)
    (hpc : (s.base.th t).pc = .getTest o f) (hexp : idleTimeout < s.now t - s.lastUsed o) :
    (∃ s', stepT false s (.run t) = some s' ∧ (s'.base.th t).pc = .getLoop f ∧
      s'.base.closedCnt o = s.base.closedCnt o + 1) ∧
    ∃ t0, FreeSince false (initT programs maxSize idleTimeout) ls o t0
            (fun s1 => o ∈ s1.base.free ∨ (s1.base.th t).pc = .getTest o f) ∧
      idleTimeout < s.now t - t0 ∧ s.now t ≤ s.clock := by
  obtain ⟨hI, hH⟩ := hist_run programs maxSize idleTimeout ls s hr
  have hto : s.idleTimeout = idleTimeout := idleTimeout_run hr
  have hp : s.pend t = .none := by
    have := hI.pendOk t
    unfold PendOk at this
    split at this
    · next e => exact e
    · obtain ⟨f', e⟩ := this; rw [hpc] at e; cases e
    · obtain ⟨f', e⟩ := this; rw [hpc] at e; cases e
    · rw [hpc] at this; cases this
  obtain ⟨s', h1, h2, h3, _⟩ := (getTest_stepT (outside := false) hpc hp).1 (by rw [hto]; exact hexp)
  obtain ⟨t0, hfs, hle⟩ := hH.test t o f hpc
  exact ⟨⟨s', h1, h2, h3⟩, t0, hfs, by omega, hI.nowLe t⟩

/-- non-vacuity of `C09_conc_expired_only_if_idle_long`: one caller uses a connection, hands it back at time 0; the
clock advances by 10 (timeout 5); the next `get` pops it and is about to close it: the hypotheses hold. -/
example : ∃ ls s, runT false (initT [[.useOk, .useOk]] 1 5) ls = some s ∧ (s.base.th 0).pc = .getTest 0 .rel ∧
    5 < s.now 0 - s.lastUsed 0 := by
  obtain ⟨s, hr, hp⟩ := runCheckT_run (outside := false) (s0 := initT [[.useOk, .useOk]] 1 5)
    (ls := runs 0 14 ++ [.tick 10] ++ runs 0 4)
    (p := fun s => decide ((s.base.th 0).pc = .getTest 0 .rel) && decide (5 < s.now 0 - s.lastUsed 0)) (by decide)
  simp only [Bool.and_eq_true, decide_eq_true_eq] at hp
  exact ⟨_, s, hr, hp.1, hp.2⟩

/-- C09, overlapping callers (a), the other direction.  An object that has been in `_free_objs` since an `append`
of `release` executed less than `idle_timeout` before the `now` of the `get` that tests it passes the idle test: the
next micro-step of `t` keeps it (moves it to `_used_objs`, closes nothing).  So an object given back less than
`idle_timeout` ago is never closed by the idle test. -/
theorem C09_conc_recently_freed_not_expired {ls : List TLabel} {s : TState} {t : Tid} {o : Obj} {f : Fin} {t0 : Nat}
    (hr : runT false (initT programs maxSize idleTimeout) ls = some s)
    (hpc : (s.base.th t).pc = .getTest o f)
    (hfs : FreeSince false (initT programs maxSize idleTimeout) ls o t0
            (fun s1 => o ∈ s1.base.free ∨ (s1.base.th t).pc = .getTest o f))
    (hrecent : s.now t - t0 ≤ idleTimeout) :
    s.now t - s.lastUsed o ≤ idleTimeout ∧
    ∃ s', stepT false s (.run t) = some s' ∧ (s'.base.th t).pc = .getRel o f ∧
      s'.base.closedCnt = s.base.closedCnt ∧ s'.base.used = s.base.used ++ [o] := by
  obtain ⟨hI, hH⟩ := hist_run programs maxSize idleTimeout ls s hr
  have hto : s.idleTimeout = idleTimeout := idleTimeout_run hr
  have hp : s.pend t = .none := by
    have := hI.pendOk t
    unfold PendOk at this
    split at this
    · next e => exact e
    · obtain ⟨f', e⟩ := this; rw [hpc] at e; cases e
    · obtain ⟨f', e⟩ := this; rw [hpc] at e; cases e
    · rw [hpc] at this; cases this
  obtain ⟨t1, hfs1, hle⟩ := hH.test t o f hpc
  have : t0 = t1 := FreeSince.unique (fun s1 u h1 h2 => not_good_at_relAppend h1 h2)
    (fun s1 u h1 h2 => not_good_at_relAppend h1 h2) hfs hfs1
  subst this
  have hfresh : s.now t - s.lastUsed o ≤ idleTimeout := by omega
  obtain ⟨s', h1, h2, h3, h4, _⟩ := (getTest_stepT (outside := false) hpc hp).2 (by rw [hto]; exact hfresh)
  exact ⟨hfresh, s', h1, h2, h3, h4⟩

/-- non-vacuity of `C09_conc_recently_freed_not_expired`: thread 0 hands connection 0 back at time 10 (its call lasted
10 > timeout 5: the stamp written at checkout is old) while thread 1 waits for the lock; thread 1 then pops it at
`now = 10`: all hypotheses hold, with `t0 = 10`. -/
example : ∃ ls s, runT false (initT [[.useOk], [.useOk]] 2 5) ls = some s ∧ (s.base.th 1).pc = .getTest 0 .rel ∧
    FreeSince false (initT [[.useOk], [.useOk]] 2 5) ls 0 10
      (fun s1 => 0 ∈ s1.base.free ∨ (s1.base.th 1).pc = .getTest 0 .rel) ∧ s.now 1 - 10 ≤ 5 := by
  obtain ⟨sa, hsa, hpa⟩ := runCheckT_run (outside := false) (s0 := initT [[.useOk], [.useOk]] 2 5)
    (ls := runs 0 9 ++ [.tick 10] ++ runs 0 2)
    (p := fun sa => decide ((sa.base.th 0).pc = .relAppend 0) && decide (sa.pend 0 = .none) && decide (sa.clock = 10) &&
      (match stepT false sa (.run 0) with
       | some sb => checkAlong false sb (fun s1 => decide (0 ∈ s1.base.free) || decide ((s1.base.th 1).pc = .getTest 0 .rel))
                      (runs 0 2 ++ runs 1 4)
       | none => false)) (by decide)
  simp only [Bool.and_eq_true, decide_eq_true_eq] at hpa
  obtain ⟨⟨⟨h1, h2⟩, h3⟩, h4⟩ := hpa
  cases hsb : stepT false sa (.run 0) with
  | none => simp [hsb] at h4
  | some sb =>
    simp only [hsb] at h4
    have hfs := freeSince_of_check hsa h1 h2 hsb h4
    obtain ⟨s, hr, hp⟩ := runCheckT_run (outside := false) (s0 := initT [[.useOk], [.useOk]] 2 5)
      (ls := (runs 0 9 ++ [.tick 10] ++ runs 0 2) ++ .run 0 :: (runs 0 2 ++ runs 1 4))
      (p := fun s => decide ((s.base.th 1).pc = .getTest 0 .rel) && decide (s.now 1 - 10 ≤ 5)) (by decide)
    simp only [Bool.and_eq_true, decide_eq_true_eq] at hp
    refine ⟨_, s, hr, hp.1, ?_, hp.2⟩
    rw [h3] at hfs
    exact hfs.mono (fun s1 h => by simpa using h)

/-- C09, overlapping callers (b).  If, when thread `t` has read `now` at the start of `get` and is at the head of the
loop `while self._free_objs`, some object `o` is in `_free_objs` and has been there since an `append` executed at
`t0` with `now - t0 <= idle_timeout`, then during the whole rest of that lock hold (`HeldThrough`: every state of the
continuation `post` has `t` as the owner of the lock) no object is created — `obj_creator` is not called, `t` never
reaches the `else` branch of the loop — and the object `get` takes is one that was in `_free_objs`. -/
theorem C09_conc_fresh_idle_is_reused {ls0 post : List TLabel} {s0 s : TState} {t : Tid} {o : Obj} {f : Fin} {t0 : Nat}
    (h0 : runT false (initT programs maxSize idleTimeout) ls0 = some s0)
    (hpc : (s0.base.th t).pc = .getLoop f) (hp : s0.pend t = .none)
    (ho : o ∈ s0.base.free)
    (hfs : FreeSince false (initT programs maxSize idleTimeout) ls0 o t0 (fun s1 => o ∈ s1.base.free))
    (hfresh : s0.now t - t0 ≤ idleTimeout)
    (hr : runT false s0 post = some s) (hheld : HeldThrough t s0 post) :
    s.base.created = s0.base.created ∧
    (∀ f', (s.base.th t).pc ≠ .getCount f' ∧ (s.base.th t).pc ≠ .getCreate f') ∧
    (∀ o' f', (s.base.th t).pc = .getRel o' f' → o' ∈ s0.base.free) := by
  obtain ⟨hI, hH⟩ := hist_run programs maxSize idleTimeout ls0 s0 h0
  have hto : s0.idleTimeout = idleTimeout := idleTimeout_run h0
  obtain ⟨t1, hfs1, _, hor⟩ := hH.free o ho
  have hbad : ∀ s1 u, InvT s1 → (s1.base.th u).pc = .relAppend o → ¬ (o ∈ s1.base.free) := by
    intro s1 u h1 h2 h3
    exact not_good_at_relAppend (t := u) (f := .rel) h1 h2 (Or.inl h3)
  have : t0 = t1 := FreeSince.unique hbad hbad hfs hfs1
  subst this
  have hlock : s0.base.lock = some t := (hI.base.mutex t).mp (by rw [hpc]; rfl)
  have hstamp : t0 ≤ s0.lastUsed o := by
    rcases hor with h1 | ⟨u, hu⟩
    · exact h1
    · exfalso
      have := pendOk_lock hI u (by rw [hu]; simp)
      rw [hlock] at this
      cases this
      rw [hp] at hu; cases hu
  have hg := getLoopInvT_run hI hpc hp ho (by rw [hto]; omega) hr hheld
  obtain ⟨⟨hc, _, h3⟩, _, _⟩ := hg
  refine ⟨hc, fun f' => ?_, fun o' f' hrel => ?_⟩
  · constructor <;> intro e <;> rw [e] at h3 <;> simp at h3
  · rw [hrel] at h3
    simp at h3
    obtain ⟨w, ⟨rfl, _⟩, h5⟩ := h3
    exact h5

/-- non-vacuity of `C09_conc_fresh_idle_is_reused`: a caller hands connection 0 back at time 0, the clock advances by
3 (timeout 5), the next `get` has read `now = 3`: all hypotheses hold for the continuation up to the end of the
loop, where that `get` has taken connection 0 (and created nothing). -/
example : ∃ ls0 s0 post s, runT false (initT [[.useOk, .useOk]] 1 5) ls0 = some s0 ∧
    (s0.base.th 0).pc = .getLoop .rel ∧ s0.pend 0 = .none ∧ 0 ∈ s0.base.free ∧
    FreeSince false (initT [[.useOk, .useOk]] 1 5) ls0 0 0 (fun s1 => 0 ∈ s1.base.free) ∧ s0.now 0 - 0 ≤ 5 ∧
    runT false s0 post = some s ∧ HeldThrough 0 s0 post ∧ (s.base.th 0).pc = .getRel 0 .rel ∧ s.base.created = 1 := by
  obtain ⟨sa, hsa, hpa⟩ := runCheckT_run (outside := false) (s0 := initT [[.useOk, .useOk]] 1 5)
    (ls := runs 0 11)
    (p := fun sa => decide ((sa.base.th 0).pc = .relAppend 0) && decide (sa.pend 0 = .none) && decide (sa.clock = 0) &&
      (match stepT false sa (.run 0) with
       | some sb => checkAlong false sb (fun s1 => decide (0 ∈ s1.base.free)) (runs 0 2 ++ [.tick 3] ++ runs 0 2)
       | none => false)) (by decide)
  simp only [Bool.and_eq_true, decide_eq_true_eq] at hpa
  obtain ⟨⟨⟨h1, h2⟩, h3⟩, h4⟩ := hpa
  cases hsb : stepT false sa (.run 0) with
  | none => simp [hsb] at h4
  | some sb =>
    simp only [hsb] at h4
    have hfs := freeSince_of_check hsa h1 h2 hsb h4
    obtain ⟨s0, hr0, hp0⟩ := runCheckT_run (outside := false) (s0 := initT [[.useOk, .useOk]] 1 5)
      (ls := runs 0 11 ++ .run 0 :: (runs 0 2 ++ [.tick 3] ++ runs 0 2))
      (p := fun s0 => decide ((s0.base.th 0).pc = .getLoop .rel) && decide (s0.pend 0 = .none) && decide (0 ∈ s0.base.free) &&
        decide (s0.now 0 - 0 ≤ 5) && checkAlong false s0 (fun s1 => decide (s1.base.lock = some 0)) (runs 0 3) &&
        runCheckT false s0 (runs 0 3) (fun s => decide ((s.base.th 0).pc = .getRel 0 .rel) && decide (s.base.created = 1)))
      (by decide)
    simp only [Bool.and_eq_true, decide_eq_true_eq] at hp0
    obtain ⟨⟨⟨⟨⟨g1, g2⟩, g3⟩, g4⟩, g5⟩, g6⟩ := hp0
    obtain ⟨s, hr, hp⟩ := runCheckT_run g6
    simp only [Bool.and_eq_true, decide_eq_true_eq] at hp
    refine ⟨_, s0, runs 0 3, s, hr0, g1, g2, g3, ?_, g4, hr, ?_, hp.1, hp.2⟩
    · rw [h3] at hfs
      exact hfs.mono (fun s1 h => by simpa using h)
    · intro p1 p2 s1 e hr1
      simpa using checkAlong_spec g5 p1 p2 s1 e hr1

/-- the schedule of `C09_conc_stamp_outside_lock_counterexample`: `get₀` and `work₀` (9 micro-steps), the clock advances
by 10, `release₀` up to and including the exit from the `with` block (4), `get₁` up to the idle test (4) -/
def schedStampOutside : List TLabel := runs 0 9 ++ [.tick 10] ++ runs 0 4 ++ runs 1 4

/-- C09, overlapping callers (d): the lock hold matters.  In the variant `releaseStampOutsideLock` (`outside = true`:
`release` leaves its `with self._lock` block before it writes `obj._last_used`) claim (a) FAILS.  Witness: timeout 5,
two callers; thread 0 checks connection 0 out at time 0 (stamp 0), its call lasts until time 10, it appends the
connection to `_free_objs` at time 10 and releases the lock; before it writes the stamp, thread 1 runs `get`
(`now = 10`), pops connection 0 and finds `10 - 0 > 5`: it is about to close a connection that was handed back at
this very instant — the only `append` of connection 0 happened at `t0 = 10` and `now - t0 = 0`. -/
theorem C09_conc_stamp_outside_lock_counterexample :
    ∃ ls s, runT true (initT [[.useOk], [.useOk]] 2 5) ls = some s ∧
      (s.base.th 1).pc = .getTest 0 .rel ∧ s.pend 1 = .none ∧ 5 < s.now 1 - s.lastUsed 0 ∧
      (∃ s', stepT true s (.run 1) = some s' ∧ s'.base.closedCnt 0 = s.base.closedCnt 0 + 1) ∧
      ¬ ∃ t0, FreeSince true (initT [[.useOk], [.useOk]] 2 5) ls 0 t0
                (fun s1 => 0 ∈ s1.base.free ∨ (s1.base.th 1).pc = .getTest 0 .rel) ∧ 5 < s.now 1 - t0 := by
  obtain ⟨s, hr, hp⟩ := runCheckT_run (outside := true) (s0 := initT [[.useOk], [.useOk]] 2 5)
    (ls := schedStampOutside)
    (p := fun s => decide ((s.base.th 1).pc = .getTest 0 .rel) && decide (s.pend 1 = .none) &&
      decide (5 < s.now 1 - s.lastUsed 0) && decide (s.idleTimeout = 5) &&
      (appendTimes true (initT [[.useOk], [.useOk]] 2 5) 0 schedStampOutside).all fun t0 => !decide (5 < s.now 1 - t0))
    (by decide)
  simp only [Bool.and_eq_true, decide_eq_true_eq, List.all_eq_true, Bool.not_eq_eq_eq_not, Bool.not_true,
    decide_eq_false_iff_not] at hp
  obtain ⟨⟨⟨⟨h1, h2⟩, h3⟩, h4⟩, h5⟩ := hp
  refine ⟨_, s, hr, h1, h2, h3, ?_, ?_⟩
  · obtain ⟨s', g1, _, g3, _⟩ := (getTest_stepT (outside := true) h1 h2).1 (by rw [h4]; exact h3)
    exact ⟨s', g1, g3⟩
  · rintro ⟨t0, hfs, hlt⟩
    exact h5 t0 (appendTimes_of_freeSince hfs) hlt

/-- the events of the counterexample run, in the form recorded on the real pool -/
example : runEventsT true (initT [[.useOk], [.useOk]] 2 5) (runs 0 9 ++ [.tick 10] ++ runs 0 4 ++ runs 1 5 ++ runs 0 1) =
    ["acq 0", "clock 0", "len-free 0", "len-used 0", "create 0", "append-used 0", "stamp 0 0", "rel 0", "work 0",
     "tick 10", "acq 0", "remove-used 0", "append-free 0", "rel 0",
     "acq 1", "clock 10", "len-free 1", "popleft 0", "after_remove 0", "clock 10", "stamp 0 10"] := by decide

/-- (d), literally: the statement of `C09_conc_expired_only_if_idle_long` with the variant's step relation is false -/
theorem C09_conc_stamp_outside_lock_breaks_claim :
    ¬ (∀ (programs : List Program) (maxSize idleTimeout : Nat) (ls : List TLabel) (s : TState) (t : Tid) (o : Obj) (f : Fin),
        runT true (initT programs maxSize idleTimeout) ls = some s → (s.base.th t).pc = .getTest o f →
        idleTimeout < s.now t - s.lastUsed o →
        ∃ t0, FreeSince true (initT programs maxSize idleTimeout) ls o t0
                (fun s1 => o ∈ s1.base.free ∨ (s1.base.th t).pc = .getTest o f) ∧ idleTimeout < s.now t - t0) := by
  intro hall
  obtain ⟨ls, s, hr, h1, _, h3, _, h5⟩ := C09_conc_stamp_outside_lock_counterexample
  exact h5 (hall _ _ _ ls s 1 0 .rel hr h1 h3)

/-- non-vacuity of the contrast: on the SAME schedule pool.py's model (stamp inside the lock hold) does not get
there — thread 1 cannot take the lock before the stamp is written, and then finds the connection fresh. -/
example : runEventsT false (initT [[.useOk], [.useOk]] 2 5) (runs 0 9 ++ [.tick 10] ++ runs 0 5 ++ runs 1 6) =
    ["acq 0", "clock 0", "len-free 0", "len-used 0", "create 0", "append-used 0", "stamp 0 0", "rel 0", "work 0",
     "tick 10", "acq 0", "remove-used 0", "append-free 0", "clock 10", "stamp 0 10", "rel 0",
     "acq 1", "clock 10", "len-free 1", "popleft 0", "append-used 0", "stamp 0 10"] := by decide

end PoolConcT
